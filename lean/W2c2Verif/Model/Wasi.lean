/-
  Model.Wasi — executable model of the descriptor-taking calls of `wasi/wasi.c`, written
  statement by statement from the C source, over an abstract host (`Host σ`).

  * the descriptor table exactly as coded: an append-only list of `{fd, dir, path}`
    (`wasiFileDescriptorsAdd/Get/Set`, `wasiDirectorySet`, `wasiFileDescriptorClose`) plus
    a heap-liveness map for the `strndup`ed path strings: reading a freed string is
    `.ub .useAfterFree`, freeing it again `.ub .doubleFree`, `strcpy` from `NULL`
    `.ub .nullDeref`; a guest pointer outside guest memory is `.ub .outOfBounds`;
  * the prologue of every descriptor-taking import of both ABI name spaces and what each
    call stores into guest memory (little-endian);
  * table-like facts (parameter widths, whence tables, flag maps, errno table, struct
    layouts, and a few structural facts of the descriptor code) come from `Gen.Wasi`,
    regenerated from the source on every run, through `Cfg.ofGen`.

  Host calls (`open`, `close`, `writev`, …) are fields of `Host σ`; the C13 theorems hold for
  EVERY host, the C12 theorems instantiate it with `Spec.Posix` (`Model.WasiPosix`).
-/
import W2c2Verif.CSem.Basic
import W2c2Verif.Spec.Posix
import W2c2Verif.Gen.Wasi

namespace W2c2Verif.Model.Wasi
open W2c2Verif W2c2Verif.Spec.Posix

abbrev HeapId := Nat
abbrev DirH := Nat

/-- `WasiFileDescriptor` -/
structure Desc where
  fd : Int
  dir : Option DirH
  path : Option HeapId
  deriving DecidableEq, Repr, Inhabited

/-- `emptyWasiFileDescriptor = {-1, NULL, NULL}` -/
def Desc.empty : Desc := ⟨-1, none, none⟩

/-- a `malloc`ed path string -/
inductive Cell | live (s : Bytes) | freed
  deriving DecidableEq, Repr, Inhabited

inductive Abi | preview1 | unstable
  deriving DecidableEq, Repr, Inhabited

/-! ## structural facts of the source the model branches on (from `Gen.Wasi`) -/

structure Cfg where
  /-- `wasiFileDescriptorClose` assigns `path = NULL` in the table after `free` -/
  closeClearsPath : Bool
  /-- `wasiFileDescriptorGet` fails for a slot with no native fd, no DIR and no path -/
  getRejectsClosed : Bool
  /-- errno returned when `descriptor.path == NULL` is tested before the `strcpy`; `none` = no test -/
  readdirNullPath : Option Nat
  fdstatNullPath : Option Nat
  filestatNullPath : Option Nat
  /-- `resolvePath` fails for a guest path that contains a NUL byte -/
  resolveRejectsNul : Bool
  /-- `wasiFDReaddir` closes the entry's native descriptor after `opendir` (the table keeps the number) -/
  readdirClosesNativeFd : Bool
  seekChecksWhenceFirst : Bool
  pwriteOffsetBits : Abi → Nat
  preadOffsetBits : Abi → Nat
  seekOffsetBits : Abi → Nat
  syncNegFd : Nat
  datasyncNegFd : Nat

def Cfg.ofGen : Cfg where
  closeClearsPath := Gen.Wasi.closeClearsPath
  getRejectsClosed := Gen.Wasi.getRejectsClosed
  readdirNullPath := Gen.Wasi.readdirNullPath
  fdstatNullPath := Gen.Wasi.fdstatNullPath
  filestatNullPath := Gen.Wasi.filestatNullPath
  resolveRejectsNul := Gen.Wasi.resolveRejectsNul
  readdirClosesNativeFd := Gen.Wasi.readdirClosesNativeFd
  seekChecksWhenceFirst := Gen.Wasi.seekChecksWhenceFirst
  pwriteOffsetBits := fun | .preview1 => Gen.Wasi.fd_pwrite_offset_bits_p1 | .unstable => Gen.Wasi.fd_pwrite_offset_bits_un
  preadOffsetBits := fun | .preview1 => Gen.Wasi.fd_pread_offset_bits_p1 | .unstable => Gen.Wasi.fd_pread_offset_bits_un
  seekOffsetBits := fun | .preview1 => Gen.Wasi.fd_seek_offset_bits_p1 | .unstable => Gen.Wasi.fd_seek_offset_bits_un
  syncNegFd := Gen.Wasi.syncNegFd
  datasyncNegFd := Gen.Wasi.datasyncNegFd

def BADF : Nat := Gen.Wasi.WASI_ERRNO_BADF
def INVAL : Nat := Gen.Wasi.WASI_ERRNO_INVAL
def NOTDIR : Nat := Gen.Wasi.WASI_ERRNO_NOTDIR
def NOSYS : Nat := Gen.Wasi.WASI_ERRNO_NOSYS

/-- `wasiErrno()` -/
def wasiErrno (e : Errno) : Nat := (Gen.Wasi.errnoTable.lookup e).getD Gen.Wasi.errnoDefault

def PATH_MAX : Nat := 4096          -- <limits.h> on Linux (host parameter)

/-! ## guest memory -/

structure Mem where
  size : Nat
  data : Nat → UInt8

def Mem.read (m : Mem) (a n : Nat) : Out Bytes :=
  if n = 0 ∨ a + n ≤ m.size then .val ((List.range n).map fun k => m.data (a + k)) else .ub .outOfBounds

def Mem.write (m : Mem) (a : Nat) (bs : Bytes) : Out Mem :=
  if bs.length = 0 then .val m
  else if a + bs.length ≤ m.size then
    .val { m with data := fun i => if a ≤ i ∧ i < a + bs.length then bs.getD (i - a) 0 else m.data i }
  else .ub .outOfBounds

/-- little-endian encoding of `v mod 256^n` in `n` bytes -/
def leBytes (n v : Nat) : Bytes := (List.range n).map fun k => UInt8.ofNat (v / 256 ^ k % 256)

def leNat : Bytes → Nat
  | [] => 0
  | b :: r => b.toNat + 256 * leNat r

def Mem.loadU32 (m : Mem) (a : Nat) : Out Nat := (m.read a 4).map' leNat

/-- memory plus the log of stores of the current call (for the line protocol) -/
structure MW where
  mem : Mem
  log : List (Nat × Bytes)

def MW.store (w : MW) (a : Nat) (bs : Bytes) : Out MW :=
  (w.mem.write a bs).map' fun m => ⟨m, w.log ++ [(a, bs)]⟩

/-! ## state, host interface, results -/

structure St (σ : Type) where
  fds : List Desc
  heap : List Cell
  mem : Mem
  host : σ

/-- the host calls `wasi.c` makes.  `R` = ok | errno | unmodelled. -/
structure Host (σ : Type) where
  close : σ → Int → σ × R Unit
  closedir : σ → DirH → σ × R Unit
  opendir : σ → Bytes → σ × R DirH
  openAt : σ → Bytes → Acc → List OFlag → σ × R Nat
  writev : σ → Int → List Bytes → σ × R Nat
  readv : σ → Int → List Nat → σ × R Bytes
  lseek : σ → Int → Int → Whence → σ × R Nat
  fstat : σ → Int → R Stat
  stat : σ → Bytes → R Stat
  getfl : σ → Int → R (List OFlag)
  fsync : σ → Int → σ × R Unit
  /-- the remaining path calls (rename, unlink, rmdir, mkdir, symlink, readlink) -/
  pathCall : σ → String → List Bytes → σ × R Nat

/-- what a call returns to the guest -/
inductive Res
  | errno (e : Nat) (stores : List (Nat × Bytes))
  | unmodelled
  deriving Repr, Inhabited

/-! ## the descriptor table (`wasi.c` 439–562) -/

/-- `wasiFileDescriptorGet`: `MUST (wasiFD < wasi.fds.length)`, then (if the source has it)
    `MUST (fd >= 0 || dir != NULL || path != NULL)` -/
def getDesc {σ} (cfg : Cfg) (s : St σ) (n : Nat) : Option Desc :=
  match s.fds[n]? with
  | none => none
  | some d => if cfg.getRejectsClosed ∧ d.fd < 0 ∧ d.dir = none ∧ d.path = none then none else some d

/-- read of a `malloc`ed string -/
def readHeap (heap : List Cell) (h : HeapId) : Out Bytes :=
  match heap[h]? with
  | some (.live p) => .val p
  | some .freed => .ub .useAfterFree
  | none => .ub .outOfBounds

/-- `strcpy(nativePath, descriptor.path)` / `strlen(path)` -/
def derefPath (heap : List Cell) (p : Option HeapId) : Out Bytes :=
  match p with
  | none => .ub .nullDeref
  | some h => readHeap heap h

/-- `free(p)` -/
def freeHeap (heap : List Cell) (h : HeapId) : Out (List Cell) :=
  match heap[h]? with
  | some (.live _) => .val (heap.set h .freed)
  | some .freed => .ub .doubleFree
  | none => .ub .outOfBounds

/-- bytes up to the first NUL -/
def cstr (bs : Bytes) : Bytes := bs.takeWhile (· != 0)

/-- `wasiFileDescriptorAdd(fd, path, &wasiFD)` with a non-NULL path:
    `MUST (length > 0 && length < PATH_MAX)`, `strndup`, append.  Returns the new index. -/
def tableAdd {σ} (s : St σ) (fd : Int) (path : Bytes) : Option (St σ × Nat) :=
  let p := cstr path
  if 0 < p.length ∧ p.length < PATH_MAX then
    some ({ s with heap := s.heap ++ [.live p], fds := s.fds ++ [⟨fd, none, some s.heap.length⟩] }, s.fds.length)
  else none

/-- `wasiFileDescriptorAdd(fd, NULL, NULL)` (stdio) -/
def tableAddNoPath {σ} (s : St σ) (fd : Int) : St σ := { s with fds := s.fds ++ [⟨fd, none, none⟩] }

def setDesc {σ} (s : St σ) (n : Nat) (f : Desc → Desc) : St σ :=
  { s with fds := s.fds.modify n f }

/-- `resolvePath(directory, path, pathLength, result)` where `directory` is the heap string `h`.
    `none` = `false`.  The directory string is read only for a non-empty relative path. -/
def resolvePath (cfg : Cfg) (heap : List Cell) (h : HeapId) (gp : Bytes) : Out (Option Bytes) :=
  match gp with
  | [] => .val none
  | c :: _ =>
    if cfg.resolveRejectsNul ∧ gp.any (· == 0) then .val none      -- `MUST (memchr(path, 0, pathLength) == NULL)`
    else if c = 47 then
      .val (if gp.length < PATH_MAX then some (cstr gp) else none)
    else do
      let dir ← readHeap heap h
      if dir.length + gp.length + 1 < PATH_MAX then
        match dir.getLast? with
        | none => .ub .outOfBounds                         -- `directory[totalLength - 1]` with an empty string
        | some l => .val (some (cstr (dir ++ (if l = 47 then [] else [47]) ++ gp)))
      else .val none

def hasBit (v mask : Nat) : Bool := v &&& mask != 0

/-- the guest path argument: `pathLength` bytes at `pathPointer` (none read when the length is 0) -/
def guestPath (m : Mem) (ptr len : Nat) : Out Bytes := m.read ptr len

/-! ## calls -/

/-- calls that never modify the table -/
inductive ROCall
  | fdWrite (fd iovs cnt res : Nat)
  | fdPwrite (fd iovs cnt off res : Nat)
  | fdRead (fd iovs cnt res : Nat)
  | fdPread (fd iovs cnt off res : Nat)
  | fdSeek (fd off whence res : Nat)
  | fdTell (fd res : Nat)
  | fdFdstatGet (fd res : Nat)
  | fdDatasync (fd : Nat)
  | fdSync (fd : Nat)
  | fdPrestatGet (fd ptr : Nat)
  | fdPrestatDirName (fd ptr len : Nat)
  | fdFilestatGet (fd ptr : Nat)
  | pathFilestatGet (fd flags pathPtr pathLen statPtr : Nat)
  | pathRename (ofd op ol nfd np nl : Nat)
  | pathUnlinkFile (fd p l : Nat)
  | pathRemoveDirectory (fd p l : Nat)
  | pathCreateDirectory (fd p l : Nat)
  | pathSymlink (op ol fd np nl : Nat)
  | pathReadlink (fd p l buf bl lp : Nat)
  /-- the unimplemented imports: `return WASI_ERRNO_NOSYS` without looking at anything -/
  | nosys (name : String) (fd : Nat)
  deriving Repr, Inhabited

inductive Call
  | ro (c : ROCall)
  | fdClose (fd : Nat)
  | fdReaddir (fd buf len cookie used : Nat)
  | pathOpen (dirfd dirflags pathPtr pathLen oflags rightsBase rightsInh fdflags fdPtr : Nat)
  deriving Repr, Inhabited

/-- read-only calls return: new guest memory + store log, new host state, result -/

def ret {σ} (w : MW) (h : σ) (e : Nat) : Out (MW × σ × Res) := .val (w, h, .errno e w.log)
def retUnmodelled {σ} (w : MW) (h : σ) : Out (MW × σ × Res) := .val (w, h, .unmodelled)

/-- value of a C parameter declared with `bits` bits receiving the guest's 64-bit argument,
    then converted to `off_t`: a 64-bit parameter is reinterpreted as signed, a narrower
    unsigned one is zero-extended -/
def asOffT (bits v : Nat) : Int :=
  let t := v % 2 ^ bits
  if bits ≥ 64 ∧ t ≥ 2 ^ 63 then (t : Int) - 2 ^ 64 else t

/-- the iovec array: `count` pairs (buffer, length) of LE u32 at `ptr + 8k` -/
def readIovecs (m : Mem) (ptr : Nat) (stride bufOff lenOff : Nat) : Nat → Out (List (Nat × Nat))
  | 0 => .val []
  | k + 1 => do
    let pre ← readIovecs m ptr stride bufOff lenOff k
    let b ← m.loadU32 (ptr + k * stride + bufOff)
    let l ← m.loadU32 (ptr + k * stride + lenOff)
    .val (pre ++ [(b, l)])

/-- the bytes the segments denote (`iov_base = memory->data + bufferPointer`) -/
def gather (m : Mem) : List (Nat × Nat) → Out (List Bytes)
  | [] => .val []
  | (b, l) :: r => do
    let bs ← m.read b l
    let rest ← gather m r
    .val (bs :: rest)

/-- fill the segments in order with `bs` -/
def scatter (w : MW) : List (Nat × Nat) → Bytes → Out MW
  | [], _ => .val w
  | (b, l) :: r, bs =>
    if bs.isEmpty then .val w else do
      let w' ← w.store b (bs.take l)
      scatter w' r (bs.drop l)

/-- `wrapPositional(f, fd, iovecs, count, offset)`: returns the host state and `f`'s result or
    the errno left in `errno` -/
def wrapPositional {σ α} (H : Host σ) (h : σ) (fd : Int) (off : Int) (f : σ → σ × R α) : σ × R α :=
  match H.lseek h fd 0 .cur with
  | (h1, .unmodelled) => (h1, .unmodelled)
  | (h1, .err e) => (h1, .err e)
  | (h1, .ok orig) =>
    match H.lseek h1 fd off .set with
    | (h2, .unmodelled) => (h2, .unmodelled)
    | (h2, .err e) => (h2, .err e)
    | (h2, .ok _) =>
      let (h3, r) := f h2
      match H.lseek h3 fd orig .set with
      | (h4, .unmodelled) => (h4, .unmodelled)
      | (h4, .err e) => (h4, match r with | .err e' => .err e' | _ => .err e)
      | (h4, .ok _) => (h4, r)

/-- the tail of `wasiFDWrite`: translate the error, or store the byte count (LE u32) -/
def finishWrite {σ} (w : MW) (res : Nat) : σ × R Nat → Out (MW × σ × Res)
  | (h', .unmodelled) => retUnmodelled w h'
  | (h', .err e) => ret w h' (wasiErrno e)
  | (h', .ok n) => do
    let w' ← w.store res (leBytes 4 n)
    ret w' h' 0

/-- `wasiFDWrite` after the descriptor checks -/
def doWrite {σ} (H : Host σ) (w : MW) (h : σ) (iovs cnt res : Nat)
    (wr : σ → List Bytes → σ × R Nat) : Out (MW × σ × Res) := do
  let segs ← readIovecs w.mem iovs Gen.Wasi.ciovecSize Gen.Wasi.ciovecBufOffset Gen.Wasi.ciovecLenOffset cnt
  let bufs ← gather w.mem segs
  let _ := H
  finishWrite w res (wr h bufs)

/-- the tail of `wasiFDRead`: translate the error, or fill the segments in order and store the
    byte count (LE u32) -/
def finishRead {σ} (w : MW) (segs : List (Nat × Nat)) (res : Nat) : σ × R Bytes → Out (MW × σ × Res)
  | (h', .unmodelled) => retUnmodelled w h'
  | (h', .err e) => ret w h' (wasiErrno e)
  | (h', .ok bs) => do
    let w1 ← scatter w segs bs
    let w2 ← w1.store res (leBytes 4 bs.length)
    ret w2 h' 0

/-- `wasiFDRead` after the descriptor checks -/
def doRead {σ} (w : MW) (h : σ) (iovs cnt res : Nat)
    (rd : σ → List Nat → σ × R Bytes) : Out (MW × σ × Res) := do
  let segs ← readIovecs w.mem iovs Gen.Wasi.iovecSize Gen.Wasi.iovecBufOffset Gen.Wasi.iovecLenOffset cnt
  finishRead w segs res (rd h (segs.map (·.2)))

/-- the tail of `wasiFDSeek`: translate the error, or store the new offset (LE u64) -/
def finishSeek {σ} (w : MW) (res : Nat) : σ × R Nat → Out (MW × σ × Res)
  | (h', .unmodelled) => retUnmodelled w h'
  | (h', .err e) => ret w h' (wasiErrno e)
  | (h', .ok r) => do
    let w' ← w.store res (leBytes 8 r)
    ret w' h' 0

/-- `wasiFDSeek` -/
def doSeek {σ} (cfg : Cfg) (H : Host σ) (s : St σ) (w : MW) (n : Nat) (off : Int) (wh : Whence) (res : Nat) : Out (MW × σ × Res) :=
  match getDesc cfg s n with
  | none => ret w s.host BADF
  | some d =>
    if d.fd < 0 then ret w s.host BADF else
    finishSeek w res (H.lseek s.host d.fd off wh)

def whenceOf (abi : Abi) (v : Nat) : Option Whence :=
  match abi with
  | .preview1 => Gen.Wasi.whencePreview1 v
  | .unstable => Gen.Wasi.whenceUnstable v

/-- canonical stand-ins for the host-determined filestat fields (see the harness) -/
def CANON_DEV : Nat := 0x1111111111111111
def CANON_INO : Nat := 0x2222222222222222
def CANON_ATIM : Nat := 0x3333333333333333
def CANON_MTIM : Nat := 0x4444444444444444
def CANON_CTIM : Nat := 0x5555555555555555

def fileTypeOf (st : Stat) : Nat :=
  if st.isDir then Gen.Wasi.WASI_FILE_TYPE_DIRECTORY
  else if st.isFifo then Gen.Wasi.WASI_FILE_TYPE_UNKNOWN       -- `wasiFileTypeFromMode` has no FIFO case
  else Gen.Wasi.WASI_FILE_TYPE_REGULAR_FILE

/-- value of the C variable a filestat row stores -/
def filestatField (st : Stat) : String → Nat
  | "dev" => CANON_DEV
  | "ino" => CANON_INO
  | "wasiFileType" => fileTypeOf st
  | "nlink" => st.nlink
  | "size" => st.size
  | "accessTime" => CANON_ATIM
  | "modificationTime" => CANON_MTIM
  | "creationTime" => CANON_CTIM
  | _ => 0

def filestatLayout (abi : Abi) : Nat × List (String × Nat × Nat × Nat) :=
  match abi with
  | .preview1 => (Gen.Wasi.filestatPreview1Size, Gen.Wasi.filestatPreview1)
  | .unstable => (Gen.Wasi.filestatUnstableSize, Gen.Wasi.filestatUnstable)

def storeRows (w : MW) (p : Nat) (st : Stat) : List (String × Nat × Nat × Nat) → Out MW
  | [] => .val w
  | (name, off, bytes, bits) :: r => do
    let w' ← w.store (p + off) (leBytes bytes (filestatField st name % 2 ^ bits))
    storeRows w' p st r

/-- `storePreview1Filestat` / `storeUnstableFilestat` -/
def storeFilestat (abi : Abi) (w : MW) (p : Nat) (st : Stat) : Out MW := do
  let (size, rows) := filestatLayout abi
  let w0 ← w.store p (List.replicate size 0)
  storeRows w0 p st rows

/-- prologue of the path calls: `Get` or EBADF, `path == NULL` → EBADF, `resolvePath` or EINVAL -/
def pathPrologue {σ} (cfg : Cfg) (s : St σ) (w : MW) (n ptr len : Nat) : Out (Except Nat Bytes) :=
  match getDesc cfg s n with
  | none => .val (.error BADF)
  | some d =>
    match d.path with
    | none => .val (.error BADF)
    | some hp => do
      let gp ← guestPath w.mem ptr len
      match ← resolvePath cfg s.heap hp gp with
      | none => .val (.error INVAL)
      | some p => .val (.ok p)

/-- a path call that performs one host call on the resolved path -/
def simplePathCall {σ} (cfg : Cfg) (H : Host σ) (s : St σ) (w : MW) (name : String) (n ptr len : Nat) : Out (MW × σ × Res) := do
  match ← pathPrologue cfg s w n ptr len with
  | .error e => ret w s.host e
  | .ok p =>
    match H.pathCall s.host name [p] with
    | (h', .unmodelled) => retUnmodelled w h'
    | (h', .err e) => ret w h' (wasiErrno e)
    | (h', .ok _) => ret w h' 0

/-- `fstat(descriptor.fd)` or `stat(strcpy(nativePath, descriptor.path))` -/
def fdOrPathStat {σ} (H : Host σ) (s : St σ) (d : Desc) (guard : Option Nat) : Out (Except Nat (R Stat)) :=
  if d.fd ≥ 0 then .val (.ok (H.fstat s.host d.fd))
  else if guard.isSome ∧ d.path = none then .val (.error (guard.getD 0))
  else do
    let p ← derefPath s.heap d.path
    .val (.ok (H.stat s.host p))

def fdflagsOf (fl : List OFlag) : Nat :=
  (if fl.contains .append then Gen.Wasi.WASI_FDFLAGS_APPEND else 0)
  -- (LINUX) O_SYNC = O_DSYNC | __O_SYNC, so either flag makes both `& O_DSYNC` and `& O_SYNC` non-zero
  + (if fl.contains .dsync || fl.contains .sync then
      Gen.Wasi.WASI_FDFLAGS_DSYNC + Gen.Wasi.WASI_FDFLAGS_RSYNC + Gen.Wasi.WASI_FDFLAGS_SYNC else 0)
  + (if fl.contains .nonblock then Gen.Wasi.WASI_FDFLAGS_NONBLOCK else 0)

def stepRO {σ} (cfg : Cfg) (H : Host σ) (abi : Abi) (s : St σ) (c : ROCall) : Out (MW × σ × Res) :=
  let w : MW := ⟨s.mem, []⟩
  match c with
  | .fdWrite n iovs cnt res =>
    match getDesc cfg s n with
    | none => ret w s.host BADF
    | some d =>
      if d.fd < 0 then ret w s.host BADF else
      doWrite H w s.host iovs cnt res (fun h bufs => H.writev h d.fd bufs)
  | .fdPwrite n iovs cnt off res =>
    match getDesc cfg s n with
    | none => ret w s.host BADF
    | some d =>
      if d.fd < 0 then ret w s.host BADF else
      doWrite H w s.host iovs cnt res (fun h bufs =>
        wrapPositional H h d.fd (asOffT (cfg.pwriteOffsetBits abi) off) (fun h' => H.writev h' d.fd bufs))
  | .fdRead n iovs cnt res =>
    match getDesc cfg s n with
    | none => ret w s.host BADF
    | some d =>
      if d.fd < 0 then ret w s.host BADF else
      doRead w s.host iovs cnt res (fun h lens => H.readv h d.fd lens)
  | .fdPread n iovs cnt off res =>
    match getDesc cfg s n with
    | none => ret w s.host BADF
    | some d =>
      if d.fd < 0 then ret w s.host BADF else
      doRead w s.host iovs cnt res (fun h lens =>
        wrapPositional H h d.fd (asOffT (cfg.preadOffsetBits abi) off) (fun h' => H.readv h' d.fd lens))
  | .fdSeek n off whence res =>
    if cfg.seekChecksWhenceFirst then
      match whenceOf abi whence with
      | none => ret w s.host INVAL
      | some wh => doSeek cfg H s w n (asOffT (cfg.seekOffsetBits abi) off) wh res
    else
      match getDesc cfg s n with
      | none => ret w s.host BADF
      | some d =>
        if d.fd < 0 then ret w s.host BADF else
        match whenceOf abi whence with
        | none => ret w s.host INVAL
        | some wh => doSeek cfg H s w n (asOffT (cfg.seekOffsetBits abi) off) wh res
  | .fdTell n res => doSeek cfg H s w n 0 .cur res
  | .fdFdstatGet n res =>
    match getDesc cfg s n with
    | none => ret w s.host BADF
    | some d => do
      match ← fdOrPathStat H s d cfg.fdstatNullPath with
      | .error e => ret w s.host e
      | .ok .unmodelled => retUnmodelled w s.host
      | .ok (.err e) => ret w s.host (wasiErrno e)
      | .ok (.ok st) =>
        let (base, inh) :=
          if st.isDir then (Gen.Wasi.WASI_RIGHTS_DIRECTORY_BASE, Gen.Wasi.WASI_RIGHTS_DIRECTORY_INHERITING)
          else if st.isFifo then (Gen.Wasi.WASI_RIGHTS_ALL, Gen.Wasi.WASI_RIGHTS_ALL)
          else (Gen.Wasi.WASI_RIGHTS_REGULAR_FILE_BASE, Gen.Wasi.WASI_RIGHTS_REGULAR_FILE_INHERITING)
        let flagsR : R Nat :=
          if d.fd ≥ 0 then
            match H.getfl s.host d.fd with
            | .ok fl => .ok (fdflagsOf fl)
            | .err e => .err e
            | .unmodelled => .unmodelled
          else .ok 0
        match flagsR with
        | .unmodelled => retUnmodelled w s.host
        | .err e => ret w s.host (wasiErrno e)
        | .ok fl => do
          let w0 ← w.store res (List.replicate Gen.Wasi.fdstatSize 0)
          let w1 ← w0.store res (leBytes 1 (fileTypeOf st))
          let w2 ← w1.store (res + 2) (leBytes 2 fl)
          let w3 ← w2.store (res + 8) (leBytes 8 base)
          let w4 ← w3.store (res + 16) (leBytes 8 inh)
          ret w4 s.host 0
  | .fdDatasync n =>
    match getDesc cfg s n with
    | none => ret w s.host BADF
    | some d =>
      if d.fd < 0 then ret w s.host cfg.datasyncNegFd else
      match H.fsync s.host d.fd with
      | (h', .unmodelled) => retUnmodelled w h'
      | (h', .err e) => ret w h' (wasiErrno e)
      | (h', .ok _) => ret w h' 0
  | .fdSync n =>
    match getDesc cfg s n with
    | none => ret w s.host BADF
    | some d =>
      if d.fd < 0 then ret w s.host cfg.syncNegFd else
      match H.fsync s.host d.fd with
      | (h', .unmodelled) => retUnmodelled w h'
      | (h', .err e) => ret w h' (wasiErrno e)
      | (h', .ok _) => ret w h' 0
  | .fdPrestatGet n ptr =>
    match getDesc cfg s n with
    | none => ret w s.host BADF
    | some d =>
      match d.path with
      | none => ret w s.host BADF
      | some hp => do
        let p ← readHeap s.heap hp
        let w1 ← w.store ptr (leBytes 4 Gen.Wasi.WASI_PREOPEN_TYPE_DIRECTORY)
        let w2 ← w1.store (ptr + 4) (leBytes 4 p.length)
        ret w2 s.host 0
  | .fdPrestatDirName n ptr len =>
    match getDesc cfg s n with
    | none => ret w s.host BADF
    | some d =>
      match d.path with
      | none => ret w s.host BADF
      | some hp => do
        let p ← readHeap s.heap hp
        let w1 ← w.store ptr (p.take (min p.length len))
        ret w1 s.host 0
  | .fdFilestatGet n ptr =>
    match getDesc cfg s n with
    | none => ret w s.host BADF
    | some d => do
      match ← fdOrPathStat H s d cfg.filestatNullPath with
      | .error e => ret w s.host e
      | .ok .unmodelled => retUnmodelled w s.host
      | .ok (.err e) => ret w s.host (wasiErrno e)
      | .ok (.ok st) => do
        let w' ← storeFilestat abi w ptr st
        ret w' s.host 0
  | .pathFilestatGet n _ pathPtr pathLen statPtr => do
    match ← pathPrologue cfg s w n pathPtr pathLen with
    | .error e => ret w s.host e
    | .ok p =>
      match H.stat s.host p with
      | .unmodelled => retUnmodelled w s.host
      | .err e => ret w s.host (wasiErrno e)
      | .ok st => do
        let w' ← storeFilestat abi w statPtr st
        ret w' s.host 0
  | .pathRename ofd op ol nfd np nl =>
    match getDesc cfg s ofd with
    | none => ret w s.host BADF
    | some od =>
      match getDesc cfg s nfd with
      | none => ret w s.host BADF
      | some nd =>
        match od.path with
        | none => ret w s.host BADF
        | some oh => do
          let ogp ← guestPath w.mem op ol
          match ← resolvePath cfg s.heap oh ogp with
          | none => ret w s.host INVAL
          | some opath =>
            match nd.path with
            | none => ret w s.host BADF
            | some nh => do
              let ngp ← guestPath w.mem np nl
              match ← resolvePath cfg s.heap nh ngp with
              | none => ret w s.host INVAL
              | some npath =>
                match H.pathCall s.host "rename" [opath, npath] with
                | (h', .unmodelled) => retUnmodelled w h'
                | (h', .err e) => ret w h' (wasiErrno e)
                | (h', .ok _) => ret w h' 0
  | .pathUnlinkFile n p l => simplePathCall cfg H s w "unlink" n p l
  | .pathRemoveDirectory n p l => simplePathCall cfg H s w "rmdir" n p l
  | .pathCreateDirectory n p l => simplePathCall cfg H s w "mkdir" n p l
  | .pathSymlink op ol n np nl =>
    match getDesc cfg s n with
    | none => ret w s.host BADF
    | some d =>
      if ol ≥ PATH_MAX then ret w s.host INVAL else do
      let old ← guestPath w.mem op ol
      match d.path with
      | none => ret w s.host BADF
      | some hp => do
        let ngp ← guestPath w.mem np nl
        match ← resolvePath cfg s.heap hp ngp with
        | none => ret w s.host INVAL
        | some npath =>
          match H.pathCall s.host "symlink" [cstr old, npath] with
          | (h', .unmodelled) => retUnmodelled w h'
          | (h', .err e) => ret w h' (wasiErrno e)
          | (h', .ok _) => ret w h' 0
  | .pathReadlink n p l _ _ _ => do
    match ← pathPrologue cfg s w n p l with
    | .error e => ret w s.host e
    | .ok path =>
      match H.pathCall s.host "readlink" [path] with
      | (h', .err e) => ret w h' (wasiErrno e)
      | (h', _) => retUnmodelled w h'          -- the link text written to the guest is host data
  | .nosys _ _ => ret w s.host NOSYS

/-- `closedir(descriptor.dir)` or `close(descriptor.fd)` of `wasiFileDescriptorClose` -/
def closeHost {σ} (H : Host σ) (h : σ) (d : Desc) : σ × R Unit :=
  match d.dir with
  | some dh => H.closedir h dh
  | none => if d.fd ≥ 0 then H.close h d.fd else (h, .ok ())

/-- `wasiFileDescriptorClose` + `fd_close` -/
def fdClose {σ} (cfg : Cfg) (H : Host σ) (s : St σ) (n : Nat) : Out (St σ × Res) :=
  match getDesc cfg s n with
  | none => .val (s, .errno BADF [])
  | some d =>
    -- closedir / close; a failure returns false before anything is freed or reset
    match closeHost H s.host d with
    | (h', .unmodelled) => .val ({ s with host := h' }, .unmodelled)
    | (h', .err _) => .val ({ s with host := h' }, .errno BADF [])
    | (h', .ok _) =>
      match d.path with
      | none =>
        .val (setDesc { s with host := h' } n fun e =>
          { fd := -1, dir := none, path := if cfg.closeClearsPath then none else e.path }, .errno 0 [])
      | some hp =>
        match freeHeap s.heap hp with
        | .val heap' =>
          .val (setDesc { s with host := h', heap := heap' } n fun e =>
            { fd := -1, dir := none, path := if cfg.closeClearsPath then none else e.path }, .errno 0 [])
        | .ub k => .ub k
        | .trap t => .trap t
        | .oof => .oof

/-- the lazy `opendir` of `wasiFDReaddir`: the state with the DIR registered, or the early return -/
def readdirOpen {σ} (cfg : Cfg) (H : Host σ) (s : St σ) (n : Nat) (d : Desc) (cookie : Nat) :
    Out (Except (St σ × Res) (St σ)) :=
  match d.dir with
  | some _ => .val (.ok s)
  | none =>
    if cfg.readdirNullPath.isSome ∧ d.path = none then
      .val (.error (s, .errno (cfg.readdirNullPath.getD 0) []))
    else
      -- `strcpy(nativePath, descriptor.path)` comes before the cookie test
      match derefPath s.heap d.path with
      | .ub k => .ub k
      | .trap t => .trap t
      | .oof => .oof
      | .val p =>
        if cookie ≠ 0 then .val (.error (s, .errno BADF [])) else
        match H.opendir s.host p with
        | (h', .unmodelled) => .val (.error ({ s with host := h' }, .unmodelled))
        | (h', .err e) => .val (.error ({ s with host := h' }, .errno (wasiErrno e) []))
        | (h', .ok dh) =>
          -- only the by-value copy `descriptor` would be reset: the table entry keeps its native fd
          let h'' := if cfg.readdirClosesNativeFd ∧ d.fd ≥ 0 then (H.close h' d.fd).1 else h'
          .val (.ok (setDesc { s with host := h'' } n fun e => { e with dir := some dh }))

/-- `wasiFDReaddir` up to the listing loop -/
def fdReaddir {σ} (cfg : Cfg) (H : Host σ) (s : St σ) (n _buf len cookie used : Nat) : Out (St σ × Res) :=
  match getDesc cfg s n with
  | none => .val (s, .errno BADF [])
  | some d =>
    match readdirOpen cfg H s n d cookie with
    | .ub k => .ub k
    | .trap t => .trap t
    | .oof => .oof
    | .val (.error r) => .val r
    | .val (.ok s1) =>
      let w : MW := ⟨s1.mem, []⟩
      match w.store used (leBytes 4 0) with
      | .ub k => .ub k
      | .trap t => .trap t
      | .oof => .oof
      | .val w1 =>
        if len = 0 then
          match w1.store used (leBytes 4 0) with
          | .ub k => .ub k
          | .trap t => .trap t
          | .oof => .oof
          | .val w2 => .val ({ s1 with mem := w2.mem }, .errno 0 w2.log)
        else .val ({ s1 with mem := w1.mem }, .unmodelled)      -- the listing itself: C14


/-- native flags of `wasiPathOpen` -/
def openFlags (oflags fdflags : Nat) : List OFlag :=
  (Gen.Wasi.oflagsMap.filter fun e => hasBit oflags e.1).map (·.2)
    ++ (Gen.Wasi.fdflagsMap.filter fun e => hasBit fdflags e.1).map (·.2)

def openAcc (rightsBase : Nat) : Acc :=
  Gen.Wasi.accessMode (hasBit rightsBase Gen.Wasi.writeRightsMask) (hasBit rightsBase Gen.Wasi.readRightsMask)

/-- the `O_DIRECTORY` emulation by `fstat`: `some r` = early return -/
def directoryCheck {σ} (H : Host σ) (h : σ) (fl : List OFlag) (nfd : Nat) : Option Res :=
  if Gen.Wasi.directoryEmulation ∧ fl.contains .directory then
    match H.fstat h nfd with
    | .unmodelled => some .unmodelled
    | .err e => some (.errno (wasiErrno e) [])
    | .ok st => if st.isDir then none else some (.errno NOTDIR [])
  else none

/-- `wasiPathOpen` after `open` returned: O_DIRECTORY emulation, registration, store of the number -/
def finishOpen {σ} (H : Host σ) (s : St σ) (w : MW) (fl : List OFlag) (fdPtr : Nat) (p : Bytes) :
    σ × R Nat → Out (St σ × Res)
  | (h', .unmodelled) => .val ({ s with host := h' }, .unmodelled)
  | (h', .err e) => .val ({ s with host := h' }, .errno (wasiErrno e) [])
  | (h', .ok nfd) =>
    match directoryCheck H h' fl nfd with
    | some r => .val ({ s with host := h' }, r)
    | none =>
      match tableAdd { s with host := h' } nfd p with
      | none => .val ({ s with host := h' }, .errno BADF [])
      | some (s2, idx) =>
        match w.store fdPtr (leBytes 4 idx) with
        | .ub k => .ub k
        | .trap t => .trap t
        | .oof => .oof
        | .val w' => .val ({ s2 with mem := w'.mem }, .errno 0 w'.log)

/-- `wasiPathOpen` -/
def pathOpen {σ} (cfg : Cfg) (H : Host σ) (s : St σ)
    (dirfd _dirflags pathPtr pathLen oflags rightsBase _rightsInh fdflags fdPtr : Nat) : Out (St σ × Res) :=
  let w : MW := ⟨s.mem, []⟩
  match pathPrologue cfg s w dirfd pathPtr pathLen with
  | .ub k => .ub k
  | .trap t => .trap t
  | .oof => .oof
  | .val (.error e) => .val (s, .errno e [])
  | .val (.ok p) =>
    finishOpen H s w (openFlags oflags fdflags) fdPtr p
      (H.openAt s.host p (openAcc rightsBase) (openFlags oflags fdflags))

/-- one WASI call -/
def step {σ} (cfg : Cfg) (H : Host σ) (abi : Abi) (s : St σ) : Call → Out (St σ × Res)
  | .ro c => (stepRO cfg H abi s c).map' fun (w, h, r) => ({ s with mem := w.mem, host := h }, r)
  | .fdClose n => fdClose cfg H s n
  | .fdReaddir n buf len cookie used => fdReaddir cfg H s n buf len cookie used
  | .pathOpen a b c d e f g h i => pathOpen cfg H s a b c d e f g h i

/-- a history -/
def run {σ} (cfg : Cfg) (H : Host σ) (s : St σ) : List (Abi × Call) → Out (St σ × List Res)
  | [] => .val (s, [])
  | (abi, c) :: rest => do
    let (s1, r) ← step cfg H abi s c
    let (s2, rs) ← run cfg H s1 rest
    .val (s2, r :: rs)

/-- `wasiInit`: descriptors 0–2 are the host's standard streams; then the embedder's pre-opened
    directories (`wasiFileDescriptorAdd(-1, path, NULL)`) -/
def initTable {σ} (mem : Mem) (host : σ) : St σ :=
  tableAddNoPath (tableAddNoPath (tableAddNoPath ⟨[], [], mem, host⟩ 0) 1) 2

def addPreopen {σ} (s : St σ) (path : Bytes) : St σ :=
  match tableAdd s (-1) path with
  | some (s', _) => s'
  | none => s

end W2c2Verif.Model.Wasi
