/-
  Model.Array — the growable arrays of /repo/w2c2 (array.c, array.h `ARRAY_TYPE`, stringbuilder.c).

  The capacity computation itself is REGENERATED (`Gen.Array.slowPathGrowth`, a small statement list over
  `size_t` expressions); this file gives it its meaning (`size_t` arithmetic modulo `M = 2^W`) and models the
  heap block the array owns: `slots` are the element slots that were really allocated (allocated bytes /
  element size), `capacity` is what the `capacity` field claims.  An element access `items[i]` is in bounds iff
  `i < slots.length`; callers only know `i < capacity` — the contract proved in Props/C10Array is that the two
  agree after every successful `EnsureCapacity`.
-/
import W2c2Verif.Gen.Array

namespace W2c2Verif.Model.Array
open W2c2Verif.Gen.Array

/-- the C variables an expression of the growth code may mention -/
structure Env where
  length : Nat
  capacity : Nat
  newCapacity : Nat
  itemSize : Nat
  deriving Repr, DecidableEq

/-- `size_t` arithmetic: unsigned, modulo `M` (`M = 2^64` on the hosts of the correspondence, `2^32` on ILP32). -/
def eval (M : Nat) (env : Env) : GExpr → Nat
  | .length => env.length
  | .capacity => env.capacity
  | .newCapacity => env.newCapacity
  | .itemSize => env.itemSize
  | .lit n => n % M
  | .add a b => (eval M env a + eval M env b) % M
  | .sub a b => (eval M env a + M - eval M env b % M) % M
  | .mul a b => (eval M env a * eval M env b) % M
  | .div a b => eval M env a / eval M env b
  | .shr a b => eval M env a >>> eval M env b
  | .shl a b => (eval M env a <<< eval M env b) % M

def holds : GCmp → Nat → Nat → Bool
  | .lt, a, b => decide (a < b)
  | .le, a, b => decide (a ≤ b)
  | .gt, a, b => decide (b < a)
  | .ge, a, b => decide (b ≤ a)
  | .eq, a, b => decide (a = b)
  | .ne, a, b => decide (a ≠ b)

def step (M : Nat) (env : Env) : GStmt → Env
  | .assign e => { env with newCapacity := eval M env e }
  | .ifAssign c a b e =>
    if holds c (eval M env a) (eval M env b) then { env with newCapacity := eval M env e } else env

def runGrowth (M : Nat) (stmts : List GStmt) (env : Env) : Env := stmts.foldl (step M) env

/-- `newCapacity` as `arrayEnsureCapacitySlowPath` computes it (the local starts at 0) -/
def newCapacity (M length capacity itemSize : Nat) : Nat :=
  (runGrowth M slowPathGrowth { length := length, capacity := capacity, newCapacity := 0, itemSize := itemSize }).newCapacity

/-- the byte count passed to `realloc` -/
def reallocBytes (M newCap itemSize : Nat) : Nat :=
  eval M { length := 0, capacity := 0, newCapacity := newCap, itemSize := itemSize } slowPathReallocBytes

/-- The heap block of an array: `slots[i] = some x` an element written by the program, `none` a slot that is
    allocated but holds calloc's zero / realloc's garbage.  `isNull`: `items == NULL` (nothing allocated yet). -/
structure Block (α : Type) where
  slots : List (Option α)
  capacity : Nat
  isNull : Bool
  deriving Repr, DecidableEq

def Block.empty {α : Type} : Block α := { slots := [], capacity := 0, isNull := true }

/-- the `capacity` field tells the truth about the allocation -/
def Block.WF {α : Type} (b : Block α) : Prop :=
  b.slots.length = b.capacity ∧ (b.isNull = true → b.capacity = 0)

/-- `realloc`/`calloc` contract: the first `min old new` slots keep their contents -/
def resize {α : Type} (l : List (Option α)) (n : Nat) : List (Option α) :=
  (l ++ List.replicate (n - l.length) none).take n

/-- `arrayEnsureCapacity(&items, length, &capacity, itemSize)`; `allocOk = false`: the allocator returns NULL.
    `none` = the function returned false (array untouched). -/
def ensureCapacity {α : Type} (M itemSize : Nat) (allocOk : Bool) (b : Block α) (length : Nat) : Option (Block α) :=
  if length ≤ b.capacity then some b
  else
    let nc := newCapacity M length b.capacity itemSize
    if b.isNull then
      /- calloc(newCapacity, itemSize) checks the multiplication itself -/
      if allocOk ∧ nc * itemSize < M then some { slots := resize b.slots nc, capacity := nc, isNull := false } else none
    else
      if allocOk then some { slots := resize b.slots (reallocBytes M nc itemSize / itemSize), capacity := nc, isNull := false }
      else none

/-- `ARRAY_TYPE … Append`: `EnsureCapacity(length + 1); items[length] = item; length = length + 1`.
    Result: the block and the new length, or `none` (returned false); the store is out of bounds iff
    `length ≥ slots.length` — reported as `Except.error`. -/
def append {α : Type} (M itemSize : Nat) (allocOk : Bool) (b : Block α) (length : Nat) (x : α) :
    Except Unit (Option (Block α × Nat)) :=
  match ensureCapacity M itemSize allocOk b ((length + 1) % M) with
  | none => .ok none
  | some b' =>
    if length < b'.slots.length then .ok (some ({ b' with slots := b'.slots.set length (some x) }, (length + 1) % M))
    else .error ()

/-- `stringBuilderEnsureCapacity`: the new capacity when `length + 1 > capacity` -/
def stringBuilderNewCapacity (M length capacity : Nat) : Nat :=
  let lwn := eval M { length := length, capacity := capacity, newCapacity := 0, itemSize := 1 } stringBuilderLengthWithNull
  (runGrowth M stringBuilderGrowth { length := lwn, capacity := capacity, newCapacity := 0, itemSize := 1 }).newCapacity

end W2c2Verif.Model.Array
