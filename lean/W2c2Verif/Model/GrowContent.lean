/-
  Model.GrowContent — sequential semantics of the memory-descriptor step lists (Gen.growSteps) WITH the
  contents of the allocated block, for the non-shared `realloc` path of wasmMemoryGrow (C05: grown memory
  reads as zero; old contents are kept).

  State: the descriptor (`Mem`), the block `memory->data` points to (`cur`), and the block returned by the
  last successful `realloc` that has not been stored into `memory->data` yet (`pend`).

    realloc r p n   (p must be `memory->data`, n > 0)
                    fails (platform says so): r := NULL, nothing changes;
                    else r := a fresh non-null pointer to a block of n bytes whose first min(old capacity, n)
                    bytes are the old contents and whose remaining bytes are ARBITRARY: `junk i` — the theorems
                    quantify over every `junk`;
    memset p off v n   p must be the pending (or current) block and [off, off+n) inside it (else: undefined
                    behaviour, the run is stuck); sets these bytes to v mod 256;
    write data e    e must be the pending pointer: the pending block becomes the current one.
  Everything else is `Grow.act` on the descriptor.
-/
import W2c2Verif.Model.Grow

namespace W2c2Verif.Model.GrowContent
open W2c2Verif.Model W2c2Verif.Model.Grow

structure Block where
  cap : Nat
  bytes : Nat → Nat

structure CState where
  mem : Mem
  cur : Block
  pend : Option (Nat × Block) := none

inductive ActC
  | cont (st : CState) (pc : Nat) (ρ : Nat → Nat)
  | ret (v : Nat)
  | stuck          -- fell off the end, abort(), or undefined behaviour (realloc of a foreign pointer / to size 0,
                   -- memset outside the block, store of a pointer that is not the reallocated block)

def memsetBlock (b : Block) (off v n : Nat) : Block :=
  { b with bytes := fun i => if off ≤ i ∧ i < off + n then v % 256 else b.bytes i }

def actC (imm : Imm) (junk : Nat → Nat) (prog : List MStep) (st : CState) (pc : Nat) (ρ : Nat → Nat) : ActC :=
  match prog[pc]? with
  | some (.realloc r p n) =>
    if p.eval ρ = st.mem.data ∧ 0 < n.eval ρ ∧ st.pend.isNone then
      if imm.reallocFails then .cont st (pc + 1) (setReg ρ r 0)
      else
        let q := st.mem.data + 1
        let blk : Block := { cap := n.eval ρ,
                             bytes := fun i => if i < min st.cur.cap (n.eval ρ) then st.cur.bytes i else junk i }
        .cont { st with pend := some (q, blk) } (pc + 1) (setReg ρ r q)
    else .stuck
  | some (.memset p off v n) =>
    match st.pend with
    | some (q, blk) =>
      if ρ p = q ∧ off.eval ρ + n.eval ρ ≤ blk.cap then
        .cont { st with pend := some (q, memsetBlock blk (off.eval ρ) (v.eval ρ) (n.eval ρ)) } (pc + 1) ρ
      else .stuck
    | none =>
      if ρ p = st.mem.data ∧ off.eval ρ + n.eval ρ ≤ st.cur.cap then
        .cont { st with cur := memsetBlock st.cur (off.eval ρ) (v.eval ρ) (n.eval ρ) } (pc + 1) ρ
      else .stuck
  | some (.write .data e) =>
    match st.pend with
    | some (q, blk) =>
      if e.eval ρ = q then .cont { mem := { st.mem with data := q }, cur := blk, pend := none } (pc + 1) ρ else .stuck
    | none => if e.eval ρ = st.mem.data then .cont st (pc + 1) ρ else .stuck      -- storing the same pointer back
  | _ =>
    match act imm prog st.mem pc ρ with
    | .cont m' pc' ρ' => .cont { st with mem := m' } pc' ρ'
    | .lock pc' => .cont st pc' ρ
    | .unlock pc' => .cont st pc' ρ
    | .ret v => .ret v
    | .abort => .stuck
    | .stuck => .stuck

def runSeqC (imm : Imm) (junk : Nat → Nat) (prog : List MStep) : Nat → CState → Nat → (Nat → Nat) → Option (CState × Nat)
  | 0, _, _, _ => none
  | n + 1, st, pc, ρ =>
    match actC imm junk prog st pc ρ with
    | .cont st' pc' ρ' => runSeqC imm junk prog n st' pc' ρ'
    | .ret v => some (st, v)
    | .stuck => none

/-- one `memory.grow(delta)` on a memory with content: `(state afterwards, returned value)` -/
def growC (imm : Imm) (junk : Nat → Nat) (prog : List MStep) (st : CState) (delta : Nat) : Option (CState × Nat) :=
  runSeqC imm junk prog (prog.length + 1) st 0 (initRegs delta)

end W2c2Verif.Model.GrowContent
