/-
  Model.Split — `wasmSplitStaticAndDynamicFunctions` of main.c (C09): the merge of the hash-sorted function
  IDs of the module with those of the reference module (`-r`).  A hash (20 bytes, compared with memcmp) is
  represented by its big-endian value, so memcmp order = `<` on `Nat`.
-/
namespace W2c2Verif.Model.Split

structure FnId where
  hash : Nat
  idx : Nat
  deriving DecidableEq, Repr

/-- `(static, dynamic)` in the order the C code appends them -/
def split : List FnId → List FnId → List FnId × List FnId
  | [], _ => ([], [])
  | f :: fs, [] => ((split fs []).1, f :: (split fs []).2)          -- trailing loop: the rest is dynamic
  | f :: fs, r :: rs =>
    if f.hash < r.hash then ((split fs (r :: rs)).1, f :: (split fs (r :: rs)).2)   -- only in the module
    else if r.hash < f.hash then split (f :: fs) rs                                  -- only in the reference: skip
    else (f :: (split fs rs).1, (split fs rs).2)                                     -- in both: static
termination_by fs rs => fs.length + rs.length

/-- `wasmSortedFunctionIDs`: IDs `(hash, index)` sorted by hash (insertion sort; stable like glibc's merge sort) -/
def insertSorted (x : FnId) : List FnId → List FnId
  | [] => [x]
  | y :: ys => if x.hash ≤ y.hash then x :: y :: ys else y :: insertSorted x ys

def sortIds (l : List FnId) : List FnId := l.foldr insertSorted []

def idsOf (hashes : List Nat) : List FnId := (List.range hashes.length).zipWith (fun i h => ⟨h, i⟩) hashes

end W2c2Verif.Model.Split
