/-
  Model.WasiReaddir — `wasiFDReaddir` of wasi/wasi.c, statement by statement, over the
  directory-stream specification Spec/Dir.lean.

    if (descriptor.dir == NULL) {
        char nativePath[PATH_MAX]; strcpy(nativePath, descriptor.path);
        if (cookie != WASI_DIRCOOKIE_START) return WASI_ERRNO_BADF;
        descriptor.dir = opendir(nativePath);  ...  wasiDirectorySet(wasiDirFD, descriptor.dir)
    }
    if (cookie != WASI_DIRCOOKIE_START) seekdir(descriptor.dir, (long)cookie);
    else rewinddir(descriptor.dir);                                   // iff Gen.WasiPath.readdirCallsRewind
    i32_store(memory, bufferUsedPointer, bufferUsed);                 // 0
    while (bufferUsed < bufferLength) {
        ssize_t bufferRemaining = bufferLength - bufferUsed;  U32 resultPointer = bufferPointer + bufferUsed;
        entry = readdir(dir);  if (entry == NULL) break;
        tell = telldir(dir);   if (tell < 0) return wasiErrno();
        next = tell; inode = entry->d_ino; name = entry->d_name; nameLength = strlen(name);
        fileType = wasiFileTypeFromMode(DTTOIF(entry->d_type));
        if (fileType == UNKNOWN) { strcpy/strcat into char[PATH_MAX]; lstat; fileType = fromMode(st_mode) }
        if (bufferRemaining < WASI_DIRENT_SIZE) { bufferUsed = bufferLength; break; }
        memset(data + resultPointer, 0, 24); i64_store(+0,next); i64_store(+8,inode); i32_store(+16,nameLength); i32_store8(+20,fileType);
        bufferUsed += 24; bufferRemaining = bufferLength - bufferUsed; resultPointer = bufferPointer + bufferUsed;
        adjustedNameLength = nameLength > bufferRemaining ? bufferRemaining : nameLength;
        memcpy(data + resultPointer, name, adjustedNameLength);  bufferUsed += adjustedNameLength;
    }
    i32_store(memory, bufferUsedPointer, bufferUsed);  return SUCCESS;

  Offsets, sizes, comparisons and the cookie test come from Gen/WasiPath.lean.
-/
import W2c2Verif.Model.WasiPath
import W2c2Verif.Spec.Dir

namespace W2c2Verif.WasiReaddir
open W2c2Verif W2c2Verif.WasiPath W2c2Verif.Dir

/-- S_IFMT values of <sys/stat.h> (Linux/glibc) for the `S_IS*` tests of wasiFileTypeFromMode -/
def sIfmtOf : String → Nat
  | "S_ISCHR" => 0o020000 | "S_ISDIR" => 0o040000 | "S_ISREG" => 0o100000
  | "S_ISLNK" => 0o120000 | "S_ISBLK" => 0o060000 | "S_ISFIFO" => 0o010000 | "S_ISSOCK" => 0o140000
  | _ => 0o170000

/-- `wasiFileTypeFromMode(mode)`: first matching `S_IS*` test in source order -/
def fileTypeFromMode (mode : Nat) : Nat :=
  match Gen.WasiPath.fileTypeTests.find? (fun t => mode &&& 0o170000 == sIfmtOf t.1) with
  | some (_, v) => v
  | none => Gen.WasiPath.fileTypeDefault

/-- `wasiFileTypeFromMode(DTTOIF(d_type))`, `DTTOIF(t) = t << 12` -/
def fileTypeFromDT (dtype : Nat) : Nat := fileTypeFromMode (dtype <<< 12)

/-- the 24-byte dirent header as the five statements write it -/
def writeHeader (mem : Mem) (resultPointer next inode nameLength fileType : Nat) : Out Mem := do
  let mem ← storeBytes mem resultPointer (List.replicate Gen.WasiPath.direntSize 0)
  let mem ← i64Store mem (u32 (resultPointer + Gen.WasiPath.direntNextOff)) next
  let mem ← i64Store mem (u32 (resultPointer + Gen.WasiPath.direntInoOff)) inode
  let mem ← i32Store mem (u32 (resultPointer + Gen.WasiPath.direntNamlenOff)) nameLength
  i32Store8 mem (u32 (resultPointer + Gen.WasiPath.direntTypeOff)) fileType

/-- outcome of the loop: early `return wasiErrno()` or fall-through with (stream index, bufferUsed, memory) -/
inductive LoopRes
  | ret (errno : Nat) (i : Nat) (mem : Mem)
  | fall (i : Nat) (used : Nat) (mem : Mem)
  deriving Repr, DecidableEq

/-- errno of a failing `lstat` / `telldir` (the spec'd directory never makes them fail) -/
def hostFailErrno : Nat := Gen.WasiPath.errnoDefault

/-- the `while (bufferUsed < bufferLength)` loop; `stale` = the value of `errno` when fd_readdir is entered
    (`none` = 0): any earlier failed host call of the process leaves one behind, which is legal state; `rest` = entries from the stream position `i` on -/
def rdLoop (pm : Nat) (d : Dir) (path : Bytes) (stale : Option String) (bufPtr bufLen : Nat) :
    List Entry → Nat → Nat → Mem → Out LoopRes
  | rest, i, used, mem =>
    if ¬ Gen.WasiPath.loopContinues used bufLen then .val (.fall i used mem) else
    match rest with
    | [] =>
      -- `[errno = 0;] entry = readdir(dir); if (entry == NULL) { if (errno != 0) return wasiErrno(); break; }`
      -- readdir reports the end of the directory by NULL and leaves errno as it was
      match (if Gen.WasiPath.readdirResetsErrno then none else stale) with
      | none => .val (.fall i used mem)
      | some e => .val (.ret (wasiErrno e) i mem)
    | e :: rest' =>
      let bufferRemaining := u32 (bufLen - used)
      let resultPointer := u32 (bufPtr + used)
      let tell := d.loc (i + 1)
      if tell < 0 then .val (.ret hostFailErrno (i + 1) mem) else
      let next := tell.toNat
      let nameLength := e.name.length
      let ft0 := fileTypeFromDT e.dtype
      -- lstat fallback: strcpy(nativePath, path); strcat "/" ; strcat name   into char[PATH_MAX]
      if ft0 = Gen.WasiPath.fileTypeUnknown ∧ ¬ (path.length + 1 + nameLength < pm) then .ub .bufferOverflow else
      if ft0 = Gen.WasiPath.fileTypeUnknown ∧ e.lstat = none then .val (.ret hostFailErrno (i + 1) mem) else
      let fileType := if ft0 = Gen.WasiPath.fileTypeUnknown then e.lstat.getD 0 else ft0
      if Gen.WasiPath.headerDoesNotFit bufferRemaining then .val (.fall (i + 1) bufLen mem) else do
      let mem ← writeHeader mem resultPointer next e.ino nameLength fileType
      let used := u32 (used + Gen.WasiPath.direntSize)
      let bufferRemaining := u32 (bufLen - used)
      let resultPointer := u32 (bufPtr + used)
      let adj := Gen.WasiPath.adjustedNameLength nameLength bufferRemaining
      let mem ← storeBytes mem resultPointer (e.name.take adj)
      rdLoop pm d path stale bufPtr bufLen rest' (i + 1) (u32 (used + adj)) mem

/-- `(long)cookie` for a `U64` cookie (two's complement) -/
def cookieToLong (cookie : Nat) : Int :=
  if cookie % 18446744073709551616 < 9223372036854775808 then (cookie % 18446744073709551616 : Nat)
  else (cookie % 18446744073709551616 : Nat) - 18446744073709551616

structure RdResult where
  errno : Nat
  dirState : Option Pos      -- `descriptor.dir` afterwards (`none` = still NULL)
  mem : Mem
  deriving Repr, DecidableEq

inductive Res
  | done (r : RdResult)
  | unspecified              -- `readdir` on a stream whose position POSIX leaves unspecified
  deriving Repr, DecidableEq

/-- first part of `wasiFDReaddir`: lazy `opendir` (only for cookie 0), `seekdir` for a non-zero
    cookie, `rewinddir` for cookie 0.  `.inl r` = early return, `.inr p` = position of the stream before the loop. -/
def positionStream (pm : Nat) (d : Dir) (path : Bytes) (dirSt : Option Pos) (mem : Mem) (cookie : Nat) :
    Out (Sum RdResult Pos) :=
  (match dirSt with
   | some p => (.val (.inr p) : Out (Sum RdResult Pos))
   | none =>
     if ¬ path.length < pm then .ub .bufferOverflow            -- strcpy(nativePath, descriptor.path)
     else if cookie ≠ Gen.WasiPath.dirCookieStart then .val (.inl ⟨Gen.WasiPath.errnoBadf, none, mem⟩)
     else .val (.inr (opendir d))) >>= fun
  | .inl r => .val (.inl r)
  | .inr p0 =>
    .val (.inr (if Gen.WasiPath.seekWhenCookie cookie then seekdir d (cookieToLong cookie)
                else if Gen.WasiPath.readdirCallsRewind then rewinddir d p0 else p0))

/-- second part: `i32_store(bufferUsedPointer, 0)`, the loop, `i32_store(bufferUsedPointer, bufferUsed)` -/
def readFrom (pm : Nat) (d : Dir) (path : Bytes) (stale : Option String) (p : Pos) (mem : Mem) (bufPtr bufLen usedPtr : Nat) : Out Res := do
  let mem ← i32Store mem usedPtr 0
  match p with
  | .unspec =>
    if Gen.WasiPath.loopContinues 0 bufLen then .val .unspecified      -- readdir at an unspecified position
    else do
      let mem ← i32Store mem usedPtr 0
      .val (.done ⟨Gen.WasiPath.errnoSuccess, some p, mem⟩)
  | .at i => do
    match ← rdLoop pm d path stale bufPtr bufLen (d.entries.drop i) i 0 mem with
    | .ret e i' mem => .val (.done ⟨e, some (.at i'), mem⟩)
    | .fall i' used mem => do
      let mem ← i32Store mem usedPtr used
      .val (.done ⟨Gen.WasiPath.errnoSuccess, some (.at i'), mem⟩)

/-- `wasiFDReaddir` for a descriptor with path string `path` and stream state `dirSt` -/
def fdReaddir (pm : Nat) (d : Dir) (path : Bytes) (stale : Option String) (dirSt : Option Pos) (mem : Mem)
    (bufPtr bufLen cookie usedPtr : Nat) : Out Res :=
  positionStream pm d path dirSt mem cookie >>= fun
  | .inl r => .val (.done r)
  | .inr p => readFrom pm d path stale p mem bufPtr bufLen usedPtr

end W2c2Verif.WasiReaddir
