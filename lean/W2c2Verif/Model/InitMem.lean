/-
  Model.InitMem — the TEXT of `<module>InitMemories` as `wasmCWriteInitMemories` prints it, per data segment mode
  (`-d arrays | gnu-ld | sectcreate1 | sectcreate2`), the data it refers to (the `d<k>` arrays / the `datasegments`
  blob), and the meaning of that text.

  Nothing about WHICH statements are printed is written here: the two loops of `wasmCWriteInitMemories`, the blob writer,
  the array writer and the field assignments of `wasmMemoryAllocate` are `Gen.InitMem.{memLoop, segLoop, blobLoop,
  arrayLoop, allocSteps}`, regenerated from c.c / w2c2_base.h on every run (tools/extract/gen_initmem.py).  This file
  interprets those lists:

    render mode d        the token sequence printed for module description `d` (tokens = the literal chunks with white
                         space removed + the rendered items); `byteOffset` is threaded through the segments as the C does
    parse toks           the statements a C compiler sees in that text (`Emitted`), `none` if it is anything else
    blobOf / arraysOf    the bytes of the `datasegments` file / of the `d<k>` arrays
    exec                 what the statements do to the instance: allocation through `wasmMemoryAllocate` (the page count of
                         the new memory is what `Gen.InitMem.allocSteps` stores in `pages`), `LOAD_DATA` = memcpy from the
                         named array / from `ds + offset` in the blob (reading outside the source is `.ub .outOfBounds`)

  Props/C06Init.lean proves that for EVERY mode this equals `Model.Inst.initMemories` (the function
  `instantiate_refines_spec` is about).  The correspondence `initmem-text` (tools/checks/initmem.py) compares `render`,
  `blobOf`, `arraysOf` with what the real w2c2 writes, in all four modes.

  Modelling notes.  `dataSegment.offset.data != NULL` holds exactly for active segments (reader.c `wasmReadDataSegment`
  sets `offset = reader->buffer` iff the segment kind has an offset expression).  `byteOffset` is a C `U64`; the sum of
  all segment lengths is bounded by the size of the module file, so it is a `Nat` here.
-/
import W2c2Verif.Model.Instantiate
import W2c2Verif.Gen.InitMem

namespace W2c2Verif.Model.InitMem
open W2c2Verif Model.Inst Gen.InitMem

abbrev Mode := DMode

/-- a chunk of the emitted text -/
inductive Tok
  | kw (k : Kw)
  | memRef (idx : Nat)           -- `i-><memory idx>`
  | memRefParent (idx : Nat)     -- `parent-><memory idx>`
  | num (n : Nat)
  | segName (k : Nat)            -- `d<k>`
  | memUse (idx : Nat)           -- `(*i-><memory idx>)`
  | expr (e : ConstE)
  | bad                          -- an item that does not exist in the loop it was printed from
  deriving DecidableEq, Repr, Inhabited

structure MemCtx where
  idx : Nat
  min : Nat
  max : Nat
  shared : Bool

def guardMem (c : MemCtx) : Guard → Bool
  | .memShared b => c.shared == b
  | _ => false

def guardSeg (mode : Mode) (seg : DataSeg) : Guard → Bool
  | .segPassive b => seg.passive == b
  | .segHasOffset b => (!seg.passive) == b
  | .modeIn ms => ms.contains mode
  | .memShared _ => false

def pieceMem (c : MemCtx) : Piece → Tok
  | .kw k => .kw k
  | .memRef => .memRef c.idx
  | .memRefParent => .memRefParent c.idx
  | .memMin => .num c.min
  | .memMax => .num c.max
  | _ => .bad

def pieceSeg (k off : Nat) (seg : DataSeg) : Piece → Tok
  | .kw w => .kw w
  | .segName => .segName k
  | .byteOffset => .num off
  | .segMemUse => .memUse seg.mem
  | .offsetExpr => .expr seg.offset
  | .segLen => .num seg.bytes.length
  | _ => .bad

/-- one pass through the body of the memory loop -/
def runMem (steps : List (List Guard × Leaf)) (c : MemCtx) : List Tok :=
  steps.flatMap fun gl =>
    if gl.1.all (guardMem c) then (match gl.2 with | .emit p => [pieceMem c p] | _ => [.bad]) else []

def stepSeg (mode : Mode) (k : Nat) (seg : DataSeg) (st : List Tok × Nat) (gl : List Guard × Leaf) : List Tok × Nat :=
  if gl.1.all (guardSeg mode seg) then
    match gl.2 with
    | .emit p => (st.1 ++ [pieceSeg k st.2 seg p], st.2)
    | .advance => (st.1, st.2 + seg.bytes.length)
    | _ => (st.1 ++ [.bad], st.2)
  else st

/-- one pass through the body of the data segment loop: printed tokens and the new `byteOffset` -/
def runSeg (steps : List (List Guard × Leaf)) (mode : Mode) (k off : Nat) (seg : DataSeg) : List Tok × Nat :=
  steps.foldl (stepSeg mode k seg) ([], off)

def renderMems (steps : List (List Guard × Leaf)) (imports : Nat) (shared : List Bool) : Nat → List (Nat × Nat) → List Tok
  | _, [] => []
  | j, mm :: rest => runMem steps ⟨imports + j, mm.1, mm.2, shared.getD j false⟩ ++ renderMems steps imports shared (j + 1) rest

def renderSegs (steps : List (List Guard × Leaf)) (mode : Mode) : Nat → Nat → List DataSeg → List Tok
  | _, _, [] => []
  | k, off, seg :: rest => (runSeg steps mode k off seg).1 ++ renderSegs steps mode (k + 1) (runSeg steps mode k off seg).2 rest

/-- the body of `<module>InitMemories` -/
def render (mode : Mode) (d : ModDesc) : List Tok :=
  renderMems memLoop d.memImports d.memShared 0 d.mems ++ renderSegs segLoop mode 0 0 d.datas

/-! ## the data the text refers to -/

def leafBytes (steps : List (List Guard × Leaf)) (mode : Mode) (want : Leaf) (seg : DataSeg) : List (List UInt8) :=
  steps.filterMap fun gl => if gl.1.all (guardSeg mode seg) && gl.2 == want then some seg.bytes else none

/-- content of the file `datasegments` (`ds` points to its first byte) -/
def blobOf (steps : List (List Guard × Leaf)) (mode : Mode) (datas : List DataSeg) : List UInt8 :=
  datas.flatMap fun seg => (leafBytes steps mode .writeBytes seg).flatten

/-- content of `d<k>` for every k (none: no array is defined for segment k) -/
def arraysOf (steps : List (List Guard × Leaf)) (mode : Mode) (datas : List DataSeg) : List (Option (List UInt8)) :=
  datas.map fun seg => (leafBytes steps mode .defineArray seg).head?

structure Sources where
  arrays : List (Option (List UInt8))
  blob : List UInt8

def sourcesOf (mode : Mode) (d : ModDesc) : Sources :=
  { arrays := arraysOf arrayLoop mode d.datas, blob := blobOf blobLoop mode d.datas }

/-! ## the statements in the text -/

inductive Emitted
  | alloc (idx min max : Nat)                         -- `i->m = wasmMemoryAllocate(min, max, false);`
  | allocShared (idx min max : Nat)                   -- `if (parent == NULL) { i->m = WASM_MEMORY_ALLOCATE_SHARED(min, max); } else { i->m = parent->m; }`
  | ptrInit (k off : Nat)                             -- `d<k> = ds + off;`
  | loadArr (mem : Nat) (e : ConstE) (k len : Nat)    -- `LOAD_DATA((*i->mem), e, d<k>, len);`
  | loadBlob (mem : Nat) (e : ConstE) (off len : Nat) -- `LOAD_DATA((*i->mem), e, ds+off, len);`
  deriving DecidableEq, Repr, Inhabited

def parseOne : List Tok → Option (Emitted × List Tok)
  | .memRef i :: .kw .allocOpen :: .num a :: .kw .comma :: .num b :: .kw .falseCloseSemi :: rest => some (.alloc i a b, rest)
  | .kw .ifParentNull :: .memRef i :: .kw .allocSharedOpen :: .num a :: .kw .comma :: .num b :: .kw .closeSemi :: .kw .elseOpen ::
      .memRef i' :: .kw .assign :: .memRefParent i'' :: .kw .semi :: .kw .closeBrace :: rest =>
    if i' = i ∧ i'' = i then some (.allocShared i a b, rest) else none
  | .segName k :: .kw .assignDsPlus :: .num off :: .kw .semi :: rest => some (.ptrInit k off, rest)
  | .kw .loadDataOpen :: .memUse m :: .kw .comma :: .expr e :: tail =>
    (match tail with
     | .kw .commaDsPlus :: .num off :: .kw .comma :: .num len :: .kw .closeSemi :: rest => some (.loadBlob m e off len, rest)
     | .kw .comma :: .segName k :: .kw .comma :: .num len :: .kw .closeSemi :: rest => some (.loadArr m e k len, rest)
     | _ => none)
  | _ => none

def parseN : Nat → List Tok → Option (List Emitted)
  | _, [] => some []
  | 0, _ :: _ => none
  | n + 1, t :: ts =>
    match parseOne (t :: ts) with
    | some (e, rest) => (parseN n rest).map (e :: ·)
    | none => none

/-- every statement consumes at least one token: the token count is enough fuel -/
def parse (ts : List Tok) : Option (List Emitted) := parseN ts.length ts

/-! ## `wasmMemoryAllocate` -/

/-- straight-line execution of the extracted steps (anything but a local or a field assignment is not straight-line) -/
def allocRun : List MStep → (Nat → Nat) → (MFld → Nat) → Option ((Nat → Nat) × (MFld → Nat))
  | [], ρ, f => some (ρ, f)
  | .set r e :: rest, ρ, f => allocRun rest (setReg ρ r (e.eval ρ)) f
  | .write fld e :: rest, ρ, f => allocRun rest ρ (fun x => if x = fld then e.eval ρ else f x)
  | _ :: _, _, _ => none

def allocRegs (initial max shared : Nat) : Nat → Nat := fun r => if r = 0 then initial else if r = 1 then max else if r = 2 then shared else 0

/-- the descriptor `wasmMemoryAllocate(initial, max, shared)` returns (fields start zeroed: calloc) -/
def allocDesc (initial max shared : Nat) : Option (MFld → Nat) :=
  (allocRun allocSteps (allocRegs initial max shared) (fun _ => 0)).map (·.2)

/-- bytes requested from calloc for the data block (`Gen.InitMem.allocDataBytes` over the final values of the locals) -/
def allocBlockBytes (initial max shared : Nat) : Option Nat :=
  (allocRun allocSteps (allocRegs initial max shared) (fun _ => 0)).map fun x => allocDataBytes.eval x.1

/-! ## what the statements do -/

/-- memcpy(&mem.data[e], bytes, |bytes|) -/
def loadBytes (d : ModDesc) (s : St) (mem : Nat) (e : ConstE) (bytes : List UInt8) : Out St :=
  evalC d s.1.globals s.2 e >>= fun off =>
  match memPtr d s.2 mem with
  | none => .ub .nullDeref
  | some p => heapWrite s.1.mems p off bytes >>= fun ms => .val ({ s.1 with mems := ms }, s.2)

/-- a new memory object of `pages` pages becomes the next defined memory of the instance (`Instantiate` passes parent = NULL) -/
def execAlloc (d : ModDesc) (s : St) (idx min max shared : Nat) : Out St :=
  if idx = d.memImports + s.2.mems.length then
    match allocDesc min max shared with
    | some f => .val ({ s.1 with mems := s.1.mems ++ [Array.replicate (f .pages * pageSize) (0 : UInt8)] },
                      { s.2 with mems := s.2.mems ++ [s.1.mems.length] })
    | none => .ub .typeError
  else .ub .unboundVar

def exec (d : ModDesc) (src : Sources) (s : St) : Emitted → Out St
  | .alloc idx min max => execAlloc d s idx min max 0
  | .allocShared idx min max => execAlloc d s idx min max allocSharedFlag
  | .ptrInit _ _ => .val s                      -- a pointer variable of the translation unit; read by memory.init only
  | .loadArr mem e k len =>
    (match (src.arrays[k]?).join with
     | none => .ub .unboundVar
     | some a => if len ≤ a.length then loadBytes d s mem e (a.take len) else .ub .outOfBounds)
  | .loadBlob mem e off len =>
    if off + len ≤ src.blob.length then loadBytes d s mem e ((src.blob.drop off).take len) else .ub .outOfBounds

/-- what `d<k>` points to after InitMemories in the external modes: `len` bytes at `ds + off` -/
def ptrTarget (src : Sources) (off len : Nat) : Option (List UInt8) :=
  if off + len ≤ src.blob.length then some ((src.blob.drop off).take len) else none

/-- the emitted `<module>InitMemories` of data segment mode `mode`, run on a fresh instance -/
def initMemoriesE (mode : Mode) (d : ModDesc) (s : St) : Out St :=
  match parse (render mode d) with
  | none => .ub .typeError                      -- the text is not a sequence of the known statements: does not compile
  | some es => foldM' (exec d (sourcesOf mode d)) s es

/-- everything `Instantiate` does before the start function, with the InitMemories of mode `mode` -/
def initAllE (mode : Mode) (d : ModDesc) (r : Resolver) (w : World) : Out St :=
  initImports d r (w, {}) >>= initMemoriesE mode d >>= initTables d >>= initGlobals d

end W2c2Verif.Model.InitMem
