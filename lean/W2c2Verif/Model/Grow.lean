/-
  Model.Grow — threads operating on ONE shared `wasmMemory` descriptor (C18).

  Every thread executes one operation, given as a step list in the language of Model/ConcBase.lean:
  `memory.grow` = the REGENERATED `Gen.growSteps` (wasmMemoryGrow flattened in source order),
  `memory.size` = one plain read of `pages` (what c.c emits: `… = m->pages;`), a load/store = one plain
  read of `data`.  One transition = one step of one thread; any thread may move (`Reach`).

  The observable trace records invocation, mutex acquisition/release and response of every operation;
  linearizability is stated over it (Props/C18.lean).
-/
import W2c2Verif.Model.ConcBase
import W2c2Verif.Gen.MemFuncs

namespace W2c2Verif.Model.Grow
open W2c2Verif.Model

/-- mutable descriptor fields -/
structure Mem where
  data : Nat
  size : Nat
  pages : Nat
  deriving DecidableEq, Repr

/-- fields fixed at allocation (+ the platform's answer to `realloc` for the non-shared path) -/
structure Imm where
  maxPages : Nat
  shared : Bool := true
  reallocFails : Bool := false
  deriving DecidableEq, Repr

def readFld (imm : Imm) (m : Mem) : MFld → Nat
  | .data => m.data | .size => m.size | .pages => m.pages
  | .maxPages => imm.maxPages | .shared => b2n imm.shared

def writeFld (m : Mem) (f : MFld) (v : Nat) : Option Mem :=
  match f with
  | .data => some { m with data := v }
  | .size => some { m with size := v }
  | .pages => some { m with pages := v }
  | _ => none

def MFld.mutable : MFld → Bool
  | .data | .size | .pages => true
  | _ => false

/-- What one atomic step of a running thread does, given the memory it sees. -/
inductive Act
  | cont (m : Mem) (pc : Nat) (ρ : Nat → Nat)
  | lock (pc : Nat)
  | unlock (pc : Nat)
  | ret (v : Nat)
  | abort
  | stuck

def act (imm : Imm) (prog : List MStep) (m : Mem) (pc : Nat) (ρ : Nat → Nat) : Act :=
  match prog[pc]? with
  | none => .stuck                                   -- fell off the end of a non-void function
  | some (.set r e) => .cont m (pc + 1) (setReg ρ r (e.eval ρ))
  | some (.read r f) => .cont m (pc + 1) (setReg ρ r (readFld imm m f))
  | some (.write f e) =>
    match writeFld m f (e.eval ρ) with
    | some m' => .cont m' (pc + 1) ρ
    | none => .stuck
  | some (.brUnless c k) => .cont m (if c.eval ρ ≠ 0 then pc + 1 else pc + 1 + k) ρ
  | some (.ret e) => .ret (e.eval ρ)
  | some .lock => .lock (pc + 1)
  | some .unlock => .unlock (pc + 1)
  | some (.realloc r p _) => .cont m (pc + 1) (setReg ρ r (if imm.reallocFails then 0 else p.eval ρ + 1))
  | some (.memset _ _ _ _) => .cont m (pc + 1) ρ          -- contents: Model/GrowContent.lean
  | some .abort => .abort

/-! ### sequential semantics (one thread alone; lock/unlock are no-ops) -/

def runSeq (imm : Imm) (prog : List MStep) : Nat → Mem → Nat → (Nat → Nat) → Option (Mem × Nat)
  | 0, _, _, _ => none
  | n + 1, m, pc, ρ =>
    match act imm prog m pc ρ with
    | .cont m' pc' ρ' => runSeq imm prog n m' pc' ρ'
    | .lock pc' => runSeq imm prog n m pc' ρ
    | .unlock pc' => runSeq imm prog n m pc' ρ
    | .ret v => some (m, v)
    | .abort => none
    | .stuck => none

/-- register 0 holds the operation's argument (`delta`), all other locals start at 0 -/
def initRegs (arg : Nat) : Nat → Nat := fun r => if r = 0 then arg else 0

/-- the sequential run terminates from `(m, pc, ρ)` with result `r` -/
def Final (imm : Imm) (prog : List MStep) (m : Mem) (pc : Nat) (ρ : Nat → Nat) (r : Mem × Nat) : Prop :=
  ∃ n, runSeq imm prog n m pc ρ = some r

/-! ### specification of memory.grow (WebAssembly: size before, or −1 and nothing changes) -/

def FAIL : Nat := 4294967295

/-- `(returned value, pages afterwards)` -/
def specGrow (imm : Imm) (pages delta : Nat) : Nat × Nat :=
  if pages + delta ≤ imm.maxPages then (pages, pages + delta) else (FAIL, pages)

/-! ### threads -/

inductive Phase | pre | held | post
  deriving DecidableEq, Repr

inductive Status | idle | run | done (v : Nat) | aborted
  deriving DecidableEq, Repr

structure Loc where
  st : Status
  pc : Nat
  regs : Nat → Nat
  ph : Phase

inductive Ev | inv (t : Tid) | acq (t : Tid) | rel (t : Tid) | res (t : Tid) (v : Nat)
  deriving DecidableEq, Repr

structure Sh where
  mem : Mem
  mutex : Mutex
  trace : List Ev          -- newest first
  deriving Repr

structure Cfg where
  imm : Imm
  prog : Tid → List MStep
  arg : Tid → Nat
  isGrow : Tid → Bool      -- the operation is a memory.grow (the others only read)

def tstep (cfg : Cfg) (t : Tid) (g : Sh) (l : Loc) : List (Sh × Loc) :=
  match l.st with
  | .idle => [({ g with trace := .inv t :: g.trace }, { l with st := .run })]
  | .run =>
    match act cfg.imm (cfg.prog t) g.mem l.pc l.regs with
    | .cont m pc ρ => [({ g with mem := m }, { l with pc := pc, regs := ρ })]
    | .lock pc =>
      if g.mutex = none then
        [({ g with mutex := some t, trace := .acq t :: g.trace }, { l with pc := pc, ph := .held })]
      else []
    | .unlock pc =>
      if g.mutex = some t then
        [({ g with mutex := none, trace := .rel t :: g.trace }, { l with pc := pc, ph := .post })]
      else []                       -- unlocking a mutex one does not hold is undefined: modelled as stuck
    | .ret v => [({ g with trace := .res t v :: g.trace }, { l with st := .done v })]
    | .abort => [(g, { l with st := .aborted })]
    | .stuck => []
  | _ => []

def sys (cfg : Cfg) : Sys Sh Loc := ⟨tstep cfg⟩

def initLoc (cfg : Cfg) (t : Tid) : Loc := { st := .idle, pc := 0, regs := initRegs (cfg.arg t), ph := .pre }

def initState (cfg : Cfg) (m0 : Mem) : Sh × (Tid → Loc) :=
  ({ mem := m0, mutex := none, trace := [] }, initLoc cfg)

abbrev Reachable (cfg : Cfg) (m0 : Mem) := Reach (sys cfg) (initState cfg m0)

/-! ### the other operations -/

/-- `memory.size` as c.c emitted it before /repo commit ee826ee: `si = m->pages;`, one PLAIN read.  Since then
    memory.size calls `wasmMemorySize`, regenerated as `Gen.sizeSteps` (lock; read; unlock).  Kept to show why
    the lock is needed (`unlocked_size_read_would_race`). -/
def plainSizeSteps : List MStep := [.read 1 .pages, .ret (.reg 1)]
/-- a load or store: the descriptor access is one read of `data` (the header performs no bounds check) -/
def accessSteps : List MStep := [.read 1 .data, .ret (.lit 0)]

/-! ### static discipline check (path-sensitive, with constant propagation for flags like `doRealloc`)

  `chk prog fuel pc ph c` explores every path of `prog` from `pc` for a SHARED memory
  (`memory->shared` reads 1): it accepts iff on every path
    * `pages`/`size`/`data` are read, and `pages`/`size` written, only between `lock` and `unlock`,
    * `data` is never written and `realloc`/`memset`/`abort` are never reached,
    * the mutex is taken at most once, released before returning, never released unheld,
    * the path ends in `ret`.
  `c` = locals whose value is a known constant on this path. -/

abbrev Consts := List (Nat × Nat)

def Consts.get : Consts → Nat → Option Nat
  | [], _ => none
  | (k, v) :: rest, r => if k = r then some v else Consts.get rest r
def Consts.erase : Consts → Nat → Consts
  | [], _ => []
  | (k, v) :: rest, r => if k = r then Consts.erase rest r else (k, v) :: Consts.erase rest r
def Consts.set (c : Consts) (r : Nat) : Option Nat → Consts
  | some v => (r, v) :: Consts.erase c r
  | none => Consts.erase c r

/-- abstract evaluation: `some v` only if the value is `v` for every valuation agreeing with `c` -/
def aeval (c : Consts) : MExpr → Option Nat
  | .lit n => some n
  | .reg r => c.get r
  | .add a b => do let x ← aeval c a; let y ← aeval c b; pure ((x + y) % 4294967296)
  | .sub a b => do let x ← aeval c a; let y ← aeval c b; pure ((x + 4294967296 - y % 4294967296) % 4294967296)
  | .mul a b => do let x ← aeval c a; let y ← aeval c b; pure ((x * y) % 4294967296)
  | .wmul a b => do let x ← aeval c a; let y ← aeval c b; pure (x * y)
  | .eq a b => do let x ← aeval c a; let y ← aeval c b; pure (b2n (x == y))
  | .ne a b => do let x ← aeval c a; let y ← aeval c b; pure (b2n (x != y))
  | .lt a b => do let x ← aeval c a; let y ← aeval c b; pure (b2n (decide (x < y)))
  | .le a b => do let x ← aeval c a; let y ← aeval c b; pure (b2n (decide (x ≤ y)))
  | .gt a b => do let x ← aeval c a; let y ← aeval c b; pure (b2n (decide (x > y)))
  | .ge a b => do let x ← aeval c a; let y ← aeval c b; pure (b2n (decide (x ≥ y)))
  | .lor a b => do let x ← aeval c a; let y ← aeval c b; pure (b2n (x != 0 || y != 0))
  | .land a b => do let x ← aeval c a; let y ← aeval c b; pure (b2n (x != 0 && y != 0))
  | .lnot a => do let x ← aeval c a; pure (b2n (x == 0))
  | .cond g a b => do let x ← aeval c g; let y ← aeval c a; let z ← aeval c b; pure (if x != 0 then y else z)

def chk (prog : List MStep) : Nat → Nat → Phase → Consts → Bool
  | 0, _, _, _ => false
  | fuel + 1, pc, ph, c =>
    match prog[pc]? with
    | none => false
    | some (.set r e) => chk prog fuel (pc + 1) ph (c.set r (aeval c e))
    | some (.read r f) =>
      match f with
      | .shared => chk prog fuel (pc + 1) ph (c.set r (some 1))
      | .maxPages => chk prog fuel (pc + 1) ph (c.set r none)
      | _ => ph == .held && chk prog fuel (pc + 1) ph (c.set r none)
    | some (.write f _) =>
      match f with
      | .pages | .size => ph == .held && chk prog fuel (pc + 1) ph c
      | _ => false
    | some (.brUnless e k) =>
      match aeval c e with
      | some v => if v ≠ 0 then chk prog fuel (pc + 1) ph c else chk prog fuel (pc + 1 + k) ph c
      | none => chk prog fuel (pc + 1) ph c && chk prog fuel (pc + 1 + k) ph c
    | some (.ret _) => ph != .held
    | some .lock => ph == .pre && chk prog fuel (pc + 1) .held c
    | some .unlock => ph == .held && chk prog fuel (pc + 1) .post c
    | _ => false

/-- Path exploration for a SHARED memory with the same constant propagation as `chk`, tracking only the lock phase:
    accepts iff no path reaches a step for which `bad phase step` holds (and every path ends in `ret`/`abort`). -/
def chkP (bad : Phase → MStep → Bool) (prog : List MStep) : Nat → Nat → Phase → Consts → Bool
  | 0, _, _, _ => false
  | fuel + 1, pc, ph, c =>
    match prog[pc]? with
    | none => false
    | some st =>
      !bad ph st &&
      match st with
      | .set r e => chkP bad prog fuel (pc + 1) ph (c.set r (aeval c e))
      | .read r f => chkP bad prog fuel (pc + 1) ph (c.set r (if f = .shared then some 1 else none))
      | .brUnless e k =>
        match aeval c e with
        | some v => if v ≠ 0 then chkP bad prog fuel (pc + 1) ph c else chkP bad prog fuel (pc + 1 + k) ph c
        | none => chkP bad prog fuel (pc + 1) ph c && chkP bad prog fuel (pc + 1 + k) ph c
      | .ret _ => true
      | .abort => true
      | .lock => chkP bad prog fuel (pc + 1) .held c
      | .unlock => chkP bad prog fuel (pc + 1) .post c
      | .realloc r _ _ => chkP bad prog fuel (pc + 1) ph (c.set r none)
      | .write _ _ => chkP bad prog fuel (pc + 1) ph c
      | .memset _ _ _ _ => chkP bad prog fuel (pc + 1) ph c

/-- on no path of a shared memory is `memory->data` stored (or the block reallocated): loads and stores of other
    threads read `data` WITHOUT the lock, which is race-free only because nobody ever writes it after allocation -/
def SharedNeverWritesData (prog : List MStep) : Bool :=
  chkP (fun _ st => match st with | .write .data _ => true | .realloc _ _ _ => true | _ => false)
    prog (prog.length + 1) 0 .pre []

/-- on no path of a shared memory does a `memset` of memory contents run outside the critical section (in
    particular not AFTER the unlock that publishes the new size: a store of another thread into a page it can
    already see would be erased) -/
def ZeroFillInsideCS (prog : List MStep) : Bool :=
  chkP (fun ph st => match st with | .memset _ _ _ _ => ph != .held | _ => false) prog (prog.length + 1) 0 .pre []

/-- the discipline under which concurrent grows are atomic -/
def ReadsUnderLock (prog : List MStep) : Bool := chk prog (prog.length + 1) 0 .pre []

/-- an operation that only reads the descriptor and never touches the mutex -/
def ReadOnly (prog : List MStep) : Bool :=
  prog.all fun
    | .set _ _ | .read _ _ | .brUnless _ _ | .ret _ => true
    | _ => false

/-- The proposed repair of wasmMemoryGrow (`REPAIRED_GROW` in tools/harness/grow_sched.py) exactly as
    gen_memfuncs.py flattens it (the C18 check re-derives this list from the patched header on every run and
    compares): lock first; read `pages`, add, compare, write inside the critical section; wrap check
    (`newPages >= oldPages`) instead of the `newPages == 0` early return; single exit through `unlock`.
    registers: 0 delta, 1 doRealloc, 2 result, 3 %shared, 4 oldPages, 5 newPages, 6 %maxPages, 7 newSize,
    8 failed, 9 oldSize, 10 deltaSize, 11 %data, 12 newData, 13 %shared -/
def repairedSteps : List MStep := [
  /-  0 -/ .set 1 (.lit 1),
  /-  1 -/ .set 2 (.lit 4294967295),
  /-  2 -/ .read 3 .shared,
  /-  3 -/ .brUnless (.reg 3) 2,
  /-  4 -/ .set 1 (.lit 0),
  /-  5 -/ .lock,
  /-  6 -/ .read 4 .pages,
  /-  7 -/ .set 5 (.add (.reg 4) (.reg 0)),
  /-  8 -/ .read 6 .maxPages,
  /-  9 -/ .brUnless (.land (.ge (.reg 5) (.reg 4)) (.le (.reg 5) (.reg 6))) 19,
  /- 10 -/ .brUnless (.eq (.reg 5) (.reg 4)) 2,
  /- 11 -/ .set 2 (.reg 4),
  /- 12 -/ .brUnless (.lit 0) 16,
  /- 13 -/ .set 7 (.mul (.reg 5) (.lit 65536)),
  /- 14 -/ .set 8 (.lit 0),
  /- 15 -/ .brUnless (.reg 1) 9,
  /- 16 -/ .set 9 (.mul (.reg 4) (.lit 65536)),
  /- 17 -/ .set 10 (.mul (.reg 0) (.lit 65536)),
  /- 18 -/ .read 11 .data,
  /- 19 -/ .realloc 12 (.reg 11) (.reg 7),
  /- 20 -/ .brUnless (.eq (.reg 12) (.lit 0)) 2,
  /- 21 -/ .set 8 (.lit 1),
  /- 22 -/ .brUnless (.lit 0) 2,
  /- 23 -/ .memset 12 (.reg 9) (.lit 0) (.reg 10),
  /- 24 -/ .write .data (.reg 12),
  /- 25 -/ .brUnless (.lnot (.reg 8)) 3,
  /- 26 -/ .write .pages (.reg 5),
  /- 27 -/ .write .size (.reg 7),
  /- 28 -/ .set 2 (.reg 4),
  /- 29 -/ .read 13 .shared,
  /- 30 -/ .brUnless (.reg 13) 1,
  /- 31 -/ .unlock,
  /- 32 -/ .ret (.reg 2)
]

/-! ### vocabulary of the linearizability statement -/

def Ev.tid : Ev → Tid
  | .inv t | .acq t | .rel t => t
  | .res t _ => t

/-- in a newest-first list, `x` lies strictly behind (= is older than) an occurrence of `y` -/
def Older {α : Type} (l : List α) (x y : α) : Prop := ∃ l1 l2, l = l1 ++ y :: l2 ∧ x ∈ l2

/-- pages after the grows of `order` (newest first) have been applied one after the other to `p0` -/
def replay (cfg : Cfg) (p0 : Nat) : List Tid → Nat
  | [] => p0
  | t :: older => (specGrow cfg.imm (replay cfg p0 older) (cfg.arg t)).2

/-- the value the specification returns to `t` when it runs right after `older` -/
def retOf (cfg : Cfg) (p0 : Nat) (older : List Tid) (t : Tid) : Nat :=
  (specGrow cfg.imm (replay cfg p0 older) (cfg.arg t)).1

/-- alone, the operation behaves as the specification of memory.grow says (any start state) -/
def SeqCorrect (imm : Imm) (prog : List MStep) (delta : Nat) : Prop :=
  ∀ m : Mem, m.pages ≤ imm.maxPages →
    ∃ m', Final imm prog m 0 (initRegs delta) (m', (specGrow imm m.pages delta).1) ∧
      m'.pages = (specGrow imm m.pages delta).2 ∧
      (m' = m ∨ m'.size = m'.pages * 65536 % 4294967296)

/-- `size` is what wasmMemoryAllocate stored, or `pages * 65536` in `U32` arithmetic -/
def SizeInv (m0 m : Mem) : Prop := m.size = m0.size ∨ m.size = m.pages * 65536 % 4294967296

/-- hypotheses on a configuration: a shared memory; every grow obeys the lock discipline and is
    sequentially correct; every other operation only reads -/
structure WF (cfg : Cfg) (m0 : Mem) : Prop where
  shared : cfg.imm.shared = true
  init_le : m0.pages ≤ cfg.imm.maxPages
  disc : ∀ t, cfg.isGrow t = true → ReadsUnderLock (cfg.prog t) = true
  seq : ∀ t, cfg.isGrow t = true → SeqCorrect cfg.imm (cfg.prog t) (cfg.arg t)
  reader : ∀ t, cfg.isGrow t = false → ReadOnly (cfg.prog t) = true

/-- Linearizability of the grows of a state (observed through its trace): there is a total order of the
    grows that took effect — duplicate-free, containing every completed grow and only invoked ones,
    consistent with real time (a grow that returned before another was invoked comes first) — such that
    every returned value is the one the specification of memory.grow gives when the grows are applied one
    after the other in that order, and (whenever no grow is inside its critical section) the descriptor's
    page count is the result of that sequential application.  `order` is newest-first. -/
def Linearizable (cfg : Cfg) (m0 : Mem) (s : Sh × (Tid → Loc)) : Prop :=
  ∃ order : List Tid,
    order.Nodup ∧
    (∀ t v, cfg.isGrow t = true → Ev.res t v ∈ s.1.trace → t ∈ order) ∧
    (∀ t, t ∈ order → cfg.isGrow t = true ∧ Ev.inv t ∈ s.1.trace) ∧
    (∀ a b va, cfg.isGrow a = true → Older s.1.trace (Ev.res a va) (Ev.inv b) → b ∈ order → Older order a b) ∧
    (∀ t v newer older, cfg.isGrow t = true → order = newer ++ t :: older → Ev.res t v ∈ s.1.trace →
      v = retOf cfg m0.pages older t) ∧
    (s.1.mutex = none → s.1.mem.pages = replay cfg m0.pages order)

/-! ### data races on the descriptor -/

/-- the descriptor access a thread is about to perform: (field, is-write) -/
def nextAccess (cfg : Cfg) (t : Tid) (l : Loc) : Option (MFld × Bool) :=
  match l.st with
  | .run =>
    match (cfg.prog t)[l.pc]? with
    | some (.read _ f) => some (f, false)
    | some (.write f _) => some (f, true)
    | _ => none
  | _ => none

/-- Two threads are simultaneously about to perform conflicting plain accesses to the same field (at least
    one a write).  Both steps are enabled, so nothing — in particular not the mutex — orders them. -/
def Race (cfg : Cfg) (s : Sh × (Tid → Loc)) : Prop :=
  ∃ t u f w1 w2, t ≠ u ∧ nextAccess cfg t (s.2 t) = some (f, w1) ∧ nextAccess cfg u (s.2 u) = some (f, w2) ∧
    (w1 = true ∨ w2 = true)

/-- the operation never reads `pages`/`size` (true of loads/stores, false of memory.size) -/
def NoSizeRead (prog : List MStep) : Bool :=
  prog.all fun
    | .read _ .pages | .read _ .size => false
    | _ => true

/-! ### executable helpers (driver, `decide`d witnesses) -/

/-- Run thread `t` for one *segment*, the unit the real-side scheduler (tools/harness/grow_sched.c) hands
    out: up to (not including) the acquisition of the mutex, or — when parked there — from the acquisition
    through the release, or to the end of the operation.  Returns the state and whether the thread turned
    out to be blocked on the mutex. -/
def segment (cfg : Cfg) (t : Tid) : Nat → Bool → Sh × (Tid → Loc) → (Sh × (Tid → Loc)) × Bool
  | 0, _, s => (s, false)
  | fuel + 1, first, s =>
    let l := s.2 t
    match l.st with
    | .idle =>
      match sched1 (sys cfg) s t 0 with
      | some s' => segment cfg t fuel false s'
      | none => (s, false)
    | .run =>
      match act cfg.imm (cfg.prog t) s.1.mem l.pc l.regs with
      | .lock _ =>
        if first then
          match sched1 (sys cfg) s t 0 with
          | some s' => segment cfg t fuel false s'
          | none => (s, true)
        else (s, false)
      | .unlock _ | .ret _ | .abort =>
        match sched1 (sys cfg) s t 0 with
        | some s' => (s', false)
        | none => (s, false)
      | .cont _ _ _ =>
        match sched1 (sys cfg) s t 0 with
        | some s' => segment cfg t fuel false s'
        | none => (s, false)
      | .stuck => (s, false)
    | _ => (s, false)

/-- run a schedule of segments; collects the threads found blocked -/
def runSegments (cfg : Cfg) : List Tid → Sh × (Tid → Loc) → List Tid → (Sh × (Tid → Loc)) × List Tid
  | [], s, b => (s, b.reverse)
  | t :: rest, s, b =>
    let r := segment cfg t 200 true s
    runSegments cfg rest r.1 (if r.2 && !b.contains t then t :: b else b)

/-- `n` consecutive moves of thread `t` (first enabled successor each time) -/
def moves (t : Tid) (n : Nat) : List (Tid × Nat) := List.replicate n (t, 0)

end W2c2Verif.Model.Grow
