/-
  Model.Emit — hand model of w2c2's single-pass function-body translator
  (`wasmCWriteFunctionCode` and its emitters in c.c, `wasmCWriteFunctionBody`,
  `wasmCWriteStackDeclarations`, `wasmCWriteFileLocalsDeclarations`).

  `compileSeq` walks the (structured) body once, tracking exactly what c.c tracks: the type
  stack (operand `k` of type `t` lives in C variable `s<t><k>`), the label stack (branches become
  `goto L<n>` after copying the carried value into the label's result slot), the set of declared
  slot variables, and dead code (after br / br_table / return / unreachable nothing is emitted
  until the enclosing construct ends).  The numeric instructions are dispatched through the
  table regenerated from c.c (`Gen.emitTable`); load/store names through `Gen.loadTable`.
  The model is STRICT: where c.c relies on the module being valid (operand types, block results,
  never popping below the enclosing block) the model checks that assumption and fails otherwise;
  the real translator's behaviour on invalid modules is outside every property.
  Output is the structured target language `MiniC`, which `Model.Render` prints token by token
  (tied to the real w2c2 by the `emit-tokens` correspondence) and `Model.MiniCSem` executes.
-/
import W2c2Verif.Spec.Wasm
import W2c2Verif.Model.EmitNumeric
import W2c2Verif.Gen.AtomicEmit

namespace W2c2Verif.Model
open W2c2Verif Gen

structure Slot where
  ty : VT
  idx : Nat
  deriving DecidableEq, Repr, Inhabited

/-- instructions as the emitter sees them: numeric and memory instructions carry the name of
    w2c2's opcode enumerator (joined with the spec mnemonic by opcode byte in the harness) -/
inductive EInstr
  | nop | unreachable | drop | select
  | const (t : VT) (bits : Nat)
  | numeric (opcode : String)
  | localGet (i : Nat) | localSet (i : Nat) | localTee (i : Nat)
  | globalGet (i : Nat) | globalSet (i : Nat)
  | load (opcode : String) (offset : Nat) | store (opcode : String) (offset : Nat)
  | memorySize | memoryGrow | memoryCopy | memoryFill | memoryInit (seg : Nat) | dataDrop (seg : Nat)
  | block (bt : Option VT) (body : List EInstr)
  | loop (bt : Option VT) (body : List EInstr)
  | ite (bt : Option VT) (thn : List EInstr) (els : Option (List EInstr))
  | br (l : Nat) | brIf (l : Nat) | brTable (ls : List Nat) (d : Nat) | ret
  | call (f : Nat) | callIndirect (ty : Nat) (table : Nat)
  /-- threads proposal: atomic load / store / read-modify-write / compare-exchange, fence, notify, wait32/wait64 -/
  | atomicLoad (opcode : String) (offset : Nat) | atomicStore (opcode : String) (offset : Nat)
  | atomicRmw (opcode : String) (offset : Nat) | atomicCmpxchg (opcode : String) (offset : Nat)
  | atomicFence | atomicNotify (offset : Nat) | atomicWait (is64 : Bool) (offset : Nat)
  deriving Repr, Inhabited

/-- target statements (one constructor per emitter shape) -/
inductive MStmtC
  | num (opcode : String) (k : EmitKind) (t1 : VT) (i1 : Nat) (t0 : VT) (i0 : Nat)
  | const (dst : Slot) (bits : Nat)
  | localGet (dst : Slot) (l : Nat)
  | localSet (l : Nat) (src : Slot)
  | globalGet (dst : Slot) (g : Nat)
  | globalSet (g : Nat) (src : Slot)
  | select (dst c a b : Slot)                              -- dst = c ? a : b
  | load (dst : Slot) (fn : String) (addr : Slot) (off : Nat)
  | store (fn : String) (addr : Slot) (off : Nat) (v : Slot)
  | memSize (dst : Slot)
  | memGrow (dst src : Slot)
  | memCopy (d s n : Slot)
  | memFill (d v n : Slot)
  | memInit (seg : Nat) (d s n : Slot)
  | call (res : Option Slot) (f : Nat) (args : List Slot)
  | callIndirect (res : Option Slot) (ty : Nat) (tbl : Nat) (idx : Slot) (args : List Slot)
  | goto (copy : Option (Slot × Slot)) (L : Nat)            -- `dst=src;goto L;`
  | ifGoto (c : Slot) (copy : Option (Slot × Slot)) (L : Nat)
  | switchGoto (c : Slot) (cases : List (Option (Slot × Slot) × Nat)) (dflt : Option (Slot × Slot) × Nat)
  | block (body : List MStmtC) (L : Nat)                    -- `{body} L:;`   (braces only when pretty)
  | loop (L : Nat) (body : List MStmtC)                     -- `L:; {body}`
  | ifElse (c : Slot) (thn : List MStmtC) (els : Option (List MStmtC)) (L : Nat)
  | unreachable
  /-- `[dst =] fn(mem, (U64)addr+offU, args…);` — atomic load (no operand), store (one, no result), read-modify-write (one),
      compare-exchange (two) -/
  | rmw (dst : Option Slot) (fn : String) (addr : Slot) (off : Nat) (args : List Slot)
  | fence                                                   -- `atomic_fence();`
  | notify (dst : Slot) (addr : Slot) (off : Nat) (count : Slot)          -- `dst = wasmMemoryAtomicNotify(mem, addr+offU, count);`
  | wait (dst : Slot) (addr : Slot) (off : Nat) (expected timeout : Slot) (is64 : Bool)
  deriving Repr, Inhabited

structure Label where
  index : Nat
  height : Nat
  type : Option VT
  deriving Repr, Inhabited

/-- what the emitter needs to know about the module -/
structure Ctx where
  types : List Wasm.FuncType := []
  funcTypeIdx : List Nat := []           -- type index of every function (imports first)
  globalTypes : List VT := []            -- type of every global (imports first)
  localTypes : List VT := []             -- parameters then declared locals of the current function
  deriving Repr, Inhabited

def vtOfW : Wasm.VT → VT | .i32 => .i32 | .i64 => .i64 | .f32 => .f32 | .f64 => .f64

structure St where
  stack : List VT := []                  -- bottom first: operand k has type stack[k]
  decls : List Slot := []                -- slot variables that must be declared (set semantics)
  declLen : Nat := 0                     -- `stackDeclarations->length`
  labels : List Label := []              -- bottom first
  next : Nat := 0                        -- next label index
  deriving Repr, Inhabited

def St.declare (s : St) (sl : Slot) : St :=
  { s with decls := if s.decls.contains sl then s.decls else s.decls ++ [sl], declLen := max s.declLen (sl.idx + 1) }

def St.height (s : St) : Nat := s.stack.length
/-- `wasmTypeStackGetTopIndex(typeStack, k)` and the type stored there -/
def St.top (s : St) (k : Nat) : Option Slot :=
  if k < s.stack.length then
    let i := s.stack.length - 1 - k
    (s.stack[i]?).map fun t => ⟨t, i⟩
  else none
def St.push (s : St) (t : VT) : St := { s with stack := s.stack ++ [t] }
def St.drop (s : St) (n : Nat) : St := { s with stack := s.stack.take (s.stack.length - n) }
/-- height of the innermost label: valid code never pops below it -/
def St.base (s : St) : Nat := match s.labels.getLast? with | some l => l.height | none => 0
/-- label `l` counted from the innermost -/
def St.label (s : St) (l : Nat) : Option Label :=
  if l < s.labels.length then s.labels[s.labels.length - 1 - l]? else none

/-- `wasmCWriteGoto`: copy of the carried value when the label has a result type and the value
    is not already in the label's slot -/
def gotoCopy (s : St) (lab : Label) : Option (St × Option (Slot × Slot)) :=
  match lab.type with
  | none => some (s, none)
  | some rt =>
    match s.top 0 with
    | none => none
    | some src =>
      if src.ty ≠ rt ∨ src.idx < lab.height then none      -- invalid module: carried value has another type
      else if lab.height ≠ src.idx then
        some (s.declare ⟨rt, lab.height⟩, some (⟨rt, lab.height⟩, src))
      else some (s, none)

/-- end of a structured instruction: the result type is pushed and its slot declared -/
def St.endBlock (sB : St) (h : Nat) (bt : Option VT) (labels : List Label) : St :=
  let s' : St := { sB with stack := (sB.stack.take h) ++ bt.toList, labels := labels }
  match bt with
  | some t => s'.declare ⟨t, h⟩
  | none => s'

abbrev Err := String

def vtOfName : String → Option VT | "i32" => some .i32 | "i64" => some .i64 | "f32" => some .f32 | "f64" => some .f64 | _ => none

/-- the emitter ("load" / "store" / "rmw" / "cmpxchg"), runtime function and result type the translator dispatches an atomic
    opcode to (`Gen.atomicEmit`, regenerated from c.c) -/
def atomicFn (opcode : String) : Option (String × String × Option VT) :=
  (Gen.atomicEmit.find? fun r => r.2.2.1 == opcode).map fun r => (r.2.1, r.2.2.2.1, vtOfName r.2.2.2.2.2)

/-- … restricted to one emitter -/
def atomicFnK (kind opcode : String) : Option (String × Option VT) :=
  match atomicFn opcode with
  | some (k, fn, rt) => if k = kind then some (fn, rt) else none
  | none => none

/-- one `case` of the `switch` a br_table becomes -/
def brTableStep (acc : Except Err (St × List (Option (Slot × Slot) × Nat))) (l : Nat) :
    Except Err (St × List (Option (Slot × Slot) × Nat)) := do
  let (sa, cs) ← acc
  let some lab := sa.label l | .error "br_table: label"
  let some (sb, cp) := gotoCopy sa lab | .error "br_table: stack"
  .ok (sb, cs ++ [(cp, lab.index)])

mutual
/-- returns (state, statements, dead?) -/
def compileSeq (ctx : Ctx) (s : St) : List EInstr → Except Err (St × List MStmtC × Bool)
  | [] => .ok (s, [], false)
  | i :: rest => do
    let (s1, out1, dead) ← compileInstr ctx s i
    if dead then
      -- everything up to the end of this sequence is skipped (writer->ignore)
      .ok (s1, out1, true)
    else do
      let (s2, out2, dead2) ← compileSeq ctx s1 rest
      .ok (s2, out1 ++ out2, dead2)

def compileInstr (ctx : Ctx) (s : St) : EInstr → Except Err (St × List MStmtC × Bool)
  | .nop => .ok (s, [], false)
  | .unreachable => .ok (s, [.unreachable], true)
  | .drop =>
    if s.height < s.base + 1 then .error "drop: pops below the enclosing label (invalid module)" else
    .ok (s.drop 1, [], false)
  | .select => do
    let some s0 := s.top 0 | .error "select: stack"
    let some s1 := s.top 1 | .error "select: stack"
    let some s2 := s.top 2 | .error "select: stack"
    let rt := s1.ty
    let dst : Slot := ⟨rt, s2.idx⟩
    if s0.ty ≠ .i32 ∨ s2.ty ≠ s1.ty then .error "select: operand types (invalid module)" else
    if s.height - 3 < s.base then .error "select: pops below the enclosing label (invalid module)" else
    .ok (((s.declare dst).drop 3).push rt, [.select dst s0 s2 s1], false)
  | .const t bits =>
    let s' := s.push t
    let dst : Slot := ⟨t, s'.stack.length - 1⟩
    .ok (s'.declare dst, [.const dst bits], false)
  | .numeric opcode => do
    let some k := lookupAssoc Gen.emitTable opcode | .error s!"unsupported opcode {opcode}"
    let some s0 := s.top 0 | .error "numeric: stack"
    match k with
    | .unary rt _ _ =>
      if s.height < s.base + 1 then .error "numeric: pops below the enclosing label (invalid module)" else
      .ok (((s.declare ⟨rt, s0.idx⟩).drop 1).push rt, [.num opcode k s0.ty s0.idx s0.ty s0.idx], false)
    | .infix rt _ _ | .prefixBinary rt _ => do
      let some s1 := s.top 1 | .error "numeric: stack"
      if s.height < s.base + 2 then .error "numeric: pops below the enclosing label (invalid module)" else
      .ok (((s.declare ⟨rt, s1.idx⟩).drop 2).push rt, [.num opcode k s1.ty s1.idx s0.ty s0.idx], false)
    | .signedInfix _ => do
      let some s1 := s.top 1 | .error "numeric: stack"
      let some rt := lookupVT Gen.opcodeResultType opcode | .error "no result type"
      if s.height < s.base + 2 then .error "numeric: pops below the enclosing label (invalid module)" else
      .ok (((s.declare ⟨rt, s1.idx⟩).drop 2).push rt, [.num opcode k s1.ty s1.idx s0.ty s0.idx], false)
    | .shl | .shrS | .shrU => do
      let some s1 := s.top 1 | .error "numeric: stack"
      if s.height < s.base + 2 then .error "numeric: pops below the enclosing label (invalid module)" else
      .ok ((s.declare s1).drop 1, [.num opcode k s1.ty s1.idx s0.ty s0.idx], false)
  | .localGet i => do
    let some t := ctx.localTypes[i]? | .error "local index"
    let s' := s.push t
    let dst : Slot := ⟨t, s'.stack.length - 1⟩
    .ok (s'.declare dst, [.localGet dst i], false)
  | .localSet i => do
    let some t := ctx.localTypes[i]? | .error "local index"
    let some s0 := s.top 0 | .error "local.set: stack"
    if s0.ty ≠ t ∨ s.height < s.base + 1 then .error "local.set: operand type / pops below label (invalid module)" else
    .ok ((s.declare ⟨t, s0.idx⟩).drop 1, [.localSet i ⟨t, s0.idx⟩], false)
  | .localTee i => do
    let some t := ctx.localTypes[i]? | .error "local index"
    let some s0 := s.top 0 | .error "local.tee: stack"
    if s0.ty ≠ t ∨ s.height < s.base + 1 then .error "local.tee: operand type (invalid module)" else
    .ok (s.declare ⟨t, s0.idx⟩, [.localSet i ⟨t, s0.idx⟩], false)
  | .globalGet g => do
    let some t := ctx.globalTypes[g]? | .error "global index"
    let s' := s.push t
    let dst : Slot := ⟨t, s'.stack.length - 1⟩
    .ok (s'.declare dst, [.globalGet dst g], false)
  | .globalSet g => do
    let some t := ctx.globalTypes[g]? | .error "global index"
    let some s0 := s.top 0 | .error "global.set: stack"
    if s0.ty ≠ t ∨ s.height < s.base + 1 then .error "global.set: operand type / pops below the enclosing label (invalid module)" else
    .ok ((s.declare ⟨t, s0.idx⟩).drop 1, [.globalSet g ⟨t, s0.idx⟩], false)
  | .load opcode off => do
    let some (fn, rt) := lookupAssoc Gen.loadTable opcode | .error s!"unsupported load {opcode}"
    let some s0 := s.top 0 | .error "load: stack"
    if s.height < s.base + 1 then .error "load: pops below the enclosing label (invalid module)" else
    let dst : Slot := ⟨rt, s0.idx⟩
    .ok (((s.declare dst).drop 1).push rt, [.load dst fn s0 off], false)
  | .store opcode off => do
    let some fn := lookupAssoc Gen.storeTable opcode | .error s!"unsupported store {opcode}"
    let some s0 := s.top 0 | .error "store: stack"
    let some s1 := s.top 1 | .error "store: stack"
    if s.height < s.base + 2 then .error "store: pops below the enclosing label (invalid module)" else
    .ok (s.drop 2, [.store fn s1 off s0], false)
  | .memorySize =>
    let s' := s.push .i32
    let dst : Slot := ⟨.i32, s'.stack.length - 1⟩
    .ok (s'.declare dst, [.memSize dst], false)
  | .memoryGrow => do
    let some s0 := s.top 0 | .error "memory.grow: stack"
    if s0.ty ≠ .i32 ∨ s.height < s.base + 1 then .error "memory.grow: operand type / pops below the enclosing label (invalid module)" else
    .ok (s.declare ⟨.i32, s0.idx⟩, [.memGrow ⟨.i32, s0.idx⟩ s0], false)
  | .memoryCopy => do
    let some s0 := s.top 0 | .error "memory.copy: stack"
    let some s1 := s.top 1 | .error "memory.copy: stack"
    let some s2 := s.top 2 | .error "memory.copy: stack"
    if s.height < s.base + 3 then .error "memory.copy: pops below the enclosing label (invalid module)" else
    .ok (s.drop 3, [.memCopy s2 s1 s0], false)
  | .memoryFill => do
    let some s0 := s.top 0 | .error "memory.fill: stack"
    let some s1 := s.top 1 | .error "memory.fill: stack"
    let some s2 := s.top 2 | .error "memory.fill: stack"
    if s.height < s.base + 3 then .error "memory.fill: pops below the enclosing label (invalid module)" else
    .ok (s.drop 3, [.memFill s2 s1 s0], false)
  | .memoryInit seg => do
    let some s0 := s.top 0 | .error "memory.init: stack"
    let some s1 := s.top 1 | .error "memory.init: stack"
    let some s2 := s.top 2 | .error "memory.init: stack"
    if s.height < s.base + 3 then .error "memory.init: pops below the enclosing label (invalid module)" else
    .ok (s.drop 3, [.memInit seg s2 s1 s0], false)
  | .dataDrop _ => .ok (s, [], false)          -- decoded and reported as unimplemented; nothing emitted
  | .atomicLoad opcode off => do
    let some (fn, some rt) := atomicFnK "load" opcode | .error s!"unsupported atomic load {opcode}"
    let some s0 := s.top 0 | .error "atomic load: stack"
    if s.height < s.base + 1 then .error "atomic load: pops below the enclosing label (invalid module)" else
    let dst : Slot := ⟨rt, s0.idx⟩
    .ok (((s.declare dst).drop 1).push rt, [.rmw (some dst) fn s0 off []], false)
  | .atomicStore opcode off => do
    let some (fn, none) := atomicFnK "store" opcode | .error s!"unsupported atomic store {opcode}"
    let some s0 := s.top 0 | .error "atomic store: stack"
    let some s1 := s.top 1 | .error "atomic store: stack"
    if s.height < s.base + 2 then .error "atomic store: pops below the enclosing label (invalid module)" else
    .ok (s.drop 2, [.rmw none fn s1 off [s0]], false)
  | .atomicRmw opcode off => do
    let some (fn, some rt) := atomicFnK "rmw" opcode | .error s!"unsupported atomic rmw {opcode}"
    let some s0 := s.top 0 | .error "atomic rmw: stack"
    let some s1 := s.top 1 | .error "atomic rmw: stack"
    if s.height < s.base + 2 then .error "atomic rmw: pops below the enclosing label (invalid module)" else
    let dst : Slot := ⟨rt, s1.idx⟩
    .ok (((s.declare dst).drop 2).push rt, [.rmw (some dst) fn s1 off [s0]], false)
  | .atomicCmpxchg opcode off => do
    let some (fn, some rt) := atomicFnK "cmpxchg" opcode | .error s!"unsupported atomic cmpxchg {opcode}"
    let some s0 := s.top 0 | .error "atomic cmpxchg: stack"
    let some s1 := s.top 1 | .error "atomic cmpxchg: stack"
    let some s2 := s.top 2 | .error "atomic cmpxchg: stack"
    if s.height < s.base + 3 then .error "atomic cmpxchg: pops below the enclosing label (invalid module)" else
    let dst : Slot := ⟨rt, s2.idx⟩
    .ok (((s.declare dst).drop 3).push rt, [.rmw (some dst) fn s2 off [s1, s0]], false)
  | .atomicFence => .ok (s, [.fence], false)
  | .atomicNotify off => do
    let some s0 := s.top 0 | .error "atomic notify: stack"
    let some s1 := s.top 1 | .error "atomic notify: stack"
    if s.height < s.base + 2 then .error "atomic notify: pops below the enclosing label (invalid module)" else
    let dst : Slot := ⟨.i32, s1.idx⟩
    .ok (((s.declare dst).drop 2).push .i32, [.notify dst s1 off s0], false)
  | .atomicWait is64 off => do
    let some s0 := s.top 0 | .error "atomic wait: stack"
    let some s1 := s.top 1 | .error "atomic wait: stack"
    let some s2 := s.top 2 | .error "atomic wait: stack"
    if s.height < s.base + 3 then .error "atomic wait: pops below the enclosing label (invalid module)" else
    let dst : Slot := ⟨.i32, s2.idx⟩
    .ok (((s.declare dst).drop 3).push .i32, [.wait dst s2 off s1 s0 is64], false)
  | .block bt body => do
    let h := s.height
    let lab : Label := ⟨s.next, h, bt⟩
    let sIn := { s with labels := s.labels ++ [lab], next := s.next + 1 }
    let (sB, outB, deadB) ← compileSeq ctx sIn body
    if !deadB && sB.stack ≠ (s.stack ++ bt.toList) then .error "block: body does not leave the block type (invalid module)" else
    let sEnd := sB.endBlock h bt s.labels
    .ok (sEnd, [.block outB lab.index], false)
  | .loop bt body => do
    let h := s.height
    let lab : Label := ⟨s.next, h, none⟩       -- NOTE in c.c: the loop label carries no result type
    let sIn := { s with labels := s.labels ++ [lab], next := s.next + 1 }
    let (sB, outB, deadB) ← compileSeq ctx sIn body
    if !deadB && sB.stack ≠ (s.stack ++ bt.toList) then .error "loop: body does not leave the block type (invalid module)" else
    let sEnd := sB.endBlock h bt s.labels
    .ok (sEnd, [.loop lab.index outB], false)
  | .ite bt thn els => do
    let some c := s.top 0 | .error "if: stack"
    if c.ty ≠ .i32 ∨ s.height < s.base + 1 then .error "if: condition type / pops below label (invalid module)" else
    let s0 := s.drop 1
    let h := s0.height
    let lab : Label := ⟨s0.next, h, bt⟩
    let sIn := { s0 with labels := s0.labels ++ [lab], next := s0.next + 1 }
    let (sT, outT, deadT) ← compileSeq ctx sIn thn
    if !deadT && sT.stack ≠ (s0.stack ++ bt.toList) then .error "if: then-branch does not leave the block type (invalid module)" else
    match els with
    | none =>
      if bt.isSome then .error "if: result type without else (invalid module)" else
      let sEnd := sT.endBlock h bt s.labels
      .ok (sEnd, [.ifElse c outT none lab.index], false)
    | some els => do
      let sE0 := { sT with stack := sT.stack.take h }
      let (sE, outE, deadE) ← compileSeq ctx sE0 els
      if !deadE && sE.stack ≠ (s0.stack ++ bt.toList) then .error "if: else-branch does not leave the block type (invalid module)" else
      let sEnd := sE.endBlock h bt s.labels
      .ok (sEnd, [.ifElse c outT (some outE) lab.index], false)
  | .br l => do
    let some lab := s.label l | .error "br: label"
    let some (s', cp) := gotoCopy s lab | .error "br: stack"
    .ok (s', [.goto cp lab.index], true)
  | .brIf l => do
    let some c := s.top 0 | .error "br_if: stack"
    if c.ty ≠ .i32 ∨ s.height < s.base + 1 then .error "br_if: condition type / pops below label (invalid module)" else
    let s0 := s.drop 1
    let some lab := s0.label l | .error "br_if: label"
    let some (s', cp) := gotoCopy s0 lab | .error "br_if: stack"
    .ok (s', [.ifGoto c cp lab.index], false)
  | .brTable ls d => do
    let some c := s.top 0 | .error "br_table: stack"
    if c.ty ≠ .i32 ∨ s.height < s.base + 1 then .error "br_table: condition type / pops below label (invalid module)" else
    let s0 := s.drop 1
    let (s1, cases) ← ls.foldl brTableStep (.ok (s0, []))
    let some labD := s1.label d | .error "br_table: label"
    let some (s2, cpD) := gotoCopy s1 labD | .error "br_table: stack"
    .ok (s2, [.switchGoto c cases (cpD, labD.index)], true)
  | .ret => do
    let some lab := s.labels[0]? | .error "return: label"
    let some (s', cp) := gotoCopy s lab | .error "return: stack"
    .ok (s', [.goto cp lab.index], true)
  | .call f => do
    let some ti := ctx.funcTypeIdx[f]? | .error "call: function index"
    let some ft := ctx.types[ti]? | .error "call: type index"
    let n := ft.params.length
    if s.height < s.base + n then .error "call: stack / pops below the enclosing label (invalid module)" else
    let base := s.height - n
    if s.stack.drop base ≠ ft.params.map vtOfW then .error "call: argument types (invalid module)" else
    let args : List Slot := (ft.params.zipIdx).map fun (t, k) => ⟨vtOfW t, base + k⟩
    match ft.results with
    | [] => .ok (s.drop n, [.call none f args], false)
    | [r] =>
      let dst : Slot := ⟨vtOfW r, base⟩
      .ok (((s.declare dst).drop n).push (vtOfW r), [.call (some dst) f args], false)
    | _ => .error "multiple results"
  | .callIndirect ty tbl => do
    let some ft := ctx.types[ty]? | .error "call_indirect: type index"
    let n := ft.params.length
    let some idx := s.top 0 | .error "call_indirect: stack"
    if s.height < s.base + n + 1 then .error "call_indirect: stack / pops below the enclosing label (invalid module)" else
    let base := s.height - 1 - n
    if (s.stack.drop base).take n ≠ ft.params.map vtOfW ∨ idx.ty ≠ .i32 then .error "call_indirect: argument types (invalid module)" else
    let args : List Slot := (ft.params.zipIdx).map fun (t, k) => ⟨vtOfW t, base + k⟩
    match ft.results with
    | [] => .ok (s.drop (n + 1), [.callIndirect none ty tbl idx args], false)
    | [r] =>
      let dst : Slot := ⟨vtOfW r, base⟩
      .ok (((s.declare dst).drop (n + 1)).push (vtOfW r), [.callIndirect (some dst) ty tbl idx args], false)
    | _ => .error "multiple results"
end

/-- a translated function body -/
structure CFunc where
  paramTypes : List VT
  localTypes : List VT                     -- declared locals (emitted `= 0`)
  result : Option VT
  decls : List Slot
  body : List MStmtC                       -- followed by `L0:;` and the return
  returnsSlot : Bool                       -- `return s<t>0;` emitted?
  deriving Repr, Inhabited

/-- `wasmCWriteFunctionBody` -/
def compileFunc (ctx : Ctx) (params locals : List VT) (result : Option VT) (body : List EInstr) : Except Err CFunc := do
  let s0 : St := { labels := [⟨0, 0, result⟩], next := 1 }
  let ctx' := { ctx with localTypes := params ++ locals }
  let (s1, out, dead) ← compileSeq ctx' s0 body
  if !dead && s1.stack ≠ result.toList then .error "function body does not leave the result type (invalid module)" else
  -- wasmCWriteFunctionReturn: only when some slot was declared; declares s<t>0
  match result with
  | some rt =>
    if s1.declLen > 0 then
      let s2 := s1.declare ⟨rt, 0⟩
      .ok ⟨params, locals, result, s2.decls, out, true⟩
    else .ok ⟨params, locals, result, s1.decls, out, false⟩
  | none => .ok ⟨params, locals, result, s1.decls, out, false⟩

end W2c2Verif.Model
