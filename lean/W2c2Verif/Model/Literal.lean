/-
  Model.Literal — `wasmCWriteLiteral` of c.c: which C literal is written for an i32/i64/f32/f64
  constant, as a `CExpr` whose value `CSem` computes.  The classification constants (exponent /
  sign / significand masks, negative-zero pattern) come from `Gen.Literals`, i.e. from the
  current source.

  The finite-float branch prints a decimal (`%.9g` / `%.17g`) that the C compiler parses as a
  `double` literal; printing and parsing are library/compiler functions outside w2c2, entered
  here as the parameter `DecEnv` (what `sprintf` then the compiler's literal parser yield, as a
  double bit pattern).
-/
import W2c2Verif.CSem.Defs
import W2c2Verif.Gen.Literals
import W2c2Verif.Gen.EmitTable

namespace W2c2Verif.Model
open W2c2Verif Gen

/-- `dec9 b` / `dec17 b`: the double the compiler reads back from the `%.9g` (of the f32 `b`)
    resp. `%.17g` (of the f64 `b`) text -/
structure DecEnv where
  dec9 : Nat → Nat
  dec17 : Nat → Nat

inductive LitClass | inf (neg : Bool) | nan | negZero | finite
  deriving DecidableEq, Repr

/-- the branch `wasmCWriteLiteral` takes for a float constant with bit pattern `bits` -/
def classify (c : FloatLitCfg) (bits : Nat) : LitClass :=
  if bits &&& c.expMask = c.expCmp then
    (if bits &&& c.sigMask = 0 then .inf (bits &&& c.signMask ≠ 0) else .nan)
  else if bits = c.negZero then .negZero
  else .finite

/-- hexadecimal literal without suffix: `int`, else `unsigned int`, else 64-bit (C99 6.4.4.1) -/
def hexLit (n : Nat) : CExpr :=
  if n < 2 ^ 31 then .lit (.i32 (BitVec.ofNat 32 n))
  else if n < 2 ^ 32 then .lit (.u32 (BitVec.ofNat 32 n))
  else if n < 2 ^ 63 then .lit (.i64 (BitVec.ofNat 64 n))
  else .lit (.u64 (BitVec.ofNat 64 n))

def f32Inf : CExpr := .lit (.f32 0x7f800000#32)      -- `INFINITY` (a `float` constant)

/-- the literal for a value of the given wasm type with the given bit pattern -/
def literal (env : DecEnv) (t : VT) (bits : Nat) : CExpr :=
  match t with
  | .i32 =>
    -- "%i" of the signed value followed by `U`: `-5U` is unary minus applied to `5U`
    let v := BitVec.ofNat 32 bits
    if v.msb then .un .neg (.lit (.u32 (-v))) else .lit (.u32 v)
  | .i64 =>
    let v := BitVec.ofNat 64 bits
    if v.msb then .un .neg (.lit (.u64 (-v))) else .lit (.u64 v)
  | .f32 =>
    match classify f32LitCfg bits with
    | .inf neg => if neg then .un .neg f32Inf else f32Inf
    | .nan => .call1 "f32_reinterpret_i32" (hexLit bits)
    | .negZero => .un .neg (.lit (.f32 0#32))                 -- "-0.f"
    | .finite => .lit (.f64 (BitVec.ofNat 64 (env.dec9 bits)))
  | .f64 =>
    match classify f64LitCfg bits with
    | .inf neg => if neg then .un .neg f32Inf else f32Inf
    | .nan => .call1 "f64_reinterpret_i64" (hexLit bits)
    | .negZero => .un .neg (.lit (.f32 0#32))
    | .finite => .lit (.f64 (BitVec.ofNat 64 (env.dec17 bits)))

/-- value of the slot after `s<t>0 = <literal>;` -/
def denote (env : DecEnv) (t : VT) (bits : Nat) : Out CVal := do
  let v ← (literal env t bits).eval noDefs []
  match t with
  | .i32 => v.castInt .u32 | .i64 => v.castInt .u64 | .f32 => v.castInt .f32 | .f64 => v.castInt .f64

def className : LitClass → String
  | .inf false => "inf" | .inf true => "-inf" | .nan => "nan" | .negZero => "negzero" | .finite => "finite"

end W2c2Verif.Model

namespace W2c2Verif.Model
open W2c2Verif Gen

def decText (n : Int) : String := if n < 0 then "-" ++ toString n.natAbs else toString n.natAbs

def hexUpper (n width : Nat) : String :=
  let ds := (Nat.toDigits 16 n).map Char.toUpper
  String.ofList (List.replicate (width - ds.length) '0' ++ ds)

/-- the text `wasmCWriteLiteral` writes (finite floats: `none`, the decimal comes from `sprintf`) -/
def literalText (t : VT) (bits : Nat) : Option String :=
  match t with
  | .i32 => some (decText (BitVec.ofNat 32 bits).toInt ++ Gen.i32LitSuffix)
  | .i64 => some (Gen.i64LitPrefix ++ decText (BitVec.ofNat 64 bits).toInt ++ Gen.i64LitSuffix)
  | .f32 =>
    match classify f32LitCfg bits with
    | .inf neg => some ((if neg then "-" else "") ++ "INFINITY")
    | .nan => some (f32LitCfg.nanPrefix ++ hexUpper bits 8 ++ ")")
    | .negZero => some f32LitCfg.negZeroText
    | .finite => none
  | .f64 =>
    match classify f64LitCfg bits with
    | .inf neg => some ((if neg then "-" else "") ++ "INFINITY")
    | .nan => some (f64LitCfg.nanPrefix ++ hexUpper bits 16 ++ ")")
    | .negZero => some f64LitCfg.negZeroText
    | .finite => none

end W2c2Verif.Model
