/-
  Model.ConcBase — the small generic frame shared by the concurrency models of C18 (memory.grow on a
  shared memory) and C09 (worker pool):

  * `Sys` / `Reach`  : a system of threads, each with a local state, over one shared state; ANY thread
                       with an enabled step may move next ("for every interleaving" = ∀ over `Reach`);
  * `runSched`       : the executable twin (a schedule picks thread and successor) used by the drivers
                       and by the `decide`d counterexamples, with `runSched_reach`;
  * mutex / condition-variable transition semantics as POSIX specifies them (incl. spurious wake-ups);
  * the step language (`MFld`, `MExpr`, `MStep`) into which tools/extract/gen_memfuncs.py flattens the
    memory-descriptor functions of w2c2_base.h (Gen/MemFuncs.lean).
-/
namespace W2c2Verif.Model

abbrev Tid := Nat

/-- A thread system: `step t g l` lists the enabled successor (shared, local) states of thread `t`
    (empty = blocked or finished). -/
structure Sys (G L : Type) where
  step : Tid → G → L → List (G × L)

def upd {L : Type} (f : Tid → L) (t : Tid) (l : L) : Tid → L := fun u => if u = t then l else f u

@[simp] theorem upd_same {L : Type} (f : Tid → L) (t : Tid) (l : L) : upd f t l t = l := by simp [upd]
theorem upd_other {L : Type} (f : Tid → L) {t u : Tid} (l : L) (h : u ≠ t) : upd f t l u = f u := by
  simp [upd, h]

/-- States reachable from `init` under every interleaving. -/
inductive Reach {G L : Type} (sys : Sys G L) (init : G × (Tid → L)) : G × (Tid → L) → Prop
  | init : Reach sys init init
  | step {g : G} {ls : Tid → L} (t : Tid) (g' : G) (l' : L) :
      Reach sys init (g, ls) → (g', l') ∈ sys.step t g (ls t) → Reach sys init (g', upd ls t l')

/-- One scheduled move: thread `t` takes its `k`-th enabled successor. -/
def sched1 {G L : Type} (sys : Sys G L) (s : G × (Tid → L)) (t : Tid) (k : Nat) : Option (G × (Tid → L)) :=
  match (sys.step t s.1 (s.2 t))[k]? with
  | some (g', l') => some (g', upd s.2 t l')
  | none => none

/-- Run a schedule (list of (thread, choice)); `none` if some move is not enabled. -/
def runSched {G L : Type} (sys : Sys G L) : List (Tid × Nat) → G × (Tid → L) → Option (G × (Tid → L))
  | [], s => some s
  | (t, k) :: rest, s =>
    match sched1 sys s t k with
    | some s' => runSched sys rest s'
    | none => none

theorem sched1_reach {G L : Type} {sys : Sys G L} {init s s' : G × (Tid → L)} {t k}
    (hr : Reach sys init s) (h : sched1 sys s t k = some s') : Reach sys init s' := by
  obtain ⟨g, ls⟩ := s
  unfold sched1 at h
  split at h
  · rename_i g' l' hk
    cases h
    exact Reach.step t g' l' hr (List.mem_of_getElem? hk)
  · cases h

theorem runSched_reach {G L : Type} {sys : Sys G L} {init : G × (Tid → L)} :
    ∀ (sch : List (Tid × Nat)) (s s' : G × (Tid → L)), Reach sys init s → runSched sys sch s = some s' →
      Reach sys init s'
  | [], s, s', hr, h => by simp [runSched] at h; exact h ▸ hr
  | (t, k) :: rest, s, s', hr, h => by
    unfold runSched at h
    split at h
    · rename_i s1 h1
      exact runSched_reach rest s1 s' (sched1_reach hr h1) h
    · cases h

/-! ### pthread mutex and condition variable (POSIX semantics; assumed of the platform)

  mutex   : `Option Tid` (owner).  `lock` is enabled only when free.
  condvar : the list of parked threads.  `cond_wait` = atomically (release the mutex, park); a parked
            thread leaves the wait when it has been removed from the list by `signal`/`broadcast`, or
            *spuriously* (it removes itself); it then re-acquires the mutex as a separate step.
            `signal` removes any ONE parked thread (if there is one), `broadcast` all of them. -/

abbrev Mutex := Option Tid
abbrev CondVar := List Tid

/-- all ways of removing one element (the thread `signal` wakes), or the unchanged list if nobody waits -/
def signalChoices : CondVar → List CondVar
  | [] => [[]]
  | ws => ws.map (fun w => ws.filter (· ≠ w))

theorem signalChoices_ne_nil (c : CondVar) : signalChoices c ≠ [] := by
  cases c <;> simp [signalChoices]

/-! ### step language of the memory-descriptor functions (target of gen_memfuncs.py) -/

/-- fields of `struct wasmMemory` that the modelled functions touch -/
inductive MFld | data | size | pages | maxPages | shared
  deriving DecidableEq, Repr

/-- pure expressions over registers; every arithmetic result is reduced mod 2^32 (C `U32`) -/
inductive MExpr
  | lit (n : Nat) | reg (r : Nat)
  | add (a b : MExpr) | sub (a b : MExpr) | mul (a b : MExpr)
  | wmul (a b : MExpr)      -- `(size_t)a * b`: 64-bit product, no U32 wrap
  | eq (a b : MExpr) | ne (a b : MExpr) | lt (a b : MExpr) | le (a b : MExpr) | gt (a b : MExpr) | ge (a b : MExpr)
  | lor (a b : MExpr) | land (a b : MExpr) | lnot (a : MExpr) | cond (c a b : MExpr)
  deriving DecidableEq, Repr

inductive MStep
  | set (r : Nat) (e : MExpr)                 -- local := e
  | read (r : Nat) (f : MFld)                 -- local := memory->f        (one plain read)
  | write (f : MFld) (e : MExpr)              -- memory->f := e            (one plain write)
  | brUnless (c : MExpr) (skip : Nat)         -- `if (c) { skip steps }`
  | ret (e : MExpr)
  | lock | unlock                             -- WASM_MUTEX_LOCK/UNLOCK(&memory->mutex)
  | realloc (r : Nat) (p n : MExpr)           -- r := realloc(p, n)        (non-shared memories only)
  | memset (p : Nat) (off v n : MExpr)       -- memset(<pointer local p> + off, v, n)   (bytes; non-shared only)
  | abort
  deriving DecidableEq, Repr

def U32_MOD : Nat := 4294967296

def b2n (b : Bool) : Nat := if b then 1 else 0

def MExpr.eval (ρ : Nat → Nat) : MExpr → Nat
  | .lit n => n
  | .reg r => ρ r
  | .add a b => (a.eval ρ + b.eval ρ) % 4294967296
  | .sub a b => (a.eval ρ + 4294967296 - b.eval ρ % 4294967296) % 4294967296
  | .mul a b => (a.eval ρ * b.eval ρ) % 4294967296
  | .wmul a b => a.eval ρ * b.eval ρ
  | .eq a b => b2n (a.eval ρ == b.eval ρ)
  | .ne a b => b2n (a.eval ρ != b.eval ρ)
  | .lt a b => b2n (decide (a.eval ρ < b.eval ρ))
  | .le a b => b2n (decide (a.eval ρ ≤ b.eval ρ))
  | .gt a b => b2n (decide (a.eval ρ > b.eval ρ))
  | .ge a b => b2n (decide (a.eval ρ ≥ b.eval ρ))
  | .lor a b => b2n (a.eval ρ != 0 || b.eval ρ != 0)
  | .land a b => b2n (a.eval ρ != 0 && b.eval ρ != 0)
  | .lnot a => b2n (a.eval ρ == 0)
  | .cond c a b => if c.eval ρ != 0 then a.eval ρ else b.eval ρ

def setReg (ρ : Nat → Nat) (r v : Nat) : Nat → Nat := fun x => if x = r then v else ρ x

end W2c2Verif.Model
