/-
  Model.Reader — /repo/w2c2/reader.c, function by function, over `Model.Buffer.P`.

  Every C function `wasmReadX(reader, …, error)` becomes `x : … → P …`; `*error = &e; return` becomes
  `P.fail (errCode "e")` with the SAME error constant the C code uses at that site (including the
  copy-and-paste ones: the import count failure reports `InvalidTypeSectionTypeCount`, a missing name
  subsection id reports `InvalidGlobalSectionMutabilityIndicator`).  All tables (section ids and the order
  of `wasmSectionReaders[]`, value-type codes, limit kinds and default maxima, data-segment kinds, magic,
  indicators, constant-expression opcodes, special custom-section names) come from `Gen.Reader`.

  `calloc`/`realloc` are assumed to succeed (DESIGN §5 C10 "Partial / assumed").  Unchecked indexing and
  pointer arithmetic that the C code performs are explicit `P.undefined` branches (Model/Obligations.md).
-/
import W2c2Verif.Model.Buffer

namespace W2c2Verif.Model.Reader
open W2c2Verif.Model
open W2c2Verif.Gen

/-- `reader->debug` (option `-g`) and whether the undefined `-((I64)1<<63)` counts as an outcome. -/
structure Cfg where
  debug : Bool
  strict : Bool
  deriving DecidableEq, Repr

/-! ### the decoded module (`struct WasmModule`, module.h) -/

inductive ValType | i32 | i64 | f32 | f64
  deriving DecidableEq, Repr

def ValType.ofEnumName : String → Option ValType
  | "wasmValueTypeI32" => some .i32
  | "wasmValueTypeI64" => some .i64
  | "wasmValueTypeF32" => some .f32
  | "wasmValueTypeF64" => some .f64
  | _ => none

def ValType.name : ValType → String
  | .i32 => "i32" | .i64 => "i64" | .f32 => "f32" | .f64 => "f64"

structure FuncType where
  params : List ValType
  results : List ValType
  deriving DecidableEq, Repr

structure GlobalType where
  valueType : ValType
  mutable : Bool
  deriving DecidableEq, Repr

/-- `min`, `max` (after the default-maximum substitution of wasmReadMemoryType/TableType), `shared`. -/
structure Limits where
  min : Nat
  max : Nat
  shared : Bool
  deriving DecidableEq, Repr

structure FuncImport where
  module : Bytes
  name : Bytes
  typeIndex : Nat
  deriving DecidableEq, Repr

structure GlobalImport where
  module : Bytes
  name : Bytes
  globalType : GlobalType
  deriving DecidableEq, Repr

structure LimitsImport where
  module : Bytes
  name : Bytes
  limits : Limits
  deriving DecidableEq, Repr

structure LocalsDecl where
  count : Nat
  valueType : ValType
  deriving DecidableEq, Repr

/-- `struct WasmFunction`; `hashed` is the byte range given to `SHA1` (none: still `SHA1_DIGEST_EMPTY`). -/
structure Function where
  typeIndex : Nat
  locals : List LocalsDecl
  code : Bytes
  start : Nat
  hashed : Option Bytes
  exportName : Option Bytes
  deriving DecidableEq, Repr

def Function.empty (typeIndex : Nat) : Function :=
  { typeIndex := typeIndex, locals := [], code := [], start := 0, hashed := none, exportName := none }

structure Global where
  type : GlobalType
  init : Bytes
  deriving DecidableEq, Repr

structure Export where
  name : Bytes
  kind : Nat
  index : Nat
  deriving DecidableEq, Repr

structure ElemSegment where
  tableIndex : Nat
  offset : Bytes
  funcs : List Nat
  deriving DecidableEq, Repr

structure DataSegment where
  memoryIndex : Nat
  offset : Bytes
  bytes : Bytes
  passive : Bool
  deriving DecidableEq, Repr

/-- `WasmDebugSection`: name, the declared `buffer.length`, and how many of those bytes exist in the file. -/
structure DebugSection where
  name : Bytes
  length : Nat
  present : Nat
  deriving DecidableEq, Repr

structure RawModule where
  length : Nat
  types : List FuncType
  functions : List Function
  exports : List Export
  globals : List Global
  funcImports : List FuncImport
  globalImports : List GlobalImport
  memImports : List LimitsImport
  memories : List Limits
  datas : List DataSegment
  tableImports : List LimitsImport
  tables : List Limits
  elems : List ElemSegment
  start : Option Nat
  debugSections : List DebugSection
  /-- `functionNames.names[0 .. capacity)` and `functionNames.length` -/
  funcNames : List (Option Bytes)
  funcNamesLen : Nat
  deriving DecidableEq, Repr

/-- `calloc(1, sizeof(WasmModule))`; `module->length = length`. -/
def RawModule.empty (length : Nat) : RawModule :=
  { length := length, types := [], functions := [], exports := [], globals := [], funcImports := [],
    globalImports := [], memImports := [], memories := [], datas := [], tableImports := [], tables := [],
    elems := [], start := none, debugSections := [], funcNames := [], funcNamesLen := 0 }

def u32Max : Nat := 4294967296

/-! ### error constants (by name, resolved against the regenerated enum) -/
namespace E
def invalidMagic := errCode "wasmModuleReaderInvalidMagic"
def invalidSectionID := errCode "wasmModuleReaderInvalidSectionID"
def invalidSectionSize := errCode "wasmModuleReaderInvalidSectionSize"
def incorrectSectionRead := errCode "wasmModuleReaderIncorrectSectionRead"
def invalidCustomSectionName := errCode "wasmModuleReaderInvalidCustomSectionName"
def invalidTypeSectionTypeCount := errCode "wasmModuleReaderInvalidTypeSectionTypeCount"
def invalidFunctionTypeIndicator := errCode "wasmModuleReaderInvalidFunctionTypeIndicator"
def invalidFunctionTypeParameterCount := errCode "wasmModuleReaderInvalidFunctionTypeParameterCount"
def invalidFunctionTypeResultCount := errCode "wasmModuleReaderInvalidFunctionTypeResultCount"
def invalidImportSectionImportModule := errCode "wasmModuleReaderInvalidImportSectionImportModule"
def invalidImportSectionImportName := errCode "wasmModuleReaderInvalidImportSectionImportName"
def invalidImportSectionImportKind := errCode "wasmModuleReaderInvalidImportSectionImportKind"
def invalidImportSectionFunctionTypeIndex := errCode "wasmModuleReaderInvalidImportSectionFunctionTypeIndex"
def invalidValueType := errCode "wasmModuleReaderInvalidValueType"
def invalidFunctionSectionFunctionCount := errCode "wasmModuleReaderInvalidFunctionSectionFunctionCount"
def invalidFunctionTypeIndex := errCode "wasmModuleReaderInvalidFunctionTypeIndex"
def invalidCodeSectionFunctionCount := errCode "wasmModuleReaderInvalidCodeSectionFunctionCount"
def invalidCodeSectionCodeSize := errCode "wasmModuleReaderInvalidCodeSectionCodeSize"
def invalidCodeSectionLocalsDeclarations := errCode "wasmModuleReaderInvalidCodeSectionLocalsDeclarations"
def invalidExportSectionExportCount := errCode "wasmModuleReaderInvalidExportSectionExportCount"
def invalidExportSectionExportName := errCode "wasmModuleReaderInvalidExportSectionExportName"
def invalidExportSectionExportKind := errCode "wasmModuleReaderInvalidExportSectionExportKind"
def invalidExportSectionExportIndex := errCode "wasmModuleReaderInvalidExportSectionExportIndex"
def invalidGlobalSectionGlobalCount := errCode "wasmModuleReaderInvalidGlobalSectionGlobalCount"
def invalidGlobalSectionMutabilityIndicator := errCode "wasmModuleReaderInvalidGlobalSectionMutabilityIndicator"
def invalidGlobalSectionInitExpression := errCode "wasmModuleReaderInvalidGlobalSectionInitExpression"
def invalidMemorySectionMemoryCount := errCode "wasmModuleReaderInvalidMemorySectionMemoryCount"
def invalidLimitKind := errCode "wasmModuleReaderInvalidLimitKind"
def invalidLimitMinimum := errCode "wasmModuleReaderInvalidLimitMinimum"
def invalidLimitMaximum := errCode "wasmModuleReaderInvalidLimitMaximum"
def invalidDataSectionDataSegmentCount := errCode "wasmModuleReaderInvalidDataSectionDataSegmentCount"
def invalidDataSectionKind := errCode "wasmModuleReaderInvalidDataSectionKind"
def invalidDataSectionMemoryIndex := errCode "wasmModuleReaderInvalidDataSectionMemoryIndex"
def invalidDataSectionOffsetExpression := errCode "wasmModuleReaderInvalidDataSectionOffsetExpression"
def invalidDataSectionBytes := errCode "wasmModuleReaderInvalidDataSectionBytes"
def invalidDataCountSectionDataCount := errCode "wasmModuleReaderInvalidDataCountSectionDataCount"
def invalidTableSectionTableCount := errCode "wasmModuleReaderInvalidTableSectionTableCount"
def invalidTableSectionTableType := errCode "wasmModuleReaderInvalidTableSectionTableType"
def invalidElementSectionElementSegmentCount := errCode "wasmModuleReaderInvalidElementSectionElementSegmentCount"
def invalidElementSectionTableIndex := errCode "wasmModuleReaderInvalidElementSectionTableIndex"
def invalidElementSectionOffsetExpression := errCode "wasmModuleReaderInvalidElementSectionOffsetExpression"
def invalidElementSectionFunctionIndexCount := errCode "wasmModuleReaderInvalidElementSectionFunctionIndexCount"
def invalidElementSectionFunctionIndex := errCode "wasmModuleReaderInvalidElementSectionFunctionIndex"
def invalidStartSectionFunctionIndex := errCode "wasmModuleReaderInvalidStartSectionFunctionIndex"
def invalidNameSectionFunctionNameCount := errCode "wasmModuleReaderInvalidNameSectionFunctionNameCount"
def invalidNameSectionFunctionIndex := errCode "wasmModuleReaderInvalidNameSectionFunctionIndex"
def invalidNameSectionFunctionName := errCode "wasmModuleReaderInvalidNameSectionFunctionName"
end E

/-! ### generic loops -/

/-- `for (i = 0; i < n; i++) { items[i] = read(); }` -/
def vec {α : Type} (p : P α) : Nat → P (List α)
  | 0 => pure []
  | n + 1 => do
    let a ← p
    let as ← vec p n
    pure (a :: as)

/-- `for (i = 0; i < n; i++) { step(state); }` -/
def iter {σ : Type} (f : σ → P σ) : Nat → σ → P σ
  | 0, s => pure s
  | n + 1, s => do
    let s' ← f s
    iter f n s'

/-- The bytes a reader consumed (`init = reader->buffer; …; init.length -= reader->buffer.length`). -/
def sliced (p : P Unit) : P Bytes := fun bs =>
  match p bs with
  | .ok ((), rest) => .ok (bs.take (bs.length - rest.length), rest)
  | .err c => .err c
  | .ub u => .ub u

/-! ### names, byte vectors, value types (reader.c:278-307, 1493-1521; valuetype.h) -/

/-- A C string as `strncpy` + terminator leaves it: the bytes up to the first NUL. -/
def cstr (bs : Bytes) : Bytes := bs.takeWhile (· ≠ 0)

/-- `MUST (length <= buffer->length)`, then copy `length` bytes (post-processed by `g`) and
    `bufferSkipUnchecked(buffer, length)`. -/
def takeExact (g : Bytes → Bytes) (e length : Nat) : P Bytes := fun bs =>
  if bs.length < length then .err e else .ok (g (bs.take length), bs.drop length)

/-- `wasmReadName` (any failure makes the caller report `e`): `strncpy` into a zeroed block. -/
def name (e : Nat) : P Bytes := do
  let length ← u32 e
  takeExact cstr e length

/-- `wasmReadBytes`: `memcpy`. -/
def bytesVec (e : Nat) : P Bytes := do
  let length ← u32 e
  takeExact id e length

/-- `wasmDecodeValueType` -/
def decodeValueType (code : Int) : Option ValType :=
  match Reader.valueTypeCodes.find? (fun r => r.1 = code) with
  | some (_, n) => ValType.ofEnumName n
  | none => none

/-- `wasmReadValueType`: a signed 32-bit LEB, then the code table. -/
def valueType (e : Nat) : P ValType := do
  let code ← i32 e
  match decodeValueType code with
  | some t => pure t
  | none => P.fail e

/-! ### types (reader.c:151-276, 558-607) -/

def functionType : P FuncType := do
  let ind ← byte E.invalidFunctionTypeIndicator
  if ind.toNat ≠ Reader.functionTypeIndicator then P.fail E.invalidFunctionTypeIndicator
  else do
    let pc ← u32 E.invalidFunctionTypeParameterCount
    let params ← vec (valueType E.invalidValueType) pc
    let rc ← u32 E.invalidFunctionTypeResultCount
    let results ← vec (valueType E.invalidValueType) rc
    pure { params := params, results := results }

def typeSection (m : RawModule) : P RawModule := do
  let n ← u32 E.invalidTypeSectionTypeCount
  let ts ← vec functionType n
  pure { m with types := ts }

/-! ### limits, global types (reader.c:609-642, 710-860) -/

def globalType : P GlobalType := do
  let vt ← valueType E.invalidValueType
  let mi ← byte E.invalidGlobalSectionMutabilityIndicator
  if 1 < mi.toNat then P.fail E.invalidGlobalSectionMutabilityIndicator
  else pure { valueType := vt, mutable := mi.toNat = 1 }

/-- `wasmReadLimits`: `(min, max, shared)` and the out-parameter `hasMax` (the pre-0b91282 source has no such
    parameter; callers then only look at `max`). -/
def limits : P (Limits × Bool) := do
  let kind ← byte E.invalidLimitKind
  let min ← u32 E.invalidLimitMinimum
  match Reader.limitKinds.find? (fun r => r.1 = kind.toNat) with
  | none => P.fail E.invalidLimitKind
  | some (_, hasMax, shared) =>
    if hasMax then do
      let max ← u32 E.invalidLimitMaximum
      pure ({ min := min, max := max, shared := shared }, true)
    else pure ({ min := min, max := 0, shared := shared }, false)

/-- The condition under which the default maximum replaces the decoded one (regenerated rule name). -/
def useDefaultMax (rule : String) (dflt : Nat) (l : Limits) (hasMax : Bool) : Bool :=
  match rule with
  | "maxIsZero" => l.max = 0
  | "noMax" => !hasMax
  | "noMaxOrTooLarge" => !hasMax || decide (dflt < l.max)
  | _ => false

def memoryType : P Limits := do
  let (l, hasMax) ← limits
  pure (if useDefaultMax Reader.memoryMaxRule Reader.memoryDefaultMax l hasMax
        then { l with max := Reader.memoryDefaultMax } else l)

def tableType : P Limits := do
  let t ← byte E.invalidTableSectionTableType
  if t.toNat ≠ Reader.tableTypeFuncRef then P.fail E.invalidTableSectionTableType
  else do
    let (l, hasMax) ← limits
    pure (if useDefaultMax Reader.tableMaxRule Reader.tableDefaultMax l hasMax
          then { l with max := Reader.tableDefaultMax } else l)

/-! ### imports (reader.c:644-1006) -/

def kindName (table : List (String × Nat)) (k : Nat) : String :=
  match table.find? (fun r => r.2 = k) with
  | some (n, _) => n
  | none => ""

def kindCount (table : List (String × Nat)) (countName : String) : Nat :=
  match table.find? (fun r => r.1 = countName) with
  | some (_, v) => v
  | none => 0

def importEntry (m : RawModule) : P RawModule := do
  let mod ← name E.invalidImportSectionImportModule
  let nm ← name E.invalidImportSectionImportName
  let k ← byte E.invalidImportSectionImportKind
  if kindCount Reader.importKinds "wasmImportKind_count" ≤ k.toNat then P.fail E.invalidImportSectionImportKind
  else
    match kindName Reader.importKinds k.toNat with
    | "wasmImportKindFunction" => do
      let ti ← u32 E.invalidImportSectionFunctionTypeIndex
      pure { m with funcImports := m.funcImports ++ [{ module := mod, name := nm, typeIndex := ti }] }
    | "wasmImportKindGlobal" => do
      let gt ← globalType
      pure { m with globalImports := m.globalImports ++ [{ module := mod, name := nm, globalType := gt }] }
    | "wasmImportKindMemory" => do
      let l ← memoryType
      pure { m with memImports := m.memImports ++ [{ module := mod, name := nm, limits := l }] }
    | "wasmImportKindTable" => do
      let l ← tableType
      pure { m with tableImports := m.tableImports ++ [{ module := mod, name := nm, limits := l }] }
    | _ => P.fail E.invalidImportSectionImportKind

def importSection (m : RawModule) : P RawModule := do
  let n ← u32 E.invalidTypeSectionTypeCount
  iter importEntry n m

/-! ### functions, tables, memories (reader.c:1008-1074, 1111-1160, 1687-1738) -/

def functionEntry (typeCount : Nat) : P Function := do
  let ti ← u32 E.invalidFunctionTypeIndex
  if typeCount ≤ ti then P.fail E.invalidFunctionTypeIndex
  else pure (Function.empty ti)

def functionSection (m : RawModule) : P RawModule := do
  let n ← u32 E.invalidFunctionSectionFunctionCount
  let fs ← vec (functionEntry m.types.length) n
  pure { m with functions := fs }

def tableSection (m : RawModule) : P RawModule := do
  let n ← u32 E.invalidTableSectionTableCount
  let ts ← vec tableType n
  pure { m with tables := ts }

def memorySection (m : RawModule) : P RawModule := do
  let n ← u32 E.invalidMemorySectionMemoryCount
  let ms ← vec memoryType n
  pure { m with memories := ms }

/-! ### constant expressions and globals (reader.c:1076-1109, 1162-1243) -/

def constImmediate (cfg : Cfg) (e : Nat) (readerName : String) : P Unit :=
  match readerName with
  | "leb128ReadI32" => do let _ ← i32 e; pure ()
  | "leb128ReadI64" => do let _ ← i64 cfg.strict e; pure ()
  | "bufferReadF32" => do let _ ← fixed 4 e; pure ()
  | "bufferReadF64" => do let _ ← fixed 8 e; pure ()
  | _ => P.fail e

/-- `wasmReadConstantExpr` (false ⇒ the caller reports `e`). -/
def constExpr (cfg : Cfg) (e : Nat) : P Unit := do
  let op ← byte e
  match Reader.constExprConsts.find? (fun r => r.2.1 = op.toNat) with
  | some (_, _, rd) => do
    constImmediate cfg e rd
    let op2 ← byte e
    if op2.toNat ≠ Reader.opcodeEnd then P.fail e else pure ()
  | none =>
    if op.toNat = Reader.opcodeGlobalGet then do
      let _ ← u32 e
      let op2 ← byte e
      if op2.toNat ≠ Reader.opcodeEnd then P.fail e else pure ()
    else if op.toNat = Reader.opcodeEnd then pure ()
    else P.fail e

def globalEntry (cfg : Cfg) : P Global := do
  let t ← globalType
  let init ← sliced (constExpr cfg E.invalidGlobalSectionInitExpression)
  pure { type := t, init := init }

def globalSection (cfg : Cfg) (m : RawModule) : P RawModule := do
  let n ← u32 E.invalidGlobalSectionGlobalCount
  let gs ← vec (globalEntry cfg) n
  pure { m with globals := gs }

/-! ### exports (reader.c:1245-1367) -/

def exportEntry : P Export := do
  let nm ← name E.invalidExportSectionExportName
  let k ← byte E.invalidExportSectionExportKind
  if kindCount Reader.exportKinds "wasmExportKind_count" ≤ k.toNat then P.fail E.invalidExportSectionExportKind
  else do
    let idx ← u32 E.invalidExportSectionExportIndex
    pure { name := nm, kind := k.toNat, index := idx }

def setExportName (fs : List Function) (i : Nat) (nm : Bytes) : List Function :=
  fs.set i { (fs.getD i (Function.empty 0)) with exportName := some nm }

/-- One iteration of the export loop; state = (functions, exports read so far). -/
def exportStep (importCount functionCount : Nat) (st : List Function × List Export) :
    P (List Function × List Export) := do
  let ex ← exportEntry
  if kindName Reader.exportKinds ex.kind = "wasmExportKindFunction" then
    if functionCount ≤ ex.index then P.fail E.invalidExportSectionExportIndex
    else if importCount ≤ ex.index then
      /- functions.functions[functionIndex].exportName = export.name — an unchecked index -/
      if ex.index - importCount < st.1.length then
        pure (setExportName st.1 (ex.index - importCount) ex.name, st.2 ++ [ex])
      else P.undefined .exportFunctionIndex
    else pure (st.1, st.2 ++ [ex])
  else pure (st.1, st.2 ++ [ex])

def exportSection (m : RawModule) : P RawModule := do
  let n ← u32 E.invalidExportSectionExportCount
  let importCount := m.funcImports.length
  let functionCount := (importCount + m.functions.length) % u32Max
  let st ← iter (exportStep importCount functionCount) n (m.functions, [])
  pure { m with functions := st.1, exports := st.2 }

/-! ### start, elements (reader.c:1740-1895) -/

def startSection (m : RawModule) : P RawModule := do
  let idx ← u32 E.invalidStartSectionFunctionIndex
  pure { m with start := some idx }

def elemEntry (cfg : Cfg) : P ElemSegment := do
  let ti ← u32 E.invalidElementSectionTableIndex
  let off ← sliced (constExpr cfg E.invalidElementSectionOffsetExpression)
  let n ← u32 E.invalidElementSectionFunctionIndexCount
  let fs ← vec (u32 E.invalidElementSectionFunctionIndex) n
  pure { tableIndex := ti, offset := off, funcs := fs }

def elementSection (cfg : Cfg) (m : RawModule) : P RawModule := do
  let n ← u32 E.invalidElementSectionElementSegmentCount
  let es ← vec (elemEntry cfg) n
  pure { m with elems := es }

/-! ### code (reader.c:1369-1491) -/

def localsDecl : P LocalsDecl := do
  let c ← u32 E.invalidCodeSectionLocalsDeclarations
  let t ← valueType E.invalidCodeSectionLocalsDeclarations
  pure { count := c, valueType := t }

def localsDecls : P (List LocalsDecl) := do
  let n ← u32 E.invalidCodeSectionLocalsDeclarations
  vec localsDecl n

/-- `function->code = {data, codeSize}; bufferSkipUnchecked(&reader->buffer, codeSize)` with the remaining
    `codeSize` (after the locals declarations): the function record and the advanced buffer. -/
def takeCode (f : Function) (locals : List LocalsDecl) (n start : Nat) (hashed : Bytes) : P Function := fun bs =>
  .ok ({ f with locals := locals, code := bs.take n, start := start, hashed := some hashed }, bs.drop n)

/-- One iteration of the code loop for function `f` (`moduleLength`, `codeStart` as in the C code). -/
def codeEntry (moduleLength codeStart : Nat) (f : Function) : P Function := do
  let codeSize ← u32 E.invalidCodeSectionCodeSize
  let rem ← P.remaining
  if rem < codeSize then P.fail E.invalidCodeSectionCodeSize
  else do
    let body ← P.peek
    let locals ← localsDecls
    let rem' ← P.remaining
    let consumed := rem - rem'
    if codeSize < consumed then
      /- codeSize -= (U32)(data - localsDeclarationsOffset) wraps; bufferSkipUnchecked leaves the buffer -/
      P.undefined .codeSizeUnderflow
    else takeCode f locals (codeSize - consumed) (moduleLength - rem' - codeStart) (body.take codeSize)

def codeEntries (moduleLength codeStart : Nat) : List Function → P (List Function)
  | [] => pure []
  | f :: fs => do
    let f' ← codeEntry moduleLength codeStart f
    let fs' ← codeEntries moduleLength codeStart fs
    pure (f' :: fs')

def codeSection (m : RawModule) : P RawModule := do
  let rem ← P.remaining
  let codeStart := m.length - rem
  let n ← u32 E.invalidCodeSectionFunctionCount
  if n ≠ m.functions.length then P.fail E.invalidCodeSectionFunctionCount
  else do
    let fs ← codeEntries m.length codeStart m.functions
    pure { m with functions := fs }

/-! ### data, data count (reader.c:1523-1685) -/

def dataEntry (cfg : Cfg) : P DataSegment := do
  let kind ← u32 E.invalidDataSectionKind
  match Reader.dataKinds.find? (fun r => r.1 = kind) with
  | none => P.fail E.invalidDataSectionKind
  | some (_, readMemoryIndex, readOffsetExpression, passive) => do
    let mi ← (if readMemoryIndex then u32 E.invalidDataSectionMemoryIndex else pure 0)
    let off ← (if readOffsetExpression then sliced (constExpr cfg E.invalidDataSectionOffsetExpression) else pure [])
    let bs ← bytesVec E.invalidDataSectionBytes
    pure { memoryIndex := mi, offset := off, bytes := bs, passive := passive }

def dataSection (cfg : Cfg) (m : RawModule) : P RawModule := do
  let n ← u32 E.invalidDataSectionDataSegmentCount
  let ds ← vec (dataEntry cfg) n
  pure { m with datas := ds }

def dataCountSection (m : RawModule) : P RawModule := do
  let _ ← u32 E.invalidDataCountSectionDataCount
  pure m

/-! ### custom sections, name section (reader.c:309-556) -/

/-- The bytes of an ASCII C string literal (the two special section names are ASCII). -/
def strBytes (s : String) : Bytes := s.toList.map (fun c => UInt8.ofNat c.toNat)

/-- `wasmFunctionNamesRemoveDuplicates` on the first `len` entries: names occurring more than once are
    cleared.  Without the NULL guards of /repo b750457 (`Gen.Reader.functionNamesNullGuard = false`), `strcmp` on
    a NULL entry is undefined as soon as the comparator runs (two or more entries). -/
def removeDuplicates (names : List (Option Bytes)) (len : Nat) : Res (List (Option Bytes)) :=
  let used := names.take len
  if len < 2 then .ok names
  else if !Reader.functionNamesNullGuard && used.any Option.isNone then .ub .nullFunctionName
  else
    .ok ((used.map fun n => if n.isSome ∧ (used.filter (· = n)).length > 1 then none else n) ++ names.drop len)

/-- `names[functionIndex] = functionName`, with functionIndex < functionCount ≤ capacity -/
def storeFuncName (names : List (Option Bytes)) (idx : Nat) (nm : Bytes) : P (List (Option Bytes)) :=
  if idx < names.length then pure (names.set idx (some nm)) else P.undefined .functionNameIndex

/-- One `(index, name)` pair, source shape `error-before-name` (up to /repo ed458af): an index outside the function index
    space known so far is rejected before the name is read. -/
def funcNameEntryReject (functionCount : Nat) (names : List (Option Bytes)) : P (List (Option Bytes)) := do
  let idx ← u32 E.invalidNameSectionFunctionIndex
  if functionCount ≤ idx then P.fail E.invalidNameSectionFunctionIndex
  else do
    let nm ← name E.invalidNameSectionFunctionName
    storeFuncName names idx nm

/-- One `(index, name)` pair, source shape `skip-after-name` (/repo f819d99): the name is read; for an index outside the
    function index space known so far it is freed and ignored. -/
def funcNameEntrySkip (functionCount : Nat) (names : List (Option Bytes)) : P (List (Option Bytes)) := do
  let idx ← u32 E.invalidNameSectionFunctionIndex
  let nm ← name E.invalidNameSectionFunctionName
  if functionCount ≤ idx then pure names else storeFuncName names idx nm

/-- One `(index, name)` pair of the function-names subsection (which of the two shapes: regenerated). -/
def funcNameEntry (functionCount : Nat) (names : List (Option Bytes)) : P (List (Option Bytes)) :=
  if Reader.nameIndexOutOfRange = "skip-after-name" then funcNameEntrySkip functionCount names
  else funcNameEntryReject functionCount names

/-- `wasmNamesEnsureCapacity(&functionNames, functionCount)` + the length store: `none` = growing a non-empty table leaves
    the added entries uninitialised (no `memset`: up to /repo ed458af); with the `memset` of /repo 67c631b the old entries
    are kept and the added ones are NULL.  (`funcNames` = `names[0 .. length)`; spare capacity is never read.) -/
def grownNames (m : RawModule) (functionCount : Nat) : Option (List (Option Bytes)) :=
  if m.funcNames.length < functionCount then
    if Reader.nameTableGrowthZeroed then some (m.funcNames ++ List.replicate (functionCount - m.funcNames.length) none)
    else if m.funcNames.length ≠ 0 then none
    else some (List.replicate functionCount none)
  else some m.funcNames

def functionNamesSubsection (m : RawModule) : P RawModule := do
  let functionCount := (m.funcImports.length + m.functions.length) % u32Max
  let n ← u32 E.invalidNameSectionFunctionNameCount
  /- wasmNamesEnsureCapacity: calloc when empty, realloc when growing -/
  match grownNames m functionCount with
  | none => P.undefined .uninitFunctionNames
  | some names0 => do
    let names ← iter (funcNameEntry functionCount) n names0
    match removeDuplicates names functionCount with
    | .ok names' => pure { m with funcNames := names', funcNamesLen := functionCount }
    | .err c => P.fail c
    | .ub u => P.undefined u

/-- `while (reader->buffer.data < end)`: `endRem` = `buffer.length` at which `data == end` (may be negative). -/
def nameSectionLoop (endRem : Int) : Nat → RawModule → P RawModule
  | 0, m => pure m
  | fuel + 1, m => fun bs =>
    if (bs.length : Int) ≤ endRem then .ok (m, bs)
    else
      (do
        let id ← byte E.invalidGlobalSectionMutabilityIndicator
        let size ← u32 E.invalidSectionSize
        let m' ← (if id.toNat = Reader.nameSubsectionFunctionNames then functionNamesSubsection m
                  else (do skip size; pure m))
        nameSectionLoop endRem fuel m') bs

def nameSection (sectionSize : Nat) (m : RawModule) : P RawModule := fun bs =>
  nameSectionLoop ((bs.length : Int) - sectionSize) (bs.length + 1) m bs

/-- How `wasmReadCustomSection` compares the section name (a C string) with one of its two constants: `exact` =
    `strcmp(name, c) == 0`, `prefix` = `strncmp(name, c, strlen(c)) == 0` (which one is regenerated from reader.c). -/
def nameMatch (mode : String) (pat nm : Bytes) : Bool :=
  match mode with
  | "exact" => nm == pat
  | "prefix" => pat.isPrefixOf nm
  | _ => false

/-- the test that sends a custom section to `wasmReadNameSection` (under `-g`) -/
def isNameSection (nm : Bytes) : Bool := nameMatch Reader.nameSectionMatch (strBytes Reader.nameSectionName) nm

def customSection (cfg : Cfg) (sectionSize : Nat) (m : RawModule) : P RawModule := do
  let before ← P.remaining
  let nm ← name E.invalidCustomSectionName
  let after ← P.remaining
  /- sectionSize -= (U32)(end - start)   (U32 arithmetic: wraps when the name is longer than the section) -/
  let size := (sectionSize + u32Max - (before - after) % u32Max) % u32Max
  if (strBytes Reader.debugSectionNamePrefix).isPrefixOf nm then do
    let rem ← P.remaining
    skip size
    pure { m with debugSections := m.debugSections ++ [{ name := nm, length := size, present := min size rem }] }
  else if cfg.debug ∧ isNameSection nm = true then nameSection size m
  else do
    skip size
    pure m

/-! ### the section dispatcher and the module loop (reader.c:1897-2034) -/

/-- `wasmSectionReaders[id]`, by the name found in the regenerated table. -/
def sectionReader (cfg : Cfg) (readerName : String) (sectionSize : Nat) (m : RawModule) : P RawModule :=
  match readerName with
  | "wasmReadCustomSection" => customSection cfg sectionSize m
  | "wasmReadTypeSection" => typeSection m
  | "wasmReadImportSection" => importSection m
  | "wasmReadFunctionSection" => functionSection m
  | "wasmReadTableSection" => tableSection m
  | "wasmReadMemorySection" => memorySection m
  | "wasmReadGlobalSection" => globalSection cfg m
  | "wasmReadExportSection" => exportSection m
  | "wasmReadStartSection" => startSection m
  | "wasmReadElementSection" => elementSection cfg m
  | "wasmReadCodeSection" => codeSection m
  | "wasmReadDataSection" => dataSection cfg m
  | "wasmReadDataCountSection" => dataCountSection m
  | _ => P.fail E.incorrectSectionRead

/-- `wasmModuleReadSection` -/
def readSection (cfg : Cfg) (m : RawModule) : P RawModule := do
  let id ← byte E.invalidSectionID
  let size ← u32 E.invalidSectionSize
  match Reader.sectionReaders[id.toNat]? with
  | some rd => do
    let start ← P.remaining
    let m' ← sectionReader cfg rd size m
    let stop ← P.remaining
    /- `end != start + sectionSize` on the data pointers -/
    if stop + size ≠ start then P.fail E.incorrectSectionRead else pure m'
  | none => do
    skip size
    pure m

/-- The `while (true)` loop of `wasmModuleRead`.  Every successful `readSection` consumes at least the id
    byte (`readSection_progress`), so the `else` branch is never taken (`readSections_eq`). -/
def readSections (cfg : Cfg) (bs : Bytes) (m : RawModule) : Res RawModule :=
  if bs.isEmpty then .ok m
  else
    match readSection cfg m bs with
    | .ok (m', rest) =>
      if h : rest.length < bs.length then readSections cfg rest m' else .err E.incorrectSectionRead
    | .err c => .err c
    | .ub u => .ub u
termination_by bs.length

/-- `wasmModuleRead` (the DWARF line table, parsed afterwards under `-g`, is not part of this model). -/
def read (cfg : Cfg) (bs : Bytes) : Res RawModule :=
  match readEqual Reader.magic E.invalidMagic bs with
  | .ok ((), rest) => readSections cfg rest (RawModule.empty bs.length)
  | .err c => .err c
  | .ub u => .ub u

end W2c2Verif.Model.Reader
