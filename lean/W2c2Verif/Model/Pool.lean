/-
  Model.Pool — the producer / worker hand-off of c.c (C09): `wasmCWriteModuleImplementationFiles` (producer,
  thread 0) and `wasmCImplementationWriterThread` (workers, threads 1..N) over
  `{mutex, consume, produce : condvar, task slot, task fields, done}`.  One transition = one C statement of
  one thread; program counters are named after the statements:

  worker                                              producer
    w0   pthread_mutex_lock                             p0    for (; fileIndex < fileCount; …) test
    w1   pthread_cond_signal(&produce)                  p1    (start = fileIndex * fpf;) pthread_mutex_lock
    w2   while (!done && task == NULL) test             p2    while (task != NULL) test
    w3   pthread_cond_wait(&consume, &mutex)            p3    pthread_cond_wait(&produce, &mutex)
    w3p    … parked                                     p3p     … parked
    w3r    … re-acquiring the mutex                     p3r     … re-acquiring the mutex
    w4   if (done) test                                 p4a   task.fileIndex = fileIndex
    w5   pthread_mutex_unlock; return                   p4b   task.startFunctionIDIndex = start   (+ the other fields)
    w6a  fileIndex = task->fileIndex                    p5    writer.task = &task
    w6b  start = task->startFunctionIDIndex (+ …)       p6    pthread_cond_signal(&consume)
    w7   writer->task = NULL                            p7    pthread_mutex_unlock
    w8   pthread_mutex_unlock                           p0inc fileIndex++
    w9   wasmCWriteImplementationFile(locals)           p8    pthread_mutex_lock          (after the loop)
    wret returned                                       p9    while (task != NULL) test
                                                        p10 / p10p / p10r   pthread_cond_wait(&produce, &mutex)
                                                        p11   done = true
                                                        p12   pthread_cond_broadcast(&consume)
                                                        p13   pthread_mutex_unlock
                                                        p14   pthread_join(threads[j]) for j = 1..N
                                                        pend  return

  `cond_wait` = (release, park) ; wake-up (by signal/broadcast, or SPURIOUSLY when `spur`) ; re-acquire.
  `signal` wakes any one parked thread if there is one.  Logs: `tk` = slot-emptied events (`task = NULL`),
  `ex` = executions of wasmCWriteImplementationFile with the values the worker passes.
-/
import W2c2Verif.Model.ConcBase

namespace W2c2Verif.Model.Pool
open W2c2Verif.Model

inductive PC
  | w0 | w1 | w2 | w3 | w3p | w3r | w4 | w5 | w6a | w6b | w7 | w8 | w9 | wret
  | p0 | p1 | p2 | p3 | p3p | p3r | p4a | p4b | p5 | p6 | p7 | p0inc
  | p8 | p9 | p10 | p10p | p10r | p11 | p12 | p13 | p14 | pend
  deriving DecidableEq, Repr

structure Loc where
  pc : PC
  la : Nat := 0      -- worker: local copy of task->fileIndex
  lb : Nat := 0      -- worker: local copy of task->startFunctionIDIndex (stands for all other fields)
  fi : Nat := 0      -- producer: fileIndex
  j : Nat := 0       -- producer: index of the worker being joined
  deriving Repr

structure Sh where
  mutex : Mutex := none
  consume : CondVar := []
  produce : CondVar := []
  taskSet : Bool := false     -- writer.task != NULL
  fa : Nat := 0               -- task.fileIndex
  fb : Nat := 0               -- task.startFunctionIDIndex
  done : Bool := false
  returned : List Tid := []   -- terminated threads (what pthread_join waits for)
  tk : List Nat := []         -- log: fileIndex in the slot each time a worker emptied it (newest first)
  ex : List (Tid × Nat × Nat) := []   -- log: (worker, fileIndex, start) of every file written
  deriving Repr

structure Cfg where
  N : Nat                   -- worker threads
  K : Nat                   -- fileCount
  startOf : Nat → Nat       -- fileIndex ↦ startFunctionIDIndex (Model.Partition)

/-- leaving a parked wait on a condition variable -/
def wake (spur : Bool) (t : Tid) (c : CondVar) : List CondVar :=
  if t ∈ c then (if spur then [c.filter (· ≠ t)] else []) else [c]

def step (spur : Bool) (cfg : Cfg) (t : Tid) (g : Sh) (l : Loc) : List (Sh × Loc) :=
  match l.pc with
  -- worker
  | .w0 => if g.mutex = none then [({ g with mutex := some t }, { l with pc := .w1 })] else []
  | .w1 => (signalChoices g.produce).map fun p => ({ g with produce := p }, { l with pc := .w2 })
  | .w2 => [(g, { l with pc := if !g.done && !g.taskSet then .w3 else .w4 })]
  | .w3 => [({ g with mutex := none, consume := t :: g.consume }, { l with pc := .w3p })]
  | .w3p => (wake spur t g.consume).map fun c => ({ g with consume := c }, { l with pc := .w3r })
  | .w3r => if g.mutex = none then [({ g with mutex := some t }, { l with pc := .w2 })] else []
  | .w4 => [(g, { l with pc := if g.done then .w5 else .w6a })]
  | .w5 => [({ g with mutex := none, returned := t :: g.returned }, { l with pc := .wret })]
  | .w6a => [(g, { l with la := g.fa, pc := .w6b })]
  | .w6b => [(g, { l with lb := g.fb, pc := .w7 })]
  | .w7 => [({ g with taskSet := false, tk := g.fa :: g.tk }, { l with pc := .w8 })]
  | .w8 => [({ g with mutex := none }, { l with pc := .w9 })]
  | .w9 => [({ g with ex := (t, l.la, l.lb) :: g.ex }, { l with pc := .w0 })]
  | .wret => []
  -- producer
  | .p0 => [(g, { l with pc := if l.fi < cfg.K then .p1 else .p8 })]
  | .p1 => if g.mutex = none then [({ g with mutex := some t }, { l with pc := .p2 })] else []
  | .p2 => [(g, { l with pc := if g.taskSet then .p3 else .p4a })]
  | .p3 => [({ g with mutex := none, produce := t :: g.produce }, { l with pc := .p3p })]
  | .p3p => (wake spur t g.produce).map fun c => ({ g with produce := c }, { l with pc := .p3r })
  | .p3r => if g.mutex = none then [({ g with mutex := some t }, { l with pc := .p2 })] else []
  | .p4a => [({ g with fa := l.fi }, { l with pc := .p4b })]
  | .p4b => [({ g with fb := cfg.startOf l.fi }, { l with pc := .p5 })]
  | .p5 => [({ g with taskSet := true }, { l with pc := .p6 })]
  | .p6 => (signalChoices g.consume).map fun c => ({ g with consume := c }, { l with pc := .p7 })
  | .p7 => [({ g with mutex := none }, { l with pc := .p0inc })]
  | .p0inc => [(g, { l with fi := l.fi + 1, pc := .p0 })]
  | .p8 => if g.mutex = none then [({ g with mutex := some t }, { l with pc := .p9 })] else []
  | .p9 => [(g, { l with pc := if g.taskSet then .p10 else .p11 })]
  | .p10 => [({ g with mutex := none, produce := t :: g.produce }, { l with pc := .p10p })]
  | .p10p => (wake spur t g.produce).map fun c => ({ g with produce := c }, { l with pc := .p10r })
  | .p10r => if g.mutex = none then [({ g with mutex := some t }, { l with pc := .p9 })] else []
  | .p11 => [({ g with done := true }, { l with pc := .p12 })]
  | .p12 => [({ g with consume := [] }, { l with pc := .p13 })]
  | .p13 => [({ g with mutex := none }, { l with pc := .p14, j := 1 })]
  | .p14 =>
    if l.j > cfg.N then [(g, { l with pc := .pend })]
    else if l.j ∈ g.returned then [(g, { l with j := l.j + 1 })]
    else []
  | .pend => []

/-- every interleaving, with spurious wake-ups -/
def sys (cfg : Cfg) : Sys Sh Loc := ⟨step true cfg⟩

def initLoc (cfg : Cfg) (t : Tid) : Loc :=
  if t = 0 then { pc := .p0 } else if t ≤ cfg.N then { pc := .w0 } else { pc := .wret }

def initState (cfg : Cfg) : Sh × (Tid → Loc) := ({}, initLoc cfg)

abbrev Reachable (cfg : Cfg) := Reach (sys cfg) (initState cfg)

/-- the producer has returned from wasmCWriteModuleImplementationFiles -/
def Final (s : Sh × (Tid → Loc)) : Prop := (s.2 0).pc = .pend

end W2c2Verif.Model.Pool
