/-
  Model.WasiPosix — the WASI model instantiated with the POSIX model as its host, and the
  initial state the correspondence harness sets up (descriptors 0–2 on regular files,
  one pre-opened directory `sb`).
-/
import W2c2Verif.Model.Wasi

namespace W2c2Verif.Model.Wasi
open W2c2Verif W2c2Verif.Spec.Posix

def IOV_MAX : Nat := 1024

/-- `wasi.c`'s host calls answered by `Spec.Posix`.  `readv`/`writev` over segments are one
    `read`/`write` of the total length / the concatenation (POSIX: the transfer is atomic and
    the segments are used in order); more than IOV_MAX segments are rejected with EINVAL. -/
def posixHost : Host State where
  close s fd := s.close fd
  closedir s h := s.closedir h
  opendir s p := s.opendir p
  openAt s p acc fl := s.open p acc fl
  writev s fd bufs := if bufs.length > IOV_MAX then (s, .err .EINVAL) else s.write fd bufs.flatten
  readv s fd lens := if lens.length > IOV_MAX then (s, .err .EINVAL) else s.readv fd lens
  lseek s fd off w := s.lseek fd off w
  fstat s fd := s.fstat fd
  stat s p := s.stat p
  getfl s fd := match s.fcntlGetfl fd with | .ok (_, fl) => .ok fl | .err e => .err e | .unmodelled => .unmodelled
  fsync s fd := (s, s.fsync fd)
  pathCall s name paths :=
    match name, paths with
    | "unlink", [p] => (match s.unlink p with | (s', .ok _) => (s', .ok 0) | (s', .err e) => (s', .err e) | (s', .unmodelled) => (s', .unmodelled))
    | "rename", [a, b] => (match s.rename a b with | (s', .ok _) => (s', .ok 0) | (s', .err e) => (s', .err e) | (s', .unmodelled) => (s', .unmodelled))
    | _, _ => (s, .unmodelled)

def strBytes (s : String) : Bytes := s.toUTF8.toList

/-- the harness's initial host state: `stdin.txt` (16 bytes) on descriptor 0 read-only,
    `stdout.txt`, `stderr.txt` on 1 and 2 write-only, an empty directory `sb` -/
def initHost (maxBytes : Nat) : State :=
  let stdin := fileOfBytes (strBytes "0123456789abcdef")
  { fs := { nodes := [([strBytes "stdin.txt"], .file 0), ([strBytes "stdout.txt"], .file 1),
                      ([strBytes "stderr.txt"], .file 2), ([strBytes "sb"], .dir)],
            files := [stdin, File.empty, File.empty] }
    fds := [some ⟨.file 0, 0, .rdonly, []⟩, some ⟨.file 1, 0, .wronly, []⟩, some ⟨.file 2, 0, .wronly, []⟩]
    dirs := []
    maxBytes := maxBytes }

def zeroMem (size : Nat) : Mem := ⟨size, fun _ => 0⟩

/-- `wasiInit` + `wasiFileDescriptorAdd(-1, "sb", &fd)` over the harness's host state -/
def initState (maxBytes : Nat) : St State :=
  addPreopen (initTable (zeroMem 65536) (initHost maxBytes)) (strBytes "sb")

end W2c2Verif.Model.Wasi
