/-
  Model.Threads — the frame shared by the concurrency models (C09, C16, C17, C18).

  * `Sys G L`: a system of threads over a shared state `G`; every thread has local state `L`
    (program counter, locals).  `step g l` lists the enabled successors of ONE thread; the empty
    list means the thread is blocked (or finished).
  * `Reach sys init`: the configurations reachable from an initial one by letting ANY thread
    with an enabled step move — "for every interleaving" is the universally quantified `Reach`.
    There is no bound on the number of threads (`Tid = Nat`; unused threads simply never step).
  * pthread mutex / condition-variable semantics as plain functions on `Option Tid` and on the
    set of parked `(thread, condvar)` pairs:
      lock    : enabled iff the mutex is free;
      unlock  : by the owner only (anything else is undefined in POSIX → reported by `unlock?`);
      cond_wait = atomically (release the mutex, park) ; later the thread is un-parked by
                  `signal` (by another thread), *spuriously*, or by *timeout* (timed waits);
                  only then may it re-acquire the mutex and return.
    A parked thread is un-parked by removing its pair from the parked set, so `signal` (a step
    of the signalling thread) never writes another thread's local state.
  * `Label` names the three kinds of step so that an executable driver can follow an explicit
    schedule: `run` (ordinary progress), `spurious`, `timeout`.
-/
namespace W2c2Verif.Threads

abbrev Tid := Nat

/-- Function update (kept separate from Mathlib's `Function.update`; models import core only). -/
def upd {α β : Type} [DecidableEq α] (f : α → β) (a : α) (b : β) : α → β :=
  fun x => if x = a then b else f x

@[simp] theorem upd_same {α β : Type} [DecidableEq α] (f : α → β) (a : α) (b : β) :
    upd f a b a = b := by simp [upd]

@[simp] theorem upd_other {α β : Type} [DecidableEq α] (f : α → β) (a x : α) (b : β) (h : x ≠ a) :
    upd f a b x = f x := by simp [upd, h]

theorem upd_apply {α β : Type} [DecidableEq α] (f : α → β) (a x : α) (b : β) :
    upd f a b x = if x = a then b else f x := rfl

structure Sys (G L : Type) where
  /-- enabled successor states of ONE thread (empty = blocked or finished) -/
  step : G → L → List (G × L)

structure Cfg (G L : Type) where
  g : G
  locals : Tid → L

/-- Thread `t` moves to local state `l'`, leaving the shared state `g'`. -/
def Cfg.set {G L : Type} (c : Cfg G L) (t : Tid) (g' : G) (l' : L) : Cfg G L :=
  ⟨g', upd c.locals t l'⟩

@[simp] theorem Cfg.set_g {G L : Type} (c : Cfg G L) (t : Tid) (g' : G) (l' : L) :
    (c.set t g' l').g = g' := rfl

@[simp] theorem Cfg.set_locals_same {G L : Type} (c : Cfg G L) (t : Tid) (g' : G) (l' : L) :
    (c.set t g' l').locals t = l' := by simp [Cfg.set]

@[simp] theorem Cfg.set_locals_other {G L : Type} (c : Cfg G L) (t u : Tid) (g' : G) (l' : L)
    (h : u ≠ t) : (c.set t g' l').locals u = c.locals u := by simp [Cfg.set, h]

theorem Cfg.set_locals {G L : Type} (c : Cfg G L) (t u : Tid) (g' : G) (l' : L) :
    (c.set t g' l').locals u = if u = t then l' else c.locals u := rfl

/-- Reachability: any thread with an enabled step may move, any number of times. -/
inductive Reach {G L : Type} (sys : Sys G L) (init : Cfg G L → Prop) : Cfg G L → Prop
  | init {c : Cfg G L} : init c → Reach sys init c
  | step {c : Cfg G L} {t : Tid} {g' : G} {l' : L} :
      Reach sys init c → (g', l') ∈ sys.step c.g (c.locals t) → Reach sys init (c.set t g' l')

/-- Invariant rule: what holds initially and is preserved by every step of every thread holds in
    every reachable configuration (i.e. under every interleaving). -/
theorem Reach.invariant {G L : Type} {sys : Sys G L} {init : Cfg G L → Prop} (P : Cfg G L → Prop)
    (h0 : ∀ c, init c → P c)
    (hstep : ∀ c t g' l', P c → (g', l') ∈ sys.step c.g (c.locals t) → P (c.set t g' l'))
    {c : Cfg G L} (hr : Reach sys init c) : P c := by
  induction hr with
  | init h => exact h0 _ h
  | step _ hs ih => exact hstep _ _ _ _ ih hs

/-- Kinds of step, for schedule-driven execution. -/
inductive Label
  | run | spurious | timeout
  deriving DecidableEq, Repr, Inhabited

/-! ### Mutex -/

abbrev Mutex := Option Tid

/-- `pthread_mutex_lock` by `t`: enabled iff free. -/
def Mutex.lock? (m : Mutex) (t : Tid) : Option Mutex :=
  match m with
  | none => some (some t)
  | some _ => none

/-- `pthread_mutex_unlock` by `t`: defined only for the owner (otherwise undefined behaviour). -/
def Mutex.unlock? (m : Mutex) (t : Tid) : Option Mutex :=
  if m = some t then some none else none

/-! ### Condition variables: the set of parked (thread, condvar) pairs -/

abbrev Parked (C : Type) := List (Tid × C)

/-- all results of `pthread_cond_signal c`: if nobody is parked on `c` nothing happens; otherwise
    exactly one parked thread (any one) is un-parked. -/
def Parked.signal {C : Type} [DecidableEq C] (ps : Parked C) (c : C) : List (Parked C) :=
  match ps.filter (fun p => p.2 = c) with
  | [] => [ps]
  | ws => ws.map (fun p => ps.erase p)

/-- `pthread_cond_broadcast c`. -/
def Parked.broadcast {C : Type} [DecidableEq C] (ps : Parked C) (c : C) : Parked C :=
  ps.filter (fun p => p.2 ≠ c)

theorem Parked.signal_sub {C : Type} [DecidableEq C] (ps ps' : Parked C) (c : C)
    (h : ps' ∈ ps.signal c) : ∀ p, p ∈ ps' → p ∈ ps := by
  unfold Parked.signal at h
  split at h
  · simp at h; subst h; exact fun _ hp => hp
  · simp only [List.mem_map] at h
    obtain ⟨q, _, rfl⟩ := h
    exact fun p hp => List.mem_of_mem_erase hp

theorem Parked.signal_nodup {C : Type} [DecidableEq C] (ps ps' : Parked C) (c : C)
    (h : ps' ∈ ps.signal c) (hn : ps.Nodup) : ps'.Nodup := by
  unfold Parked.signal at h
  split at h
  · simp at h; subst h; exact hn
  · simp only [List.mem_map] at h
    obtain ⟨q, _, rfl⟩ := h
    exact hn.erase _

/-- a signal un-parks only threads parked on that condvar -/
theorem Parked.signal_other {C : Type} [DecidableEq C] (ps ps' : Parked C) (c : C)
    (h : ps' ∈ ps.signal c) : ∀ p, p ∈ ps → p.2 ≠ c → p ∈ ps' := by
  unfold Parked.signal at h
  split at h
  · simp at h; subst h; exact fun _ hp _ => hp
  · rename_i ws hne
    simp only [List.mem_map] at h
    obtain ⟨q, hq, rfl⟩ := h
    intro p hp hpc
    have hq2 : q.2 = c := by
      have := List.mem_filter.mp hq
      simpa using this.2
    have : p ≠ q := by
      intro e; subst e; exact hpc hq2
    exact (List.mem_erase_of_ne this).mpr hp

/-- if some thread is parked on `c`, every outcome of `signal c` un-parks one such thread -/
theorem Parked.signal_wakes {C : Type} [DecidableEq C] (ps ps' : Parked C) (c : C)
    (h : ps' ∈ ps.signal c) (hn : ps.Nodup) (p : Tid × C) (hp : p ∈ ps) (hpc : p.2 = c) :
    ∃ q, q ∈ ps ∧ q.2 = c ∧ q ∉ ps' := by
  unfold Parked.signal at h
  split at h
  · rename_i hnil
    have : p ∈ ps.filter (fun p => p.2 = c) := List.mem_filter.mpr ⟨hp, by simpa using hpc⟩
    rw [hnil] at this
    simp at this
  · simp only [List.mem_map] at h
    obtain ⟨q, hq, rfl⟩ := h
    have hq' := List.mem_filter.mp hq
    exact ⟨q, hq'.1, by simpa using hq'.2, fun hmem => (List.Nodup.mem_erase_iff hn).mp hmem |>.1 rfl⟩

end W2c2Verif.Threads
