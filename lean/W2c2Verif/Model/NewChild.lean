/-
  Model.NewChild — what `<module>NewChild(self)` (emitted by `wasmCWriteNewChildFunction`; reached through
  `common.newChild`, e.g. by the WASI thread-spawn implementation) does: a new zeroed instance struct (calloc), the
  bookkeeping pointers copied from `self`, then the Init* calls.  WHICH calls, under WHICH guard, and on WHICH instance
  (`child` / `self`) each call acts is not written here: `Gen.newChildSteps`, `Gen.newChildTarget` and
  `Gen.newChildMemParent` are regenerated from c.c on every run (tools/extract/gen_instantiate.py).

  `InitMemories(i, parent)` with a non-NULL parent (`Gen.InitMem.memLoop`: `if (parent == NULL) {allocate} else {i->m = parent->m}`
  for a SHARED defined memory, plain allocation otherwise): `initMemoriesFrom`.  InitImports is handed
  `self->common.resolveImports`, i.e. the resolver `self` was instantiated with.
-/
import W2c2Verif.Model.Instantiate

namespace W2c2Verif.Model.Inst
open W2c2Verif Gen

/-- one defined memory of a child: the parent's object when the memory is shared, a fresh zeroed one otherwise -/
def allocOrShare (d : ModDesc) (p : Instance) (acc : World × List Nat) (km : (Nat × Nat) × Nat) : Out (World × List Nat) :=
  if d.memShared.getD km.2 false then
    match p.mems[km.2]? with
    | some a => .val (acc.1, acc.2 ++ [a])
    | none => .ub .nullDeref                       -- `parent->m` of a parent that never initialised it
  else .val ({ acc.1 with mems := acc.1.mems ++ [Array.replicate (km.1.1 * pageSize) (0 : UInt8)] }, acc.2 ++ [acc.1.mems.length])

/-- `<module>InitMemories(i, parent)` -/
def initMemoriesFrom (d : ModDesc) (parent : Option Instance) (s : St) : Out St :=
  match parent with
  | none => initMemories d s
  | some p =>
    foldM' (allocOrShare d p) (s.1, []) d.mems.zipIdx >>= fun wp =>
    foldM' (loadData d) (wp.1, { s.2 with mems := wp.2 }) d.datas

/-- the world and the two instance structs `NewChild` can name -/
structure Fam where
  w : World
  self : Instance
  child : Instance
  deriving Inhabited

def Fam.pick (x : Fam) : InstRef → Option Instance
  | .child => some x.child
  | .self => some x.self
  | .null => none

/-- run an Init* function on the instance its first argument names -/
def onTarget (t : InstRef) (f : St → Out St) (x : Fam) : Out Fam :=
  match t with
  | .child => f (x.w, x.child) >>= fun s => .val { x with w := s.1, child := s.2 }
  | .self => f (x.w, x.self) >>= fun s => .val { x with w := s.1, self := s.2 }
  | .null => .ub .nullDeref

def childStepFn (d : ModDesc) (r : Resolver) (start : St → Out St) (x : Fam) : InitStep → St → Out St
  | .imports => initImports d r
  | .memories => initMemoriesFrom d (x.pick Gen.newChildMemParent)
  | .tables => initTables d
  | .globals => initGlobals d
  | .start => start

def runChildStep (d : ModDesc) (r : Resolver) (start : St → Out St) (x : Fam) (gs : List GuardAtom × InitStep) : Out Fam :=
  if guardHolds d gs.1 then
    (if guardHolds d (initDefinitionGuard gs.2) then onTarget (Gen.newChildTarget gs.2) (childStepFn d r start x gs.2) x
     else .ub .unboundVar)
  else .val x

/-- `<module>NewChild(self)` in world `w`; `r` = the resolver `self` was instantiated with -/
def newChild (d : ModDesc) (r : Resolver) (start : St → Out St) (w : World) (self : Instance) : Out Fam :=
  foldM' (runChildStep d r start) { w := w, self := self, child := {} } Gen.newChildSteps

/-- what a child is initialised to before its start function runs, every call on the child -/
def childInit (d : ModDesc) (r : Resolver) (w : World) (self : Instance) : Out St :=
  initImports d r (w, {}) >>= (fun s => if d.mems.length > 0 then initMemoriesFrom d (some self) s else .val s) >>=
    initTables d >>= initGlobals d

end W2c2Verif.Model.Inst
