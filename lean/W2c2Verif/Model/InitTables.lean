/-
  Model.InitTables — the TEXT of `<module>InitTables` as `wasmCWriteInitTables` prints it, with and without `-p`, and the
  statements it consists of.  WHICH pieces are printed is not written here: `Gen.InitTables.{declPart, tableLoop, segHead,
  entryLoop}` are regenerated from c.c on every run (tools/extract/gen_inittables.py), with both branches of every
  `if (pretty)`.  This file interprets those lists:

    render pretty d      the token sequence printed for module description `d` (white space is not a token)
    stmtsOfSeg / stmts   the C statements in that text, read loop iteration by loop iteration (each iteration of the entry
                         loop must be exactly one store statement, …); `none` if an iteration prints anything else
    runStmts             what the statements of one segment do to a table: `t.data[offset + n] = (wasmFunc)&f` sets slot
                         offset + n to f

  Props/C04Tables.lean: the pretty and the compact text are the same tokens; the statements of a segment are
  `offset = <its offset expression>` and one store per entry whose slot is offset + POSITION and whose value is the LISTED
  function, i.e. they denote `Model.writeSeg`.  The correspondence `inittables-text` (tools/checks/c03.py) compares `render`
  with the text of the real w2c2 in plain / -p / -m / -p -m mode.
-/
import W2c2Verif.Model.Instantiate
import W2c2Verif.Gen.InitTables

namespace W2c2Verif.Model.InitTables
open W2c2Verif Model.Inst Gen.InitTables

/-- a chunk of the emitted text -/
inductive Tok
  | kw (k : Kw)
  | tableRef (idx : Nat)        -- `&i->t<idx>`
  | tableUse (idx : Nat)        -- `i->t<idx>` / `(*i-><imported table idx>)`
  | num (n : Nat)
  | expr (e : ConstE)
  | funcRef (f : Nat)           -- `&<function f>`
  | bad                         -- an item that does not exist in the loop it was printed from
  deriving DecidableEq, Repr, Inhabited

def guardOK (pretty hasElems : Bool) : Guard → Bool
  | .pretty b => pretty == b
  | .hasElems => hasElems

/-- the pieces printed in one pass through a loop body -/
def sel (pretty hasElems : Bool) (rows : List (List Guard × Piece)) : List Piece :=
  rows.filterMap fun r => if r.1.all (guardOK pretty hasElems) then some r.2 else none

def pieceDecl : Piece → Tok
  | .kw k => .kw k
  | _ => .bad

def pieceTable (idx min max : Nat) : Piece → Tok
  | .kw k => .kw k
  | .tableRef => .tableRef idx
  | .tableMin => .num min
  | .tableMax => .num max
  | _ => .bad

def pieceSeg (seg : ElemSegD) : Piece → Tok
  | .kw k => .kw k
  | .offsetExpr => .expr seg.offset
  | _ => .bad

def pieceEntry (seg : ElemSegD) (pos f : Nat) : Piece → Tok
  | .kw k => .kw k
  | .segTable => .tableUse seg.table
  | .position => .num pos
  | .funcIndex => .num f
  | .funcRef => .funcRef f
  | _ => .bad

def entryToks (pretty : Bool) (seg : ElemSegD) (pos f : Nat) : List Tok := (sel pretty true entryLoop).map (pieceEntry seg pos f)

def headToks (pretty : Bool) (seg : ElemSegD) : List Tok := (sel pretty true segHead).map (pieceSeg seg)

def renderEntries (pretty : Bool) (seg : ElemSegD) : Nat → List Nat → List Tok
  | _, [] => []
  | pos, f :: rest => entryToks pretty seg pos f ++ renderEntries pretty seg (pos + 1) rest

def renderSeg (pretty : Bool) (seg : ElemSegD) : List Tok := headToks pretty seg ++ renderEntries pretty seg 0 seg.funcs

def renderTables (pretty : Bool) (imports : Nat) : Nat → List (Nat × Nat) → List Tok
  | _, [] => []
  | j, tt :: rest => (sel pretty true tableLoop).map (pieceTable (imports + j) tt.1 tt.2) ++ renderTables pretty imports (j + 1) rest

/-- the body of `<module>InitTables` -/
def render (pretty : Bool) (d : ModDesc) : List Tok :=
  (sel pretty (d.elems.length > 0) declPart).map pieceDecl ++ renderTables pretty d.tableImports 0 d.tables ++
    d.elems.flatMap (renderSeg pretty)

/-! ## the statements in the text -/

inductive Stmt
  | declOffset                           -- `U32 offset;`
  | alloc (idx min max : Nat)            -- `wasmTableAllocate(&i->t<idx>, min, max);`
  | setOffset (e : ConstE)               -- `offset = e;`
  | store (table pos f : Nat)            -- `<table>.data[offset + pos] = (wasmFunc)&<function f>;`
  deriving DecidableEq, Repr, Inhabited

def stmtOf : List Tok → Option Stmt
  | [.kw .declOffset] => some .declOffset
  | [.kw .allocOpen, .tableRef i, .kw .comma, .num a, .kw .comma, .num b, .kw .closeSemi] => some (.alloc i a b)
  | [.kw .offsetAssign, .expr e, .kw .semi] => some (.setOffset e)
  | [.tableUse t, .kw .dataOffsetPlus, .num n, .kw .closeAssignCast, .funcRef f, .kw .semi] => some (.store t n f)
  | _ => none

/-- the statements of one pass through the segment loop: its head, then one per entry -/
def stmtsOfSeg (pretty : Bool) (seg : ElemSegD) : Option (List Stmt) := do
  let h ← stmtOf (headToks pretty seg)
  let es ← seg.funcs.zipIdx.mapM fun fk => stmtOf (entryToks pretty seg fk.2 fk.1)
  pure (h :: es)

/-- `t.data[offset + pos] = f` on the slots of the segment's table; `offset` was set by the segment's first statement -/
def runStmts (off : Nat) (tbl : List (Option Nat)) (ss : List Stmt) : List (Option Nat) :=
  ss.foldl (fun t s => match s with | .store _ pos f => t.set (off + pos) (some f) | _ => t) tbl

end W2c2Verif.Model.InitTables
