/-
  Model.Files — the file-system footprint of one run of the translator (C20).

  Everything table-like is *interpreted from Gen.Files* (regenerated from the C source on
  every run): the implementation-file name is `sprintf` of the extracted format items, the
  clean predicate is the extracted list of rejecting tests run over the name (with C's
  NUL-terminated indexing: reading past the terminator is `.ub outOfBounds`) composed with the
  extracted glob pattern, file modes / names / the order of main()'s steps come from Gen.
  Hand-modelled (tied by the strace / directory-snapshot correspondence of tools/checks/c20.py):
  `dirname`/`basename` (the musl-derived versions of compat.c), the sequence of opens inside
  wasmCWriteModule / wasmCWriteModuleImplementation, and the file-count arithmetic.

  File names are byte strings (`List UInt8`), as `strlen`/`glob` see them.
-/
import W2c2Verif.Gen.Files
import W2c2Verif.CSem.Basic

namespace W2c2Verif.Model.Files
open W2c2Verif W2c2Verif.Gen.Files

abbrev Name := List UInt8

/-- ASCII string constant → bytes (used for literals in examples and the driver). -/
def nm (s : String) : Name := s.toList.map (fun c => c.toNat.toUInt8)

def ofNats (l : List Nat) : Name := l.map Nat.toUInt8

/-! ## C-level helpers -/

def cmpInt : Cmp → Int → Int → Bool
  | .eq, a, b => decide (a = b)
  | .ne, a, b => decide (a ≠ b)
  | .lt, a, b => decide (a < b)
  | .le, a, b => decide (a ≤ b)
  | .gt, a, b => decide (a > b)
  | .ge, a, b => decide (a ≥ b)

/-- value of a `char` holding byte `c` after promotion to `int`; `signed` is the platform's
    choice for plain `char` (x86: signed, ARM: unsigned) — theorems hold for both. -/
def charVal (signed : Bool) (c : UInt8) : Int :=
  if signed && decide (c.toNat ≥ 128) then (c.toNat : Int) - 256 else (c.toNat : Int)

def evalCond (sg : Bool) : CharCond → UInt8 → Bool
  | .cmp op k, c => cmpInt op (charVal sg c) (k : Int)
  | .and a b, c => evalCond sg a c && evalCond sg b c
  | .or a b, c => evalCond sg a c || evalCond sg b c
  | .not a, c => !evalCond sg a c

/-- `path[i]` of a NUL-terminated string: the terminator is readable, anything beyond is UB. -/
def charAt (name : Name) (i : Nat) : Out UInt8 :=
  match name[i]? with
  | some c => .val c
  | none => if i = name.length then .val 0 else .ub .outOfBounds

/-- `size_t` is 64 bits on the modelled platform (`pathLength - K` wraps below K). -/
def sizeMod : Nat := 18446744073709551616   -- 2^64

/-- the digit loop: `for (i = start; i OP bound; i++) if (cond(path[i])) {flag = false; break;}`;
    result `true` = the condition fired.  Fuel `name.length + 2` always suffices because an
    index beyond the terminator is UB. -/
def scan (sg : Bool) (name : Name) (c : CharCond) (op : Cmp) (bound : Nat) : Nat → Nat → Out Bool
  | 0, _ => .oof
  | f + 1, i =>
    if cmpInt op (i : Int) (bound : Int) then
      match charAt name i with
      | .val ch => if evalCond sg c ch then .val true else scan sg name c op bound f (i + 1)
      | .ub k => .ub k
      | .trap t => .trap t
      | .oof => .oof
    else .val false

/-- one rejecting test; `true` = `continue` (the name is skipped) -/
def evalStep (sg : Bool) (name : Name) : CleanStep → Out Bool
  | .rejectIfLen op k => .val (cmpInt op (name.length : Int) (k : Int))
  | .rejectIfCharAt i c =>
    match charAt name i with
    | .val ch => .val (evalCond sg c ch)
    | .ub k => .ub k
    | .trap t => .trap t
    | .oof => .oof
  | .rejectIfAnyInRange start op minus c =>
    scan sg name c op ((name.length + sizeMod - minus) % sizeMod) (name.length + 2) start

/-- the body of the match loop up to `remove`: `true` = the file is removed -/
def evalSteps (sg : Bool) (name : Name) : List CleanStep → Out Bool
  | [] => .val true
  | s :: rest =>
    match evalStep sg name s with
    | .val true => .val false
    | .val false => evalSteps sg name rest
    | .ub k => .ub k
    | .trap t => .trap t
    | .oof => .oof

/-! ## glob (subset: `*`, `?`, literals; a leading period must be matched explicitly) -/

def starMatch (k : Name → Bool) : Name → Bool
  | [] => k []
  | c :: n => k (c :: n) || starMatch k n

def globCore : List GlobTok → Name → Bool
  | [], n => n.isEmpty
  | .lit b :: p, n => match n with
    | c :: n' => decide (c.toNat = b) && globCore p n'
    | [] => false
  | .any :: p, n => match n with
    | _ :: n' => globCore p n'
    | [] => false
  | .star :: p, n => starMatch (globCore p) n

def leadingPeriodOk (pat : List GlobTok) (name : Name) : Bool :=
  match name with
  | c :: _ => if c.toNat = 46 then (match pat with | .lit 46 :: _ => true | _ => false) else true
  | [] => true

def globMatch (pat : List GlobTok) (name : Name) : Bool :=
  leadingPeriodOk pat name && globCore pat name

/-- what `cleanImplementationFiles` does to a directory entry: `.val true` = `remove(name)` is called -/
def cleanDecision (sg : Bool) (name : Name) : Out Bool :=
  if globMatch globPattern name then evalSteps sg name cleanSteps else .val false

def cleanAccept (sg : Bool) (name : Name) : Bool :=
  match cleanDecision sg name with
  | .val b => b
  | _ => false

/-! ## the specification of an implementation-file name -/

def isDigit (c : UInt8) : Bool := decide (48 ≤ c.toNat) && decide (c.toNat ≤ 57)

/-- `[sd][0-9]{10}\.c` -/
def IsImplName (name : Name) : Prop :=
  ∃ (c : UInt8) (ds : List UInt8), (c = 115 ∨ c = 100) ∧ ds.length = 10 ∧ (∀ d ∈ ds, isDigit d = true) ∧
    name = c :: ds ++ [46, 99]

def isImplNameB (name : Name) : Bool :=
  match name with
  | c :: rest => (decide (c = 115) || decide (c = 100)) && decide (rest.length = 12) &&
      (rest.take 10).all isDigit && decide (rest.drop 10 = [46, 99])
  | [] => false

/-! ## sprintf of the implementation-file name -/

def digitByte (d : Nat) : UInt8 := (48 + d % 10).toUInt8

/-- decimal digits, least significant first -/
def decRev : Nat → Nat → List UInt8
  | 0, _ => []
  | f + 1, n => if n < 10 then [digitByte n] else digitByte (n % 10) :: decRev f (n / 10)

def decimal (n : Nat) : List UInt8 := (decRev (n + 1) n).reverse

def padLeft (w : Nat) (fill : UInt8) (l : List UInt8) : List UInt8 :=
  List.replicate (w - l.length) fill ++ l

def fmtItem (c : UInt8) (u : Nat) : FmtItem → List UInt8
  | .lit bs => ofNats bs
  | .charArg => [c]
  | .uintArg z w => padLeft w (if z then 48 else 32) (decimal u)

def sprintf (items : List FmtItem) (c : UInt8) (u : Nat) : Name :=
  (items.map (fmtItem c u)).flatten

/-- `sprintf(filename, Gen.implFormat, filePrefix, fileIndex)` with `fileIndex : U32` -/
def implName (c : UInt8) (i : BitVec 32) : Name := sprintf implFormat c i.toNat

def prefixChars : List UInt8 := implPrefixes.map (fun p => p.2.toUInt8)

/-! ## dirname / basename (compat.c, musl-derived) and the header name -/

def slash : UInt8 := 47

def dropWhileEnd (p : UInt8 → Bool) (l : Name) : Name := (l.reverse.dropWhile p).reverse
def takeWhileEnd (p : UInt8 → Bool) (l : Name) : Name := (l.reverse.takeWhile p).reverse

def isSlash (c : UInt8) : Bool := c == slash
def notSlash (c : UInt8) : Bool := c != slash

def basenameC (s : Name) : Name :=
  if s = [] then [46] else
  let t := dropWhileEnd isSlash s
  if t = [] then [slash] else takeWhileEnd notSlash t

def dirnameC (s : Name) : Name :=
  if s = [] then [46] else
  let a := dropWhileEnd isSlash s
  if a = [] then [slash] else
  let b := dropWhileEnd notSlash a
  if b = [] then [46] else
  let c := dropWhileEnd isSlash b
  if c = [] then [slash] else c

/-- `strrchr`: index of the last occurrence -/
def lastIdx (c : UInt8) : Name → Option Nat
  | [] => none
  | x :: xs => match lastIdx c xs with
    | some i => some (i + 1)
    | none => if x = c then some 0 else none

/-- `headerExt = strrchr(headerName, '.'); if (!headerExt) headerExt = end; strcpy(headerExt, ".h")` -/
def headerName (b : Name) : Name :=
  match lastIdx headerExtChar.toUInt8 b with
  | some i => b.take i ++ ofNats headerSuffix
  | none => b ++ ofNats headerSuffix

def dsName : Name := ofNats dataSegmentsName

/-! ## the file system seen by one run -/

/-- kind of a directory entry; `touched` marks content written by the run (so that an overwrite
    is a visible change) -/
inductive Entry
  | file (touched : Bool)
  | dirEmpty
  | dirNonEmpty
  | linkFile (touched : Bool)    -- symbolic link to a regular file (fopen follows it)
  | linkDir
  | linkDangling
  deriving DecidableEq, Repr, Inhabited

/-- a name in one of the two directories a run can be in: the directory `dirname(outputPath)`
    (`inOut = true`) or the directory the translator was started in -/
structure Loc where
  inOut : Bool
  name : Name
  deriving DecidableEq, Repr

abbrev FS := Loc → Option Entry

def FS.set (fs : FS) (l : Loc) (e : Option Entry) : FS := fun l' => if l' = l then e else fs l'

/-- `fopen(name, "w"/"wb")`: `none` = failure -/
def writeEntry : Option Entry → Option Entry
  | none => some (.file true)
  | some (.file _) => some (.file true)
  | some (.linkFile _) => some (.linkFile true)
  | some .linkDangling => some (.linkFile true)
  | some .dirEmpty => none
  | some .dirNonEmpty => none
  | some .linkDir => none

/-- `remove(name)`: `none` = failure, `some e` = new state of the name -/
def removeEntry : Option Entry → Option (Option Entry)
  | none => none
  | some .dirNonEmpty => none
  | some _ => some none

inductive Ev
  | openRead (path : Name) (mode : String)
  | chdir (path : Name) (ok : Bool)
  | glob (inOut : Bool) (pattern : String)
  | remove (inOut : Bool) (name : Name) (ok : Bool)
  | openWrite (inOut : Bool) (name : Name) (mode : String) (ok : Bool)
  | exit (code : Nat)
  deriving DecidableEq, Repr

structure Opts where
  modulePath : Name
  refPath : Option Name
  outputPath : Name
  fpf : BitVec 32            -- -f N  ((U32) strtoul)
  threads : BitVec 32        -- -t N
  pretty : Bool
  debug : Bool
  multi : Bool
  clean : Bool
  mode : String              -- -d MODE (default Gen.defaultMode)
  deriving Repr

/-- what the environment answers during the run -/
structure World where
  moduleOk : Bool
  refOk : Bool
  funcCount : BitVec 32      -- module->functions.count
  nStatic : Nat              -- staticFunctionIDs.length
  nDynamic : Nat             -- dynamicFunctionIDs.length
  chdirOk : Bool
  listing : Bool → List Name -- readdir order of the current directory (by `inOut`)
  pathMax : Nat              -- PATH_MAX (4096 on Linux; Gen.pathMaxFallback if undefined)
  charSigned : Bool

structure St where
  fs : FS
  inOut : Bool := false
  fpf : BitVec 32
  events : List Ev := []
  done : Option Nat := none

def St.emit (st : St) (e : Ev) : St := { st with events := st.events ++ [e] }
def St.stop (st : St) (code : Nat) : St := { st with done := some code, events := st.events ++ [.exit code] }

def external (mode : String) : Bool := externalModes.contains mode

/-- `fopen(name, mode)` for writing in the current directory -/
def openW (st : St) (name : Name) (mode : String) : St × Bool :=
  match writeEntry (st.fs ⟨st.inOut, name⟩) with
  | some e => ({ st with fs := st.fs.set ⟨st.inOut, name⟩ (some e),
                         events := st.events ++ [.openWrite st.inOut name mode true] }, true)
  | none => (st.emit (.openWrite st.inOut name mode false), false)

def removeN (st : St) (name : Name) : St :=
  match removeEntry (st.fs ⟨st.inOut, name⟩) with
  | some e => { st with fs := st.fs.set ⟨st.inOut, name⟩ e, events := st.events ++ [.remove st.inOut name true] }
  | none => st.emit (.remove st.inOut name false)

/-- the match loop of `cleanImplementationFiles` over the names `glob` returned -/
def cleanLoop (sg : Bool) : List Name → St → Out St
  | [], st => .val st
  | n :: rest, st =>
    match evalSteps sg n cleanSteps with
    | .val true => cleanLoop sg rest (removeN st n)
    | .val false => cleanLoop sg rest st
    | .ub k => .ub k
    | .trap t => .trap t
    | .oof => .oof

/-! ### the scan flag as loop-carried state

  In the C source the digit scan reports through a flag variable (`allDigits`) that lives OUTSIDE the match loop.
  Whether the loop body re-initialises it for every directory entry is regenerated (`Gen.cleanScanFlagCarried`):
  `none` = it is set to `true` before the scan of every entry, `some v` = it is only initialised (to `v`) at its
  declaration and carried from one entry to the next.  `cleanLoopF` is the match loop as a fold over the listing with
  that flag as state; `cleanLoop` above is the stateless reading, and `Lemmas.cleanLoopF_eq` (re-checked against the
  regenerated fact) says they agree — only then is the set of removed names independent of the order of the listing. -/

/-- the flag when the tests of a directory entry start -/
def entryFlag (carried : Bool) : Bool :=
  match cleanScanFlagCarried with
  | none => true
  | some _ => carried

/-- the flag before the first entry -/
def flagInit : Bool := cleanScanFlagCarried.getD true

/-- one rejecting test with the flag threaded through: `(continue?, flag afterwards)`.  The scan loop only ever CLEARS
    the flag (`if (cond(path[i])) { flag = false; break; }`), the test after it is `if (!flag) continue;`. -/
def evalStepF (sg : Bool) (name : Name) (flag : Bool) : CleanStep → Out (Bool × Bool)
  | .rejectIfAnyInRange start op minus c =>
    match scan sg name c op ((name.length + sizeMod - minus) % sizeMod) (name.length + 2) start with
    | .val fired => .val (!(flag && !fired), flag && !fired)
    | .ub k => .ub k
    | .trap t => .trap t
    | .oof => .oof
  | s =>
    match evalStep sg name s with
    | .val b => .val (b, flag)
    | .ub k => .ub k
    | .trap t => .trap t
    | .oof => .oof

/-- the tests of one entry: `(remove?, flag afterwards)` -/
def evalStepsF (sg : Bool) (name : Name) : List CleanStep → Bool → Out (Bool × Bool)
  | [], f => .val (true, f)
  | s :: rest, f =>
    match evalStepF sg name f s with
    | .val (true, f') => .val (false, f')
    | .val (false, f') => evalStepsF sg name rest f'
    | .ub k => .ub k
    | .trap t => .trap t
    | .oof => .oof

/-- the match loop as a fold over the names `glob` returned, the scan flag being the carried state -/
def cleanLoopF (sg : Bool) : List Name → Bool → St → Out St
  | [], _, st => .val st
  | n :: rest, f, st =>
    match evalStepsF sg n cleanSteps (entryFlag f) with
    | .val (true, f') => cleanLoopF sg rest f' (removeN st n)
    | .val (false, f') => cleanLoopF sg rest f' st
    | .ub k => .ub k
    | .trap t => .trap t
    | .oof => .oof

def cleanDir (w : World) (st : St) : Out St :=
  cleanLoopF w.charSigned ((w.listing st.inOut).filter (globMatch globPattern)) flagInit
    (st.emit (.glob st.inOut globPatternString))

/-- implementation files of one prefix: `fopen` failure ends the process with `exit(1)` -/
def writeImpls (c : UInt8) : List (BitVec 32) → St → St
  | [], st => st
  | i :: rest, st =>
    match openW st (implName c i) implMode with
    | (st', true) => writeImpls c rest st'
    | (st', false) => st'.stop 1

def writeImplGroups : List (UInt8 × List (BitVec 32)) → St → St
  | [], st => st
  | (c, idx) :: rest, st =>
    let st' := writeImpls c idx st
    if st'.done.isSome then st' else writeImplGroups rest st'

/-- `wasmCWriteModule`: header, output, datasegments, implementation files -/
def writeModule (o : Opts) (w : World) (sIdx dIdx : List (BitVec 32)) (st : St) : Out St :=
  if o.outputPath.length + 1 > w.pathMax then .ub .bufferOverflow else
  let out := basenameC o.outputPath
  let hdr := headerName out
  if hdr.length + 1 > w.pathMax then .ub .bufferOverflow else
  match openW st hdr headerMode with
  | (st, false) => .val (st.stop 1)
  | (st, true) =>
  match openW st out outputMode with
  | (st, false) => .val (st.stop 1)
  | (st, true) =>
  let r : St × Bool := if external o.mode then openW st dsName dataSegmentsMode else (st, true)
  match r with
  | (st, false) => .val (st.stop 134)       -- abort()
  | (st, true) =>
  .val (writeImplGroups (prefixChars.zip [sIdx, dIdx]) st)

/-- one of main()'s file-relevant steps; a finished run ignores later steps -/
def step (o : Opts) (w : World) (plan : BitVec 32 → List (BitVec 32) × List (BitVec 32)) (s : MainStep) (st : St) : Out St :=
  if st.done.isSome then .val st else
  match s with
  | .readModule =>
    let st := st.emit (.openRead o.modulePath readMode)
    .val (if w.moduleOk then st else st.stop 1)
  | .readReference =>
    match o.refPath with
    | none => .val st
    | some p =>
      let st := st.emit (.openRead p readMode)
      .val (if w.refOk then st else st.stop 1)
  | .defaultFpf => .val (if st.fpf = 0 then { st with fpf := w.funcCount } else st)
  | .chdirOut =>
    if o.outputPath.length + 1 > w.pathMax then .ub .bufferOverflow else
    let d := dirnameC o.outputPath
    if w.chdirOk then .val { (st.emit (.chdir d true)) with inOut := true }
    else .val ((st.emit (.chdir d false)).stop 1)
  | .clean => if o.clean then cleanDir w st else .val st
  | .writeModule =>
    let p := plan st.fpf
    writeModule o w p.1 p.2 st

def runSteps (o : Opts) (w : World) (plan : BitVec 32 → List (BitVec 32) × List (BitVec 32)) : List MainStep → St → Out St
  | [], st => .val st
  | s :: rest, st =>
    match step o w plan s st with
    | .val st' => runSteps o w plan rest st'
    | .ub k => .ub k
    | .trap t => .trap t
    | .oof => .oof

def finish (st : St) : St := if st.done.isSome then st else st.stop 0

/-- option validation of main() that precedes every file operation -/
def optsValid (o : Opts) : Bool := allModes.contains o.mode

/-- a whole run with an abstract partition of the functions into files -/
def run (o : Opts) (w : World) (plan : BitVec 32 → List (BitVec 32) × List (BitVec 32)) (fs : FS) : Out St :=
  let st0 : St := { fs := fs, fpf := o.fpf }
  if !optsValid o then .val (st0.stop 1) else
  match runSteps o w plan mainSteps st0 with
  | .val st => .val (finish st)
  | r => r

/-! ## the concrete partition (wasmCWriteModuleImplementation / …ImplementationFiles) -/

def u32Max : Nat := 2 ^ 32 - 1

/-- `fileCount = 1 + (functionCount - 1) / functionsPerFile` (0 files for 0 functions; fpf 0 → UINT32_MAX) -/
def fileCount (n : Nat) (fpf : BitVec 32) : Nat :=
  if n = 0 then 0 else
  let f := if fpf.toNat = 0 then u32Max else fpf.toNat
  1 + (n - 1) / f

def indices (k : Nat) : List (BitVec 32) := (List.range k).map (fun i => BitVec.ofNat 32 i)

/-- single file iff `functionsPerFile >= functions.count && dynamic.length == 0` -/
def cPlan (w : World) (fpf : BitVec 32) : List (BitVec 32) × List (BitVec 32) :=
  if fpf.toNat ≥ w.funcCount.toNat ∧ w.nDynamic = 0 then ([], [])
  else (indices (fileCount w.nStatic fpf), indices (fileCount w.nDynamic fpf))

def runC (o : Opts) (w : World) (fs : FS) : Out St := run o w (cPlan w) fs

end W2c2Verif.Model.Files
