/-
  Model.Members — the members of the instance struct written for the imports of one kind (globals | memories | tables), as the
  regenerated member writers (`Gen.Members`, from wasmCWriteGlobalImports / …MemoryImports / …TableImports) decide: walk the import
  entries in order; an entry is skipped by the regenerated rule (`never` | an EARLIER entry agrees on the compared strings); otherwise
  its member is named by the regenerated mangling rule (`Model.Mangle.mangleL`, the C symbol all uses of that import write).
-/
import W2c2Verif.Gen.Members
import W2c2Verif.Model.Mangle

namespace W2c2Verif.Model.Members
open W2c2Verif.Gen.Members W2c2Verif.Model.Mangle

/-- an import entry: (module, field) -/
abbrev Imp := List UInt8 × List UInt8

def agree (a b : Imp) : Key → Bool
  | .module => a.1 == b.1
  | .name => a.2 == b.2

def skipped (s : Skip) (earlier : List Imp) (e : Imp) : Bool :=
  match s with
  | .never => false
  | .earlierSame keys => earlier.any fun p => keys.all (agree p e)

def go (s : Skip) : List Imp → List Imp → List (List Nat)
  | _, [] => []
  | earlier, e :: rest => (if skipped s earlier e then [] else [mangleL e.1 e.2]) ++ go s (earlier ++ [e]) rest

/-- the member names, in the order they are declared -/
def members (s : Skip) (imports : List Imp) : List (List Nat) := go s [] imports

end W2c2Verif.Model.Members
