import W2c2Verif.Model.Threads
import W2c2Verif.CSem.Expr

/-!
  Model.Futex — executable model of `/repo/futex/futex.c` (`wasmMemoryAtomicWait`,
  `wasmMemoryAtomicNotify`) over `map.c` / `list.c` and the `WASM_MUTEX_*` / `WASM_COND_*` macros
  of `w2c2_base.h` (pthread branch), in the `Sys` / `Reach` frame of `Model.Threads`.

  Shared state `G`: the memory's mutex, the byte memory, `mem->futex` (allocated or not), the
  bucket chains of the address→wait-list map (bucket of key `k` is `k % B`, exactly as map.c
  keys them; `B` = FUTEX_BUCKET_COUNT is a parameter of the model), map nodes {key, wait list,
  live}, wait records {status, live, owner, address}, the set of parked (thread, condvar) pairs
  and — ghost — the log of Waiting→Notified transitions (`marks`).

  A thread runs a program (list of `Op`s); each op is executed STATEMENT BY STATEMENT of futex.c,
  one program counter value per statement (see `PC`).  Heap objects are never re-used: a wait
  record / map node allocated by thread `t` during its `k`-th operation has identity `(t, k)`;
  `live` is cleared by `free`.  Every dereference checks liveness and leads to `crashed
  useAfterFree` otherwise (so a stale pointer is always detected, even where the C allocator
  would hand the same address out again).

  Abstraction level (what is NOT modelled at pointer granularity): the doubly linked lists of
  list.c are Lean lists of identities (`listPrepend` = cons, `listRemove` = erase; removing an
  element that is not in the list yields what the C code yields for an element with NULL links:
  the empty list); the notifier's `wait = wait->link.next` walk is a cursor that is a suffix of
  the node's list; allocation never fails; addresses are not bounds-checked (futex.c does not).
-/
namespace W2c2Verif.Futex
open W2c2Verif.Threads

/-- identity of a heap object: (allocating thread, serial number of its operation) -/
abbrev Id := Tid × Nat

inductive WStatus
  | waiting | notified
  deriving DecidableEq, Repr, Inhabited

structure WaitRec where
  status : WStatus
  live : Bool
  /-- ghost: allocating thread -/
  owner : Tid
  /-- ghost: address it is enqueued under -/
  addr : Nat
  deriving Repr, Inhabited

structure NodeRec where
  key : Nat
  /-- `node->value`: head of the wait list -/
  waits : List Id
  live : Bool
  deriving Repr, Inhabited

/-- ghost log entry: notify call `(tid, serial)` on address `addr` moved `wait` Waiting→Notified -/
structure Mark where
  tid : Tid
  serial : Nat
  addr : Nat
  wait : Id
  deriving Repr, DecidableEq

structure G where
  shared : Bool
  mutex : Mutex
  mem : Nat → Nat
  /-- `mem->futex != NULL` -/
  mapAlloc : Bool
  buckets : Nat → List Id
  nodes : Id → NodeRec
  waits : Id → WaitRec
  parked : Parked Id
  marks : List Mark

inductive Op
  /-- `memory.atomic.wait32/64`: address, expected value, timeout (ns; negative = infinite) -/
  | wait (w64 : Bool) (addr : Nat) (expect : Nat) (timeout : Int)
  /-- `memory.atomic.notify`: address, count -/
  | notify (addr : Nat) (count : Nat)
  /-- any other thread's store of `width` bytes (little endian) — the environment -/
  | store (addr : Nat) (width : Nat) (value : Nat)
  deriving Repr, DecidableEq, Inhabited

inductive Crash
  | useAfterFree | nullDeref | mutexMisuse | condMisuse | assertFail
  deriving DecidableEq, Repr, Inhabited

/-- one value per statement of futex.c (comments quote the statement) -/
inductive PC
  | idle         -- between operations
  -- wasmMemoryAtomicWait
  | wLock        -- WASM_MUTEX_LOCK(mutex);
  | wLoad        -- if (wait64 ? i64_atomic_load(mem, address) != expect : i32_atomic_load(mem, address) != (U32)expect)
  | wUnlockNe    --     { WASM_MUTEX_UNLOCK(mutex); return 1; }
  | wAlloc       -- wait = calloc(..); wait->status = waitStatusWaiting; WASM_COND_INIT(&wait->cond)
  | wMapCreate   -- futexMap = mem->futex; if (!futexMap) { calloc; mapInitialize; mem->futex = futexMap; }
  | wMapGet      -- waitList = (Wait**)mapGet(futexMap, address);
  | wMapInsert   -- if (!waitList) waitList = (Wait**)mapInsert(futexMap, address);
  | wPrepend     -- *waitList = listPrepend(*waitList, &wait->link);
  | wCondWait    -- WASM_COND_WAIT(&wait->cond, mutex)  /  WASM_COND_RELATIVE_WAIT(&wait->cond, mutex, timeout)
  | wParked      --   … inside pthread_cond_(timed)wait: mutex released, parked or woken, re-acquiring
  | wCheck       -- [timed: if (!waitResult) break;]  if (wait->status == waitStatusNotified) break;  else loop
  | wIsTimeout   -- isTimeout = wait->status == waitStatusWaiting;
  | wRemove      -- *waitList = listRemove(*waitList, &wait->link);
  | wMapRemove   -- if (*waitList == NULL) { removed = mapRemove(futexMap, address); assert(removed == NULL); }
  | wFree        -- waitFree(wait);
  | wUnlock      -- WASM_MUTEX_UNLOCK(mutex); return isTimeout ? 2 : 0;
  -- wasmMemoryAtomicNotify
  | nShared      -- if (!mem->shared) return notifiedCount;
  | nLock        -- WASM_MUTEX_LOCK(mutex);
  | nGetMap      -- futexMap = mem->futex; if (!futexMap) { unlock; return 0; }
  | nMapGet      -- value = mapGet(futexMap, address); if (!value) { unlock; return notifiedCount; }
  | nHead        -- Wait *wait = *value;
  | nLoop        -- while (wait && notifiedCount < count) { if (wait->status == Waiting) { wait->status = Notified; ↓ } else wait = wait->link.next; }
  | nSignal      --     WASM_COND_SIGNAL(&wait->cond); notifiedCount++; wait = wait->link.next;
  | nUnlock      -- WASM_MUTEX_UNLOCK(mutex); return notifiedCount;
  -- environment store
  | sPoint
  | crashed (c : Crash)
  deriving DecidableEq, Repr, Inhabited

/-- ghost record of a completed operation -/
structure Done where
  op : Op
  ret : Nat
  /-- wait: value read by the locked atomic load -/
  loaded : Nat
  /-- wait: the last timed wait returned "timed out" -/
  timedOut : Bool
  /-- wait: `isTimeout` i.e. status was still Waiting when read after the wait loop -/
  sawWaiting : Bool
  deriving Repr

structure L where
  tid : Tid
  prog : List Op
  /-- number of completed operations = serial number of the current one -/
  serial : Nat
  pc : PC
  cur : Op
  -- parameters of the current call
  addr : Nat
  expect : Nat
  timeout : Int
  w64 : Bool
  count : Nat
  width : Nat
  -- C locals
  wait : Id              -- Wait* wait
  slot : Option Id       -- Wait** waitList / void** value  (pointer to the node's value slot)
  isTimeout : Bool
  timedOut : Bool        -- !waitResult of the last WASM_COND_RELATIVE_WAIT
  cursor : List Id       -- notify: `wait` walking the list (the not yet visited suffix)
  notified : Nat         -- notifiedCount
  -- ghost
  loaded : Nat
  done : List Done

def G.init (shared : Bool) (mem : Nat → Nat) : G :=
  { shared := shared, mutex := none, mem := mem, mapAlloc := false,
    buckets := fun _ => [], nodes := fun _ => ⟨0, [], false⟩,
    waits := fun _ => ⟨.waiting, false, 0, 0⟩, parked := [], marks := [] }

def L.init (t : Tid) (prog : List Op) : L :=
  { tid := t, prog := prog, serial := 0, pc := .idle, cur := .store 0 0 0,
    addr := 0, expect := 0, timeout := 0, w64 := false, count := 0, width := 0,
    wait := (t, 0), slot := none, isTimeout := false, timedOut := false, cursor := [],
    notified := 0, loaded := 0, done := [] }

/-! ### memory: little-endian loads / stores of `n` bytes (cells hold one byte each) -/

def loadLE (mem : Nat → Nat) (a : Nat) : Nat → Nat
  | 0 => 0
  | n + 1 => mem a % 256 + 256 * loadLE mem (a + 1) n

def storeLE (mem : Nat → Nat) (a : Nat) (v : Nat) : Nat → (Nat → Nat)
  | 0 => mem
  | n + 1 => storeLE (upd mem a (v % 256)) (a + 1) (v / 256) n

/-- the value `wasmMemoryAtomicWait` compares against: `expect` for wait64, `(U32)expect` for wait32 -/
def expected (w64 : Bool) (e : Nat) : Nat := if w64 then e % 2 ^ 64 else e % 2 ^ 32

def loadWidth (w64 : Bool) : Nat := if w64 then 8 else 4

/-! ### map.c / list.c on the abstract heap -/

/-- `mapGet`: walk the chain of bucket `key % B`; every visited node is dereferenced. -/
def chainFind (nodes : Id → NodeRec) (key : Nat) : List Id → Except Crash (Option Id)
  | [] => .ok none
  | n :: rest =>
    if !(nodes n).live then .error .useAfterFree
    else if (nodes n).key = key then .ok (some n)
    else chainFind nodes key rest

def mapGet (B : Nat) (g : G) (key : Nat) : Except Crash (Option Id) :=
  if !g.mapAlloc then .ok none            -- `if (map)` guard of mapGet
  else chainFind g.nodes key (g.buckets (key % B))

/-- `listRemove(head, element)` on identities: unlink `w`; an element that is not linked has NULL
    `prev`, so the C code returns its (NULL) `next`. -/
def listRemove (l : List Id) (w : Id) : List Id :=
  if w ∈ l then l.erase w else []

def allLiveW (g : G) (l : List Id) : Bool := l.all (fun w => (g.waits w).live)
def allLiveN (g : G) (l : List Id) : Bool := l.all (fun n => (g.nodes n).live)

/-! ### the step function -/

def L.ret (l : L) (v : Nat) : L :=
  { l with pc := .idle, serial := l.serial + 1,
           done := l.done ++ [⟨l.cur, v, l.loaded, l.timedOut, l.isTimeout⟩] }

/-- entry into the next operation: parameters are bound, C locals get their initialisers -/
def L.start (l : L) (op : Op) (rest : List Op) : L :=
  let l := { l with prog := rest, cur := op, slot := none, isTimeout := false, timedOut := false,
                    cursor := [], notified := 0, loaded := 0 }
  match op with
  | .wait w64 a e t => { l with pc := .wLock, w64 := w64, addr := a, expect := e, timeout := t }
  | .notify a n => { l with pc := .nShared, addr := a, count := n }
  | .store a w v => { l with pc := .sPoint, addr := a, width := w, expect := v }

@[inline] def run1 (g : G) (l : L) : List (Label × G × L) := [(.run, g, l)]
@[inline] def crash (g : G) (l : L) (c : Crash) : List (Label × G × L) := [(.run, g, { l with pc := .crashed c })]

/-- labelled successors of one thread -/
def stepL (B : Nat) (g : G) (l : L) : List (Label × G × L) :=
  match l.pc with
  | .idle =>
    match l.prog with
    | [] => []
    | op :: rest => run1 g (l.start op rest)
  -- ---------------------------------------------------------------- wait
  | .wLock =>
    match g.mutex.lock? l.tid with
    | some m => run1 { g with mutex := m } { l with pc := .wLoad }
    | none => []
  | .wLoad =>
    let v := loadLE g.mem l.addr (loadWidth l.w64)
    run1 g { l with loaded := v, pc := if v ≠ expected l.w64 l.expect then .wUnlockNe else .wAlloc }
  | .wUnlockNe =>
    match g.mutex.unlock? l.tid with
    | some m => run1 { g with mutex := m } (l.ret 1)
    | none => crash g l .mutexMisuse
  | .wAlloc =>
    let w : Id := (l.tid, l.serial)
    run1 { g with waits := upd g.waits w ⟨.waiting, true, l.tid, l.addr⟩ } { l with wait := w, pc := .wMapCreate }
  | .wMapCreate =>
    run1 { g with mapAlloc := true } { l with pc := .wMapGet }
  | .wMapGet =>
    match mapGet B g l.addr with
    | .error c => crash g l c
    | .ok (some n) => run1 g { l with slot := some n, pc := .wPrepend }
    | .ok none => run1 g { l with slot := none, pc := .wMapInsert }
  | .wMapInsert =>
    -- mapInsert: calloc node; buckets[i] = listPrepend(buckets[i], node) (writes old head's prev); node->key = key
    let b := l.addr % B
    if !allLiveN g ((g.buckets b).take 1) then crash g l .useAfterFree else
    let n : Id := (l.tid, l.serial)
    run1 { g with nodes := upd g.nodes n ⟨l.addr, [], true⟩, buckets := upd g.buckets b (n :: g.buckets b) }
         { l with slot := some n, pc := .wPrepend }
  | .wPrepend =>
    match l.slot with
    | none => crash g l .nullDeref
    | some n =>
      let nd := g.nodes n
      if !nd.live || !(g.waits l.wait).live || !allLiveW g (nd.waits.take 1) then crash g l .useAfterFree else
      run1 { g with nodes := upd g.nodes n { nd with waits := l.wait :: nd.waits } } { l with pc := .wCondWait }
  | .wCondWait =>
    if !(g.waits l.wait).live then crash g l .useAfterFree else
    match g.mutex.unlock? l.tid with
    | none => crash g l .mutexMisuse
    | some m => run1 { g with mutex := m, parked := (l.tid, l.wait) :: g.parked } { l with pc := .wParked, timedOut := false }
  | .wParked =>
    if (l.tid, l.wait) ∈ g.parked then
      (.spurious, { g with parked := g.parked.erase (l.tid, l.wait) }, l) ::
        (if l.timeout ≥ 0 then [(.timeout, { g with parked := g.parked.erase (l.tid, l.wait) }, { l with timedOut := true })] else [])
    else
      match g.mutex.lock? l.tid with
      | some m => run1 { g with mutex := m } { l with pc := .wCheck }
      | none => []
  | .wCheck =>
    if l.timeout ≥ 0 ∧ l.timedOut then run1 g { l with pc := .wIsTimeout }
    else if !(g.waits l.wait).live then crash g l .useAfterFree
    else if (g.waits l.wait).status = .notified then run1 g { l with pc := .wIsTimeout }
    else run1 g { l with pc := .wCondWait }
  | .wIsTimeout =>
    if !(g.waits l.wait).live then crash g l .useAfterFree else
    run1 g { l with isTimeout := (g.waits l.wait).status = .waiting, pc := .wRemove }
  | .wRemove =>
    match l.slot with
    | none => crash g l .nullDeref
    | some n =>
      let nd := g.nodes n
      if !nd.live || !(g.waits l.wait).live || !allLiveW g nd.waits then crash g l .useAfterFree else
      run1 { g with nodes := upd g.nodes n { nd with waits := listRemove nd.waits l.wait } } { l with pc := .wMapRemove }
  | .wMapRemove =>
    match l.slot with
    | none => crash g l .nullDeref
    | some n =>
      if !(g.nodes n).live then crash g l .useAfterFree else
      if (g.nodes n).waits ≠ [] then run1 g { l with pc := .wFree } else
      -- mapRemove(futexMap, address): find the node keyed `address` in its chain, unlink, free, return its value
      let b := l.addr % B
      match chainFind g.nodes l.addr (g.buckets b) with
      | .error c => crash g l c
      | .ok none => run1 g { l with pc := .wFree }                   -- returns NULL; assert(NULL == NULL)
      | .ok (some m) =>
        if !allLiveN g (g.buckets b) then crash g l .useAfterFree else
        if (g.nodes m).waits ≠ [] then crash g l .assertFail else
        run1 { g with buckets := upd g.buckets b ((g.buckets b).erase m),
                      nodes := upd g.nodes m { g.nodes m with live := false } } { l with pc := .wFree }
  | .wFree =>
    if !(g.waits l.wait).live then crash g l .useAfterFree else
    if g.parked.any (fun p => p.2 = l.wait) then crash g l .condMisuse else
    run1 { g with waits := upd g.waits l.wait { g.waits l.wait with live := false } } { l with pc := .wUnlock }
  | .wUnlock =>
    match g.mutex.unlock? l.tid with
    | some m => run1 { g with mutex := m } (l.ret (if l.isTimeout then 2 else 0))
    | none => crash g l .mutexMisuse
  -- ---------------------------------------------------------------- notify
  | .nShared =>
    if !g.shared then run1 g (l.ret 0) else run1 g { l with pc := .nLock }
  | .nLock =>
    match g.mutex.lock? l.tid with
    | some m => run1 { g with mutex := m } { l with pc := .nGetMap }
    | none => []
  | .nGetMap =>
    if !g.mapAlloc then run1 g { l with pc := .nUnlock } else run1 g { l with pc := .nMapGet }
  | .nMapGet =>
    match mapGet B g l.addr with
    | .error c => crash g l c
    | .ok none => run1 g { l with pc := .nUnlock }
    | .ok (some n) => run1 g { l with slot := some n, pc := .nHead }
  | .nHead =>
    match l.slot with
    | none => crash g l .nullDeref
    | some n =>
      if !(g.nodes n).live then crash g l .useAfterFree else
      run1 g { l with cursor := (g.nodes n).waits, pc := .nLoop }
  | .nLoop =>
    match l.cursor with
    | [] => run1 g { l with pc := .nUnlock }
    | w :: rest =>
      if l.notified < l.count then
        if !(g.waits w).live then crash g l .useAfterFree
        else if (g.waits w).status = .waiting then
          run1 { g with waits := upd g.waits w { g.waits w with status := .notified },
                        marks := g.marks ++ [⟨l.tid, l.serial, l.addr, w⟩] } { l with pc := .nSignal }
        else run1 g { l with cursor := rest }
      else run1 g { l with pc := .nUnlock }
  | .nSignal =>
    match l.cursor with
    | [] => crash g l .nullDeref
    | w :: rest =>
      if !(g.waits w).live then crash g l .useAfterFree else
      (g.parked.signal w).map fun ps =>
        (.run, { g with parked := ps }, { l with notified := l.notified + 1, cursor := rest, pc := .nLoop })
  | .nUnlock =>
    match g.mutex.unlock? l.tid with
    | some m => run1 { g with mutex := m } (l.ret l.notified)
    | none => crash g l .mutexMisuse
  -- ---------------------------------------------------------------- store
  | .sPoint =>
    run1 { g with mem := storeLE g.mem l.addr l.expect l.width } (l.ret 0)
  | .crashed _ => []

/-- the system: `step` forgets the labels -/
def sys (B : Nat) : Sys G L := ⟨fun g l => (stepL B g l).map (·.2)⟩

/-- initial configurations: nothing allocated, mutex free, arbitrary memory contents, arbitrary
    `shared` flag, every thread idle with an ARBITRARY program (threads with the empty program
    never move, so this covers any number of threads). -/
def Init (c : Cfg G L) : Prop :=
  (∃ sh mem, c.g = G.init sh mem) ∧ ∀ t, ∃ prog, c.locals t = L.init t prog

/-- scheduling points of the real code: the next statement is a pthread call (or the
    harness-level boundary before a plain store).  Used by the driver to group statements the
    way the scheduler shim does. -/
def PC.isYield : PC → Bool
  | .wLock | .wUnlockNe | .wCondWait | .wParked | .wUnlock | .nLock | .nSignal | .nUnlock | .sPoint => true
  | .crashed _ => true
  | _ => false

/-! ### emission of wait / notify by `c.c` (`wasmCWriteMemoryAtomicWaitExpr`, `…NotifyExpr`)

  Operands are the top type-stack entries: for wait at stack index `k` (address), `k+1` (expected),
  `k+2` (timeout); the result replaces the address slot.  The address argument is the address
  operand's stack variable plus the memarg's static offset as an unsigned literal (nothing is
  appended for offset 0).  `addrExpr` is the C expression that text denotes. -/
namespace Emit

def stackName (ty : String) (k : Nat) : String := "s" ++ ty ++ toString k

def addrText (k off : Nat) : String :=
  stackName "i" k ++ (if off = 0 then "" else "+" ++ toString off ++ "U")

def waitStmt (w64 : Bool) (k off : Nat) : String :=
  stackName "i" k ++ "=wasmMemoryAtomicWait(i->m0," ++ addrText k off ++ "," ++
    stackName (if w64 then "j" else "i") (k + 1) ++ "," ++ stackName "j" (k + 2) ++ "," ++
    (if w64 then "true" else "false") ++ ");"

def notifyStmt (k off : Nat) : String :=
  stackName "i" k ++ "=wasmMemoryAtomicNotify(i->m0," ++ addrText k off ++ "," ++ stackName "i" (k + 1) ++ ");"

/-- the C expression passed for the `U32 address` parameter -/
def addrExpr (k off : Nat) : CExpr :=
  if off = 0 then .var (stackName "i" k)
  else .bin .add (.var (stackName "i" k)) (.lit (.u32 (BitVec.ofNat 32 off)))

end Emit

end W2c2Verif.Futex
