/-
  Model.Alloc — what a block of storage holds when instantiation gets it from the allocator that `wasmTableAllocate` /
  `wasmMemoryAllocate` actually call (`Gen.Alloc`, regenerated from w2c2_base.h on every run): `calloc` hands out zeros, `malloc`
  whatever the heap held before (`stale`: ANY previous content — a recycled chunk of a freed instance, allocator metadata, …).
-/
import W2c2Verif.Gen.Alloc

namespace W2c2Verif.Model.Alloc
open W2c2Verif.Gen.Alloc

def zeroed : Allocator → Bool
  | .calloc => true
  | .mallocThenZero => true
  | .malloc => false

/-- `n` cells from allocator `a`; `zero` is the all-zero-bytes value of a cell -/
def freshCells {α} (a : Allocator) (zero : α) (stale : Nat → α) (n : Nat) : Array α :=
  if zeroed a then Array.replicate n zero else Array.ofFn (n := n) fun i => stale i.val

/-- the slots of a table right after `wasmTableAllocate` (NULL function pointer = none) -/
def freshTable (stale : Nat → Option Nat) (size : Nat) : Array (Option Nat) := freshCells tableData none stale size

/-- the bytes of a memory right after `wasmMemoryAllocate` -/
def freshMemory (stale : Nat → UInt8) (bytes : Nat) : Array UInt8 := freshCells memoryData 0 stale bytes

end W2c2Verif.Model.Alloc
