/-
  Model.WasiPath — `resolvePath` of wasi/wasi.c and the WASI path calls built on it (C14).

  Host objects are byte lists with their exact size: reading or writing outside an object is
  an explicit `.ub` outcome (what ASan reports), never a default value.

    bool resolvePath(char* directory, char* path, U32 pathLength, char result[PATH_MAX]) {
        MUST (pathLength > 0)
        if (path[0] == '/') {
            MUST (pathLength < PATH_MAX)
            MUST (memchr(path, '\0', pathLength) == NULL)   // (*)
            memcpy(result, path, pathLength);
            result[pathLength] = '\0';
        } else {
            size_t totalLength = strlen(directory);
            MUST (totalLength + pathLength + 1 < PATH_MAX)
            MUST (memchr(path, '\0', pathLength) == NULL)   // (*)
            memcpy(result, directory, totalLength);
            if (directory[totalLength - 1] != '/') { result[totalLength++] = '/'; }
            memcpy(result + totalLength, path, pathLength);
            totalLength += pathLength;
            result[totalLength] = '\0';
        }
        return true;
    }

  (*) The NUL guard follows the regenerated shape: absent (`Gen.WasiPath.rejectsNul = false`), once
  directly after `MUST (pathLength > 0)` (`nulCheckAfterLength = false`), or — current source — in
  each branch after the branch's length guard (`nulCheckAfterLength = true`).

  The three guards, the compared / inserted characters are taken from `Gen.WasiPath`
  (regenerated from the source on every run).  `PATH_MAX` is a parameter `pm` (4096 from
  <limits.h> on Linux, 1024 by the file's fallback): every theorem holds for all `pm`.
  `size_t` arithmetic is modelled in `Nat` (64-bit host: `strlen + U32 + 1` cannot wrap).
-/
import W2c2Verif.CSem.Basic
import W2c2Verif.Gen.WasiPath

namespace W2c2Verif.WasiPath
open W2c2Verif

abbrev Bytes := List UInt8

/-- read `obj[i]`; `obj` is the whole object the pointer points into -/
def readAt (obj : Bytes) (i : Nat) : Out UInt8 :=
  match obj[i]? with
  | some b => .val b
  | none => .ub .outOfBounds

/-- `buf[i] = v` for a host array `buf` of `buf.length` bytes -/
def writeAt (buf : Bytes) (i : Nat) (v : UInt8) : Out Bytes :=
  if i < buf.length then .val (buf.set i v) else .ub .bufferOverflow

/-- `memcpy(p, src, n)` where `p` points at the start of `dstTail` (the rest of the destination
    object): byte `i` of `src` is read, then stored to `p[i]`, for `i = 0 … n-1` -/
def copyInto : (src : Bytes) → (n : Nat) → (dstTail : Bytes) → Out Bytes
  | _, 0, dstTail => .val dstTail
  | [], _ + 1, _ => .ub .outOfBounds
  | _ :: _, _ + 1, [] => .ub .bufferOverflow
  | b :: src, n + 1, _ :: dstTail => do
    let r ← copyInto src n dstTail
    .val (b :: r)

/-- `memcpy(dst + off, src, n)` -/
def memcpyTo (dst : Bytes) (off : Nat) (src : Bytes) (n : Nat) : Out Bytes := do
  let r ← copyInto src n (dst.drop off)
  .val (dst.take off ++ r)

/-- `strlen(s)` where `s` points at the start of the object `obj` (no NUL inside ⇒ over-read) -/
def cstrlen : Bytes → Out Nat
  | [] => .ub .outOfBounds
  | b :: rest => if b = 0 then .val 0 else do
    let n ← cstrlen rest
    .val (n + 1)

/-- `memchr(p, '\0', n) == NULL` for `p` pointing at the start of `obj`: the bytes are examined in
    order and the scan stops at the first NUL (C11 7.24.5.1) -/
def noNulIn : Bytes → Nat → Out Bool
  | _, 0 => .val true
  | [], _ + 1 => .ub .outOfBounds
  | b :: rest, n + 1 => if b = 0 then .val false else noNulIn rest n

/-- the C string a `char*` to the start of `buf` denotes for a callee that stops at the first NUL -/
def cstr (buf : Bytes) : Bytes := buf.takeWhile (fun b => !(b == 0))

/-- `MUST (memchr(path, '\0', pathLength) == NULL)` if present at this place of the source -/
def nulGuard (present : Bool) (avail : Bytes) (pathLength : Nat) : Out Bool :=
  if present then noNulIn avail pathLength else .val true

/-- `resolvePath(directory, path, pathLength, result)`.
    `directory`: the host object holding the descriptor's path (NUL-terminated string at its start);
    `avail`: guest memory from `memory->data + pathPointer` to the END of the memory object;
    `result`: the caller's `char[PATH_MAX]` with arbitrary initial content.
    `.val none` = returned false; `.val (some buf)` = returned true with `result` = `buf`. -/
def resolvePath (pm : Nat) (directory avail : Bytes) (pathLength : Nat) (result : Bytes) :
    Out (Option Bytes) :=
  if ¬ Gen.WasiPath.guardNonEmpty pathLength 0 pm then .val none else do
  let nulFree ← nulGuard (Gen.WasiPath.rejectsNul && !Gen.WasiPath.nulCheckAfterLength) avail pathLength
  if ¬ nulFree then .val none else do
  let c0 ← readAt avail 0
  if c0 = Gen.WasiPath.absChar then
    if ¬ Gen.WasiPath.guardAbs pathLength 0 pm then .val none else do
    let nulFree ← nulGuard (Gen.WasiPath.rejectsNul && Gen.WasiPath.nulCheckAfterLength) avail pathLength
    if ¬ nulFree then .val none else do
    let result ← memcpyTo result 0 avail pathLength
    let result ← writeAt result pathLength Gen.WasiPath.terminator
    .val (some result)
  else do
    let totalLength ← cstrlen directory
    if ¬ Gen.WasiPath.guardRel pathLength totalLength pm then .val none else do
    let nulFree ← nulGuard (Gen.WasiPath.rejectsNul && Gen.WasiPath.nulCheckAfterLength) avail pathLength
    if ¬ nulFree then .val none else do
    let result ← memcpyTo result 0 directory totalLength
    let last ← if totalLength = 0 then (.ub .outOfBounds : Out UInt8) else readAt directory (totalLength - 1)
    let (result, totalLength) ←
      (if last ≠ Gen.WasiPath.sepTestChar then do
        let r ← writeAt result totalLength Gen.WasiPath.sepChar
        .val (r, totalLength + 1)
      else .val (result, totalLength) : Out (Bytes × Nat))
    let result ← memcpyTo result totalLength avail pathLength
    let totalLength := totalLength + pathLength
    let result ← writeAt result totalLength Gen.WasiPath.terminator
    .val (some result)

/-- the separator `resolvePath` inserts after `dir` -/
def sepOf (dir : Bytes) : Bytes := if dir.getLast? = some 47 then [] else [47]

/-- what the property demands of `resolvePath` for a NUL-free directory string `dir` and guest
    path `path` (any bytes): the resolved host path, or `none` = rejected -/
def resolveSpec (pm : Nat) (dir path : Bytes) : Option Bytes :=
  if path.length = 0 then none
  else if (0 : UInt8) ∈ path then none          -- a host path cannot contain NUL
  else if path.head? = some 47 then (if path.length < pm then some path else none)
  else if dir.length + path.length + 1 < pm then some (dir ++ sepOf dir ++ path) else none

/-! ### strcpy into a `char[PATH_MAX]` (every path call copies the resolved path once more) -/

/-- `strcpy(dst, src)`: copy bytes of `src` up to and including the first NUL -/
def strcpy : (dst src : Bytes) → Out Bytes
  | _, [] => .ub .outOfBounds            -- no NUL in the source object
  | [], _ :: _ => .ub .bufferOverflow
  | _ :: dst, b :: src =>
    if b = 0 then .val (b :: dst) else do
    let r ← strcpy dst src
    .val (b :: r)

/-! ### the path calls -/

/-- the one host operation a path call performs -/
inductive HostOp
  | mkdir (path : Bytes) (mode : Nat)
  | rmdir (path : Bytes)
  | unlink (path : Bytes)
  | rename (old new : Bytes)
  | symlink (target linkpath : Bytes)
  | readlink (path : Bytes) (bufLen : Nat)
  | stat (path : Bytes)
  | lstat (path : Bytes)
  deriving DecidableEq, Repr

/-- which path call -/
inductive PathCall
  | createDirectory | removeDirectory | unlinkFile | readlink (bufLen : Nat) | filestatGet (lookupFlags : Nat)
  deriving DecidableEq, Repr

def PathCall.hostOp : PathCall → Bytes → HostOp
  | .createDirectory, p => .mkdir p Gen.WasiPath.mkdirMode
  | .removeDirectory, p => .rmdir p
  | .unlinkFile, p => .unlink p
  | .readlink n, p => .readlink p n
  | .filestatGet fl, p => if Gen.WasiPath.filestatHostCallFor fl == "stat" then .stat p else .lstat p   -- the regenerated decision

/-- A descriptor-table slot as far as the path calls look at it: `path` (`none` = NULL). -/
abbrev FdTable := List (Option Bytes)

/-- result of a host call: `0` or `-1` with `errno` given by name (e.g. "ENOENT") -/
inductive HostRes
  | ok
  | err (errnoName : String)
  deriving DecidableEq, Repr

/-- `wasiErrno()` over the regenerated table -/
def wasiErrno (name : String) : Nat :=
  match Gen.WasiPath.errnoTable.find? (·.1 == name) with
  | some (_, v) => v
  | none => Gen.WasiPath.errnoDefault

/-- outcome of a path call: returned WASI errno and the host operations performed, in order -/
structure PathResult where
  errno : Nat
  trace : List HostOp
  deriving DecidableEq, Repr

/-- prologue shared by all path calls: `wasiFileDescriptorGet` then `path == NULL` test.
    (`.inl errno` = early return) -/
def prologue (fds : FdTable) (fd : Nat) : Sum Nat Bytes :=
  match fds[fd]? with
  | none => .inl Gen.WasiPath.errnoBadf
  | some none => .inl Gen.WasiPath.errnoBadf
  | some (some p) => .inr p

/-- path_create_directory / path_remove_directory / path_unlink_file / path_readlink /
    path_filestat_get: prologue, `resolvePath`, `strcpy(nativeResolvedPath, resolvedPath)`, one
    host call on `nativeResolvedPath`, errno translation.  `host` answers the host call.
    `stack1`, `stack2`: initial contents of the two `char[PATH_MAX]` locals. -/
def pathCall (pm : Nat) (host : HostOp → HostRes) (fds : FdTable) (call : PathCall)
    (fd : Nat) (avail : Bytes) (pathLength : Nat) (stack1 stack2 : Bytes) : Out PathResult :=
  match prologue fds fd with
  | .inl e => .val ⟨e, []⟩
  | .inr preopenPath => do
    match ← resolvePath pm preopenPath avail pathLength stack1 with
    | none => .val ⟨Gen.WasiPath.errnoInval, []⟩
    | some resolved => do
      let native ← strcpy stack2 resolved
      let op := call.hostOp (cstr native)
      match host op with
      | .ok => .val ⟨Gen.WasiPath.errnoSuccess, [op]⟩
      | .err e => .val ⟨wasiErrno e, [op]⟩

/-- path_rename: both descriptors looked up first, then old path resolved, then new path. -/
def pathRename (pm : Nat) (host : HostOp → HostRes) (fds : FdTable)
    (oldFd : Nat) (oldAvail : Bytes) (oldLen : Nat) (newFd : Nat) (newAvail : Bytes) (newLen : Nat)
    (s1 s2 s3 s4 : Bytes) : Out PathResult :=
  match fds[oldFd]? with
  | none => .val ⟨Gen.WasiPath.errnoBadf, []⟩
  | some oldSlot =>
  match fds[newFd]? with
  | none => .val ⟨Gen.WasiPath.errnoBadf, []⟩
  | some newSlot =>
  match oldSlot with
  | none => .val ⟨Gen.WasiPath.errnoBadf, []⟩
  | some oldPre => do
    match ← resolvePath pm oldPre oldAvail oldLen s1 with
    | none => .val ⟨Gen.WasiPath.errnoInval, []⟩
    | some oldResolved =>
    match newSlot with
    | none => .val ⟨Gen.WasiPath.errnoBadf, []⟩
    | some newPre => do
      match ← resolvePath pm newPre newAvail newLen s2 with
      | none => .val ⟨Gen.WasiPath.errnoInval, []⟩
      | some newResolved => do
        let nativeOld ← strcpy s3 oldResolved
        let nativeNew ← strcpy s4 newResolved
        let op := HostOp.rename (cstr nativeOld) (cstr nativeNew)
        match host op with
        | .ok => .val ⟨Gen.WasiPath.errnoSuccess, [op]⟩
        | .err e => .val ⟨wasiErrno e, [op]⟩

/-- path_symlink: the link *target* is copied verbatim (length-checked against PATH_MAX, not
    resolved); the link path is resolved. -/
def pathSymlink (pm : Nat) (host : HostOp → HostRes) (fds : FdTable)
    (oldAvail : Bytes) (oldLen : Nat) (fd : Nat) (newAvail : Bytes) (newLen : Nat)
    (s1 s2 s3 s4 : Bytes) : Out PathResult :=
  match fds[fd]? with
  | none => .val ⟨Gen.WasiPath.errnoBadf, []⟩
  | some slot =>
  if Gen.WasiPath.symlinkTargetTooLong oldLen pm then .val ⟨Gen.WasiPath.symlinkTargetErrno, []⟩ else do
  let oldResolved ← memcpyTo s1 0 oldAvail oldLen
  let oldResolved ← writeAt oldResolved oldLen 0
  match slot with
  | none => .val ⟨Gen.WasiPath.errnoBadf, []⟩
  | some pre => do
    match ← resolvePath pm pre newAvail newLen s2 with
    | none => .val ⟨Gen.WasiPath.errnoInval, []⟩
    | some newResolved => do
      let nativeOld ← strcpy s3 oldResolved
      let nativeNew ← strcpy s4 newResolved
      let op := HostOp.symlink (cstr nativeOld) (cstr nativeNew)
      match host op with
      | .ok => .val ⟨Gen.WasiPath.errnoSuccess, [op]⟩
      | .err e => .val ⟨wasiErrno e, [op]⟩

/-! ### guest linear memory (`memory->data`, an object of exactly `m.length` bytes; w2c2's
    load/store functions and wasi.c's `memcpy`/`memset` into it perform no bounds checks) -/

abbrev Mem := List UInt8

/-- C `U32` arithmetic -/
def u32 (x : Nat) : Nat := x % 4294967296

/-- `memcpy(memory->data + addr, bs, |bs|)` -/
def storeBytes (m : Mem) (addr : Nat) (bs : Bytes) : Out Mem :=
  if addr + bs.length ≤ m.length then .val (m.take addr ++ bs ++ m.drop (addr + bs.length))
  else .ub .outOfBounds

/-- little-endian bytes of the low `w` bytes of `v` -/
def leBytes : Nat → Nat → Bytes
  | 0, _ => []
  | w + 1, v => UInt8.ofNat (v % 256) :: leBytes w (v / 256)

def leVal : Bytes → Nat
  | [] => 0
  | b :: r => b.toNat + 256 * leVal r

def i32Store (m : Mem) (addr v : Nat) : Out Mem := storeBytes m addr (leBytes 4 v)
def i64Store (m : Mem) (addr v : Nat) : Out Mem := storeBytes m addr (leBytes 8 v)
def i32Store8 (m : Mem) (addr v : Nat) : Out Mem := storeBytes m addr (leBytes 1 v)

def loadBytes (m : Mem) (addr n : Nat) : Out Bytes :=
  if addr + n ≤ m.length then .val ((m.drop addr).take n) else .ub .outOfBounds

/-- The guest-memory effect of `wasiPathReadlink` after the path has been resolved:
      length = readlink(nativeResolvedPath, buffer, bufferLength);   // host call, writes `length` bytes, no NUL
      if (length < 0) return wasiErrno();
      [buffer[length] = '\\0';]                                       // iff Gen.WasiPath.readlinkTerminatesInGuest
      i32_store(memory, lengthPointer, length);
    `host`: errno name, or the link target (the host places `min(|target|, bufferLength)` bytes). -/
def pathReadlinkMem (host : Sum String Bytes) (mem : Mem) (bufPtr bufLen lenPtr : Nat) : Out (Nat × Mem) :=
  match host with
  | .inl e => .val (wasiErrno e, mem)
  | .inr target => do
    let length := min target.length bufLen
    let mem ← storeBytes mem bufPtr (target.take length)
    let mem ← if Gen.WasiPath.readlinkTerminatesInGuest then storeBytes mem (bufPtr + length) [0] else .val mem
    let mem ← i32Store mem lenPtr length
    .val (Gen.WasiPath.errnoSuccess, mem)

end W2c2Verif.WasiPath
