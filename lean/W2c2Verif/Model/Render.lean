/-
  Model.Render — the C text of a translated function, token for token as w2c2 writes it
  (whitespace is not significant for the `emit-tokens` correspondence: both sides are
  tokenised by the same C lexer before comparison).  `pretty` only adds braces around blocks.
-/
import W2c2Verif.Model.Emit
import W2c2Verif.Model.Literal
import W2c2Verif.Gen.Mangle

namespace W2c2Verif.Model
open W2c2Verif Gen

/-- naming context of the module -/
structure Names where
  moduleName : String := "m"
  multi : Bool := false                       -- `-m`: prefix function names with the module name
  pretty : Bool := false
  funcImports : List (List UInt8 × List UInt8) := []      -- (module, field) of imported functions
  globalImports : List (List UInt8 × List UInt8) := []
  memImports : List (List UInt8 × List UInt8) := []
  tableImports : List (List UInt8 × List UInt8) := []
  types : List Wasm.FuncType := []
  deriving Inhabited

def hex2 (b : UInt8) : String :=
  let d := (Nat.toDigits 16 b.toNat).map Char.toUpper
  String.ofList (if d.length < 2 then '0' :: d else d)

def isAlnum (b : UInt8) : Bool :=
  (48 ≤ b.toNat && b.toNat ≤ 57) || (65 ≤ b.toNat && b.toNat ≤ 90) || (97 ≤ b.toNat && b.toNat ≤ 122)

/-- `wasmCWriteStringEscaped`: `_` stays, a second consecutive `_` becomes `__`, anything that
    is not alphanumeric (or is the escape character `X`) becomes `X%02X` -/
def escapeAux : Option UInt8 → List UInt8 → String
  | _, [] => ""
  | prev, c :: rest =>
    let piece : String :=
      if c.toNat = 95 then (if prev = some c then "__" else "_")
      else if c.toNat ≠ 88 && isAlnum c then String.singleton (Char.ofNat c.toNat)
      else "X" ++ hex2 c
    piece ++ escapeAux (some c) rest

def escapeName (bs : List UInt8) : String := escapeAux none bs

/-- the MODULE part of an import's identifier (`wasmCWrite{File,String}EscapedModule`): a leading byte for which one of the regenerated
    conditions `Gen.Mangle.moduleLeadEscape` holds (a digit; none on a tree without the wrapper) is written as `X%02X`, the rest is
    escaped as a name of its own -/
def escapeModule : List UInt8 → String
  | [] => ""
  | c :: rest =>
    if Gen.Mangle.moduleLeadEscape.any (fun a => match a with | .digit => 48 ≤ c.toNat && c.toNat ≤ 57) then "X" ++ hex2 c ++ escapeName rest
    else escapeName (c :: rest)

def importName (mn : List UInt8 × List UInt8) : String := escapeModule mn.1 ++ "__" ++ escapeName mn.2

def vtName (t : VT) : String := (Gen.valueTypeNames[t.idx]?).getD "?"
def slotStr (s : Slot) : String := slotName s.ty s.idx
def localStr (i : Nat) : String := String.singleton Gen.localNamePrefix ++ toString i
def labelStr (i : Nat) : String := String.singleton Gen.labelNamePrefix ++ toString i

def funcUse (n : Names) (f : Nat) : String :=
  (if n.multi then n.moduleName ++ "_" else "") ++
  (match n.funcImports[f]? with
   | some mn => importName mn
   | none => "f" ++ toString f)

def globalUse (n : Names) (g : Nat) : String :=
  match n.globalImports[g]? with
  | some mn => "(*i->" ++ importName mn ++ ")"
  | none => "i->" ++ String.singleton Gen.globalNamePrefix ++ toString g

/-- memory 0 as a `wasmMemory*` (reference = true) -/
def memRef (n : Names) : String :=
  match n.memImports[0]? with
  | some mn => "i->" ++ importName mn
  | none => "i->" ++ String.singleton Gen.memoryNamePrefix ++ "0"
def memVal (n : Names) : String := "(*" ++ memRef n ++ ")"

def tableUse (n : Names) (t : Nat) : String :=
  match n.tableImports[t]? with
  | some mn => "(*i->" ++ importName mn ++ ")"
  | none => "i->" ++ String.singleton Gen.tableNamePrefix ++ toString t

def retTypeName (ft : Wasm.FuncType) : String :=
  match ft.results with | [] => "void" | r :: _ => vtName (vtOfW r)

def addrStr (a : Slot) (off : Nat) : String :=
  "(U64)" ++ slotStr a ++ (if off ≠ 0 then "+" ++ toString off ++ "U" else "")

def copyStr : Option (Slot × Slot) → String
  | none => ""
  | some (d, s) => slotStr d ++ "=" ++ slotStr s ++ ";"

/-- the numeric statements, by emitter kind (mirrors Model.numEmit) -/
def numStr (opcode : String) (k : EmitKind) (t1 : VT) (i1 : Nat) (t0 : VT) (i0 : Nat) : String :=
  match k with
  | .unary rt op _ => slotName rt i0 ++ "=" ++ op ++ "(" ++ slotName t0 i0 ++ ");"
  | .infix rt op assign =>
    if assign then slotName rt i1 ++ op ++ "=" ++ slotName t0 i0 ++ ";"
    else slotName rt i1 ++ "=" ++ slotName t1 i1 ++ " " ++ op ++ " " ++ slotName t0 i0 ++ ";"
  | .signedInfix op =>
    let rt := (lookupVT Gen.opcodeResultType opcode).getD .i32
    let p1 := (lookupVT Gen.opcodeParam1Type opcode).getD .i32
    let ut := (Gen.valueTypeNames[p1.idx]?).getD "?"
    let st := (Gen.signedTypeNames[p1.idx]?).getD "?"
    slotName rt i1 ++ "=(" ++ ut ++ ")((" ++ st ++ ")" ++ slotName t1 i1 ++ op ++ "(" ++ st ++ ")" ++ slotName t0 i0 ++ ");"
  | .prefixBinary rt name => slotName rt i1 ++ "=" ++ name ++ "(" ++ slotName t1 i1 ++ "," ++ slotName t0 i0 ++ ");"
  | .shl =>
    let rt := (lookupVT Gen.opcodeResultType opcode).getD .i32
    slotName t1 i1 ++ "<<=(" ++ slotName t0 i0 ++ "&" ++ (Gen.shiftMaskStrings[rt.idx]?).getD "?" ++ ");"
  | .shrU =>
    let rt := (lookupVT Gen.opcodeResultType opcode).getD .i32
    slotName t1 i1 ++ ">>=(" ++ slotName t0 i0 ++ "&" ++ (Gen.shiftMaskStrings[rt.idx]?).getD "?" ++ ");"
  | .shrS =>
    let rt := (lookupVT Gen.opcodeResultType opcode).getD .i32
    let ut := (Gen.valueTypeNames[rt.idx]?).getD "?"
    let st := (Gen.signedTypeNames[rt.idx]?).getD "?"
    slotName t1 i1 ++ "=(" ++ ut ++ ")((" ++ st ++ ")" ++ slotName t1 i1 ++ ">>(" ++ slotName t0 i0 ++ "&" ++
      (Gen.shiftMaskStrings[rt.idx]?).getD "?" ++ "));"

/-- literal text; finite floats need the platform's `%.9g` / `%.17g`: supplied by `dec` -/
def constStr (dec : VT → Nat → String) (t : VT) (bits : Nat) : String :=
  match literalText t bits with
  | some s => s
  | none => dec t bits

mutual
def renderStmts (n : Names) (dec : VT → Nat → String) : List MStmtC → String
  | [] => ""
  | s :: rest => renderStmt n dec s ++ "\n" ++ renderStmts n dec rest

def renderStmt (n : Names) (dec : VT → Nat → String) : MStmtC → String
  | .num opcode k t1 i1 t0 i0 => numStr opcode k t1 i1 t0 i0
  | .const dst bits => slotStr dst ++ "=" ++ constStr dec dst.ty bits ++ ";"
  | .localGet dst l => slotStr dst ++ "=" ++ localStr l ++ ";"
  | .localSet l src => localStr l ++ "=" ++ slotStr src ++ ";"
  | .globalGet dst g => slotStr dst ++ "=" ++ globalUse n g ++ ";"
  | .globalSet g src => globalUse n g ++ "=" ++ slotStr src ++ ";"
  | .select dst c a b => slotStr dst ++ "=" ++ slotStr c ++ "?" ++ slotStr a ++ ":" ++ slotStr b ++ ";"
  | .load dst fn a off => slotStr dst ++ "=" ++ fn ++ "(" ++ memRef n ++ "," ++ addrStr a off ++ ");"
  | .store fn a off v => fn ++ "(" ++ memRef n ++ "," ++ addrStr a off ++ "," ++ slotStr v ++ ");"
  | .memSize dst => slotStr dst ++ "=wasmMemorySize(" ++ memRef n ++ ");"
  | .memGrow dst src => slotStr dst ++ "=wasmMemoryGrow(" ++ memRef n ++ "," ++ slotStr src ++ ");"
  | .rmw dst fn a off args => (match dst with | some d => slotStr d ++ "=" | none => "") ++ fn ++ "(" ++ memRef n ++ "," ++ addrStr a off ++ String.join (args.map fun x => "," ++ slotStr x) ++ ");"
  | .fence => "atomic_fence();"
  | .notify dst a off c => slotStr dst ++ "=wasmMemoryAtomicNotify(" ++ memRef n ++ "," ++ slotStr a ++ (if off ≠ 0 then "+" ++ toString off ++ "U" else "") ++ "," ++ slotStr c ++ ");"
  | .wait dst a off e t is64 => slotStr dst ++ "=wasmMemoryAtomicWait(" ++ memRef n ++ "," ++ slotStr a ++ (if off ≠ 0 then "+" ++ toString off ++ "U" else "") ++ "," ++ slotStr e ++ "," ++ slotStr t ++ "," ++ (if is64 then "true" else "false") ++ ");"
  | .memCopy d s c => "wasmMemoryCopy(" ++ memRef n ++ "," ++ memRef n ++ "," ++ slotStr d ++ "," ++ slotStr s ++ "," ++ slotStr c ++ ");"
  | .memFill d v c => "wasmMemoryFill(" ++ memRef n ++ "," ++ slotStr d ++ "," ++ slotStr v ++ "," ++ slotStr c ++ ");"
  | .memInit seg d s c => "LOAD_DATA(" ++ memVal n ++ "," ++ slotStr d ++ "," ++ String.singleton Gen.dataSegmentNamePrefix ++
      toString seg ++ "+" ++ slotStr s ++ "," ++ slotStr c ++ ");"
  | .call res f args =>
    (match res with | some d => slotStr d ++ "=" | none => "") ++ funcUse n f ++ "(i" ++
      String.join (args.map fun a => "," ++ slotStr a) ++ ");"
  | .callIndirect res ty tbl idx args =>
    let ft := (n.types[ty]?).getD default
    (match res with | some d => slotStr d ++ "=" | none => "") ++ "TF(" ++ tableUse n tbl ++ "," ++ slotStr idx ++ "," ++
      retTypeName ft ++ " (*)(" ++ n.moduleName ++ "Instance*" ++ String.join (ft.params.map fun p => "," ++ vtName (vtOfW p)) ++
      "))(i" ++ String.join (args.map fun a => "," ++ slotStr a) ++ ");"
  | .goto cp L => copyStr cp ++ "goto " ++ labelStr L ++ ";"
  | .ifGoto c cp L => "if(" ++ slotStr c ++ "){" ++ copyStr cp ++ "goto " ++ labelStr L ++ ";}"
  | .switchGoto c cases dflt =>
    "switch(" ++ slotStr c ++ "){" ++
      String.join ((cases.zipIdx).map fun ((cp, L), k) => "case " ++ toString k ++ ": " ++ copyStr cp ++ "goto " ++ labelStr L ++ ";") ++
      "default: " ++ copyStr dflt.1 ++ "goto " ++ labelStr dflt.2 ++ ";}"
  | .block body L =>
    (if n.pretty then "{" else "") ++ renderStmts n dec body ++ (if n.pretty then "}" else "") ++ labelStr L ++ ":;"
  | .loop L body => labelStr L ++ ":;{" ++ renderStmts n dec body ++ "}"
  | .ifElse c thn els L =>
    "if(" ++ slotStr c ++ "){" ++ renderStmts n dec thn ++ "}" ++
      (match els with | some e => "else{" ++ renderStmts n dec e ++ "}" | none => "") ++ labelStr L ++ ":;"
  | .unreachable => "UNREACHABLE;"
end

/-- slot declarations: for each type in enum order, the declared indices ascending -/
def declsStr (decls : List Slot) (declLen : Nat) : String :=
  String.join ([VT.i32, VT.i64, VT.f32, VT.f64].map fun t =>
    let idxs := (List.range declLen).filter fun i => decls.contains ⟨t, i⟩
    if idxs.isEmpty then "" else vtName t ++ " " ++ String.intercalate "," (idxs.map fun i => slotName t i) ++ ";\n")

/-- the whole function definition `R f<idx>(<module>Instance*i,T l0,…) { locals; slots; body L0:; return }` -/
def renderFunc (n : Names) (dec : VT → Nat → String) (funcIndex : Nat) (f : CFunc) : String :=
  let ret := match f.result with | some r => vtName r | none => "void"
  let params := String.join ((f.paramTypes.zipIdx).map fun (t, k) => "," ++ vtName t ++ " " ++ localStr k)
  let locals := String.join ((f.localTypes.zipIdx).map fun (t, k) => vtName t ++ " " ++ localStr (f.paramTypes.length + k) ++ "=0;\n")
  let declLen := f.decls.foldl (fun m s => max m (s.idx + 1)) 0
  ret ++ " " ++ (if n.multi then n.moduleName ++ "_" else "") ++ "f" ++ toString funcIndex ++
    "(" ++ n.moduleName ++ "Instance*i" ++ params ++ ") {\n" ++ locals ++ declsStr f.decls declLen ++
    renderStmts n dec f.body ++ labelStr 0 ++ ":;\n" ++
    (if f.returnsSlot then "return " ++ slotName (f.result.getD .i32) 0 ++ ";\n" else "") ++ "}\n"

end W2c2Verif.Model
