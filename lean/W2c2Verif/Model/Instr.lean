/-
  Model.Instr — how w2c2 decodes what follows an opcode inside a function body, and how it finds the type of a local.

  The C writer (c.c) walks the code bytes itself: after each opcode it calls one of the immediate readers of
  instruction.c / instruction.h / valuetype.h (or reads inline).  Which primitives of leb128.h / buffer.h each reader
  calls, in which order, and which reader each opcode uses is regenerated into `Gen.Instr` (tools/extract/gen_instr.py);
  `readSteps` interprets such a row over `Model.Buffer.P`.  `getType` is `wasmLocalsDeclarationsGetType` (locals.h) in
  U32 arithmetic, for each loop shape the extractor knows.

  Tie: tools/harness/imm_harness.c calls the real readers / the real lookup; `readerdriver imm|blocktype|locals` runs
  this model (correspondence `imm` of tools/checks/c08.py).
-/
import W2c2Verif.Model.Reader
import W2c2Verif.Gen.Instr

namespace W2c2Verif.Model.Instr
open W2c2Verif.Model W2c2Verif.Model.Reader
open W2c2Verif.Gen.Instr (Prim Step)

/-- a decoded immediate: an integer (`U32`, `I32`, `I64`, a byte) or the raw bytes of a float -/
inductive Val
  | num (i : Int)
  | raw (b : Bytes)
  deriving DecidableEq, Repr

def Val.toNat : Val → Nat
  | .num i => i.toNat
  | .raw _ => 0

/-- the error value is immaterial: every reader returns `false` on any failure -/
def immError : Nat := 0

def u32V : P Val := u32 immError >>= fun n => pure (.num n)
def i32V : P Val := i32 immError >>= fun n => pure (.num n)
def i64V : P Val := i64 false immError >>= fun n => pure (.num n)
def byteV : P Val := byte immError >>= fun b => pure (.num b.toNat)
def f32V : P Val := fixed 4 immError >>= fun b => pure (.raw b)
def f64V : P Val := fixed 8 immError >>= fun b => pure (.raw b)

/-- `leb128ReadU64(...) > 0` (no reader uses it today; kept so that a regenerated row never lacks a meaning) -/
def u64V : P Val := fun bs =>
  let r := Leb.readU64 bs
  if r.count = 0 then .err immError else .ok (.num r.value, r.rest)

def readPrim : Prim → P Val
  | .lebU32 => u32V
  | .lebI32 => i32V
  | .lebU64 => u64V
  | .lebI64 => i64V
  | .byte => byteV
  | .f32 => f32V
  | .f64 => f64V

/-- Run a row of steps; `prev` is the value read last (the bound of a counted loop). -/
def readSteps : List Step → Nat → P (List Val)
  | [], _ => pure []
  | .one p :: ss, _ => readPrim p >>= fun v => readSteps ss v.toNat >>= fun vs => pure (v :: vs)
  | .subop p :: ss, _ => readPrim p >>= fun v => readSteps ss v.toNat >>= fun vs => pure (v :: vs)
  | .counted p :: ss, prev => vec (readPrim p) prev >>= fun xs => readSteps ss prev >>= fun vs => pure (xs ++ vs)

/-- the row of a reader function of instruction.c -/
def readerSteps (name : String) : Option (List Step) :=
  (W2c2Verif.Gen.Instr.readers.find? (fun r => r.1 = name)).map (·.2)

/-- `wasmReadBlockType`: `none` = no result (`*result = NULL`), else the result type -/
def blockType : P (Option ValType) :=
  i32 immError >>= fun code =>
    if code = W2c2Verif.Gen.Reader.emptyBlockTypeCode then pure none
    else match decodeValueType code with
      | some t => pure (some t)
      | none => P.fail immError

/-! ### locals.h -/

def u32Mod : Nat := 4294967296

inductive LookupShape
  | indexBelowTotalPlusCount
  | accumulateThenIndexAtMostTotalMinusOne
  | accumulateThenIndexBelowTotal
  deriving DecidableEq, Repr

def LookupShape.ofString : String → Option LookupShape
  | "indexBelowTotalPlusCount" => some .indexBelowTotalPlusCount
  | "accumulateThenIndexAtMostTotalMinusOne" => some .accumulateThenIndexAtMostTotalMinusOne
  | "accumulateThenIndexBelowTotal" => some .accumulateThenIndexBelowTotal
  | _ => none

/-- the loop of `wasmLocalsDeclarationsGetType`; `acc` = `localsCount` (a `U32`) -/
def getTypeLoop (shape : LookupShape) : List LocalsDecl → Nat → Nat → Option ValType
  | [], _, _ => none
  | d :: ds, acc, idx =>
    match shape with
    | .indexBelowTotalPlusCount =>
      if idx < (acc + d.count) % u32Mod then some d.valueType
      else getTypeLoop shape ds ((acc + d.count) % u32Mod) idx
    | .accumulateThenIndexAtMostTotalMinusOne =>
      if idx ≤ ((acc + d.count) % u32Mod + u32Mod - 1) % u32Mod then some d.valueType
      else getTypeLoop shape ds ((acc + d.count) % u32Mod) idx
    | .accumulateThenIndexBelowTotal =>
      if idx < (acc + d.count) % u32Mod then some d.valueType
      else getTypeLoop shape ds ((acc + d.count) % u32Mod) idx

/-- `wasmLocalsDeclarationsGetType(localsDeclarations, localIndex, &result)`; `none` = returns false -/
def getType (ds : List LocalsDecl) (idx : Nat) : Option ValType :=
  match LookupShape.ofString W2c2Verif.Gen.Instr.localsLookupShape with
  | some s => getTypeLoop s ds 0 idx
  | none => none

end W2c2Verif.Model.Instr
