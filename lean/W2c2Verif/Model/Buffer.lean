/-
  Model.Buffer — `Buffer` of /repo/w2c2/buffer.h and the reader monad built on it.

  A C `Buffer {data, length}` that only ever advances is modelled by the list of bytes that are still
  unread (`data` = start of that suffix, `length` = its length).  A reader is a function from the unread
  bytes to an outcome and the new unread bytes:

      P α  =  Bytes → Res (α × Bytes)         Res = ok | err code | ub reason

  `err` is a `WasmModuleReaderErrorCode` (index into the regenerated `Gen.Reader.errorCodes`); `ub` marks a
  point where the C code performs an undefined operation (it is never replaced by a default value).
-/
import W2c2Verif.Model.Leb

namespace W2c2Verif.Model.Reader
open W2c2Verif.Model

abbrev Bytes := List UInt8

/-- Undefined operations of reader.c that the model makes explicit (see Model/Obligations.md). -/
inductive UB
  /-- reader.c:1482-1486: the locals declarations consumed more bytes than `codeSize`; `codeSize -= …` wraps
      and `bufferSkipUnchecked` moves `data` outside the file and makes `length` wrap. -/
  | codeSizeUnderflow
  /-- reader.c:331/369: `strcmp` on a NULL entry of `functionNames.names` (name section that does not name
      every function, `-g`). -/
  | nullFunctionName
  /-- array.c:20 + reader.c:355: `realloc` grew `functionNames.names` without zeroing the new tail, which is
      then read. -/
  | uninitFunctionNames
  /-- leb128.h:172: `-((I64) 1 << 63)`. -/
  | lebSignedShift
  /-- reader.c:1352: `functions.functions[export.index - functionImportCount]` (guarded by the range check
      on `export.index` three lines above). -/
  | exportFunctionIndex
  /-- reader.c:479: `functionNames.names[functionIndex]` (guarded by `functionIndex >= functionCount`). -/
  | functionNameIndex
  deriving DecidableEq, Repr

def UB.name : UB → String
  | .codeSizeUnderflow => "codeSizeUnderflow"
  | .nullFunctionName => "nullFunctionName"
  | .uninitFunctionNames => "uninitFunctionNames"
  | .lebSignedShift => "lebSignedShift"
  | .exportFunctionIndex => "exportFunctionIndex"
  | .functionNameIndex => "functionNameIndex"

inductive Res (α : Type) where
  | ok (a : α)
  | err (code : Nat)
  | ub (u : UB)
  deriving DecidableEq, Repr

def Res.isUB {α} : Res α → Bool
  | .ub _ => true
  | _ => false

def Res.toOption {α} : Res α → Option α
  | .ok a => some a
  | _ => none

def Res.map {α β} (f : α → β) : Res α → Res β
  | .ok a => .ok (f a)
  | .err c => .err c
  | .ub u => .ub u

/-- A reader over the unread bytes. -/
def P (α : Type) := Bytes → Res (α × Bytes)

namespace P

@[inline] def run {α} (p : P α) (bs : Bytes) : Res (α × Bytes) := p bs

@[inline] def pure {α} (a : α) : P α := fun bs => .ok (a, bs)

@[inline] def bind {α β} (p : P α) (f : α → P β) : P β := fun bs =>
  match p bs with
  | .ok (a, rest) => f a rest
  | .err c => .err c
  | .ub u => .ub u

instance : Monad P where
  pure := P.pure
  bind := P.bind

/-- `*error = &…; return;` -/
@[inline] def fail {α} (code : Nat) : P α := fun _ => .err code

@[inline] def undefined {α} (u : UB) : P α := fun _ => .ub u

/-- The unread bytes (`reader->buffer` copied, as in `init = reader->buffer`). -/
@[inline] def peek : P Bytes := fun bs => .ok (bs, bs)

/-- `buffer->length` -/
@[inline] def remaining : P Nat := fun bs => .ok (bs.length, bs)

end P

/-- Index of an error-code name in the regenerated `enum WasmModuleReaderErrorCode`. -/
def errCode (name : String) : Nat := Gen.Reader.errorCodes.idxOf name

/-! ### buffer.h -/

/-- `bufferReadByte`; on failure the caller stores `e`. -/
def byte (e : Nat) : P UInt8 := fun bs =>
  match bs with
  | [] => .err e
  | b :: rest => .ok (b, rest)

/-- `bufferSkip(buffer, n)` (clamped to the buffer length). -/
def skip (n : Nat) : P Unit := fun bs => .ok ((), bs.drop n)

/-- `bufferReadEqual(buffer, data, length)`. -/
def readEqual (pat : Bytes) (e : Nat) : P Unit := fun bs =>
  if bs.length < pat.length then .err e
  else if bs.take pat.length = pat then .ok ((), bs.drop pat.length) else .err e

/-- `bufferReadF32/F64`: the next `n` bytes (4 or 8), little endian, as an integer; fails on a short buffer. -/
def fixed (n : Nat) (e : Nat) : P Bytes := fun bs =>
  if bs.length < n then .err e else .ok (bs.take n, bs.drop n)

/-! ### leb128.h as readers: `if (leb128ReadU32(&buffer, &x) == 0) { error }` -/

def u32 (e : Nat) : P Nat := fun bs =>
  let r := Leb.readU32 bs
  if r.count = 0 then .err e else .ok (r.value, r.rest)

def i32 (e : Nat) : P Int := fun bs =>
  let r := Leb.readI32 bs
  if r.count = 0 then .err e else .ok (r.value, r.rest)

/-- `leb128ReadI64(...) > 0` (constant expressions).  With `strict` the undefined sign extension
    `-((I64)1 << 63)` is an `ub` outcome (what UBSan reports); without it the value is the two's-complement
    one that gcc and clang compute and reading continues (what an uninstrumented build does). -/
def i64 (strict : Bool) (e : Nat) : P Int := fun bs =>
  let r := Leb.readI64 bs
  if r.count = 0 then .err e else if strict && r.ub then .ub .lebSignedShift else .ok (r.value, r.rest)

end W2c2Verif.Model.Reader
