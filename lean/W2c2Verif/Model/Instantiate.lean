/-
  Model.Instantiate — what `<module>Instantiate` (emitted by `wasmCWriteInstantiateFunction`) does, in the
  order the generated C does it.  The sequence of Init* calls and the guard of each call are NOT written
  here: they are `Gen.instantiateSteps`, regenerated from c.c on every run (tools/extract/gen_instantiate.py).

  Objects live in one heap per kind (`World`): memory data blocks, table data blocks, global cells the
  embedder owns.  An address is an index into the heap; allocation (`wasmMemoryAllocate` / `wasmTableAllocate`:
  calloc) appends a fresh zeroed object, so freshness is explicit.  The instance struct holds pointers to
  imported objects (whatever the embedder's resolver returned, possibly NULL), pointers to the objects it
  allocated itself, and the values of its defined globals (inline struct fields).

  UB is explicit: a write through a NULL/dangling pointer is `.ub .nullDeref`, a `LOAD_DATA` / element
  store outside the target object is `.ub .outOfBounds` (w2c2 emits no bounds checks; the specification
  traps there).
-/
import W2c2Verif.CSem.Basic
import W2c2Verif.Gen.Instantiate
import W2c2Verif.Model.Elem

namespace W2c2Verif.Model.Inst
open W2c2Verif Gen

def pageSize : Nat := 65536

/-- constant expressions as `wasmCWriteConstantExpr` renders them: a literal, or `(*i->import)` / `i->g<k>` -/
inductive ConstE
  | const (bits : Nat)
  | globalGet (idx : Nat)
  deriving Repr, Inhabited, DecidableEq

structure DataSeg where
  passive : Bool
  mem : Nat                 -- memory index (imports first)
  offset : ConstE
  bytes : List UInt8
  deriving Repr, Inhabited

structure ElemSegD where
  table : Nat               -- table index (imports first)
  offset : ConstE
  funcs : List Nat
  deriving Repr, Inhabited

/-- the part of a module that instantiation looks at -/
structure ModDesc where
  memImports : Nat := 0
  tableImports : Nat := 0
  globalImports : Nat := 0
  mems : List (Nat × Nat) := []        -- defined memories (min, max pages)
  memShared : List Bool := []          -- `shared` flag of the k-th defined memory (missing = false); read only by Model.InitMem
  tables : List (Nat × Nat) := []      -- defined tables (min, max)
  globals : List ConstE := []           -- initialiser of every defined global
  datas : List DataSeg := []
  elems : List ElemSegD := []
  hasStart : Bool := false
  deriving Repr, Inhabited

/-- heaps of objects; addresses are indices -/
structure World where
  mems : List (Array UInt8) := []
  tables : List (Array (Option Nat)) := []
  globals : List Nat := []              -- global cells owned by the embedder (raw bits)
  deriving Inhabited

/-- what `resolve(module, name)` returns for the k-th imported memory / table / global (none = NULL) -/
structure Resolver where
  mem : Nat → Option Nat
  table : Nat → Option Nat
  global : Nat → Option Nat

structure Instance where
  memImp : List (Option Nat) := []
  tabImp : List (Option Nat) := []
  globImp : List (Option Nat) := []
  mems : List Nat := []                 -- addresses of the memories this instance allocated
  tables : List Nat := []
  globals : List Nat := []              -- values of the defined globals
  deriving Inhabited, Repr, DecidableEq

abbrev St := World × Instance

/-! ## heap primitives -/

/-- `memcpy(data + off, xs, n)` / `data[off + k] = x_k` one element after the other -/
def writeArr {α} (a : Array α) (off : Nat) (xs : List α) : Array α :=
  xs.zipIdx.foldl (fun a (x : α × Nat) => a.setIfInBounds (off + x.2) x.1) a

def heapWrite {α} (h : List (Array α)) (p off : Nat) (xs : List α) : Out (List (Array α)) :=
  match h[p]? with
  | none => .ub .nullDeref
  | some a => if off + xs.length ≤ a.size then .val (h.set p (writeArr a off xs)) else .ub .outOfBounds

/-- content of cell `a` of object `p` -/
def cell {α} (h : List (Array α)) (p a : Nat) : Option α := (h[p]?).bind (·[a]?)

def foldM' {σ α} (f : σ → α → Out σ) : σ → List α → Out σ
  | s, [] => .val s
  | s, x :: xs => f s x >>= fun s' => foldM' f s' xs

/-! ## evaluation of constant expressions and index spaces -/

def evalC (d : ModDesc) (gl : List Nat) (i : Instance) : ConstE → Out Nat
  | .const b => .val b
  | .globalGet k =>
    if k < d.globalImports then
      match (i.globImp[k]?).join with
      | none => .ub .nullDeref
      | some p => (match gl[p]? with | some v => .val v | none => .ub .nullDeref)
    else
      match i.globals[k - d.globalImports]? with
      | some v => .val v
      | none => .ub .unboundVar            -- a defined global read before InitGlobals stored it

def memPtr (d : ModDesc) (i : Instance) (idx : Nat) : Option Nat :=
  if idx < d.memImports then (i.memImp[idx]?).join else i.mems[idx - d.memImports]?

def tabPtr (d : ModDesc) (i : Instance) (idx : Nat) : Option Nat :=
  if idx < d.tableImports then (i.tabImp[idx]?).join else i.tables[idx - d.tableImports]?

/-! ## the Init* functions -/

def initImports (d : ModDesc) (r : Resolver) (s : St) : Out St :=
  .val (s.1, { s.2 with memImp := (List.range d.memImports).map r.mem,
                        tabImp := (List.range d.tableImports).map r.table,
                        globImp := (List.range d.globalImports).map r.global })

/-- target object, offset and bytes of an active segment (none: passive, nothing to do in arrays mode) -/
def resData (d : ModDesc) (gl : List Nat) (i : Instance) (seg : DataSeg) : Out (Option (Nat × Nat × List UInt8)) :=
  if seg.passive then .val none else
  evalC d gl i seg.offset >>= fun off =>
  match memPtr d i seg.mem with
  | none => .ub .nullDeref
  | some p => .val (some (p, off, seg.bytes))

/-- `LOAD_DATA(mem, offset, d<k>, len);` -/
def loadData (d : ModDesc) (s : St) (seg : DataSeg) : Out St :=
  resData d s.1.globals s.2 seg >>= fun
    | none => .val s
    | some w => heapWrite s.1.mems w.1 w.2.1 w.2.2 >>= fun ms => .val ({ s.1 with mems := ms }, s.2)

/-- `<module>InitMemories`: every defined memory is allocated (fresh, zeroed, `min` pages), then every data segment
    is handled in module order -/
def initMemories (d : ModDesc) (s : St) : Out St :=
  let w := { s.1 with mems := s.1.mems ++ d.mems.map fun mm => Array.replicate (mm.1 * pageSize) (0 : UInt8) }
  let i := { s.2 with mems := (List.range d.mems.length).map (s.1.mems.length + ·) }
  foldM' (loadData d) (w, i) d.datas

def resElem (d : ModDesc) (gl : List Nat) (i : Instance) (seg : ElemSegD) : Out (Nat × Nat × List (Option Nat)) :=
  evalC d gl i seg.offset >>= fun off =>
  match tabPtr d i seg.table with
  | none => .ub .nullDeref
  | some p => .val (p, off, seg.funcs.map some)

/-- `offset = <expr>; t.data[offset+0] = (wasmFunc)&f…; …` -/
def storeElems (d : ModDesc) (s : St) (seg : ElemSegD) : Out St :=
  resElem d s.1.globals s.2 seg >>= fun w =>
  heapWrite s.1.tables w.1 w.2.1 w.2.2 >>= fun ts => .val ({ s.1 with tables := ts }, s.2)

def initTables (d : ModDesc) (s : St) : Out St :=
  let w := { s.1 with tables := s.1.tables ++ d.tables.map fun tt => Array.replicate tt.1 (none : Option Nat) }
  let i := { s.2 with tables := (List.range d.tables.length).map (s.1.tables.length + ·) }
  foldM' (storeElems d) (w, i) d.elems

/-- `i->g<k> = <expr>;` in order -/
def initGlobals (d : ModDesc) (s : St) : Out St :=
  foldM' (fun (s : St) e => evalC d s.1.globals s.2 e >>= fun v => .val (s.1, { s.2 with globals := s.2.globals ++ [v] }))
    (s.1, { s.2 with globals := [] }) d.globals

/-! ## `<module>Instantiate`: the extracted call sequence -/

def atomHolds (d : ModDesc) : GuardAtom → Bool
  | .always => true
  | .memDefined => d.mems.length > 0
  | .hasData => d.datas.length > 0
  | .tableDefined => d.tables.length > 0
  | .hasElems => d.elems.length > 0
  | .globalsDefined => d.globals.length > 0
  | .hasStart => d.hasStart

def guardHolds (d : ModDesc) (g : List GuardAtom) : Bool := g.any (atomHolds d)

/-- the start function is a parameter: any function of the state (its semantics is C03/C04's subject) -/
def stepFn (d : ModDesc) (r : Resolver) (start : St → Out St) : InitStep → St → Out St
  | .imports => initImports d r
  | .memories => initMemories d
  | .tables => initTables d
  | .globals => initGlobals d
  | .start => start

/-- a call is emitted iff its guard holds; calling an Init* function whose definition was not emitted does not compile -/
def runStep (d : ModDesc) (r : Resolver) (start : St → Out St) (s : St) (gs : List GuardAtom × InitStep) : Out St :=
  if guardHolds d gs.1 then
    (if guardHolds d (initDefinitionGuard gs.2) then stepFn d r start gs.2 s else .ub .unboundVar)
  else .val s

def runSteps (d : ModDesc) (r : Resolver) (start : St → Out St) (steps : List (List GuardAtom × InitStep)) (s : St) : Out St :=
  foldM' (runStep d r start) s steps

/-- the instance struct starts zeroed (static storage / calloc) -/
def instantiate (d : ModDesc) (r : Resolver) (start : St → Out St) (w : World) : Out St :=
  runSteps d r start Gen.instantiateSteps (w, {})

/-- everything `Instantiate` does before the start function -/
def initAll (d : ModDesc) (r : Resolver) (w : World) : Out St :=
  initImports d r (w, {}) >>= initMemories d >>= initTables d >>= initGlobals d

/-! ## operations of a running instance on its objects (for the disjointness theorem) -/

inductive Op
  | memWrite (idx off : Nat) (bytes : List UInt8)       -- stores, memory.fill/copy/init
  | memGrow (idx : Nat) (newPages : Nat)                -- realloc in place of the same object, new pages zeroed
  | tableSet (idx slot : Nat) (f : Option Nat)
  | globalSet (idx v : Nat)
  deriving Repr, Inhabited

def applyOp (d : ModDesc) (s : St) : Op → Out St
  | .memWrite idx off bytes =>
    (match memPtr d s.2 idx with
     | none => .ub .nullDeref
     | some p => heapWrite s.1.mems p off bytes >>= fun ms => .val ({ s.1 with mems := ms }, s.2))
  | .memGrow idx n =>
    (match memPtr d s.2 idx with
     | none => .ub .nullDeref
     | some p => match s.1.mems[p]? with
       | none => .ub .nullDeref
       | some a => .val ({ s.1 with mems := s.1.mems.set p (a ++ Array.replicate (n * pageSize - a.size) 0) }, s.2))
  | .tableSet idx slot f =>
    (match tabPtr d s.2 idx with
     | none => .ub .nullDeref
     | some p => heapWrite s.1.tables p slot [f] >>= fun ts => .val ({ s.1 with tables := ts }, s.2))
  | .globalSet idx v =>
    if idx < d.globalImports then
      (match (s.2.globImp[idx]?).join with
       | none => .ub .nullDeref
       | some p => if p < s.1.globals.length then .val ({ s.1 with globals := s.1.globals.set p v }, s.2) else .ub .nullDeref)
    else
      (if idx - d.globalImports < s.2.globals.length then .val (s.1, { s.2 with globals := s.2.globals.set (idx - d.globalImports) v })
       else .ub .outOfBounds)

def runOps (d : ModDesc) (s : St) (ops : List Op) : Out St := foldM' (applyOp d) s ops

/-- addresses of the memory / table objects an instance can name -/
def reachMems (i : Instance) : List Nat := i.memImp.filterMap id ++ i.mems
def reachTables (i : Instance) : List Nat := i.tabImp.filterMap id ++ i.tables

end W2c2Verif.Model.Inst
