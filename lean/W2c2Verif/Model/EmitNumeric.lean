/-
  Model.EmitNumeric — hand model of the numeric-instruction emitters of c.c
  (wasmCWriteUnaryExpr, …InfixBinaryExpr, …SignedInfixBinaryExpr, …PrefixBinaryExpr and the
  three shift emitters): given the emitter kind from the regenerated dispatch table
  (`Gen.emitTable`), the types on top of the type stack and their slot indices, produce the
  statement w2c2 writes — as a `CStmt` over slot variables `s<i|j|f|d><n>` — and the slot
  that holds the result.  Tied to the real emitters by the `emit-tokens` correspondence.
-/
import W2c2Verif.CSem.Defs
import W2c2Verif.Gen.EmitTable

namespace W2c2Verif.Model
open W2c2Verif Gen

def _root_.W2c2Verif.Gen.VT.idx : VT → Nat | .i32 => 0 | .i64 => 1 | .f32 => 2 | .f64 => 3

/-- `valueTypeNames[t]` as a C type -/
def _root_.W2c2Verif.Gen.VT.cty (t : VT) : Option CTy := (Gen.valueTypeNames[t.idx]?).bind CTy.ofName
/-- `signedTypeNames[t]` (only two entries: indexing with f32/f64 is out of bounds in c.c) -/
def _root_.W2c2Verif.Gen.VT.signedCty (t : VT) : Option CTy := (Gen.signedTypeNames[t.idx]?).bind CTy.ofName
def _root_.W2c2Verif.Gen.VT.shiftMask (t : VT) : Option Nat := Gen.shiftMaskValues[t.idx]?

def slotName (t : VT) (i : Nat) : String :=
  String.ofList [Gen.stackNamePrefix, (Gen.valueTypeStackNames[t.idx]?).getD '?'] ++ toString i

def lookupVT (tab : List (String × VT)) (n : String) : Option VT := lookupAssoc tab n

def binOpOfString : String → Option BinOp
  | "+" => some .add | "-" => some .sub | "*" => some .mul | "/" => some .div | "%" => some .rem
  | "&" => some .band | "|" => some .bor | "^" => some .bxor
  | "==" => some .eq | "!=" => some .ne | "<" => some .lt | "<=" => some .le | ">" => some .gt | ">=" => some .ge
  | _ => none

/-- `operator(x)` as written by wasmCWriteUnaryExpr, from the parsed shape of the operator string -/
def unaryExpr (sh : UnShape) (x : CExpr) : CExpr :=
  match sh with
  | .lnot => .un .lnot x
  | .neg => .un .neg x
  | .call f => .call1 f x
  | .casts ts => ts.foldr (fun t e => .cast t e) x

structure NumEmit where
  stmt : CStmt
  resTy : VT
  resIdx : Nat
  deriving Inhabited

/-- the statement for one numeric opcode; `t1,i1` = second-from-top entry, `t0,i0` = top -/
def numEmit (opcode : String) (k : EmitKind) (t1 : VT) (i1 : Nat) (t0 : VT) (i0 : Nat) : Option NumEmit :=
  match k with
  | .unary rt _ sh =>
    some ⟨.assign (slotName rt i0) (unaryExpr sh (.var (slotName t0 i0))), rt, i0⟩
  | .infix rt op assign => do
    let bop ← binOpOfString op
    if assign then
      some ⟨.opAssign (slotName rt i1) bop (.var (slotName t0 i0)), rt, i1⟩
    else
      some ⟨.assign (slotName rt i1) (.bin bop (.var (slotName t1 i1)) (.var (slotName t0 i0))), rt, i1⟩
  | .signedInfix op => do
    let bop ← binOpOfString op
    let rt ← lookupVT Gen.opcodeResultType opcode
    let p1 ← lookupVT Gen.opcodeParam1Type opcode
    let ut ← p1.cty
    let st ← p1.signedCty
    some ⟨.assign (slotName rt i1)
      (.cast ut (.bin bop (.cast st (.var (slotName t1 i1))) (.cast st (.var (slotName t0 i0))))), rt, i1⟩
  | .prefixBinary rt name =>
    some ⟨.assign (slotName rt i1) (.call2 name (.var (slotName t1 i1)) (.var (slotName t0 i0))), rt, i1⟩
  | .shl => do
    let rt ← lookupVT Gen.opcodeResultType opcode
    let mask ← rt.shiftMask
    some ⟨.opAssign (slotName t1 i1) .shl
      (.bin .band (.var (slotName t0 i0)) (.lit (.i32 (BitVec.ofNat 32 mask)))), t1, i1⟩
  | .shrU => do
    let rt ← lookupVT Gen.opcodeResultType opcode
    let mask ← rt.shiftMask
    some ⟨.opAssign (slotName t1 i1) .shr
      (.bin .band (.var (slotName t0 i0)) (.lit (.i32 (BitVec.ofNat 32 mask)))), t1, i1⟩
  | .shrS => do
    let rt ← lookupVT Gen.opcodeResultType opcode
    let mask ← rt.shiftMask
    let ut ← rt.cty
    let st ← rt.signedCty
    some ⟨.assign (slotName t1 i1)
      (.cast ut (.bin .shr (.cast st (.var (slotName t1 i1)))
        (.bin .band (.var (slotName t0 i0)) (.lit (.i32 (BitVec.ofNat 32 mask)))))), t1, i1⟩

/-- run the emitted statement of `opcode` on operand values (slot 0 [and slot 1]) and read the result slot -/
def runNumeric (defs : Defs) (opcode : String) (args : List (VT × CVal)) : Out CVal :=
  match lookupAssoc Gen.emitTable opcode with
  | none => .ub .unboundVar
  | some k =>
    match args with
    | [(t0, v0)] =>
      match numEmit opcode k t0 0 t0 0 with
      | none => .ub .typeError
      | some ne =>
        let ρ : Env := [(slotName t0 0, v0)]
        -- the destination slot variable is declared with the result type
        let ρ := if ne.resTy = t0 then ρ else (slotName ne.resTy 0, CVal.ofBits ((ne.resTy.cty).getD .u32) 0) :: ρ
        do match ← ne.stmt.exec defs ρ with
           | .next ρ' => match ρ'.get (slotName ne.resTy ne.resIdx) with
              | some v => .val v | none => .ub .unboundVar
           | .ret v => .val v
    | [(t1, v1), (t0, v0)] =>
      match numEmit opcode k t1 0 t0 1 with
      | none => .ub .typeError
      | some ne =>
        let ρ : Env := [(slotName t1 0, v1), (slotName t0 1, v0)]
        let ρ := if ne.resTy = t1 then ρ else (slotName ne.resTy 0, CVal.ofBits ((ne.resTy.cty).getD .u32) 0) :: ρ
        do match ← ne.stmt.exec defs ρ with
           | .next ρ' => match ρ'.get (slotName ne.resTy ne.resIdx) with
              | some v => .val v | none => .ub .unboundVar
           | .ret v => .val v
    | _ => .ub .typeError

end W2c2Verif.Model
