/-
  Model.Mangle — the identifier mangling of c.c (`wasmCWriteFileEscaped` / `wasmCWriteStringEscaped`, `wasmCWriteFileImportName`)
  as an interpretation of the REGENERATED rule `Gen.Mangle` (escape character, keep condition, doubled underscore, separator;
  tools/extract/gen_mangle.py reads both copies of the routine on every run).  Output = the bytes written (character codes).

    piece prev c      what one byte `c` of the name becomes (`prev` = the byte before it, none at the start of the name)
    escL prev name    the whole escaped name
    escModL m         the module part of an import's identifier (`Gen.Mangle.moduleLeadEscape`: a leading digit is escaped too)
    mangleL m f       escModule(module) ++ separator ++ esc(field): the C identifier of the import (module, field)
    exportL name      esc(name): what follows `<module>_` in the symbol of an export

  `isAlnum` is C's `isalnum` in the "C" locale (w2c2 never calls setlocale) on `(unsigned char) c`.
-/
import W2c2Verif.Gen.Mangle

namespace W2c2Verif.Model.Mangle
open W2c2Verif.Gen.Mangle

def isAlnum (b : UInt8) : Bool :=
  (48 ≤ b.toNat && b.toNat ≤ 57) || (65 ≤ b.toNat && b.toNat ≤ 90) || (97 ≤ b.toNat && b.toNat ≤ 122)

def atomHolds (c : UInt8) : KeepAtom → Bool
  | .notEscapeChar => c.toNat != escapeChar
  | .alnum => isAlnum c

/-- the byte is copied unchanged -/
def keeps (c : UInt8) : Bool := keepCond.all (atomHolds c)

/-- one digit of `%02X` -/
def hexU (n : Nat) : Nat := if n < 10 then 48 + n else 55 + n

def hexL (c : UInt8) : List Nat := [hexU (c.toNat / 16), hexU (c.toNat % 16)]

def piece (prev : Option UInt8) (c : UInt8) : List Nat :=
  if c.toNat = underscore then (if prev = some c then doubled else [c.toNat])
  else if keeps c then [c.toNat]
  else escapeChar :: hexL c

def escL : Option UInt8 → List UInt8 → List Nat
  | _, [] => []
  | prev, c :: rest => piece prev c ++ escL (some c) rest

def leadHolds (c : UInt8) : LeadAtom → Bool
  | .digit => 48 ≤ c.toNat && c.toNat ≤ 57            -- C's isdigit on (unsigned char) c

/-- the first byte of a module name is escaped by the wrapper `wasmCWrite{File,String}EscapedModule` -/
def leads (c : UInt8) : Bool := moduleLeadEscape.any (leadHolds c)

/-- the module part of an import's identifier: a leading byte the wrapper escapes is written as escapeChar + %02X and the REST goes
    through the escaping routine as a name of its own (no preceding byte); otherwise the whole name goes through the routine -/
def escModL : List UInt8 → List Nat
  | [] => []
  | c :: rest => if leads c then escapeChar :: hexL c ++ escL none rest else escL none (c :: rest)

def mangleL (m f : List UInt8) : List Nat := escModL m ++ separator ++ escL none f

/-- the characters of a C identifier -/
def isIdStart (n : Nat) : Bool := (65 ≤ n && n ≤ 90) || (97 ≤ n && n ≤ 122) || n == 95
def isIdChar (n : Nat) : Bool := isIdStart n || (48 ≤ n && n ≤ 57)
def IsIdentifier (s : List Nat) : Prop := ∃ h t, s = h :: t ∧ isIdStart h = true ∧ ∀ x ∈ t, isIdChar x = true

def exportL (name : List UInt8) : List Nat := escL none name

/-- a module name on which the mangling of (module, field) pairs is unambiguous: no two consecutive underscores and no
    underscore at the end (`prev` = the byte before the rest of the name) -/
def okFrom : Option UInt8 → List UInt8 → Bool
  | prev, [] => prev != some 95
  | prev, c :: rest => !(prev == some 95 && c == 95) && okFrom (some c) rest

def ModOK (m : List UInt8) : Prop := okFrom none m = true

instance (m : List UInt8) : Decidable (ModOK m) := by unfold ModOK; infer_instance

end W2c2Verif.Model.Mangle
