/-
  Model.Elem — table initialisation as `<module>InitTables` performs it: the table is allocated with its
  declared minimum size, then every active element segment is stored in segment order, entry by entry,
  at offset + i.
-/
namespace W2c2Verif.Model

structure ElemSeg where
  offset : Nat              -- evaluated offset expression (i32.const or global.get of an import)
  funcs : List Nat          -- function indices (function index space: imports first)
  deriving Repr, Inhabited

/-- one `table.data[offset + i] = (wasmFunc) f;` statement after the other -/
def writeSeg (tbl : List (Option Nat)) (seg : ElemSeg) : List (Option Nat) :=
  seg.funcs.zipIdx.foldl (fun t (fi : Nat × Nat) => t.set (seg.offset + fi.2) (some fi.1)) tbl

def initTable (size : Nat) (segs : List ElemSeg) : List (Option Nat) :=
  segs.foldl writeSeg (List.replicate size none)

/-- the specification: a slot holds the function listed for it by the LAST segment covering it -/
def segAt (seg : ElemSeg) (k : Nat) : Option Nat :=
  if seg.offset ≤ k ∧ k < seg.offset + seg.funcs.length then seg.funcs[k - seg.offset]? else none

def slotSpec (segs : List ElemSeg) (k : Nat) : Option Nat :=
  segs.foldl (fun cur seg => match segAt seg k with | some f => some f | none => cur) none

end W2c2Verif.Model
