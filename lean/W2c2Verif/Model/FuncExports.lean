/-
  Model.FuncExports — the name table `<module>FuncExports` (instance.common.funcExports: the WASI runtime searches it for
  `wasi_thread_start`, embedders look exports up by name in it) as `wasmCWriteModuleFunctionExportsArray` writes it.  The bounds of
  its two loops, the kind tests, the declared size and the terminator row are `Gen.FuncExports`, regenerated from c.c on every run
  (tools/extract/gen_funcexports.py).

    functionExportCount es   what the first loop counts
    rows es                  the rows the second loop writes: (function index, name) of every export it keeps, in order
    table es                 the array as C initialises it: the written rows, the terminator row, and zero rows (= NULL function) up to
                             the declared size; `none` when more rows are written than declared (does not compile)
    visible t                what `for (; e->func != NULL; e++)` sees: the rows before the first NULL function
-/
import W2c2Verif.Gen.FuncExports

namespace W2c2Verif.Model.FuncExports
open W2c2Verif.Gen.FuncExports

structure Export where
  kind : Kind
  index : Nat               -- index in the kind's index space (function index for a function export)
  name : List UInt8
  deriving DecidableEq, Repr, Inhabited

def boundVal (b : Bound) (es : List Export) (counted : Nat) : Nat :=
  match b with
  | .allExports => es.length
  | .countedFunctions => counted

def functionExportCount (es : List Export) : Nat :=
  ((es.take (boundVal countBound es 0)).filter fun e => e.kind == countKind).length

def keeps (e : Export) : Bool := if rowKeepsKind then e.kind == rowKind else e.kind != rowKind

/-- a row: the function the pointer denotes and the name string -/
abbrev Row := Nat × List UInt8

def rows (es : List Export) : List Row :=
  ((es.take (boundVal rowBound es (functionExportCount es))).filter keeps).map fun e => (e.index, e.name)

def declaredRows (es : List Export) : Nat := functionExportCount es + declaredExtraRows

def table (es : List Export) : Option (List (Option Row)) :=
  let written := (rows es).map some ++ (if terminatorRow then [none] else [])
  if written.length ≤ declaredRows es then some (written ++ List.replicate (declaredRows es - written.length) none) else none

def visible (t : List (Option Row)) : List Row := (t.takeWhile Option.isSome).filterMap id

/-- the memory index a `<module>_<name>` memory accessor hands to wasmCWriteFileMemoryUse, for an export of memory `exportIndex` -/
def memoryExportTarget (exportIndex : Nat) : Nat :=
  match memoryExportArg with
  | .exportIndex => exportIndex
  | .const n => n

end W2c2Verif.Model.FuncExports
