/-
  Model.SimModule — calls between the functions of a module (C04): the function index space
  (imports first, then definitions), direct calls, recursion (any call graph: the semantics is
  indexed by a call-depth/fuel bound and the theorem holds for every bound), calls to imported host
  functions, and call_indirect through an initialised table slot of the expected type.
-/
import W2c2Verif.Model.Sim

namespace W2c2Verif.Sim
open W2c2Verif Model Gen Spec

def FRes.toOut : FRes → Out (Option Val × GS)
  | .value v g => .val (v, g) | .trap t => .trap t | .oof => .oof | .stuck => .ub .typeError

structure MFunc where
  type : Nat                 -- type index
  locals : List VT
  body : List EInstr

structure MModule where
  types : List Wasm.FuncType
  imports : List Nat         -- type index of every imported function
  funcs : List MFunc
  /-- table 0 after instantiation: the function index stored in each slot (element segments: `Model.Elem`) -/
  table : List (Option Nat)
  /-- types of the module's globals (imports first) -/
  globalTypes : List VT := []
  /-- imported (host) functions: any function of the arguments and of the instance's globals / memory -/
  host : Nat → List Val → GS → Out (Option Val × GS)
  datas : List (List UInt8) := []   -- data segments (memory.init reads them)

def MModule.ctx (m : MModule) : Ctx :=
  { types := m.types, funcTypeIdx := m.imports ++ m.funcs.map (·.type), globalTypes := m.globalTypes }

/-- the function index space: imports followed by definitions -/
def MModule.funcType (m : MModule) (fn : Nat) : Option Wasm.FuncType := (m.ctx.funcTypeIdx[fn]?).bind (m.types[·]?)

def arityOfType (ft : Wasm.FuncType) : Option (Nat × Option VT) :=
  if ft.results.length ≤ 1 then some (ft.params.length, ft.results.head?.map vtOfW) else none

def MModule.callArity (m : MModule) (fn : Nat) : Option (Nat × Option VT) := (m.funcType fn).bind arityOfType
def MModule.indArity (m : MModule) (ty : Nat) : Option (Nat × Option VT) := (m.types[ty]?).bind arityOfType

/-- call_indirect through slot `slot` expecting type `ty`: in bounds, initialised and of the expected
    signature ⇒ a call of the stored function; every other case is outside C04's quantifier -/
def MModule.indirect (m : MModule) (call : Nat → List Val → GS → Out (Option Val × GS)) (ty slot : Nat) (args : List Val) (g : GS) :
    Out (Option Val × GS) :=
  match m.table[slot]? with
  | some (some fn) => if m.funcType fn = m.types[ty]? then call fn args g else .ub .typeError
  | _ => .ub .outOfBounds

def MModule.env (m : MModule) (ns0 : NumSem) (cS cT : Nat → List Val → GS → Out (Option Val × GS)) : NumSem :=
  { ns0 with callArity := m.callArity, callS := cS, callT := cT, indArity := m.indArity, indS := m.indirect cS, indT := m.indirect cT }

/-- the semantics of every function of the module, specification side (`.1`) and emitted-C side
    (`.2`, over the compiled functions `cfs`), with calls resolved one level down -/
def MModule.run (m : MModule) (ns0 : NumSem) (cfs : List Model.CFunc) :
    Nat → (Nat → List Val → GS → Out (Option Val × GS)) × (Nat → List Val → GS → Out (Option Val × GS))
  | 0 => (fun _ _ _ => .oof, fun _ _ _ => .oof)
  | n + 1 =>
    let prev := MModule.run m ns0 cfs n
    let env := m.env ns0 prev.1 prev.2
    (fun fn args g =>
       if fn < m.imports.length then m.host fn args g else
       match m.funcs[fn - m.imports.length]? with
       | none => .ub .outOfBounds
       | some fd =>
         match m.types[fd.type]? with
         | none => .ub .typeError
         | some ft =>
           if args.map vtOf = ft.params.map vtOfW then
             (runFuncSrc env (n + 1) fd.locals (ft.results.head?.map vtOfW) fd.body args g).toOut
           else .ub .typeError,
     fun fn args g =>
       if fn < m.imports.length then m.host fn args g else
       match cfs[fn - m.imports.length]? with
       | none => .ub .outOfBounds
       | some cf => if args.map vtOf = cf.paramTypes then (runFuncTgt env (n + 1) cf args g).toOut else .ub .typeError)

def MModule.compileOne (m : MModule) (fd : MFunc) : Except Err Model.CFunc :=
  match m.types[fd.type]? with
  | none => .error "type index"
  | some ft =>
    if ft.results.length ≤ 1 then compileFunc m.ctx (ft.params.map vtOfW) fd.locals (ft.results.head?.map vtOfW) fd.body
    else .error "multiple results"

def MModule.compileFuncs (m : MModule) : List MFunc → Except Err (List Model.CFunc)
  | [] => .ok []
  | fd :: rest => do
    let cf ← m.compileOne fd
    let cfs ← m.compileFuncs rest
    .ok (cf :: cfs)

/-- host functions return values of their declared result type and leave the globals well typed -/
def HostOK (m : MModule) : Prop :=
  (∀ fn n t args g v g', fn < m.imports.length → m.callArity fn = some (n, some t) → m.host fn args g = .val (some v, g') → vtOf v = t) ∧
  (∀ fn args g r, fn < m.imports.length → GTyped m.ctx g → m.host fn args g = .val r → GTyped m.ctx r.2)

end W2c2Verif.Sim
