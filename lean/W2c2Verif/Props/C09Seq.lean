/-
  Props.C09Seq — translator BUILD CONFIGURATIONS (C09: "… x translator build configurations (with/without pthreads …)"):
  a translator built without HAS_PTHREAD has no worker pool; wasmCWriteModuleImplementationFiles then calls
  wasmCWriteImplementationFile directly, one file after the other (the `#else` branch).  Both paths must hand the callee the
  same values: file index, functions per file, start index `fileIndex * functionsPerFile`, ID list, prefix — several of them
  adjacent parameters of the same C type (`U32, U32, U32`), which a call site can exchange without any compiler diagnostic.

  `Gen.FileCalls` is regenerated from c.c on every run (tools/extract/gen_filecalls.py), one `#if HAS_PTHREAD` branch at a time:
  the ROLE of every parameter of the callee (from how its body uses it), and what the sequential call (`seqArgs`) and the pool
  path (`poolArgs`: producer store → task field → worker load → argument) pass at every position.

  * `calls_pass_roles`          — finite-table theorem: at both sites every role arrives at the position where the callee
                                  expects it;
  * `seq_schedule_partition`    — the files the sequential loop writes are exactly `Model.Partition.files`, the partition the
                                  pool writes (same ranges for every function count and every `-f`);
  * `seq_partition_exact`       — hence `partition_exact` holds for the translator built without pthreads: every function in
                                  exactly one file;
  * `pool_task_partition`       — the same for the values that travel through the task descriptor;
  * `swapped_arguments_drop_functions` — the obligation is not vacuous: exchanging the two adjacent U32 arguments (seeded change
                                  C09/11) leaves file 0 empty with 7 functions and `-f 2`.
-/
import W2c2Verif.Gen.FileCalls
import W2c2Verif.Props.C09Pool

namespace W2c2Verif.Props.C09
open W2c2Verif.Model W2c2Verif.Gen.FileCalls

/-- the argument a call site passes at the position where the callee has role `r` -/
def argAt (args : List Arg) (r : Role) : Option Arg :=
  match (calleeRoles.zip args).find? (fun p => p.1 = r) with
  | some p => some p.2
  | none => none

/-- the argument each role must receive -/
def expected : Role → Option Arg
  | .start => some .startIndex
  | .perFile => some .functionsPerFile
  | .fileIndex => some .fileIndex
  | .filePrefix => some .filePrefix
  | .ids => some .functionIDs
  | .other => none

/-- every role occurs at exactly one parameter position, and both sites pass as many arguments as there are parameters -/
theorem callee_roles_wellformed :
    (∀ r, r ∈ [Role.start, .perFile, .fileIndex, .filePrefix, .ids] → (calleeRoles.filter (· = r)).length = 1) ∧
    seqArgs.length = calleeRoles.length ∧ poolArgs.length = calleeRoles.length ∧ calleeParams.length = calleeRoles.length := by
  decide

/-- **Both call sites pass every role at the position where the callee expects it** (finite-table theorem over the
    regenerated facts; an exchange of two same-typed arguments at either site breaks it). -/
theorem calls_pass_roles :
    ∀ r, r ∈ [Role.start, .perFile, .fileIndex, .filePrefix, .ids] →
      argAt seqArgs r = expected r ∧ argAt poolArgs r = expected r := by
  decide

/-- the value of an argument in iteration `i` of the file loop (`f` = the clamped functions-per-file value) -/
def argValue (f i : Nat) : Option Arg → Nat
  | some .fileIndex => i
  | some .functionsPerFile => f
  | some .startIndex => (i * f) % Partition.U32MOD
  | _ => 0

/-- wasmCWriteImplementationFile on the values it receives: `(file index, start, end)` or `none` for "empty file" -/
def calleeRange (n : Nat) (args : List Arg) (f i : Nat) : Option (Nat × Nat × Nat) :=
  let start := argValue f i (argAt args .start)
  let perFile := argValue f i (argAt args .perFile)
  let idx := argValue f i (argAt args .fileIndex)
  let end0 := (start + perFile) % Partition.U32MOD
  let end1 := if end0 > n then n else end0
  if start > end1 then none else some (idx, start, end1)

/-- the files written by a translator whose call site passes `args`, one iteration per file (the order of the iterations is
    the sequential loop's; for the pool it is whatever the schedule makes it — `pool_exactly_once`) -/
def filesVia (args : List Arg) (n fpf : Nat) : List (Nat × Nat × Nat) :=
  (List.range (Partition.fileCount n fpf)).filterMap fun i => calleeRange n args (Partition.effFpf fpf) i

theorem calleeRange_seq (n f i : Nat) :
    calleeRange n seqArgs f i =
      (let start := (i * f) % Partition.U32MOD
       let end0 := (start + f) % Partition.U32MOD
       let end1 := if end0 > n then n else end0
       if start > end1 then none else some (i, start, end1)) := by
  have h1 : argAt seqArgs .start = some .startIndex := by decide
  have h2 : argAt seqArgs .perFile = some .functionsPerFile := by decide
  have h3 : argAt seqArgs .fileIndex = some .fileIndex := by decide
  simp only [calleeRange, h1, h2, h3, argValue]

theorem calleeRange_pool (n f i : Nat) :
    calleeRange n poolArgs f i =
      (let start := (i * f) % Partition.U32MOD
       let end0 := (start + f) % Partition.U32MOD
       let end1 := if end0 > n then n else end0
       if start > end1 then none else some (i, start, end1)) := by
  have h1 : argAt poolArgs .start = some .startIndex := by decide
  have h2 : argAt poolArgs .perFile = some .functionsPerFile := by decide
  have h3 : argAt poolArgs .fileIndex = some .fileIndex := by decide
  simp only [calleeRange, h1, h2, h3, argValue]

/-- **The sequential schedule (translator built without pthreads) writes the same partition as the pool**, for every number
    of function IDs and every `-f` value. -/
theorem seq_schedule_partition (n fpf : Nat) : filesVia seqArgs n fpf = Partition.files n fpf := by
  unfold filesVia Partition.files
  congr 1
  funext i
  rw [calleeRange_seq]
  simp only [Partition.fileRange]
  split <;> (split <;> simp_all)

/-- the values that travel through the task descriptor give the same ranges -/
theorem pool_task_partition (n fpf : Nat) : filesVia poolArgs n fpf = Partition.files n fpf := by
  unfold filesVia Partition.files
  congr 1
  funext i
  rw [calleeRange_pool]
  simp only [Partition.fileRange]
  split <;> (split <;> simp_all)

/-- **Each function is emitted in exactly one file by the translator built without pthreads** (`partition_exact` for the
    sequential schedule). -/
theorem seq_partition_exact (n fpf : Nat) (hn : n ≤ 2147483648) (hf : fpf < 4294967296) :
    filesVia seqArgs n fpf =
      (List.range (Partition.fileCount n fpf)).map (fun i => (i, i * Partition.effFpf fpf, min ((i + 1) * Partition.effFpf fpf) n)) ∧
    (∀ k, k < n → ∃ e, e ∈ filesVia seqArgs n fpf ∧ e.2.1 ≤ k ∧ k < e.2.2 ∧
      ∀ e', e' ∈ filesVia seqArgs n fpf → e'.2.1 ≤ k → k < e'.2.2 → e' = e) := by
  rw [seq_schedule_partition]
  exact ⟨(partition_exact n fpf hn hf).1, (partition_exact n fpf hn hf).2.2.2.2⟩

/-- Non-vacuity (seeded change C09/11): with the start index and the functions-per-file value exchanged at the call site,
    7 function IDs and `-f 2` give an empty file 0 (IDs 0 and 1 are written nowhere) and overlapping later files. -/
theorem swapped_arguments_drop_functions :
    let swapped : List Arg := [.other "", .other "", .other "", .other "", .filePrefix, .fileIndex, .startIndex,
      .functionsPerFile, .functionIDs, .other "", .other "", .other ""]
    (List.range (Partition.fileCount 7 2)).filterMap (fun i => calleeRange 7 swapped 2 i) =
      [(0, 2, 2), (1, 2, 4), (2, 2, 6), (3, 2, 7)] := by
  decide

end W2c2Verif.Props.C09
