/-
  Props.C01Ops — C01 part B: for EVERY integer opcode, the statement that w2c2 emits for it
  (model `Model.numEmit` of the emitters of c.c, driven by the dispatch table `Gen.emitTable`
  regenerated from the current c.c, with header macros from `Gen.Macros`), executed by the C
  semantics on arbitrary operand values held in the operand-stack slot variables, leaves in
  the result slot exactly the value (or enters the trap handler with exactly the code) that
  the WebAssembly specification (`Spec.Int`) prescribes.  All 2^32 / 2^64 values per operand.
-/
import W2c2Verif.Lemmas.NumEval

namespace W2c2Verif.Props.C01
open W2c2Verif


set_option maxRecDepth 8192 in
theorem op_i32_eqz (x : BitVec 32) :
    Model.runNumeric macroDefs "wasmOpcodeI32Eqz" [(.i32, .u32 x)] = .val (.u32 (Spec.ieqz x)) := by
  num_unfold; num_eval
  all_goals (simp [Spec.bool32, Spec.ieqz_eq, Spec.ieq_eq, Spec.ine_eq, Spec.ilt_s_eq, Spec.ilt_u_eq, Spec.igt_s_eq, Spec.igt_u_eq, Spec.ile_s_eq, Spec.ile_u_eq, Spec.ige_s_eq, Spec.ige_u_eq]; try (split <;> rfl))

set_option maxRecDepth 8192 in
theorem op_i32_eq (x : BitVec 32) (y : BitVec 32) :
    Model.runNumeric macroDefs "wasmOpcodeI32Eq" [(.i32, .u32 x), (.i32, .u32 y)] = .val (.u32 (Spec.ieq x y)) := by
  num_unfold; num_eval
  all_goals (simp [Spec.bool32, Spec.ieqz_eq, Spec.ieq_eq, Spec.ine_eq, Spec.ilt_s_eq, Spec.ilt_u_eq, Spec.igt_s_eq, Spec.igt_u_eq, Spec.ile_s_eq, Spec.ile_u_eq, Spec.ige_s_eq, Spec.ige_u_eq]; try (split <;> rfl))

set_option maxRecDepth 8192 in
theorem op_i32_ne (x : BitVec 32) (y : BitVec 32) :
    Model.runNumeric macroDefs "wasmOpcodeI32Ne" [(.i32, .u32 x), (.i32, .u32 y)] = .val (.u32 (Spec.ine x y)) := by
  num_unfold; num_eval
  all_goals (simp [Spec.bool32, Spec.ieqz_eq, Spec.ieq_eq, Spec.ine_eq, Spec.ilt_s_eq, Spec.ilt_u_eq, Spec.igt_s_eq, Spec.igt_u_eq, Spec.ile_s_eq, Spec.ile_u_eq, Spec.ige_s_eq, Spec.ige_u_eq]; try (split <;> rfl))

set_option maxRecDepth 8192 in
theorem op_i32_lt_s (x : BitVec 32) (y : BitVec 32) :
    Model.runNumeric macroDefs "wasmOpcodeI32LtS" [(.i32, .u32 x), (.i32, .u32 y)] = .val (.u32 (Spec.ilt_s x y)) := by
  num_unfold; num_eval
  all_goals (simp [Spec.bool32, Spec.ieqz_eq, Spec.ieq_eq, Spec.ine_eq, Spec.ilt_s_eq, Spec.ilt_u_eq, Spec.igt_s_eq, Spec.igt_u_eq, Spec.ile_s_eq, Spec.ile_u_eq, Spec.ige_s_eq, Spec.ige_u_eq]; try (split <;> rfl))

set_option maxRecDepth 8192 in
theorem op_i32_lt_u (x : BitVec 32) (y : BitVec 32) :
    Model.runNumeric macroDefs "wasmOpcodeI32LtU" [(.i32, .u32 x), (.i32, .u32 y)] = .val (.u32 (Spec.ilt_u x y)) := by
  num_unfold; num_eval
  all_goals (simp [Spec.bool32, Spec.ieqz_eq, Spec.ieq_eq, Spec.ine_eq, Spec.ilt_s_eq, Spec.ilt_u_eq, Spec.igt_s_eq, Spec.igt_u_eq, Spec.ile_s_eq, Spec.ile_u_eq, Spec.ige_s_eq, Spec.ige_u_eq]; try (split <;> rfl))

set_option maxRecDepth 8192 in
theorem op_i32_gt_s (x : BitVec 32) (y : BitVec 32) :
    Model.runNumeric macroDefs "wasmOpcodeI32GtS" [(.i32, .u32 x), (.i32, .u32 y)] = .val (.u32 (Spec.igt_s x y)) := by
  num_unfold; num_eval
  all_goals (simp [Spec.bool32, Spec.ieqz_eq, Spec.ieq_eq, Spec.ine_eq, Spec.ilt_s_eq, Spec.ilt_u_eq, Spec.igt_s_eq, Spec.igt_u_eq, Spec.ile_s_eq, Spec.ile_u_eq, Spec.ige_s_eq, Spec.ige_u_eq]; try (split <;> rfl))

set_option maxRecDepth 8192 in
theorem op_i32_gt_u (x : BitVec 32) (y : BitVec 32) :
    Model.runNumeric macroDefs "wasmOpcodeI32GtU" [(.i32, .u32 x), (.i32, .u32 y)] = .val (.u32 (Spec.igt_u x y)) := by
  num_unfold; num_eval
  all_goals (simp [Spec.bool32, Spec.ieqz_eq, Spec.ieq_eq, Spec.ine_eq, Spec.ilt_s_eq, Spec.ilt_u_eq, Spec.igt_s_eq, Spec.igt_u_eq, Spec.ile_s_eq, Spec.ile_u_eq, Spec.ige_s_eq, Spec.ige_u_eq]; try (split <;> rfl))

set_option maxRecDepth 8192 in
theorem op_i32_le_s (x : BitVec 32) (y : BitVec 32) :
    Model.runNumeric macroDefs "wasmOpcodeI32LeS" [(.i32, .u32 x), (.i32, .u32 y)] = .val (.u32 (Spec.ile_s x y)) := by
  num_unfold; num_eval
  all_goals (simp [Spec.bool32, Spec.ieqz_eq, Spec.ieq_eq, Spec.ine_eq, Spec.ilt_s_eq, Spec.ilt_u_eq, Spec.igt_s_eq, Spec.igt_u_eq, Spec.ile_s_eq, Spec.ile_u_eq, Spec.ige_s_eq, Spec.ige_u_eq]; try (split <;> rfl))

set_option maxRecDepth 8192 in
theorem op_i32_le_u (x : BitVec 32) (y : BitVec 32) :
    Model.runNumeric macroDefs "wasmOpcodeI32LeU" [(.i32, .u32 x), (.i32, .u32 y)] = .val (.u32 (Spec.ile_u x y)) := by
  num_unfold; num_eval
  all_goals (simp [Spec.bool32, Spec.ieqz_eq, Spec.ieq_eq, Spec.ine_eq, Spec.ilt_s_eq, Spec.ilt_u_eq, Spec.igt_s_eq, Spec.igt_u_eq, Spec.ile_s_eq, Spec.ile_u_eq, Spec.ige_s_eq, Spec.ige_u_eq]; try (split <;> rfl))

set_option maxRecDepth 8192 in
theorem op_i32_ge_s (x : BitVec 32) (y : BitVec 32) :
    Model.runNumeric macroDefs "wasmOpcodeI32GeS" [(.i32, .u32 x), (.i32, .u32 y)] = .val (.u32 (Spec.ige_s x y)) := by
  num_unfold; num_eval
  all_goals (simp [Spec.bool32, Spec.ieqz_eq, Spec.ieq_eq, Spec.ine_eq, Spec.ilt_s_eq, Spec.ilt_u_eq, Spec.igt_s_eq, Spec.igt_u_eq, Spec.ile_s_eq, Spec.ile_u_eq, Spec.ige_s_eq, Spec.ige_u_eq]; try (split <;> rfl))

set_option maxRecDepth 8192 in
theorem op_i32_ge_u (x : BitVec 32) (y : BitVec 32) :
    Model.runNumeric macroDefs "wasmOpcodeI32GeU" [(.i32, .u32 x), (.i32, .u32 y)] = .val (.u32 (Spec.ige_u x y)) := by
  num_unfold; num_eval
  all_goals (simp [Spec.bool32, Spec.ieqz_eq, Spec.ieq_eq, Spec.ine_eq, Spec.ilt_s_eq, Spec.ilt_u_eq, Spec.igt_s_eq, Spec.igt_u_eq, Spec.ile_s_eq, Spec.ile_u_eq, Spec.ige_s_eq, Spec.ige_u_eq]; try (split <;> rfl))

set_option maxRecDepth 8192 in
theorem op_i32_clz (x : BitVec 32) :
    Model.runNumeric macroDefs "wasmOpcodeI32Clz" [(.i32, .u32 x)] = .val (.u32 (Spec.iclz x)) := by
  num_unfold; num_eval
  all_goals (first | rfl | bv_close)

set_option maxRecDepth 8192 in
theorem op_i32_ctz (x : BitVec 32) :
    Model.runNumeric macroDefs "wasmOpcodeI32Ctz" [(.i32, .u32 x)] = .val (.u32 (Spec.ictz x)) := by
  num_unfold; num_eval
  all_goals (first | rfl | bv_close)

set_option maxRecDepth 8192 in
theorem op_i32_popcnt (x : BitVec 32) :
    Model.runNumeric macroDefs "wasmOpcodeI32PopCnt" [(.i32, .u32 x)] = .val (.u32 (Spec.ipopcnt x)) := by
  num_unfold; num_eval
  all_goals (first | rfl | bv_close)

set_option maxRecDepth 8192 in
theorem op_i32_add (x : BitVec 32) (y : BitVec 32) :
    Model.runNumeric macroDefs "wasmOpcodeI32Add" [(.i32, .u32 x), (.i32, .u32 y)] = .val (.u32 (Spec.iadd x y)) := by
  num_unfold; num_eval
  all_goals first | rfl | (simp [Spec.iadd, Spec.isub, Spec.imul, Spec.iand, Spec.ior, Spec.ixor, Spec.wrap_i64, Spec.extend_i32_s, Spec.extend_i32_u, Spec.iextend_s]; done) | bv_close | (simp only [Spec.wrap_i64, Spec.extend_i32_s, Spec.extend_i32_u, Spec.iextend_s]; bv_close)

set_option maxRecDepth 8192 in
theorem op_i32_sub (x : BitVec 32) (y : BitVec 32) :
    Model.runNumeric macroDefs "wasmOpcodeI32Sub" [(.i32, .u32 x), (.i32, .u32 y)] = .val (.u32 (Spec.isub x y)) := by
  num_unfold; num_eval
  all_goals first | rfl | (simp [Spec.iadd, Spec.isub, Spec.imul, Spec.iand, Spec.ior, Spec.ixor, Spec.wrap_i64, Spec.extend_i32_s, Spec.extend_i32_u, Spec.iextend_s]; done) | bv_close | (simp only [Spec.wrap_i64, Spec.extend_i32_s, Spec.extend_i32_u, Spec.iextend_s]; bv_close)

set_option maxRecDepth 8192 in
theorem op_i32_mul (x : BitVec 32) (y : BitVec 32) :
    Model.runNumeric macroDefs "wasmOpcodeI32Mul" [(.i32, .u32 x), (.i32, .u32 y)] = .val (.u32 (Spec.imul x y)) := by
  num_unfold; num_eval
  all_goals first | rfl | (simp [Spec.iadd, Spec.isub, Spec.imul, Spec.iand, Spec.ior, Spec.ixor, Spec.wrap_i64, Spec.extend_i32_s, Spec.extend_i32_u, Spec.iextend_s]; done) | bv_close | (simp only [Spec.wrap_i64, Spec.extend_i32_s, Spec.extend_i32_u, Spec.iextend_s]; bv_close)

set_option maxRecDepth 8192 in
theorem op_i32_div_s (x : BitVec 32) (y : BitVec 32) :
    Model.runNumeric macroDefs "wasmOpcodeI32DivS" [(.i32, .u32 x), (.i32, .u32 y)] = (Spec.idiv_s x y).map' .u32 := by
  num_unfold; num_eval
  cases Spec.idiv_s x y <;> simp [CVal.fromNat, Env.get]

set_option maxRecDepth 8192 in
theorem op_i32_div_u (x : BitVec 32) (y : BitVec 32) :
    Model.runNumeric macroDefs "wasmOpcodeI32DivU" [(.i32, .u32 x), (.i32, .u32 y)] = (Spec.idiv_u x y).map' .u32 := by
  num_unfold; num_eval
  cases Spec.idiv_u x y <;> simp [CVal.fromNat, Env.get]

set_option maxRecDepth 8192 in
theorem op_i32_rem_s (x : BitVec 32) (y : BitVec 32) :
    Model.runNumeric macroDefs "wasmOpcodeI32RemS" [(.i32, .u32 x), (.i32, .u32 y)] = (Spec.irem_s x y).map' .u32 := by
  num_unfold; num_eval
  cases Spec.irem_s x y <;> simp [CVal.fromNat, Env.get]

set_option maxRecDepth 8192 in
theorem op_i32_rem_u (x : BitVec 32) (y : BitVec 32) :
    Model.runNumeric macroDefs "wasmOpcodeI32RemU" [(.i32, .u32 x), (.i32, .u32 y)] = (Spec.irem_u x y).map' .u32 := by
  num_unfold; num_eval
  cases Spec.irem_u x y <;> simp [CVal.fromNat, Env.get]

set_option maxRecDepth 8192 in
theorem op_i32_and (x : BitVec 32) (y : BitVec 32) :
    Model.runNumeric macroDefs "wasmOpcodeI32And" [(.i32, .u32 x), (.i32, .u32 y)] = .val (.u32 (Spec.iand x y)) := by
  num_unfold; num_eval
  all_goals first | rfl | (simp [Spec.iadd, Spec.isub, Spec.imul, Spec.iand, Spec.ior, Spec.ixor, Spec.wrap_i64, Spec.extend_i32_s, Spec.extend_i32_u, Spec.iextend_s]; done) | bv_close | (simp only [Spec.wrap_i64, Spec.extend_i32_s, Spec.extend_i32_u, Spec.iextend_s]; bv_close)

set_option maxRecDepth 8192 in
theorem op_i32_or (x : BitVec 32) (y : BitVec 32) :
    Model.runNumeric macroDefs "wasmOpcodeI32Or" [(.i32, .u32 x), (.i32, .u32 y)] = .val (.u32 (Spec.ior x y)) := by
  num_unfold; num_eval
  all_goals first | rfl | (simp [Spec.iadd, Spec.isub, Spec.imul, Spec.iand, Spec.ior, Spec.ixor, Spec.wrap_i64, Spec.extend_i32_s, Spec.extend_i32_u, Spec.iextend_s]; done) | bv_close | (simp only [Spec.wrap_i64, Spec.extend_i32_s, Spec.extend_i32_u, Spec.iextend_s]; bv_close)

set_option maxRecDepth 8192 in
theorem op_i32_xor (x : BitVec 32) (y : BitVec 32) :
    Model.runNumeric macroDefs "wasmOpcodeI32Xor" [(.i32, .u32 x), (.i32, .u32 y)] = .val (.u32 (Spec.ixor x y)) := by
  num_unfold; num_eval
  all_goals first | rfl | (simp [Spec.iadd, Spec.isub, Spec.imul, Spec.iand, Spec.ior, Spec.ixor, Spec.wrap_i64, Spec.extend_i32_s, Spec.extend_i32_u, Spec.iextend_s]; done) | bv_close | (simp only [Spec.wrap_i64, Spec.extend_i32_s, Spec.extend_i32_u, Spec.iextend_s]; bv_close)

set_option maxRecDepth 8192 in
theorem op_i32_shl (x : BitVec 32) (y : BitVec 32) :
    Model.runNumeric macroDefs "wasmOpcodeI32Shl" [(.i32, .u32 x), (.i32, .u32 y)] = .val (.u32 (Spec.ishl x y)) := by
  num_unfold; num_eval
  all_goals (simp only [Spec.ishl_eq32]; bv_close)

set_option maxRecDepth 8192 in
theorem op_i32_shr_s (x : BitVec 32) (y : BitVec 32) :
    Model.runNumeric macroDefs "wasmOpcodeI32ShrS" [(.i32, .u32 x), (.i32, .u32 y)] = .val (.u32 (Spec.ishr_s x y)) := by
  num_unfold; num_eval
  all_goals (simp only [Spec.ishr_s_eq32]; bv_close)

set_option maxRecDepth 8192 in
theorem op_i32_shr_u (x : BitVec 32) (y : BitVec 32) :
    Model.runNumeric macroDefs "wasmOpcodeI32ShrU" [(.i32, .u32 x), (.i32, .u32 y)] = .val (.u32 (Spec.ishr_u x y)) := by
  num_unfold; num_eval
  all_goals (simp only [Spec.ishr_u_eq32]; bv_close)

set_option maxRecDepth 8192 in
theorem op_i32_rotl (x : BitVec 32) (y : BitVec 32) :
    Model.runNumeric macroDefs "wasmOpcodeI32Rotl" [(.i32, .u32 x), (.i32, .u32 y)] = .val (.u32 (Spec.irotl x y)) := by
  num_unfold; num_eval
  all_goals first | rfl | (simp [Spec.iadd, Spec.isub, Spec.imul, Spec.iand, Spec.ior, Spec.ixor, Spec.wrap_i64, Spec.extend_i32_s, Spec.extend_i32_u, Spec.iextend_s]; done) | bv_close | (simp only [Spec.wrap_i64, Spec.extend_i32_s, Spec.extend_i32_u, Spec.iextend_s]; bv_close)

set_option maxRecDepth 8192 in
theorem op_i32_rotr (x : BitVec 32) (y : BitVec 32) :
    Model.runNumeric macroDefs "wasmOpcodeI32Rotr" [(.i32, .u32 x), (.i32, .u32 y)] = .val (.u32 (Spec.irotr x y)) := by
  num_unfold; num_eval
  all_goals first | rfl | (simp [Spec.iadd, Spec.isub, Spec.imul, Spec.iand, Spec.ior, Spec.ixor, Spec.wrap_i64, Spec.extend_i32_s, Spec.extend_i32_u, Spec.iextend_s]; done) | bv_close | (simp only [Spec.wrap_i64, Spec.extend_i32_s, Spec.extend_i32_u, Spec.iextend_s]; bv_close)

set_option maxRecDepth 8192 in
theorem op_i64_eqz (x : BitVec 64) :
    Model.runNumeric macroDefs "wasmOpcodeI64Eqz" [(.i64, .u64 x)] = .val (.u32 (Spec.ieqz x)) := by
  num_unfold; num_eval
  all_goals (simp [Spec.bool32, Spec.ieqz_eq, Spec.ieq_eq, Spec.ine_eq, Spec.ilt_s_eq, Spec.ilt_u_eq, Spec.igt_s_eq, Spec.igt_u_eq, Spec.ile_s_eq, Spec.ile_u_eq, Spec.ige_s_eq, Spec.ige_u_eq]; try (split <;> rfl))

set_option maxRecDepth 8192 in
theorem op_i64_eq (x : BitVec 64) (y : BitVec 64) :
    Model.runNumeric macroDefs "wasmOpcodeI64Eq" [(.i64, .u64 x), (.i64, .u64 y)] = .val (.u32 (Spec.ieq x y)) := by
  num_unfold; num_eval
  all_goals (simp [Spec.bool32, Spec.ieqz_eq, Spec.ieq_eq, Spec.ine_eq, Spec.ilt_s_eq, Spec.ilt_u_eq, Spec.igt_s_eq, Spec.igt_u_eq, Spec.ile_s_eq, Spec.ile_u_eq, Spec.ige_s_eq, Spec.ige_u_eq]; try (split <;> rfl))

set_option maxRecDepth 8192 in
theorem op_i64_ne (x : BitVec 64) (y : BitVec 64) :
    Model.runNumeric macroDefs "wasmOpcodeI64Ne" [(.i64, .u64 x), (.i64, .u64 y)] = .val (.u32 (Spec.ine x y)) := by
  num_unfold; num_eval
  all_goals (simp [Spec.bool32, Spec.ieqz_eq, Spec.ieq_eq, Spec.ine_eq, Spec.ilt_s_eq, Spec.ilt_u_eq, Spec.igt_s_eq, Spec.igt_u_eq, Spec.ile_s_eq, Spec.ile_u_eq, Spec.ige_s_eq, Spec.ige_u_eq]; try (split <;> rfl))

set_option maxRecDepth 8192 in
theorem op_i64_lt_s (x : BitVec 64) (y : BitVec 64) :
    Model.runNumeric macroDefs "wasmOpcodeI64LtS" [(.i64, .u64 x), (.i64, .u64 y)] = .val (.u32 (Spec.ilt_s x y)) := by
  num_unfold; num_eval
  all_goals (simp [Spec.bool32, Spec.ieqz_eq, Spec.ieq_eq, Spec.ine_eq, Spec.ilt_s_eq, Spec.ilt_u_eq, Spec.igt_s_eq, Spec.igt_u_eq, Spec.ile_s_eq, Spec.ile_u_eq, Spec.ige_s_eq, Spec.ige_u_eq]; try (split <;> rfl))

set_option maxRecDepth 8192 in
theorem op_i64_lt_u (x : BitVec 64) (y : BitVec 64) :
    Model.runNumeric macroDefs "wasmOpcodeI64LtU" [(.i64, .u64 x), (.i64, .u64 y)] = .val (.u32 (Spec.ilt_u x y)) := by
  num_unfold; num_eval
  all_goals (simp [Spec.bool32, Spec.ieqz_eq, Spec.ieq_eq, Spec.ine_eq, Spec.ilt_s_eq, Spec.ilt_u_eq, Spec.igt_s_eq, Spec.igt_u_eq, Spec.ile_s_eq, Spec.ile_u_eq, Spec.ige_s_eq, Spec.ige_u_eq]; try (split <;> rfl))

set_option maxRecDepth 8192 in
theorem op_i64_gt_s (x : BitVec 64) (y : BitVec 64) :
    Model.runNumeric macroDefs "wasmOpcodeI64GtS" [(.i64, .u64 x), (.i64, .u64 y)] = .val (.u32 (Spec.igt_s x y)) := by
  num_unfold; num_eval
  all_goals (simp [Spec.bool32, Spec.ieqz_eq, Spec.ieq_eq, Spec.ine_eq, Spec.ilt_s_eq, Spec.ilt_u_eq, Spec.igt_s_eq, Spec.igt_u_eq, Spec.ile_s_eq, Spec.ile_u_eq, Spec.ige_s_eq, Spec.ige_u_eq]; try (split <;> rfl))

set_option maxRecDepth 8192 in
theorem op_i64_gt_u (x : BitVec 64) (y : BitVec 64) :
    Model.runNumeric macroDefs "wasmOpcodeI64GtU" [(.i64, .u64 x), (.i64, .u64 y)] = .val (.u32 (Spec.igt_u x y)) := by
  num_unfold; num_eval
  all_goals (simp [Spec.bool32, Spec.ieqz_eq, Spec.ieq_eq, Spec.ine_eq, Spec.ilt_s_eq, Spec.ilt_u_eq, Spec.igt_s_eq, Spec.igt_u_eq, Spec.ile_s_eq, Spec.ile_u_eq, Spec.ige_s_eq, Spec.ige_u_eq]; try (split <;> rfl))

set_option maxRecDepth 8192 in
theorem op_i64_le_s (x : BitVec 64) (y : BitVec 64) :
    Model.runNumeric macroDefs "wasmOpcodeI64LeS" [(.i64, .u64 x), (.i64, .u64 y)] = .val (.u32 (Spec.ile_s x y)) := by
  num_unfold; num_eval
  all_goals (simp [Spec.bool32, Spec.ieqz_eq, Spec.ieq_eq, Spec.ine_eq, Spec.ilt_s_eq, Spec.ilt_u_eq, Spec.igt_s_eq, Spec.igt_u_eq, Spec.ile_s_eq, Spec.ile_u_eq, Spec.ige_s_eq, Spec.ige_u_eq]; try (split <;> rfl))

set_option maxRecDepth 8192 in
theorem op_i64_le_u (x : BitVec 64) (y : BitVec 64) :
    Model.runNumeric macroDefs "wasmOpcodeI64LeU" [(.i64, .u64 x), (.i64, .u64 y)] = .val (.u32 (Spec.ile_u x y)) := by
  num_unfold; num_eval
  all_goals (simp [Spec.bool32, Spec.ieqz_eq, Spec.ieq_eq, Spec.ine_eq, Spec.ilt_s_eq, Spec.ilt_u_eq, Spec.igt_s_eq, Spec.igt_u_eq, Spec.ile_s_eq, Spec.ile_u_eq, Spec.ige_s_eq, Spec.ige_u_eq]; try (split <;> rfl))

set_option maxRecDepth 8192 in
theorem op_i64_ge_s (x : BitVec 64) (y : BitVec 64) :
    Model.runNumeric macroDefs "wasmOpcodeI64GeS" [(.i64, .u64 x), (.i64, .u64 y)] = .val (.u32 (Spec.ige_s x y)) := by
  num_unfold; num_eval
  all_goals (simp [Spec.bool32, Spec.ieqz_eq, Spec.ieq_eq, Spec.ine_eq, Spec.ilt_s_eq, Spec.ilt_u_eq, Spec.igt_s_eq, Spec.igt_u_eq, Spec.ile_s_eq, Spec.ile_u_eq, Spec.ige_s_eq, Spec.ige_u_eq]; try (split <;> rfl))

set_option maxRecDepth 8192 in
theorem op_i64_ge_u (x : BitVec 64) (y : BitVec 64) :
    Model.runNumeric macroDefs "wasmOpcodeI64GeU" [(.i64, .u64 x), (.i64, .u64 y)] = .val (.u32 (Spec.ige_u x y)) := by
  num_unfold; num_eval
  all_goals (simp [Spec.bool32, Spec.ieqz_eq, Spec.ieq_eq, Spec.ine_eq, Spec.ilt_s_eq, Spec.ilt_u_eq, Spec.igt_s_eq, Spec.igt_u_eq, Spec.ile_s_eq, Spec.ile_u_eq, Spec.ige_s_eq, Spec.ige_u_eq]; try (split <;> rfl))

set_option maxRecDepth 8192 in
theorem op_i64_clz (x : BitVec 64) :
    Model.runNumeric macroDefs "wasmOpcodeI64Clz" [(.i64, .u64 x)] = .val (.u64 (Spec.iclz x)) := by
  num_unfold; num_eval
  all_goals (first | rfl | bv_close)

set_option maxRecDepth 8192 in
theorem op_i64_ctz (x : BitVec 64) :
    Model.runNumeric macroDefs "wasmOpcodeI64Ctz" [(.i64, .u64 x)] = .val (.u64 (Spec.ictz x)) := by
  num_unfold; num_eval
  all_goals (first | rfl | bv_close)

set_option maxRecDepth 8192 in
theorem op_i64_popcnt (x : BitVec 64) :
    Model.runNumeric macroDefs "wasmOpcodeI64PopCnt" [(.i64, .u64 x)] = .val (.u64 (Spec.ipopcnt x)) := by
  num_unfold; num_eval
  all_goals (first | rfl | bv_close)

set_option maxRecDepth 8192 in
theorem op_i64_add (x : BitVec 64) (y : BitVec 64) :
    Model.runNumeric macroDefs "wasmOpcodeI64Add" [(.i64, .u64 x), (.i64, .u64 y)] = .val (.u64 (Spec.iadd x y)) := by
  num_unfold; num_eval
  all_goals first | rfl | (simp [Spec.iadd, Spec.isub, Spec.imul, Spec.iand, Spec.ior, Spec.ixor, Spec.wrap_i64, Spec.extend_i32_s, Spec.extend_i32_u, Spec.iextend_s]; done) | bv_close | (simp only [Spec.wrap_i64, Spec.extend_i32_s, Spec.extend_i32_u, Spec.iextend_s]; bv_close)

set_option maxRecDepth 8192 in
theorem op_i64_sub (x : BitVec 64) (y : BitVec 64) :
    Model.runNumeric macroDefs "wasmOpcodeI64Sub" [(.i64, .u64 x), (.i64, .u64 y)] = .val (.u64 (Spec.isub x y)) := by
  num_unfold; num_eval
  all_goals first | rfl | (simp [Spec.iadd, Spec.isub, Spec.imul, Spec.iand, Spec.ior, Spec.ixor, Spec.wrap_i64, Spec.extend_i32_s, Spec.extend_i32_u, Spec.iextend_s]; done) | bv_close | (simp only [Spec.wrap_i64, Spec.extend_i32_s, Spec.extend_i32_u, Spec.iextend_s]; bv_close)

set_option maxRecDepth 8192 in
theorem op_i64_mul (x : BitVec 64) (y : BitVec 64) :
    Model.runNumeric macroDefs "wasmOpcodeI64Mul" [(.i64, .u64 x), (.i64, .u64 y)] = .val (.u64 (Spec.imul x y)) := by
  num_unfold; num_eval
  all_goals first | rfl | (simp [Spec.iadd, Spec.isub, Spec.imul, Spec.iand, Spec.ior, Spec.ixor, Spec.wrap_i64, Spec.extend_i32_s, Spec.extend_i32_u, Spec.iextend_s]; done) | bv_close | (simp only [Spec.wrap_i64, Spec.extend_i32_s, Spec.extend_i32_u, Spec.iextend_s]; bv_close)

set_option maxRecDepth 8192 in
theorem op_i64_div_s (x : BitVec 64) (y : BitVec 64) :
    Model.runNumeric macroDefs "wasmOpcodeI64DivS" [(.i64, .u64 x), (.i64, .u64 y)] = (Spec.idiv_s x y).map' .u64 := by
  num_unfold; num_eval
  cases Spec.idiv_s x y <;> simp [CVal.fromNat, Env.get]

set_option maxRecDepth 8192 in
theorem op_i64_div_u (x : BitVec 64) (y : BitVec 64) :
    Model.runNumeric macroDefs "wasmOpcodeI64DivU" [(.i64, .u64 x), (.i64, .u64 y)] = (Spec.idiv_u x y).map' .u64 := by
  num_unfold; num_eval
  cases Spec.idiv_u x y <;> simp [CVal.fromNat, Env.get]

set_option maxRecDepth 8192 in
theorem op_i64_rem_s (x : BitVec 64) (y : BitVec 64) :
    Model.runNumeric macroDefs "wasmOpcodeI64RemS" [(.i64, .u64 x), (.i64, .u64 y)] = (Spec.irem_s x y).map' .u64 := by
  num_unfold; num_eval
  cases Spec.irem_s x y <;> simp [CVal.fromNat, Env.get]

set_option maxRecDepth 8192 in
theorem op_i64_rem_u (x : BitVec 64) (y : BitVec 64) :
    Model.runNumeric macroDefs "wasmOpcodeI64RemU" [(.i64, .u64 x), (.i64, .u64 y)] = (Spec.irem_u x y).map' .u64 := by
  num_unfold; num_eval
  cases Spec.irem_u x y <;> simp [CVal.fromNat, Env.get]

set_option maxRecDepth 8192 in
theorem op_i64_and (x : BitVec 64) (y : BitVec 64) :
    Model.runNumeric macroDefs "wasmOpcodeI64And" [(.i64, .u64 x), (.i64, .u64 y)] = .val (.u64 (Spec.iand x y)) := by
  num_unfold; num_eval
  all_goals first | rfl | (simp [Spec.iadd, Spec.isub, Spec.imul, Spec.iand, Spec.ior, Spec.ixor, Spec.wrap_i64, Spec.extend_i32_s, Spec.extend_i32_u, Spec.iextend_s]; done) | bv_close | (simp only [Spec.wrap_i64, Spec.extend_i32_s, Spec.extend_i32_u, Spec.iextend_s]; bv_close)

set_option maxRecDepth 8192 in
theorem op_i64_or (x : BitVec 64) (y : BitVec 64) :
    Model.runNumeric macroDefs "wasmOpcodeI64Or" [(.i64, .u64 x), (.i64, .u64 y)] = .val (.u64 (Spec.ior x y)) := by
  num_unfold; num_eval
  all_goals first | rfl | (simp [Spec.iadd, Spec.isub, Spec.imul, Spec.iand, Spec.ior, Spec.ixor, Spec.wrap_i64, Spec.extend_i32_s, Spec.extend_i32_u, Spec.iextend_s]; done) | bv_close | (simp only [Spec.wrap_i64, Spec.extend_i32_s, Spec.extend_i32_u, Spec.iextend_s]; bv_close)

set_option maxRecDepth 8192 in
theorem op_i64_xor (x : BitVec 64) (y : BitVec 64) :
    Model.runNumeric macroDefs "wasmOpcodeI64Xor" [(.i64, .u64 x), (.i64, .u64 y)] = .val (.u64 (Spec.ixor x y)) := by
  num_unfold; num_eval
  all_goals first | rfl | (simp [Spec.iadd, Spec.isub, Spec.imul, Spec.iand, Spec.ior, Spec.ixor, Spec.wrap_i64, Spec.extend_i32_s, Spec.extend_i32_u, Spec.iextend_s]; done) | bv_close | (simp only [Spec.wrap_i64, Spec.extend_i32_s, Spec.extend_i32_u, Spec.iextend_s]; bv_close)

set_option maxRecDepth 8192 in
theorem op_i64_shl (x : BitVec 64) (y : BitVec 64) :
    Model.runNumeric macroDefs "wasmOpcodeI64Shl" [(.i64, .u64 x), (.i64, .u64 y)] = .val (.u64 (Spec.ishl x y)) := by
  num_unfold; num_eval
  all_goals (simp only [Spec.ishl_eq64]; bv_close)

set_option maxRecDepth 8192 in
theorem op_i64_shr_s (x : BitVec 64) (y : BitVec 64) :
    Model.runNumeric macroDefs "wasmOpcodeI64ShrS" [(.i64, .u64 x), (.i64, .u64 y)] = .val (.u64 (Spec.ishr_s x y)) := by
  num_unfold; num_eval
  all_goals (simp only [Spec.ishr_s_eq64]; bv_close)

set_option maxRecDepth 8192 in
theorem op_i64_shr_u (x : BitVec 64) (y : BitVec 64) :
    Model.runNumeric macroDefs "wasmOpcodeI64ShrU" [(.i64, .u64 x), (.i64, .u64 y)] = .val (.u64 (Spec.ishr_u x y)) := by
  num_unfold; num_eval
  all_goals (simp only [Spec.ishr_u_eq64]; bv_close)

set_option maxRecDepth 8192 in
theorem op_i64_rotl (x : BitVec 64) (y : BitVec 64) :
    Model.runNumeric macroDefs "wasmOpcodeI64Rotl" [(.i64, .u64 x), (.i64, .u64 y)] = .val (.u64 (Spec.irotl x y)) := by
  num_unfold; num_eval
  all_goals first | rfl | (simp [Spec.iadd, Spec.isub, Spec.imul, Spec.iand, Spec.ior, Spec.ixor, Spec.wrap_i64, Spec.extend_i32_s, Spec.extend_i32_u, Spec.iextend_s]; done) | bv_close | (simp only [Spec.wrap_i64, Spec.extend_i32_s, Spec.extend_i32_u, Spec.iextend_s]; bv_close)

set_option maxRecDepth 8192 in
theorem op_i64_rotr (x : BitVec 64) (y : BitVec 64) :
    Model.runNumeric macroDefs "wasmOpcodeI64Rotr" [(.i64, .u64 x), (.i64, .u64 y)] = .val (.u64 (Spec.irotr x y)) := by
  num_unfold; num_eval
  all_goals first | rfl | (simp [Spec.iadd, Spec.isub, Spec.imul, Spec.iand, Spec.ior, Spec.ixor, Spec.wrap_i64, Spec.extend_i32_s, Spec.extend_i32_u, Spec.iextend_s]; done) | bv_close | (simp only [Spec.wrap_i64, Spec.extend_i32_s, Spec.extend_i32_u, Spec.iextend_s]; bv_close)

set_option maxRecDepth 8192 in
theorem op_i32_wrap_i64 (x : BitVec 64) :
    Model.runNumeric macroDefs "wasmOpcodeI32WrapI64" [(.i64, .u64 x)] = .val (.u32 (Spec.wrap_i64 x)) := by
  num_unfold; num_eval
  all_goals first | rfl | (simp [Spec.iadd, Spec.isub, Spec.imul, Spec.iand, Spec.ior, Spec.ixor, Spec.wrap_i64, Spec.extend_i32_s, Spec.extend_i32_u, Spec.iextend_s]; done) | bv_close | (simp only [Spec.wrap_i64, Spec.extend_i32_s, Spec.extend_i32_u, Spec.iextend_s]; bv_close)

set_option maxRecDepth 8192 in
theorem op_i64_extend_i32_s (x : BitVec 32) :
    Model.runNumeric macroDefs "wasmOpcodeI64ExtendI32S" [(.i32, .u32 x)] = .val (.u64 (Spec.extend_i32_s x)) := by
  num_unfold; num_eval
  all_goals first | rfl | (simp [Spec.iadd, Spec.isub, Spec.imul, Spec.iand, Spec.ior, Spec.ixor, Spec.wrap_i64, Spec.extend_i32_s, Spec.extend_i32_u, Spec.iextend_s]; done) | bv_close | (simp only [Spec.wrap_i64, Spec.extend_i32_s, Spec.extend_i32_u, Spec.iextend_s]; bv_close)

set_option maxRecDepth 8192 in
theorem op_i64_extend_i32_u (x : BitVec 32) :
    Model.runNumeric macroDefs "wasmOpcodeI64ExtendI32U" [(.i32, .u32 x)] = .val (.u64 (Spec.extend_i32_u x)) := by
  num_unfold; num_eval
  all_goals first | rfl | (simp [Spec.iadd, Spec.isub, Spec.imul, Spec.iand, Spec.ior, Spec.ixor, Spec.wrap_i64, Spec.extend_i32_s, Spec.extend_i32_u, Spec.iextend_s]; done) | bv_close | (simp only [Spec.wrap_i64, Spec.extend_i32_s, Spec.extend_i32_u, Spec.iextend_s]; bv_close)

set_option maxRecDepth 8192 in
theorem op_i32_extend8_s (x : BitVec 32) :
    Model.runNumeric macroDefs "wasmOpcodeI32Extend8S" [(.i32, .u32 x)] = .val (.u32 (Spec.iextend_s 8 x)) := by
  num_unfold; num_eval
  all_goals first | rfl | (simp [Spec.iadd, Spec.isub, Spec.imul, Spec.iand, Spec.ior, Spec.ixor, Spec.wrap_i64, Spec.extend_i32_s, Spec.extend_i32_u, Spec.iextend_s]; done) | bv_close | (simp only [Spec.wrap_i64, Spec.extend_i32_s, Spec.extend_i32_u, Spec.iextend_s]; bv_close)

set_option maxRecDepth 8192 in
theorem op_i32_extend16_s (x : BitVec 32) :
    Model.runNumeric macroDefs "wasmOpcodeI32Extend16S" [(.i32, .u32 x)] = .val (.u32 (Spec.iextend_s 16 x)) := by
  num_unfold; num_eval
  all_goals first | rfl | (simp [Spec.iadd, Spec.isub, Spec.imul, Spec.iand, Spec.ior, Spec.ixor, Spec.wrap_i64, Spec.extend_i32_s, Spec.extend_i32_u, Spec.iextend_s]; done) | bv_close | (simp only [Spec.wrap_i64, Spec.extend_i32_s, Spec.extend_i32_u, Spec.iextend_s]; bv_close)

set_option maxRecDepth 8192 in
theorem op_i64_extend8_s (x : BitVec 64) :
    Model.runNumeric macroDefs "wasmOpcodeI64Extend8S" [(.i64, .u64 x)] = .val (.u64 (Spec.iextend_s 8 x)) := by
  num_unfold; num_eval
  all_goals first | rfl | (simp [Spec.iadd, Spec.isub, Spec.imul, Spec.iand, Spec.ior, Spec.ixor, Spec.wrap_i64, Spec.extend_i32_s, Spec.extend_i32_u, Spec.iextend_s]; done) | bv_close | (simp only [Spec.wrap_i64, Spec.extend_i32_s, Spec.extend_i32_u, Spec.iextend_s]; bv_close)

set_option maxRecDepth 8192 in
theorem op_i64_extend16_s (x : BitVec 64) :
    Model.runNumeric macroDefs "wasmOpcodeI64Extend16S" [(.i64, .u64 x)] = .val (.u64 (Spec.iextend_s 16 x)) := by
  num_unfold; num_eval
  all_goals first | rfl | (simp [Spec.iadd, Spec.isub, Spec.imul, Spec.iand, Spec.ior, Spec.ixor, Spec.wrap_i64, Spec.extend_i32_s, Spec.extend_i32_u, Spec.iextend_s]; done) | bv_close | (simp only [Spec.wrap_i64, Spec.extend_i32_s, Spec.extend_i32_u, Spec.iextend_s]; bv_close)

set_option maxRecDepth 8192 in
theorem op_i64_extend32_s (x : BitVec 64) :
    Model.runNumeric macroDefs "wasmOpcodeI64Extend32S" [(.i64, .u64 x)] = .val (.u64 (Spec.iextend_s 32 x)) := by
  num_unfold; num_eval
  all_goals first | rfl | (simp [Spec.iadd, Spec.isub, Spec.imul, Spec.iand, Spec.ior, Spec.ixor, Spec.wrap_i64, Spec.extend_i32_s, Spec.extend_i32_u, Spec.iextend_s]; done) | bv_close | (simp only [Spec.wrap_i64, Spec.extend_i32_s, Spec.extend_i32_u, Spec.iextend_s]; bv_close)

end W2c2Verif.Props.C01
