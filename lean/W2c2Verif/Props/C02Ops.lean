/-
  Props.C02Ops — for EVERY floating-point and conversion opcode, the statement w2c2 emits
  (model `Model.numEmit` over the regenerated dispatch table), executed by the C semantics on
  arbitrary operand bit patterns, computes exactly the operator the WebAssembly specification
  names: the right IEEE operation (`SF.*`, the exact soft-float that stands for the CPU/libm —
  see the trusted base), operand order, cast chain (signedness and width) and rounding
  function; bit-preserving instructions (neg, abs, copysign, reinterpret) act on the bit
  pattern, so NaN payloads survive.  Trapping / saturating truncations reduce to the header
  macros, whose behaviour is the subject of Props.C02 / C02Guards.
-/
import W2c2Verif.Lemmas.NumEval
import W2c2Verif.Props.C02

namespace W2c2Verif.Props.C02
open W2c2Verif W2c2Verif.Props.C01

macro "fl_eval" : tactic => `(tactic|
  simp +decide [CExpr.eval, CExpr.typeOf, CStmt.exec_seq, CStmt.exec_skip, CStmt.exec_decl,
        CStmt.exec_assign, CStmt.exec_opAssign, CStmt.exec_ifThen, CStmt.exec_ret, Env.get, Env.set,
        CVal.fromNat, CVal.fromInt, CVal.binop, CVal.unop, CTy.common, CTy.promote, CVal.ty,
        CPrim.cmpF, CPrim.arithF, BinOp.isCmp, Out.map', Out.ite_bind, builtin1, builtin2, signbitSem,
        macroDefs, defsOfMacros, lookupAssoc, Gen.macrosLE, Spec.bool32, Spec.b32, Spec.b64,
        fmin32_correct, fmin64_correct, fmax32_correct, fmax64_correct])


set_option maxRecDepth 8192 in
theorem op_f32_eq (x : BitVec 32) (y : BitVec 32) :
    Model.runNumeric macroDefs "wasmOpcodeF32Eq" [(.f32, .f32 x), (.f32, .f32 y)] = .val (.u32 (Spec.bool32 (SF.eq SF.f32 x.toNat y.toNat))) := by
  num_unfold; fl_eval
  all_goals (first | rfl | (simp; done) | (split <;> simp_all))

set_option maxRecDepth 8192 in
theorem op_f32_ne (x : BitVec 32) (y : BitVec 32) :
    Model.runNumeric macroDefs "wasmOpcodeF32Ne" [(.f32, .f32 x), (.f32, .f32 y)] = .val (.u32 (Spec.bool32 (!SF.eq SF.f32 x.toNat y.toNat))) := by
  num_unfold; fl_eval
  all_goals (first | rfl | (simp; done) | (split <;> simp_all))

set_option maxRecDepth 8192 in
theorem op_f32_lt (x : BitVec 32) (y : BitVec 32) :
    Model.runNumeric macroDefs "wasmOpcodeF32Lt" [(.f32, .f32 x), (.f32, .f32 y)] = .val (.u32 (Spec.bool32 (SF.lt SF.f32 x.toNat y.toNat))) := by
  num_unfold; fl_eval
  all_goals (first | rfl | (simp; done) | (split <;> simp_all))

set_option maxRecDepth 8192 in
theorem op_f32_gt (x : BitVec 32) (y : BitVec 32) :
    Model.runNumeric macroDefs "wasmOpcodeF32Gt" [(.f32, .f32 x), (.f32, .f32 y)] = .val (.u32 (Spec.bool32 (SF.gt SF.f32 x.toNat y.toNat))) := by
  num_unfold; fl_eval
  all_goals (first | rfl | (simp; done) | (split <;> simp_all))

set_option maxRecDepth 8192 in
theorem op_f32_le (x : BitVec 32) (y : BitVec 32) :
    Model.runNumeric macroDefs "wasmOpcodeF32Le" [(.f32, .f32 x), (.f32, .f32 y)] = .val (.u32 (Spec.bool32 (SF.le SF.f32 x.toNat y.toNat))) := by
  num_unfold; fl_eval
  all_goals (first | rfl | (simp; done) | (split <;> simp_all))

set_option maxRecDepth 8192 in
theorem op_f32_ge (x : BitVec 32) (y : BitVec 32) :
    Model.runNumeric macroDefs "wasmOpcodeF32Ge" [(.f32, .f32 x), (.f32, .f32 y)] = .val (.u32 (Spec.bool32 (SF.ge SF.f32 x.toNat y.toNat))) := by
  num_unfold; fl_eval
  all_goals (first | rfl | (simp; done) | (split <;> simp_all))

set_option maxRecDepth 8192 in
theorem op_f32_abs (x : BitVec 32) :
    Model.runNumeric macroDefs "wasmOpcodeF32Abs" [(.f32, .f32 x)] = .val (.f32 (BitVec.ofNat 32 (SF.abs SF.f32 x.toNat))) := by
  num_unfold; fl_eval
  all_goals (first | rfl | (simp; done) | (split <;> simp_all))

set_option maxRecDepth 8192 in
theorem op_f32_neg (x : BitVec 32) :
    Model.runNumeric macroDefs "wasmOpcodeF32Neg" [(.f32, .f32 x)] = .val (.f32 (BitVec.ofNat 32 (SF.neg SF.f32 x.toNat))) := by
  num_unfold; fl_eval
  all_goals (first | rfl | (simp; done) | (split <;> simp_all))

set_option maxRecDepth 8192 in
theorem op_f32_ceil (x : BitVec 32) :
    Model.runNumeric macroDefs "wasmOpcodeF32Ceil" [(.f32, .f32 x)] = .val (.f32 (BitVec.ofNat 32 (SF.rint SF.f32 2 x.toNat))) := by
  num_unfold; fl_eval
  all_goals (first | rfl | (simp; done) | (split <;> simp_all))

set_option maxRecDepth 8192 in
theorem op_f32_floor (x : BitVec 32) :
    Model.runNumeric macroDefs "wasmOpcodeF32Floor" [(.f32, .f32 x)] = .val (.f32 (BitVec.ofNat 32 (SF.rint SF.f32 1 x.toNat))) := by
  num_unfold; fl_eval
  all_goals (first | rfl | (simp; done) | (split <;> simp_all))

set_option maxRecDepth 8192 in
theorem op_f32_trunc (x : BitVec 32) :
    Model.runNumeric macroDefs "wasmOpcodeF32Trunc" [(.f32, .f32 x)] = .val (.f32 (BitVec.ofNat 32 (SF.rint SF.f32 0 x.toNat))) := by
  num_unfold; fl_eval
  all_goals (first | rfl | (simp; done) | (split <;> simp_all))

set_option maxRecDepth 8192 in
theorem op_f32_nearest (x : BitVec 32) :
    Model.runNumeric macroDefs "wasmOpcodeF32Nearest" [(.f32, .f32 x)] = .val (.f32 (BitVec.ofNat 32 (SF.rint SF.f32 3 x.toNat))) := by
  num_unfold; fl_eval
  all_goals (first | rfl | (simp; done) | (split <;> simp_all))

set_option maxRecDepth 8192 in
theorem op_f32_sqrt (x : BitVec 32) :
    Model.runNumeric macroDefs "wasmOpcodeF32Sqrt" [(.f32, .f32 x)] = .val (.f32 (BitVec.ofNat 32 (SF.sqrt SF.f32 x.toNat))) := by
  num_unfold; fl_eval
  all_goals (first | rfl | (simp; done) | (split <;> simp_all))

set_option maxRecDepth 8192 in
theorem op_f32_add (x : BitVec 32) (y : BitVec 32) :
    Model.runNumeric macroDefs "wasmOpcodeF32Add" [(.f32, .f32 x), (.f32, .f32 y)] = .val (.f32 (BitVec.ofNat 32 (SF.add SF.f32 x.toNat y.toNat))) := by
  num_unfold; fl_eval
  all_goals (first | rfl | (simp; done) | (split <;> simp_all))

set_option maxRecDepth 8192 in
theorem op_f32_sub (x : BitVec 32) (y : BitVec 32) :
    Model.runNumeric macroDefs "wasmOpcodeF32Sub" [(.f32, .f32 x), (.f32, .f32 y)] = .val (.f32 (BitVec.ofNat 32 (SF.sub SF.f32 x.toNat y.toNat))) := by
  num_unfold; fl_eval
  all_goals (first | rfl | (simp; done) | (split <;> simp_all))

set_option maxRecDepth 8192 in
theorem op_f32_mul (x : BitVec 32) (y : BitVec 32) :
    Model.runNumeric macroDefs "wasmOpcodeF32Mul" [(.f32, .f32 x), (.f32, .f32 y)] = .val (.f32 (BitVec.ofNat 32 (SF.mul SF.f32 x.toNat y.toNat))) := by
  num_unfold; fl_eval
  all_goals (first | rfl | (simp; done) | (split <;> simp_all))

set_option maxRecDepth 8192 in
theorem op_f32_div (x : BitVec 32) (y : BitVec 32) :
    Model.runNumeric macroDefs "wasmOpcodeF32Div" [(.f32, .f32 x), (.f32, .f32 y)] = .val (.f32 (BitVec.ofNat 32 (SF.div SF.f32 x.toNat y.toNat))) := by
  num_unfold; fl_eval
  all_goals (first | rfl | (simp; done) | (split <;> simp_all))

set_option maxRecDepth 8192 in
theorem op_f32_min (x : BitVec 32) (y : BitVec 32) :
    Model.runNumeric macroDefs "wasmOpcodeF32Min" [(.f32, .f32 x), (.f32, .f32 y)] = .val (.f32 (BitVec.ofNat 32 (SF.fmin SF.f32 x.toNat y.toNat))) := by
  num_unfold; fl_eval
  all_goals (first | rfl | (simp; done) | (split <;> simp_all))

set_option maxRecDepth 8192 in
theorem op_f32_max (x : BitVec 32) (y : BitVec 32) :
    Model.runNumeric macroDefs "wasmOpcodeF32Max" [(.f32, .f32 x), (.f32, .f32 y)] = .val (.f32 (BitVec.ofNat 32 (SF.fmax SF.f32 x.toNat y.toNat))) := by
  num_unfold; fl_eval
  all_goals (first | rfl | (simp; done) | (split <;> simp_all))

set_option maxRecDepth 8192 in
theorem op_f32_copysign (x : BitVec 32) (y : BitVec 32) :
    Model.runNumeric macroDefs "wasmOpcodeF32CopySign" [(.f32, .f32 x), (.f32, .f32 y)] = .val (.f32 (BitVec.ofNat 32 (SF.copysign SF.f32 x.toNat y.toNat))) := by
  num_unfold; fl_eval
  all_goals (first | rfl | (simp; done) | (split <;> simp_all))

set_option maxRecDepth 8192 in
theorem op_f64_eq (x : BitVec 64) (y : BitVec 64) :
    Model.runNumeric macroDefs "wasmOpcodeF64Eq" [(.f64, .f64 x), (.f64, .f64 y)] = .val (.u32 (Spec.bool32 (SF.eq SF.f64 x.toNat y.toNat))) := by
  num_unfold; fl_eval
  all_goals (first | rfl | (simp; done) | (split <;> simp_all))

set_option maxRecDepth 8192 in
theorem op_f64_ne (x : BitVec 64) (y : BitVec 64) :
    Model.runNumeric macroDefs "wasmOpcodeF64Ne" [(.f64, .f64 x), (.f64, .f64 y)] = .val (.u32 (Spec.bool32 (!SF.eq SF.f64 x.toNat y.toNat))) := by
  num_unfold; fl_eval
  all_goals (first | rfl | (simp; done) | (split <;> simp_all))

set_option maxRecDepth 8192 in
theorem op_f64_lt (x : BitVec 64) (y : BitVec 64) :
    Model.runNumeric macroDefs "wasmOpcodeF64Lt" [(.f64, .f64 x), (.f64, .f64 y)] = .val (.u32 (Spec.bool32 (SF.lt SF.f64 x.toNat y.toNat))) := by
  num_unfold; fl_eval
  all_goals (first | rfl | (simp; done) | (split <;> simp_all))

set_option maxRecDepth 8192 in
theorem op_f64_gt (x : BitVec 64) (y : BitVec 64) :
    Model.runNumeric macroDefs "wasmOpcodeF64Gt" [(.f64, .f64 x), (.f64, .f64 y)] = .val (.u32 (Spec.bool32 (SF.gt SF.f64 x.toNat y.toNat))) := by
  num_unfold; fl_eval
  all_goals (first | rfl | (simp; done) | (split <;> simp_all))

set_option maxRecDepth 8192 in
theorem op_f64_le (x : BitVec 64) (y : BitVec 64) :
    Model.runNumeric macroDefs "wasmOpcodeF64Le" [(.f64, .f64 x), (.f64, .f64 y)] = .val (.u32 (Spec.bool32 (SF.le SF.f64 x.toNat y.toNat))) := by
  num_unfold; fl_eval
  all_goals (first | rfl | (simp; done) | (split <;> simp_all))

set_option maxRecDepth 8192 in
theorem op_f64_ge (x : BitVec 64) (y : BitVec 64) :
    Model.runNumeric macroDefs "wasmOpcodeF64Ge" [(.f64, .f64 x), (.f64, .f64 y)] = .val (.u32 (Spec.bool32 (SF.ge SF.f64 x.toNat y.toNat))) := by
  num_unfold; fl_eval
  all_goals (first | rfl | (simp; done) | (split <;> simp_all))

set_option maxRecDepth 8192 in
theorem op_f64_abs (x : BitVec 64) :
    Model.runNumeric macroDefs "wasmOpcodeF64Abs" [(.f64, .f64 x)] = .val (.f64 (BitVec.ofNat 64 (SF.abs SF.f64 x.toNat))) := by
  num_unfold; fl_eval
  all_goals (first | rfl | (simp; done) | (split <;> simp_all))

set_option maxRecDepth 8192 in
theorem op_f64_neg (x : BitVec 64) :
    Model.runNumeric macroDefs "wasmOpcodeF64Neg" [(.f64, .f64 x)] = .val (.f64 (BitVec.ofNat 64 (SF.neg SF.f64 x.toNat))) := by
  num_unfold; fl_eval
  all_goals (first | rfl | (simp; done) | (split <;> simp_all))

set_option maxRecDepth 8192 in
theorem op_f64_ceil (x : BitVec 64) :
    Model.runNumeric macroDefs "wasmOpcodeF64Ceil" [(.f64, .f64 x)] = .val (.f64 (BitVec.ofNat 64 (SF.rint SF.f64 2 x.toNat))) := by
  num_unfold; fl_eval
  all_goals (first | rfl | (simp; done) | (split <;> simp_all))

set_option maxRecDepth 8192 in
theorem op_f64_floor (x : BitVec 64) :
    Model.runNumeric macroDefs "wasmOpcodeF64Floor" [(.f64, .f64 x)] = .val (.f64 (BitVec.ofNat 64 (SF.rint SF.f64 1 x.toNat))) := by
  num_unfold; fl_eval
  all_goals (first | rfl | (simp; done) | (split <;> simp_all))

set_option maxRecDepth 8192 in
theorem op_f64_trunc (x : BitVec 64) :
    Model.runNumeric macroDefs "wasmOpcodeF64Trunc" [(.f64, .f64 x)] = .val (.f64 (BitVec.ofNat 64 (SF.rint SF.f64 0 x.toNat))) := by
  num_unfold; fl_eval
  all_goals (first | rfl | (simp; done) | (split <;> simp_all))

set_option maxRecDepth 8192 in
theorem op_f64_nearest (x : BitVec 64) :
    Model.runNumeric macroDefs "wasmOpcodeF64Nearest" [(.f64, .f64 x)] = .val (.f64 (BitVec.ofNat 64 (SF.rint SF.f64 3 x.toNat))) := by
  num_unfold; fl_eval
  all_goals (first | rfl | (simp; done) | (split <;> simp_all))

set_option maxRecDepth 8192 in
theorem op_f64_sqrt (x : BitVec 64) :
    Model.runNumeric macroDefs "wasmOpcodeF64Sqrt" [(.f64, .f64 x)] = .val (.f64 (BitVec.ofNat 64 (SF.sqrt SF.f64 x.toNat))) := by
  num_unfold; fl_eval
  all_goals (first | rfl | (simp; done) | (split <;> simp_all))

set_option maxRecDepth 8192 in
theorem op_f64_add (x : BitVec 64) (y : BitVec 64) :
    Model.runNumeric macroDefs "wasmOpcodeF64Add" [(.f64, .f64 x), (.f64, .f64 y)] = .val (.f64 (BitVec.ofNat 64 (SF.add SF.f64 x.toNat y.toNat))) := by
  num_unfold; fl_eval
  all_goals (first | rfl | (simp; done) | (split <;> simp_all))

set_option maxRecDepth 8192 in
theorem op_f64_sub (x : BitVec 64) (y : BitVec 64) :
    Model.runNumeric macroDefs "wasmOpcodeF64Sub" [(.f64, .f64 x), (.f64, .f64 y)] = .val (.f64 (BitVec.ofNat 64 (SF.sub SF.f64 x.toNat y.toNat))) := by
  num_unfold; fl_eval
  all_goals (first | rfl | (simp; done) | (split <;> simp_all))

set_option maxRecDepth 8192 in
theorem op_f64_mul (x : BitVec 64) (y : BitVec 64) :
    Model.runNumeric macroDefs "wasmOpcodeF64Mul" [(.f64, .f64 x), (.f64, .f64 y)] = .val (.f64 (BitVec.ofNat 64 (SF.mul SF.f64 x.toNat y.toNat))) := by
  num_unfold; fl_eval
  all_goals (first | rfl | (simp; done) | (split <;> simp_all))

set_option maxRecDepth 8192 in
theorem op_f64_div (x : BitVec 64) (y : BitVec 64) :
    Model.runNumeric macroDefs "wasmOpcodeF64Div" [(.f64, .f64 x), (.f64, .f64 y)] = .val (.f64 (BitVec.ofNat 64 (SF.div SF.f64 x.toNat y.toNat))) := by
  num_unfold; fl_eval
  all_goals (first | rfl | (simp; done) | (split <;> simp_all))

set_option maxRecDepth 8192 in
theorem op_f64_min (x : BitVec 64) (y : BitVec 64) :
    Model.runNumeric macroDefs "wasmOpcodeF64Min" [(.f64, .f64 x), (.f64, .f64 y)] = .val (.f64 (BitVec.ofNat 64 (SF.fmin SF.f64 x.toNat y.toNat))) := by
  num_unfold; fl_eval
  all_goals (first | rfl | (simp; done) | (split <;> simp_all))

set_option maxRecDepth 8192 in
theorem op_f64_max (x : BitVec 64) (y : BitVec 64) :
    Model.runNumeric macroDefs "wasmOpcodeF64Max" [(.f64, .f64 x), (.f64, .f64 y)] = .val (.f64 (BitVec.ofNat 64 (SF.fmax SF.f64 x.toNat y.toNat))) := by
  num_unfold; fl_eval
  all_goals (first | rfl | (simp; done) | (split <;> simp_all))

set_option maxRecDepth 8192 in
theorem op_f64_copysign (x : BitVec 64) (y : BitVec 64) :
    Model.runNumeric macroDefs "wasmOpcodeF64CopySign" [(.f64, .f64 x), (.f64, .f64 y)] = .val (.f64 (BitVec.ofNat 64 (SF.copysign SF.f64 x.toNat y.toNat))) := by
  num_unfold; fl_eval
  all_goals (first | rfl | (simp; done) | (split <;> simp_all))

set_option maxRecDepth 8192 in
theorem op_i32_trunc_f32_s (x : BitVec 32) :
    Model.runNumeric macroDefs "wasmOpcodeI32TruncF32S" [(.f32, .f32 x)] = (Gen.m_I32_TRUNC_S_F32.call noDefs [.f32 x] >>= CVal.castInt .u32) := by
  num_unfold; fl_eval
  all_goals (first | rfl | (simp [CMacro.call]; done) | (cases h : CMacro.call noDefs Gen.m_I32_TRUNC_S_F32 [CVal.f32 x] <;> simp <;> (rename_i a; cases hc : CVal.castInt CTy.u32 a <;> simp [Env.get])))

set_option maxRecDepth 8192 in
theorem op_i32_trunc_f32_u (x : BitVec 32) :
    Model.runNumeric macroDefs "wasmOpcodeI32TruncF32U" [(.f32, .f32 x)] = (Gen.m_I32_TRUNC_U_F32.call noDefs [.f32 x] >>= CVal.castInt .u32) := by
  num_unfold; fl_eval
  all_goals (first | rfl | (simp [CMacro.call]; done) | (cases h : CMacro.call noDefs Gen.m_I32_TRUNC_U_F32 [CVal.f32 x] <;> simp <;> (rename_i a; cases hc : CVal.castInt CTy.u32 a <;> simp [Env.get])))

set_option maxRecDepth 8192 in
theorem op_i32_trunc_f64_s (x : BitVec 64) :
    Model.runNumeric macroDefs "wasmOpcodeI32TruncF64S" [(.f64, .f64 x)] = (Gen.m_I32_TRUNC_S_F64.call noDefs [.f64 x] >>= CVal.castInt .u32) := by
  num_unfold; fl_eval
  all_goals (first | rfl | (simp [CMacro.call]; done) | (cases h : CMacro.call noDefs Gen.m_I32_TRUNC_S_F64 [CVal.f64 x] <;> simp <;> (rename_i a; cases hc : CVal.castInt CTy.u32 a <;> simp [Env.get])))

set_option maxRecDepth 8192 in
theorem op_i32_trunc_f64_u (x : BitVec 64) :
    Model.runNumeric macroDefs "wasmOpcodeI32TruncF64U" [(.f64, .f64 x)] = (Gen.m_I32_TRUNC_U_F64.call noDefs [.f64 x] >>= CVal.castInt .u32) := by
  num_unfold; fl_eval
  all_goals (first | rfl | (simp [CMacro.call]; done) | (cases h : CMacro.call noDefs Gen.m_I32_TRUNC_U_F64 [CVal.f64 x] <;> simp <;> (rename_i a; cases hc : CVal.castInt CTy.u32 a <;> simp [Env.get])))

set_option maxRecDepth 8192 in
theorem op_i64_trunc_f32_s (x : BitVec 32) :
    Model.runNumeric macroDefs "wasmOpcodeI64TruncF32S" [(.f32, .f32 x)] = (Gen.m_I64_TRUNC_S_F32.call noDefs [.f32 x] >>= CVal.castInt .u64) := by
  num_unfold; fl_eval
  all_goals (first | rfl | (simp [CMacro.call]; done) | (cases h : CMacro.call noDefs Gen.m_I64_TRUNC_S_F32 [CVal.f32 x] <;> simp <;> (rename_i a; cases hc : CVal.castInt CTy.u64 a <;> simp [Env.get])))

set_option maxRecDepth 8192 in
theorem op_i64_trunc_f32_u (x : BitVec 32) :
    Model.runNumeric macroDefs "wasmOpcodeI64TruncF32U" [(.f32, .f32 x)] = (Gen.m_I64_TRUNC_U_F32.call noDefs [.f32 x] >>= CVal.castInt .u64) := by
  num_unfold; fl_eval
  all_goals (first | rfl | (simp [CMacro.call]; done) | (cases h : CMacro.call noDefs Gen.m_I64_TRUNC_U_F32 [CVal.f32 x] <;> simp <;> (rename_i a; cases hc : CVal.castInt CTy.u64 a <;> simp [Env.get])))

set_option maxRecDepth 8192 in
theorem op_i64_trunc_f64_s (x : BitVec 64) :
    Model.runNumeric macroDefs "wasmOpcodeI64TruncF64S" [(.f64, .f64 x)] = (Gen.m_I64_TRUNC_S_F64.call noDefs [.f64 x] >>= CVal.castInt .u64) := by
  num_unfold; fl_eval
  all_goals (first | rfl | (simp [CMacro.call]; done) | (cases h : CMacro.call noDefs Gen.m_I64_TRUNC_S_F64 [CVal.f64 x] <;> simp <;> (rename_i a; cases hc : CVal.castInt CTy.u64 a <;> simp [Env.get])))

set_option maxRecDepth 8192 in
theorem op_i64_trunc_f64_u (x : BitVec 64) :
    Model.runNumeric macroDefs "wasmOpcodeI64TruncF64U" [(.f64, .f64 x)] = (Gen.m_I64_TRUNC_U_F64.call noDefs [.f64 x] >>= CVal.castInt .u64) := by
  num_unfold; fl_eval
  all_goals (first | rfl | (simp [CMacro.call]; done) | (cases h : CMacro.call noDefs Gen.m_I64_TRUNC_U_F64 [CVal.f64 x] <;> simp <;> (rename_i a; cases hc : CVal.castInt CTy.u64 a <;> simp [Env.get])))

set_option maxRecDepth 8192 in
theorem op_f32_convert_i32_s (x : BitVec 32) :
    Model.runNumeric macroDefs "wasmOpcodeF32ConvertI32S" [(.i32, .u32 x)] = .val (.f32 (BitVec.ofNat 32 (SF.ofInt SF.f32 x.toInt))) := by
  num_unfold; fl_eval
  all_goals (first | rfl | (simp; done) | (split <;> simp_all))

set_option maxRecDepth 8192 in
theorem op_f32_convert_i32_u (x : BitVec 32) :
    Model.runNumeric macroDefs "wasmOpcodeF32ConvertI32U" [(.i32, .u32 x)] = .val (.f32 (BitVec.ofNat 32 (SF.ofInt SF.f32 x.toNat))) := by
  num_unfold; fl_eval
  all_goals (first | rfl | (simp; done) | (split <;> simp_all))

set_option maxRecDepth 8192 in
theorem op_f32_convert_i64_s (x : BitVec 64) :
    Model.runNumeric macroDefs "wasmOpcodeF32ConvertI64S" [(.i64, .u64 x)] = .val (.f32 (BitVec.ofNat 32 (SF.ofInt SF.f32 x.toInt))) := by
  num_unfold; fl_eval
  all_goals (first | rfl | (simp; done) | (split <;> simp_all))

set_option maxRecDepth 8192 in
theorem op_f32_convert_i64_u (x : BitVec 64) :
    Model.runNumeric macroDefs "wasmOpcodeF32ConvertI64U" [(.i64, .u64 x)] = .val (.f32 (BitVec.ofNat 32 (SF.ofInt SF.f32 x.toNat))) := by
  num_unfold; fl_eval
  all_goals (first | rfl | (simp; done) | (split <;> simp_all))

set_option maxRecDepth 8192 in
theorem op_f32_demote_f64 (x : BitVec 64) :
    Model.runNumeric macroDefs "wasmOpcodeF32DemoteF64" [(.f64, .f64 x)] = .val (.f32 (BitVec.ofNat 32 (SF.convert SF.f64 SF.f32 x.toNat))) := by
  num_unfold; fl_eval
  all_goals (first | rfl | (simp; done) | (split <;> simp_all))

set_option maxRecDepth 8192 in
theorem op_f64_convert_i32_s (x : BitVec 32) :
    Model.runNumeric macroDefs "wasmOpcodeF64ConvertI32S" [(.i32, .u32 x)] = .val (.f64 (BitVec.ofNat 64 (SF.ofInt SF.f64 x.toInt))) := by
  num_unfold; fl_eval
  all_goals (first | rfl | (simp; done) | (split <;> simp_all))

set_option maxRecDepth 8192 in
theorem op_f64_convert_i32_u (x : BitVec 32) :
    Model.runNumeric macroDefs "wasmOpcodeF64ConvertI32U" [(.i32, .u32 x)] = .val (.f64 (BitVec.ofNat 64 (SF.ofInt SF.f64 x.toNat))) := by
  num_unfold; fl_eval
  all_goals (first | rfl | (simp; done) | (split <;> simp_all))

set_option maxRecDepth 8192 in
theorem op_f64_convert_i64_s (x : BitVec 64) :
    Model.runNumeric macroDefs "wasmOpcodeF64ConvertI64S" [(.i64, .u64 x)] = .val (.f64 (BitVec.ofNat 64 (SF.ofInt SF.f64 x.toInt))) := by
  num_unfold; fl_eval
  all_goals (first | rfl | (simp; done) | (split <;> simp_all))

set_option maxRecDepth 8192 in
theorem op_f64_convert_i64_u (x : BitVec 64) :
    Model.runNumeric macroDefs "wasmOpcodeF64ConvertI64U" [(.i64, .u64 x)] = .val (.f64 (BitVec.ofNat 64 (SF.ofInt SF.f64 x.toNat))) := by
  num_unfold; fl_eval
  all_goals (first | rfl | (simp; done) | (split <;> simp_all))

set_option maxRecDepth 8192 in
theorem op_f64_promote_f32 (x : BitVec 32) :
    Model.runNumeric macroDefs "wasmOpcodeF64PromoteF32" [(.f32, .f32 x)] = .val (.f64 (BitVec.ofNat 64 (SF.convert SF.f32 SF.f64 x.toNat))) := by
  num_unfold; fl_eval
  all_goals (first | rfl | (simp; done) | (split <;> simp_all))

set_option maxRecDepth 8192 in
theorem op_i32_reinterpret_f32 (x : BitVec 32) :
    Model.runNumeric macroDefs "wasmOpcodeI32ReinterpretF32" [(.f32, .f32 x)] = .val (.u32 x) := by
  num_unfold; fl_eval
  all_goals (first | rfl | (simp; done) | (split <;> simp_all))

set_option maxRecDepth 8192 in
theorem op_i64_reinterpret_f64 (x : BitVec 64) :
    Model.runNumeric macroDefs "wasmOpcodeI64ReinterpretF64" [(.f64, .f64 x)] = .val (.u64 x) := by
  num_unfold; fl_eval
  all_goals (first | rfl | (simp; done) | (split <;> simp_all))

set_option maxRecDepth 8192 in
theorem op_f32_reinterpret_i32 (x : BitVec 32) :
    Model.runNumeric macroDefs "wasmOpcodeF32ReinterpretI32" [(.i32, .u32 x)] = .val (.f32 x) := by
  num_unfold; fl_eval
  all_goals (first | rfl | (simp; done) | (split <;> simp_all))

set_option maxRecDepth 8192 in
theorem op_f64_reinterpret_i64 (x : BitVec 64) :
    Model.runNumeric macroDefs "wasmOpcodeF64ReinterpretI64" [(.i64, .u64 x)] = .val (.f64 x) := by
  num_unfold; fl_eval
  all_goals (first | rfl | (simp; done) | (split <;> simp_all))

set_option maxRecDepth 8192 in
theorem op_i32_trunc_sat_f32_s (x : BitVec 32) :
    Model.runNumeric macroDefs "wasmMiscOpcodeI32TruncSatF32S" [(.f32, .f32 x)] = (Gen.m_I32_TRUNC_SAT_S_F32.call noDefs [.f32 x] >>= CVal.castInt .u32) := by
  num_unfold; fl_eval
  all_goals (first | rfl | (simp [CMacro.call]; done) | (cases h : CMacro.call noDefs Gen.m_I32_TRUNC_SAT_S_F32 [CVal.f32 x] <;> simp <;> (rename_i a; cases hc : CVal.castInt CTy.u32 a <;> simp [Env.get])))

set_option maxRecDepth 8192 in
theorem op_i32_trunc_sat_f32_u (x : BitVec 32) :
    Model.runNumeric macroDefs "wasmMiscOpcodeI32TruncSatF32U" [(.f32, .f32 x)] = (Gen.m_I32_TRUNC_SAT_U_F32.call noDefs [.f32 x] >>= CVal.castInt .u32) := by
  num_unfold; fl_eval
  all_goals (first | rfl | (simp [CMacro.call]; done) | (cases h : CMacro.call noDefs Gen.m_I32_TRUNC_SAT_U_F32 [CVal.f32 x] <;> simp <;> (rename_i a; cases hc : CVal.castInt CTy.u32 a <;> simp [Env.get])))

set_option maxRecDepth 8192 in
theorem op_i32_trunc_sat_f64_s (x : BitVec 64) :
    Model.runNumeric macroDefs "wasmMiscOpcodeI32TruncSatF64S" [(.f64, .f64 x)] = (Gen.m_I32_TRUNC_SAT_S_F64.call noDefs [.f64 x] >>= CVal.castInt .u32) := by
  num_unfold; fl_eval
  all_goals (first | rfl | (simp [CMacro.call]; done) | (cases h : CMacro.call noDefs Gen.m_I32_TRUNC_SAT_S_F64 [CVal.f64 x] <;> simp <;> (rename_i a; cases hc : CVal.castInt CTy.u32 a <;> simp [Env.get])))

set_option maxRecDepth 8192 in
theorem op_i32_trunc_sat_f64_u (x : BitVec 64) :
    Model.runNumeric macroDefs "wasmMiscOpcodeI32TruncSatF64U" [(.f64, .f64 x)] = (Gen.m_I32_TRUNC_SAT_U_F64.call noDefs [.f64 x] >>= CVal.castInt .u32) := by
  num_unfold; fl_eval
  all_goals (first | rfl | (simp [CMacro.call]; done) | (cases h : CMacro.call noDefs Gen.m_I32_TRUNC_SAT_U_F64 [CVal.f64 x] <;> simp <;> (rename_i a; cases hc : CVal.castInt CTy.u32 a <;> simp [Env.get])))

set_option maxRecDepth 8192 in
theorem op_i64_trunc_sat_f32_s (x : BitVec 32) :
    Model.runNumeric macroDefs "wasmMiscOpcodeI64TruncSatF32S" [(.f32, .f32 x)] = (Gen.m_I64_TRUNC_SAT_S_F32.call noDefs [.f32 x] >>= CVal.castInt .u64) := by
  num_unfold; fl_eval
  all_goals (first | rfl | (simp [CMacro.call]; done) | (cases h : CMacro.call noDefs Gen.m_I64_TRUNC_SAT_S_F32 [CVal.f32 x] <;> simp <;> (rename_i a; cases hc : CVal.castInt CTy.u64 a <;> simp [Env.get])))

set_option maxRecDepth 8192 in
theorem op_i64_trunc_sat_f32_u (x : BitVec 32) :
    Model.runNumeric macroDefs "wasmMiscOpcodeI64TruncSatF32U" [(.f32, .f32 x)] = (Gen.m_I64_TRUNC_SAT_U_F32.call noDefs [.f32 x] >>= CVal.castInt .u64) := by
  num_unfold; fl_eval
  all_goals (first | rfl | (simp [CMacro.call]; done) | (cases h : CMacro.call noDefs Gen.m_I64_TRUNC_SAT_U_F32 [CVal.f32 x] <;> simp <;> (rename_i a; cases hc : CVal.castInt CTy.u64 a <;> simp [Env.get])))

set_option maxRecDepth 8192 in
theorem op_i64_trunc_sat_f64_s (x : BitVec 64) :
    Model.runNumeric macroDefs "wasmMiscOpcodeI64TruncSatF64S" [(.f64, .f64 x)] = (Gen.m_I64_TRUNC_SAT_S_F64.call noDefs [.f64 x] >>= CVal.castInt .u64) := by
  num_unfold; fl_eval
  all_goals (first | rfl | (simp [CMacro.call]; done) | (cases h : CMacro.call noDefs Gen.m_I64_TRUNC_SAT_S_F64 [CVal.f64 x] <;> simp <;> (rename_i a; cases hc : CVal.castInt CTy.u64 a <;> simp [Env.get])))

set_option maxRecDepth 8192 in
theorem op_i64_trunc_sat_f64_u (x : BitVec 64) :
    Model.runNumeric macroDefs "wasmMiscOpcodeI64TruncSatF64U" [(.f64, .f64 x)] = (Gen.m_I64_TRUNC_SAT_U_F64.call noDefs [.f64 x] >>= CVal.castInt .u64) := by
  num_unfold; fl_eval
  all_goals (first | rfl | (simp [CMacro.call]; done) | (cases h : CMacro.call noDefs Gen.m_I64_TRUNC_SAT_U_F64 [CVal.f64 x] <;> simp <;> (rename_i a; cases hc : CVal.castInt CTy.u64 a <;> simp [Env.get])))

end W2c2Verif.Props.C02
