/-
  Props.C01 — integer instruction semantics and integer traps.

  Part A (this section): every integer macro of `w2c2_base.h`, *as regenerated from the
  current source* (`Gen.Macros`), evaluated by the C semantics `CSem`, equals the
  WebAssembly operator of `Spec.Int` for ALL operand values — including the trap code.
  Both the compiler-builtin variants and the portable fallback functions are covered.
-/
import W2c2Verif.Gen.Macros
import W2c2Verif.Lemmas.Tactics
import W2c2Verif.Lemmas.SpecInt

namespace W2c2Verif.Props.C01
open W2c2Verif

/-- `cases_ite` that also decides a scalar used directly as a condition (`!(y)` for `(y) == 0`: the same test, C99 6.5.3.3p5) -/
local macro "cases_ite" : tactic => `(tactic| (repeat' split) <;> (try simp_all [CVal.truthy]) <;> (try decide))

/-! ## division and remainder, with trap codes -/

theorem i32_div_s_correct (x y : BitVec 32) :
    Gen.m_I32_DIV_S.call noDefs [.u32 x, .u32 y] = (Spec.idiv_s x y).map' CVal.u32 := by
  rw [Spec.idiv_s_eq32]; simp only [Gen.m_I32_DIV_S]; csem_eval; cases_ite

theorem i64_div_s_correct (x y : BitVec 64) :
    Gen.m_I64_DIV_S.call noDefs [.u64 x, .u64 y] = (Spec.idiv_s x y).map' CVal.u64 := by
  rw [Spec.idiv_s_eq64]; simp only [Gen.m_I64_DIV_S]; csem_eval; cases_ite

theorem i32_rem_s_correct (x y : BitVec 32) :
    Gen.m_I32_REM_S.call noDefs [.u32 x, .u32 y] = (Spec.irem_s x y).map' CVal.u32 := by
  rw [Spec.irem_s_eq]; simp only [Gen.m_I32_REM_S]; csem_eval; cases_ite

theorem i64_rem_s_correct (x y : BitVec 64) :
    Gen.m_I64_REM_S.call noDefs [.u64 x, .u64 y] = (Spec.irem_s x y).map' CVal.u64 := by
  rw [Spec.irem_s_eq]; simp only [Gen.m_I64_REM_S]; csem_eval; cases_ite

theorem i32_div_u_correct (x y : BitVec 32) :
    Gen.m_DIV_U.call noDefs [.u32 x, .u32 y] = (Spec.idiv_u x y).map' CVal.u32 := by
  rw [Spec.idiv_u_eq]; simp only [Gen.m_DIV_U]; csem_eval; cases_ite

theorem i64_div_u_correct (x y : BitVec 64) :
    Gen.m_DIV_U.call noDefs [.u64 x, .u64 y] = (Spec.idiv_u x y).map' CVal.u64 := by
  rw [Spec.idiv_u_eq]; simp only [Gen.m_DIV_U]; csem_eval; cases_ite

theorem i32_rem_u_correct (x y : BitVec 32) :
    Gen.m_REM_U.call noDefs [.u32 x, .u32 y] = (Spec.irem_u x y).map' CVal.u32 := by
  rw [Spec.irem_u_eq]; simp only [Gen.m_REM_U]; csem_eval; cases_ite

theorem i64_rem_u_correct (x y : BitVec 64) :
    Gen.m_REM_U.call noDefs [.u64 x, .u64 y] = (Spec.irem_u x y).map' CVal.u64 := by
  rw [Spec.irem_u_eq]; simp only [Gen.m_REM_U]; csem_eval; cases_ite

/-- the trap clauses of the property, read off the theorems above -/
theorem trap_codes32 (x : BitVec 32) :
    Gen.m_I32_DIV_S.call noDefs [.u32 x, .u32 0] = .trap .divByZero ∧
    Gen.m_I32_REM_S.call noDefs [.u32 x, .u32 0] = .trap .divByZero ∧
    Gen.m_DIV_U.call noDefs [.u32 x, .u32 0] = .trap .divByZero ∧
    Gen.m_REM_U.call noDefs [.u32 x, .u32 0] = .trap .divByZero ∧
    Gen.m_I32_DIV_S.call noDefs [.u32 0x80000000, .u32 0xffffffff] = .trap .intOverflow ∧
    Gen.m_I32_REM_S.call noDefs [.u32 0x80000000, .u32 0xffffffff] = .val (.u32 0) := by
  refine ⟨?_, ?_, ?_, ?_, ?_, ?_⟩
  · rw [i32_div_s_correct]; simp [Spec.idiv_s, Out.map']
  · rw [i32_rem_s_correct]; simp [Spec.irem_s, Out.map']
  · rw [i32_div_u_correct]; simp [Spec.idiv_u, Out.map']
  · rw [i32_rem_u_correct]; simp [Spec.irem_u, Out.map']
  · rw [i32_div_s_correct]; decide
  · rw [i32_rem_s_correct]; decide

theorem trap_codes64 (x : BitVec 64) :
    Gen.m_I64_DIV_S.call noDefs [.u64 x, .u64 0] = .trap .divByZero ∧
    Gen.m_I64_REM_S.call noDefs [.u64 x, .u64 0] = .trap .divByZero ∧
    Gen.m_DIV_U.call noDefs [.u64 x, .u64 0] = .trap .divByZero ∧
    Gen.m_REM_U.call noDefs [.u64 x, .u64 0] = .trap .divByZero ∧
    Gen.m_I64_DIV_S.call noDefs [.u64 0x8000000000000000, .u64 0xffffffffffffffff] = .trap .intOverflow ∧
    Gen.m_I64_REM_S.call noDefs [.u64 0x8000000000000000, .u64 0xffffffffffffffff] = .val (.u64 0) := by
  refine ⟨?_, ?_, ?_, ?_, ?_, ?_⟩
  · rw [i64_div_s_correct]; simp [Spec.idiv_s, Out.map']
  · rw [i64_rem_s_correct]; simp [Spec.irem_s, Out.map']
  · rw [i64_div_u_correct]; simp [Spec.idiv_u, Out.map']
  · rw [i64_rem_u_correct]; simp [Spec.irem_u, Out.map']
  · rw [i64_div_s_correct]; decide
  · rw [i64_rem_s_correct]; decide

/-! ## rotates (count taken modulo the width, rotate by 0 and by the width are the identity) -/

theorem i32_rotl_correct (x y : BitVec 32) :
    Gen.m_I32_ROTL.call noDefs [.u32 x, .u32 y] = .val (.u32 (Spec.irotl x y)) := by
  rw [Spec.irotl_eq32]; simp only [Gen.m_I32_ROTL]; csem_eval; bv_close

theorem i64_rotl_correct (x y : BitVec 64) :
    Gen.m_I64_ROTL.call noDefs [.u64 x, .u64 y] = .val (.u64 (Spec.irotl x y)) := by
  rw [Spec.irotl_eq64]; simp only [Gen.m_I64_ROTL]; csem_eval; bv_close

theorem i32_rotr_correct (x y : BitVec 32) :
    Gen.m_I32_ROTR.call noDefs [.u32 x, .u32 y] = .val (.u32 (Spec.irotr x y)) := by
  rw [Spec.irotr_eq32]; simp only [Gen.m_I32_ROTR]; csem_eval; bv_close

theorem i64_rotr_correct (x y : BitVec 64) :
    Gen.m_I64_ROTR.call noDefs [.u64 x, .u64 y] = .val (.u64 (Spec.irotr x y)) := by
  rw [Spec.irotr_eq64]; simp only [Gen.m_I64_ROTR]; csem_eval; bv_close

/-! ## bit counting, compiler-builtin variant (the guard for 0 is what the macro adds) -/

theorem i32_clz_correct (x : BitVec 32) :
    (Gen.m_I32_CLZ.call noDefs [.u32 x] >>= CVal.castInt .u32) = .val (.u32 (Spec.iclz x)) := by
  simp only [Gen.m_I32_CLZ]; csem_eval
  simp only [CVal.truthy, CPrim.clz, Spec.iclz, BitVec.ofNat_toNat, BitVec.setWidth_eq]; bv_close

theorem i64_clz_correct (x : BitVec 64) :
    (Gen.m_I64_CLZ.call noDefs [.u64 x] >>= CVal.castInt .u64) = .val (.u64 (Spec.iclz x)) := by
  simp only [Gen.m_I64_CLZ]; csem_eval
  simp only [CVal.truthy, CPrim.clz, Spec.iclz, BitVec.ofNat_toNat]; bv_close

theorem i32_ctz_correct (x : BitVec 32) :
    (Gen.m_I32_CTZ.call noDefs [.u32 x] >>= CVal.castInt .u32) = .val (.u32 (Spec.ictz x)) := by
  simp only [Gen.m_I32_CTZ]; csem_eval
  simp only [CVal.truthy, CPrim.ctz, Spec.ictz, BitVec.ofNat_toNat, BitVec.setWidth_eq]; bv_close

theorem i64_ctz_correct (x : BitVec 64) :
    (Gen.m_I64_CTZ.call noDefs [.u64 x] >>= CVal.castInt .u64) = .val (.u64 (Spec.ictz x)) := by
  simp only [Gen.m_I64_CTZ]; csem_eval
  simp only [CVal.truthy, CPrim.ctz, Spec.ictz, BitVec.ofNat_toNat]; bv_close

theorem i32_popcnt_correct (x : BitVec 32) :
    (Gen.m_I32_POPCNT.call noDefs [.u32 x] >>= CVal.castInt .u32) = .val (.u32 (Spec.ipopcnt x)) := by
  simp only [Gen.m_I32_POPCNT]; csem_eval
  simp only [CPrim.popcount, Spec.ipopcnt, BitVec.ofNat_toNat, BitVec.setWidth_eq]

theorem signExt_small (y : BitVec 64) (h : y ≤ 64#64) :
    BitVec.signExtend 64 (BitVec.setWidth 32 y) = y := by bv_decide
theorem cpop64_le (x : BitVec 64) : x.cpop ≤ 64#64 := by bv_decide

theorem i64_popcnt_correct (x : BitVec 64) :
    (Gen.m_I64_POPCNT.call noDefs [.u64 x] >>= CVal.castInt .u64) = .val (.u64 (Spec.ipopcnt x)) := by
  simp only [Gen.m_I64_POPCNT]; csem_eval
  simp only [CPrim.popcount, Spec.ipopcnt, BitVec.ofNat_toNat]
  exact signExt_small _ (cpop64_le x)

/-! the same facts as raw call results (the builtin returns `int`), for rewriting inside emitted statements -/

theorem i32_clz_raw (x : BitVec 32) : Gen.m_I32_CLZ.call noDefs [.u32 x] = .val (.i32 (Spec.iclz x)) := by
  simp only [Gen.m_I32_CLZ]; csem_eval
  simp only [CVal.truthy, CPrim.clz, Spec.iclz, BitVec.ofNat_toNat, BitVec.setWidth_eq]; bv_close
theorem i32_ctz_raw (x : BitVec 32) : Gen.m_I32_CTZ.call noDefs [.u32 x] = .val (.i32 (Spec.ictz x)) := by
  simp only [Gen.m_I32_CTZ]; csem_eval
  simp only [CVal.truthy, CPrim.ctz, Spec.ictz, BitVec.ofNat_toNat, BitVec.setWidth_eq]; bv_close
theorem i32_popcnt_raw (x : BitVec 32) : Gen.m_I32_POPCNT.call noDefs [.u32 x] = .val (.i32 (Spec.ipopcnt x)) := by
  simp only [Gen.m_I32_POPCNT]; csem_eval
  simp only [CPrim.popcount, Spec.ipopcnt, BitVec.ofNat_toNat, BitVec.setWidth_eq]
theorem i64_clz_raw (x : BitVec 64) : Gen.m_I64_CLZ.call noDefs [.u64 x] = .val (.i32 ((Spec.iclz x).setWidth 32)) := by
  simp only [Gen.m_I64_CLZ]; csem_eval
  simp only [CVal.truthy, CPrim.clz, Spec.iclz, BitVec.ofNat_toNat]; bv_close
theorem i64_ctz_raw (x : BitVec 64) : Gen.m_I64_CTZ.call noDefs [.u64 x] = .val (.i32 ((Spec.ictz x).setWidth 32)) := by
  simp only [Gen.m_I64_CTZ]; csem_eval
  simp only [CVal.truthy, CPrim.ctz, Spec.ictz, BitVec.ofNat_toNat]; bv_close
theorem i64_popcnt_raw (x : BitVec 64) : Gen.m_I64_POPCNT.call noDefs [.u64 x] = .val (.i32 ((Spec.ipopcnt x).setWidth 32)) := by
  simp only [Gen.m_I64_POPCNT]; csem_eval
  simp only [CPrim.popcount, Spec.ipopcnt, BitVec.ofNat_toNat]
theorem clz64_small (x : BitVec 64) : BitVec.signExtend 64 (BitVec.setWidth 32 (Spec.iclz x)) = Spec.iclz x := by
  simp only [Spec.iclz]; exact signExt_small _ (by bv_decide)
theorem ctz64_small (x : BitVec 64) : BitVec.signExtend 64 (BitVec.setWidth 32 (Spec.ictz x)) = Spec.ictz x := by
  simp only [Spec.ictz]; exact signExt_small _ (by bv_decide)
theorem popcnt64_small (x : BitVec 64) : BitVec.signExtend 64 (BitVec.setWidth 32 (Spec.ipopcnt x)) = Spec.ipopcnt x := by
  simp only [Spec.ipopcnt]; exact signExt_small _ (cpop64_le x)

end W2c2Verif.Props.C01
