/-
  Props.C10 — the translator is total and memory-safe on valid modules and on truncated files.

  Part 1: fixed stack buffers filled by `sprintf` (stringbuilder.c, c.c), rows regenerated into
  `Gen.Reader.sprintfBuffers` (buffer size, format, and the C type of the argument AS PASSED, i.e. after a cast
  in the call): for every argument value of that type the formatted text and its terminator fit.
  `sprintf_charhex_signed_overflows` records why the cast `(unsigned char)` in `stringBuilderAppendCharHex`
  (/repo 152af65) is needed: passed as a (signed) `char`, every byte >= 0x80 printed 8 hex digits into
  `char buffer[3]`.
-/
import W2c2Verif.Lemmas.ReaderPrintf
import W2c2Verif.Lemmas.ReaderNoUB
import W2c2Verif.Gen.Reader

namespace W2c2Verif.Props.C10
open W2c2Verif.Lemmas.Printf
open W2c2Verif.Gen.Reader (SprintfBuffer sprintfBuffers)

/-! ### helpers: the value `%u/%X/%i` sees -/

theorem toInt_unsigned (bits raw : Nat) : (Arg.mk bits false raw).toInt = raw := by simp [Arg.toInt]

theorem view_unsigned {raw w : Nat} (h : raw < 2 ^ w) : (((raw : Int)) % ((2 ^ w : Nat) : Int)).toNat = raw := by
  rw [Int.emod_eq_of_lt (Int.natCast_nonneg _) (Int.ofNat_lt.2 h)]; simp

theorem parse_u : parse 64 "%u".toList = some [.conv ⟨0, false, .u⟩] := by decide
theorem parse_i : parse 64 "%i".toList = some [.conv ⟨0, false, .i⟩] := by decide
theorem parse_llu : parse 64 "%llu".toList = some [.conv ⟨0, true, .u⟩] := by decide
theorem parse_lli : parse 64 "%lli".toList = some [.conv ⟨0, true, .i⟩] := by decide
theorem parse_02X : parse 64 "%02X".toList = some [.conv ⟨2, false, .X⟩] := by decide
theorem parse_08X : parse 64 "%08X".toList = some [.conv ⟨8, false, .X⟩] := by decide
theorem parse_016llX : parse 64 "%016llX".toList = some [.conv ⟨16, true, .X⟩] := by decide
theorem parse_filename : parse 64 "%c%010u.c".toList =
    some [.conv ⟨0, false, .c⟩, .conv ⟨10, false, .u⟩, .lit '.', .lit 'c'] := by decide

/-- `strlen` of `sprintf(buffer, fmt, arg)` in the printf model, with fuel independent of the string. -/
def fmtLen (fmt : String) (args : List Arg) : Option Nat :=
  match parse 64 fmt.toList with
  | some ps => piecesLen ps args
  | none => none

theorem len_u (w : Nat) (ll : Bool) (raw bits : Nat) (hw : (if ll then 64 else 32) = bits) (h : raw < 2 ^ bits) :
    convLen ⟨w, ll, .u⟩ ⟨bits, false, raw⟩ = max w (decDigits raw) := by
  simp only [convLen, toInt_unsigned, hw, view_unsigned h]

theorem len_X (w : Nat) (ll : Bool) (raw bits : Nat) (hw : (if ll then 64 else 32) = bits) (h : raw < 2 ^ bits) :
    convLen ⟨w, ll, .X⟩ ⟨bits, false, raw⟩ = max w (hexDigits raw) := by
  simp only [convLen, toInt_unsigned, hw, view_unsigned h]

theorem len_i (w : Nat) (ll : Bool) (raw bits k : Nat) (hb : 0 < bits) (h : raw < 2 ^ bits)
    (hk : 2 ^ (bits - 1) < 10 ^ (k + 1)) :
    convLen ⟨w, ll, .i⟩ ⟨bits, true, raw⟩ ≤ max w (k + 2) := by
  have e : 2 ^ bits = 2 * 2 ^ (bits - 1) := by rw [← Nat.pow_succ']; congr 1; omega
  have habs : (Arg.mk bits true raw).toInt.natAbs ≤ 2 ^ (bits - 1) := by
    simp only [Arg.toInt]; split
    · rename_i hc; have := hc.2; rw [e] at h ⊢; omega
    · rename_i hc; simp at hc; omega
  have hd := decDigits_le k _ (Nat.lt_of_le_of_lt habs hk)
  simp only [convLen]
  have : (if (Arg.mk bits true raw).toInt < 0 then 1 else 0) ≤ 1 := by split <;> omega
  omega

/-- **sprintf_fits** (every integer row): for EVERY value of the argument type the text plus its terminating
    NUL fits the buffer declared in the source. -/
theorem sprintf_fits :
    ∀ row ∈ sprintfBuffers, ∀ sg, row.argSigned = some sg →
      ∀ raw, raw < 2 ^ row.argBits →
        ∃ n, fmtLen row.format [⟨row.argBits, sg, raw⟩] = some n ∧ n + 1 ≤ row.size := by
  intro row hrow sg hsg raw hraw
  simp only [sprintfBuffers, List.mem_cons, List.mem_nil_iff, or_false] at hrow
  rcases hrow with rfl | rfl | rfl | rfl | rfl | rfl | rfl | rfl | rfl
  · -- "%u", U32, buffer[11]
    simp only [Option.some.injEq] at hsg; subst hsg
    refine ⟨_, by simp only [fmtLen, parse_u, piecesLen, Option.map]; rfl, ?_⟩
    have := decDigits_le 9 raw (Nat.lt_trans hraw (by decide))
    rw [len_u 0 false raw 32 rfl hraw]; simp; omega
  · -- "%i", I32, buffer[12]
    simp only [Option.some.injEq] at hsg; subst hsg
    refine ⟨_, by simp only [fmtLen, parse_i, piecesLen, Option.map]; rfl, ?_⟩
    have := len_i 0 false raw 32 9 (by decide) hraw (by decide)
    simp at this ⊢; omega
  · -- "%llu", U64, buffer[21]
    simp only [Option.some.injEq] at hsg; subst hsg
    refine ⟨_, by simp only [fmtLen, parse_llu, piecesLen, Option.map]; rfl, ?_⟩
    have := decDigits_le 19 raw (Nat.lt_trans hraw (by decide))
    rw [len_u 0 true raw 64 rfl hraw]; simp; omega
  · -- "%lli", I64, buffer[22]
    simp only [Option.some.injEq] at hsg; subst hsg
    refine ⟨_, by simp only [fmtLen, parse_lli, piecesLen, Option.map]; rfl, ?_⟩
    have := len_i 0 true raw 64 18 (by decide) hraw (by decide)
    simp at this ⊢; omega
  · simp at hsg
  · simp at hsg
  · -- "%02X", (unsigned char), buffer[3]
    simp only [Option.some.injEq] at hsg; subst hsg
    refine ⟨_, by simp only [fmtLen, parse_02X, piecesLen, Option.map]; rfl, ?_⟩
    have hraw' : raw < 256 := hraw
    have hc : convLen ⟨2, false, .X⟩ ⟨8, false, raw⟩ = max 2 (hexDigits raw) := by
      show max 2 (hexDigits (((Arg.mk 8 false raw).toInt) % ((2 ^ 32 : Nat) : Int)).toNat) = _
      rw [toInt_unsigned, view_unsigned (by omega)]
    have := hexDigits_le 1 raw (by omega)
    rw [hc]; simp; omega
  · -- "%08X", U32, buffer[9]
    simp only [Option.some.injEq] at hsg; subst hsg
    refine ⟨_, by simp only [fmtLen, parse_08X, piecesLen, Option.map]; rfl, ?_⟩
    have := hexDigits_le 7 raw (Nat.lt_of_lt_of_le hraw (by decide))
    rw [len_X 8 false raw 32 rfl hraw]; simp; omega
  · -- "%016llX", U64, buffer[17]
    simp only [Option.some.injEq] at hsg; subst hsg
    refine ⟨_, by simp only [fmtLen, parse_016llX, piecesLen, Option.map]; rfl, ?_⟩
    have := hexDigits_le 15 raw (Nat.lt_of_lt_of_le hraw (by decide))
    rw [len_X 16 true raw 64 rfl hraw]; simp; omega

/-- The `%g` rows: the longest text the C standard's `%.Pg` can produce for a binary64 argument fits. -/
theorem sprintf_fits_float_partial :
    ∀ row ∈ sprintfBuffers, row.argSigned = none →
      (row.format = "%.9g" ∧ gMaxLen 9 + 1 ≤ row.size) ∨ (row.format = "%.17g" ∧ gMaxLen 17 + 1 ≤ row.size) := by
  decide

/-- Regression witness for /repo 152af65: passed as a plain (signed) `char` — promoted to `int`, read by `%X`
    as `unsigned int` — EVERY byte with the high bit set (0x80–0xFF, i.e. every non-ASCII UTF-8 name byte)
    prints 8 hex digits: 9 bytes into `char buffer[3]`.  Were the cast removed, the regenerated row would have
    `argSigned = some true` again and `sprintf_fits` would no longer check. -/
theorem sprintf_charhex_signed_overflows (raw : Nat) (h1 : 128 ≤ raw) (h2 : raw < 256) :
    fmtLen "%02X" [⟨8, true, raw⟩] = some 8 := by
  have hti : (Arg.mk 8 true raw).toInt = (raw : Int) - 256 := by
    simp only [Arg.toInt]; split
    · rfl
    · rename_i hc; simp at hc; omega
  have hv : (((raw : Int) - 256) % ((2 ^ 32 : Nat) : Int)).toNat = 4294967040 + raw := by
    have : ((raw : Int) - 256) % ((2 ^ 32 : Nat) : Int) = (raw : Int) - 256 + ((2 ^ 32 : Nat) : Int) := by
      rw [← Int.add_emod_right, Int.emod_eq_of_lt] <;> simp <;> omega
    rw [this]; simp; omega
  have hge := hexDigits_ge 7 (4294967040 + raw) (by simp; omega)
  have hle := hexDigits_le 7 (4294967040 + raw) (by simp; omega)
  have hc : convLen ⟨2, false, .X⟩ ⟨8, true, raw⟩ = max 2 (hexDigits (4294967040 + raw)) := by
    show max 2 (hexDigits (((Arg.mk 8 true raw).toInt) % ((2 ^ 32 : Nat) : Int)).toNat) = _
    rw [hti, hv]
  simp only [fmtLen, parse_02X, piecesLen, Option.map, hc]
  simp; omega

/-- **filename_fits**: `sprintf(filename, "%c%010u.c", prefix, fileIndex)` writes exactly
    `W2C2_IMPL_FILENAME_LENGTH` characters for every prefix character and every `U32` index, and
    `char filename[W2C2_IMPL_FILENAME_LENGTH+1]` holds them with the terminator. -/
theorem filename_fits (c i : Nat) (hi : i < 2 ^ 32) :
    fmtLen Gen.Reader.implFilenameFormat [⟨8, true, c⟩, ⟨32, false, i⟩] = some Gen.Reader.implFilenameLength ∧
    Gen.Reader.implFilenameLength + 1 ≤ Gen.Reader.implFilenameBufferSize := by
  have hd := decDigits_le 9 i (Nat.lt_trans hi (by decide))
  constructor
  · show fmtLen "%c%010u.c" _ = some 13
    simp only [fmtLen, parse_filename, piecesLen, Option.map, len_u 10 false i 32 rfl hi]
    simp [convLen]; omega
  · decide

end W2c2Verif.Props.C10

/-! ## Part 2 — the reader on ANY byte string

`Model.Reader.read` is a total function (Lean accepts it only with termination proofs: the LEB loop and the
vector loops are structural, the module loop decreases the buffer because every successful `readSection`
consumes at least the id byte).  Its `ub` outcomes are the points where reader.c performs an operation the C
language leaves undefined (Model/Obligations.md).  `reader_ub_sites` says which of them are reachable at all. -/

namespace W2c2Verif.Props.C10
open W2c2Verif.Model W2c2Verif.Model.Reader W2c2Verif.Lemmas.Reader

/-- **reader_total_no_ub**, as far as it is true of the pinned reader: for ANY byte string and ANY
    configuration (`-g` or not, strict shift semantics or not) the only undefined operations the reader can
    reach are the code-size wrap of reader.c:1482-1486 and — under `-g` — reading the uninitialised tail of a
    re-grown `functionNames` array.  In particular the LEB decoders, `wasmReadName/Bytes`, every section
    reader, the export-name index `functions[export.index - importCount]`, the name index
    `names[functionIndex]` and the NULL-name comparison (guarded since b750457) never are. -/
theorem reader_ub_sites (cfg : Cfg) (bs : List UInt8) (u : UB) (h : Model.Reader.read cfg bs = .ub u) :
    u = .codeSizeUnderflow ∨ (cfg.debug = true ∧ u = .uninitFunctionNames) :=
  read_ub cfg bs u h

/-- The guarded indexing obligations can never fire (corollary, spelled out per site). -/
theorem reader_guarded_sites_safe (cfg : Cfg) (bs : List UInt8) :
    Model.Reader.read cfg bs ≠ .ub .exportFunctionIndex ∧ Model.Reader.read cfg bs ≠ .ub .functionNameIndex ∧
    Model.Reader.read cfg bs ≠ .ub .nullFunctionName ∧ Model.Reader.read cfg bs ≠ .ub .lebSignedShift := by
  refine ⟨?_, ?_, ?_, ?_⟩ <;> intro h <;> rcases read_ub cfg bs _ h with h | ⟨_, h⟩ <;> cases h

/-- Without `-g` a module is either decoded, rejected with an error code, or hits the code-size wrap. -/
theorem reader_no_debug_trichotomy (strict : Bool) (bs : List UInt8) :
    (∃ m, Model.Reader.read ⟨false, strict⟩ bs = .ok m) ∨ (∃ c, Model.Reader.read ⟨false, strict⟩ bs = .err c) ∨
    Model.Reader.read ⟨false, strict⟩ bs = .ub .codeSizeUnderflow := by
  cases h : Model.Reader.read ⟨false, strict⟩ bs with
  | ok m => exact Or.inl ⟨m, rfl⟩
  | err c => exact Or.inr (Or.inl ⟨c, rfl⟩)
  | ub u =>
    rcases read_ub _ bs u h with h' | ⟨h', _⟩
    · subst h'; exact Or.inr (Or.inr rfl)
    · cases h'

/-- A module state with two declared functions of type `() -> ()`. -/
def twoFunctions : RawModule :=
  { RawModule.empty 29 with types := [{ params := [], results := [] }], functions := [Function.empty 0, Function.empty 0] }

set_option maxRecDepth 100000 in
/-- The full-strength `reader_total_no_ub` is FALSE of the pinned reader: a code entry whose locals
    declarations (3 bytes: `01 01 7f`) are longer than its declared size (1) makes `codeSize -= consumed` wrap;
    `bufferSkipUnchecked` then moves the buffer 4 GiB past the file and the next entry is read from there.
    Payload of the code section of the 29-byte file
    `00 61 73 6d 01 00 00 00 | 01 04 01 60 00 00 | 03 03 02 00 00 | 0a 08 02 01 01 01 7f 02 00 0b`
    (the real reader dies with SIGSEGV in `bufferReadByte`; malformed input, not a prefix of a valid module). -/
theorem code_size_underflow_reachable :
    codeSection twoFunctions [0x02, 0x01, 0x01, 0x01, 0x7f, 0x02, 0x00, 0x0b] = .ub .codeSizeUnderflow := by
  decide

end W2c2Verif.Props.C10
