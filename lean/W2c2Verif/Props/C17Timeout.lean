import W2c2Verif.Gen.CondWait
import W2c2Verif.CSem.Defs

/-!
  Props.C17Timeout — "… or 2 when its timeout elapses first": the absolute deadline that
  `wasmCondRelativeWait` (w2c2_base.h, pthread branch) hands to `pthread_cond_timedwait` is exactly
  `now + timeout`.

  `Gen.CondWait.deadlineBody` is REGENERATED from the current header on every run (tools/extract/gen_condwait.py):
  the statements between `clock_gettime(CLOCK_REALTIME, &ts)` and `pthread_cond_timedwait(cond, mutex, &ts)`, over
  `tv_sec : time_t`, `tv_nsec : long` (64-bit signed, LP64) and the `I64` parameter, with every cast and literal type
  of the source.  The theorem runs them in the C semantics `CSem` (signed overflow = UB, casts truncate):
  for EVERY timeout `0 ≤ t < 2^63` ns and every clock reading `(s, n)` with `n < 10^9` (and `s` small enough that the
  deadline's seconds fit `time_t`), the body executes without undefined behaviour and leaves
  `tv_nsec' < 10^9` and `tv_sec'·10^9 + tv_nsec' = (s·10^9 + n) + t` — nothing of `t` is truncated.
  (Timeouts `< 0` mean "infinite" and never reach this function.)
-/
set_option linter.unusedSimpArgs false

namespace W2c2Verif.C17
open W2c2Verif

private theorem sdivK (t : BitVec 64) (ht : t.toNat < 2 ^ 63) : t.sdiv 1000000000#64 = t / 1000000000#64 := by
  have hm : t.msb = false := by simp [BitVec.msb_eq_decide]; omega
  have hk : (1000000000#64).msb = false := by decide
  simp [BitVec.sdiv_eq, hm, hk]

private theorem sremK (t : BitVec 64) (ht : t.toNat < 2 ^ 63) : t.srem 1000000000#64 = t % 1000000000#64 := by
  have hm : t.msb = false := by simp [BitVec.msb_eq_decide]; omega
  have hk : (1000000000#64).msb = false := by decide
  simp [BitVec.srem_eq, hm, hk]

private theorem add_ok (x y : BitVec 64) (h : x.toNat + y.toNat < 2 ^ 63) :
    x.saddOverflow y = false ∧ (x + y).toNat = x.toNat + y.toNat := by
  refine ⟨?_, ?_⟩
  · simp [BitVec.saddOverflow, BitVec.toInt_eq_toNat_cond]; omega
  · rw [BitVec.toNat_add]; omega

private theorem sub_ok (x y : BitVec 64) (h : y.toNat ≤ x.toNat) (hx : x.toNat < 2 ^ 63) :
    x.ssubOverflow y = false ∧ (x - y).toNat = x.toNat - y.toNat := by
  refine ⟨?_, ?_⟩
  · simp [BitVec.ssubOverflow, BitVec.toInt_eq_toNat_cond]; omega
  · rw [BitVec.toNat_sub]; omega

private theorem sle_nonneg (x y : BitVec 64) (hx : x.toNat < 2 ^ 63) (hy : y.toNat < 2 ^ 63) :
    x.sle y = decide (x.toNat ≤ y.toNat) := by
  have h1 : 2 * x.toNat < 2 ^ 64 := by omega
  have h2 : 2 * y.toNat < 2 ^ 64 := by omega
  simp only [BitVec.sle, BitVec.toInt_eq_toNat_cond, h1, h2, if_true]
  simp

/-- **cond_deadline_exact.**  (All values are non-negative, so `toNat` is the C value.) -/
theorem cond_deadline_exact (s n t : BitVec 64)
    (hn : n.toNat < 1000000000) (ht : t.toNat < 2 ^ 63)
    (hs : s.toNat + t.toNat / 1000000000 + 1 < 2 ^ 63) :
    ∃ s' n' : BitVec 64,
      Gen.CondWait.deadlineBody.exec noDefs [("tv_sec", .i64 s), ("tv_nsec", .i64 n), ("relativeTimeout", .i64 t)]
        = .val (.next [("tv_sec", .i64 s'), ("tv_nsec", .i64 n'), ("relativeTimeout", .i64 t)]) ∧
      n'.toNat < 1000000000 ∧ s'.toNat < 2 ^ 63 ∧
      s'.toNat * 1000000000 + n'.toNat = s.toNat * 1000000000 + n.toNat + t.toNat := by
  have hq := sdivK t ht
  have hr := sremK t ht
  have hqn : (t / 1000000000#64).toNat = t.toNat / 1000000000 := by simp [BitVec.toNat_udiv]
  have hrn : (t % 1000000000#64).toNat = t.toNat % 1000000000 := by simp [BitVec.toNat_umod]
  obtain ⟨ho1, hv1⟩ := add_ok s (t / 1000000000#64) (by omega)
  obtain ⟨ho2, hv2⟩ := add_ok n (t % 1000000000#64) (by omega)
  have hk : (1000000000#64).toNat = 1000000000 := by decide
  by_cases hge : 1000000000 ≤ (n + t % 1000000000#64).toNat
  · obtain ⟨ho3, hv3⟩ := sub_ok (n + t % 1000000000#64) 1000000000#64 (by omega) (by omega)
    obtain ⟨ho4, hv4⟩ := add_ok (s + t / 1000000000#64) 1#64 (by simp; omega)
    have hcmp : (1000000000#64).sle (n + t % 1000000000#64) = true := by
      rw [sle_nonneg _ _ (by decide) (by omega)]; simpa [hk] using hge
    refine ⟨s + t / 1000000000#64 + 1#64, n + t % 1000000000#64 - 1000000000#64, ?_, ?_, ?_, ?_⟩
    · simp [Gen.CondWait.deadlineBody, CStmt.exec_seq, CStmt.exec_opAssign, CStmt.exec_ifThen, CExpr.eval, Env.get, Env.set,
        CVal.binop, CVal.ty, CTy.common, CTy.promote, CVal.fromInt, CVal.castInt, BinOp.isCmp, CPrim.arithS, CPrim.cmpS,
        CVal.truthy, CVal.ofBool, hq, hr, ho1, ho2, ho3, ho4, hcmp]
    · omega
    · have : (1#64 : BitVec 64).toNat = 1 := by decide
      omega
    · have : (1#64 : BitVec 64).toNat = 1 := by decide
      omega
  · have hcmp : (1000000000#64).sle (n + t % 1000000000#64) = false := by
      rw [sle_nonneg _ _ (by decide) (by omega)]; simpa [hk] using hge
    refine ⟨s + t / 1000000000#64, n + t % 1000000000#64, ?_, ?_, ?_, ?_⟩
    · simp [Gen.CondWait.deadlineBody, CStmt.exec_seq, CStmt.exec_opAssign, CStmt.exec_ifThen, CExpr.eval, Env.get, Env.set,
        CVal.binop, CVal.ty, CTy.common, CTy.promote, CVal.fromInt, CVal.castInt, BinOp.isCmp, CPrim.arithS, CPrim.cmpS,
        CVal.truthy, CVal.ofBool, hq, hr, ho1, ho2, hcmp]
    · omega
    · omega
    · omega

/-- the hypotheses are satisfiable, e.g. a 4.5 s timeout (≥ 2^32 ns) at clock reading (1000 s, 999 999 999 ns) -/
example : ∃ s' n' : BitVec 64,
    Gen.CondWait.deadlineBody.exec noDefs
        [("tv_sec", .i64 1000#64), ("tv_nsec", .i64 999999999#64), ("relativeTimeout", .i64 4500000000#64)]
      = .val (.next [("tv_sec", .i64 s'), ("tv_nsec", .i64 n'), ("relativeTimeout", .i64 4500000000#64)]) ∧
    n'.toNat < 1000000000 ∧ s'.toNat < 2 ^ 63 ∧
    s'.toNat * 1000000000 + n'.toNat = (1000#64 : BitVec 64).toNat * 1000000000 + (999999999#64 : BitVec 64).toNat
      + (4500000000#64 : BitVec 64).toNat :=
  cond_deadline_exact 1000#64 999999999#64 4500000000#64 (by decide) (by decide) (by decide)

end W2c2Verif.C17
