/-
  Props.C04 — a call invokes the function the specification designates, with the arguments in
  declaration order, and delivers its result to the caller's operand stack.

  * `call_instr_sim_partial` / `Props.C03.compile_sim_partial`: inside a function body, `call f` and
    `call_indirect` pop exactly the callee's parameters (topmost operands, declaration order =
    push order: `Rel.args`), pass them to the callee designated by the function index / table slot,
    and push its result into the slot variable at the new top (`instr_step`, cases `call`,
    `callIndirect`; the model checks operand types as validation does).
  * `module_sim`: for a whole module — the function index space (imports first, then definitions),
    any call graph (direct, mutually recursive: the semantics is indexed by a call-depth bound and the
    theorem holds for EVERY bound), imported host functions (any function of the arguments; the
    calling instance is passed as the first C argument, which `Model.Render` prints and emit-tokens
    ties), and call_indirect through an initialised table slot of the expected signature — whenever
    the specification's invocation of function `fn` returns or traps, the emitted C function does the
    same.
  * `elem_init_correct`: `<module>InitTables` (stores in segment order, entry by entry) leaves in
    every slot the function listed by the last segment covering it, nothing in uncovered slots —
    any number of segments, overlapping or not.
  * `func_index_space_*`: index < #imports designates the import, otherwise definition
    index − #imports.

  Callees read and write the instance's globals and memory: every function (imported host functions
  included) maps arguments and the state `GS` to a result and a new `GS`, and the theorem says the
  emitted C leaves the SAME globals and memory as the specification.
  Named partial where: call_indirect on an uninitialised / out-of-bounds / wrongly typed slot is
  outside the property's quantifier and not modelled; bulk memory and atomic instructions inside a
  callee make its run `stuck` (see Props/C03).
-/
import W2c2Verif.Lemmas.SimModule
import W2c2Verif.Lemmas.Elem
import W2c2Verif.Props.C03

namespace W2c2Verif.Props.C04
open W2c2Verif Model Gen Spec Sim

theorem module_sim_partial (m : MModule) (ns0 : NumSem) (hns : NumOK ns0) (hmo : MemOK ns0) (cfs : List Model.CFunc)
    (hc : m.compileFuncs m.funcs = .ok cfs) (hh : HostOK m) (depth fn : Nat) (args : List Val) (g : GS) (hg : GTyped m.ctx g) :
    (∀ r, (m.run ns0 cfs depth).1 fn args g = .val r → (m.run ns0 cfs depth).2 fn args g = .val r) ∧
    (∀ t, (m.run ns0 cfs depth).1 fn args g = .trap t → (m.run ns0 cfs depth).2 fn args g = .trap t) :=
  module_sim m ns0 hns hmo cfs hc hh depth fn args g hg

/-- the callee environment handed to every function body satisfies the hypotheses of the body-level
    simulation (arity from the module's types, typed results, emitted C refines specification) -/
theorem callee_env_ok (m : MModule) (ns0 : NumSem) (hns : NumOK ns0) (hmo : MemOK ns0) (cfs : List Model.CFunc)
    (hc : m.compileFuncs m.funcs = .ok cfs) (hh : HostOK m) (depth : Nat) (lt : List VT) :
    CallOK (m.env ns0 (m.run ns0 cfs depth).1 (m.run ns0 cfs depth).2) { m.ctx with localTypes := lt } :=
  module_callOK m ns0 hns hmo cfs hc hh depth lt

theorem elem_init_correct (size : Nat) (segs : List ElemSeg) (k : Nat) (hk : k < size) :
    (initTable size segs)[k]? = some (slotSpec segs k) := initTable_spec size segs k hk

theorem elem_init_size (size : Nat) (segs : List ElemSeg) : (initTable size segs).length = size :=
  initTable_length size segs

theorem func_index_space_import (m : MModule) (fn : Nat) (h : fn < m.imports.length) :
    m.ctx.funcTypeIdx[fn]? = m.imports[fn]? := by
  show (m.imports ++ m.funcs.map (·.type))[fn]? = _
  rw [List.getElem?_append_left h]

theorem func_index_space_defined (m : MModule) (fn : Nat) (h : m.imports.length ≤ fn) :
    m.ctx.funcTypeIdx[fn]? = (m.funcs[fn - m.imports.length]?).map (·.type) := by
  show (m.imports ++ m.funcs.map (·.type))[fn]? = _
  rw [List.getElem?_append_right h, List.getElem?_map]

/-- every import ENTRY owns a function index — also an entry that repeats the (module, field) of an earlier one (`imports` is the list of
    entries, in order; the same host function may be imported several times): the index space has one index per entry and per
    definition, so no later index shifts.  (Tied to the real reader by emit-tokens / e2e on tools/corpus/C04/import-same-function-twice*.json.) -/
theorem func_index_space_size (m : MModule) : m.ctx.funcTypeIdx.length = m.imports.length + m.funcs.length := by
  show (m.imports ++ m.funcs.map (·.type)).length = _
  simp

/-! ### non-vacuity: a module with an import, mutual recursion and an indirect call -/

/-- types: 0 = (i32)→i32; one mutable i32 global.  func 0 = import (returns its argument, bumps global 0);
    func 1 = `local.get 0; call 0`; func 2 = `local.get 0; i32.const 0; call_indirect (type 0); global.get 0; drop`
    with table[0] = 1 -/
def demo : MModule where
  types := [⟨[.i32], [.i32]⟩]
  imports := [0]
  funcs := [⟨0, [], [.localGet 0, .call 0]⟩, ⟨0, [], [.localGet 0, .const .i32 0, .callIndirect 0 0, .globalGet 0, .drop]⟩]
  table := initTable 1 [⟨0, [1]⟩]
  globalTypes := [.i32]
  host := fun _ args g => .val (args.head?, { g with globals := [.i32 99] })

example : (demo.compileFuncs demo.funcs).toOption.isSome = true := by decide
example : (((demo.run W2c2Verif.Props.C03.trapNS ((demo.compileFuncs demo.funcs).toOption.getD []) 8).1 2 [.i32 41] { globals := [.i32 0] }).map'
    fun r => (r.1, r.2.globals)) = .val (some (.i32 41), [.i32 99]) := by rfl
example : initTable 4 [⟨0, [7, 8]⟩, ⟨1, [9]⟩] = [some 7, some 9, none, none] := by decide

end W2c2Verif.Props.C04
