import W2c2Verif.Gen.FutexLock

/-!
  Props.C17Lock — the lock discipline of `wasmMemoryAtomicNotify`, over the event list REGENERATED from futex.c on
  every run (tools/extract/gen_futex_lock.py): its reads of `mem->shared`, its lock / unlock of the memory's mutex, every
  statement or condition that mentions the futex state (`mem->futex`, or a local derived from it: the map, the wait-list
  slot, a wait node) and its returns, in textual order, each with "the mutex is held on every path that reaches it".

  `Model.Futex` places notify's look at the lazily created map AFTER `nLock` (the first waiter of a memory creates the map
  while it holds the mutex, between its comparison and its enqueue); `C17.no_lost_wakeup` / `blocked_waiter_visible` rest on
  that order.  Here the order is tied to the source: a notify that tests the map before `lock` (a "fast path" next to the
  unlocked `!mem->shared` test) makes `notify_state_locked` false.
-/

namespace W2c2Verif.C17
open W2c2Verif.Gen.FutexLock

/-- every look at the futex state (map, wait list, wait nodes) is made by the holder of the memory's mutex -/
theorem notify_state_locked : ∀ e ∈ notifyEvents, e.1 = Ev.state → e.2 = true := by decide

/-- only the holder unlocks -/
theorem notify_unlock_by_holder : ∀ e ∈ notifyEvents, e.1 = Ev.unlock → e.2 = true := by decide

/-- no path returns with the mutex held -/
theorem notify_returns_unlocked : ∀ e ∈ notifyEvents, e.1 = Ev.ret → e.2 = false := by decide

/-- non-vacuity: the function does lock, look at the state and return -/
theorem notify_events_nonvacuous :
    (Ev.lock, false) ∈ notifyEvents ∧ (Ev.state, true) ∈ notifyEvents ∧ (Ev.ret, false) ∈ notifyEvents := by decide

end W2c2Verif.C17
