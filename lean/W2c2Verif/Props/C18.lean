/-
  Props.C18 — growing a shared memory from several threads is linearizable and race-free.

  Model: Model/Grow.lean — every thread runs one operation, given as a list of atomic steps; `memory.grow`
  is `Gen.growSteps`, REGENERATED from wasmMemoryGrow of /repo/w2c2/w2c2_base.h in source order.
  `Reachable cfg m0 s` = `s` is reachable under SOME interleaving, so `∀ s, Reachable … s → …` quantifies
  over every interleaving of any number of threads with any arguments.

  Part 1 (general): for ANY step lists — `grow_linearizable`, `grow_bounds`, `grow_race_free_partial` hold
  whenever every grow passes the decidable lock-discipline check `ReadsUnderLock` and is sequentially
  correct (`SeqCorrect`).
  Part 2 (the proposed repair `repairedSteps`): both hypotheses are discharged, all theorems apply.
  Part 3 (the regenerated `Gen.growSteps` / `Gen.sizeSteps`; current tree: `grow_linearizable_current`, `grow_race_free`
  incl. memory.size threads, which take the lock since /repo ee826ee): statements that are proved on the pinned tree by the
  counterexample branch and, once /repo is repaired, by the discipline branch (`first | … | …`), so this
  file keeps building across the fix; the C18 check reads off which branch holds (driver `gstatus`).
-/
import W2c2Verif.Lemmas.GrowCex

namespace W2c2Verif.Props.C18
open W2c2Verif W2c2Verif.Model W2c2Verif.Model.Grow

/-! ## Part 1 — any number of threads, any deltas, any interleaving -/

/-- **Linearizability.** In every reachable state of every configuration whose grows obey the lock
    discipline, the grows are linearizable (see `Linearizable`): a sequential order consistent with real
    time in which every grow returns the size before it; the page count is the sequential result. -/
theorem grow_linearizable (cfg : Cfg) (m0 : Mem) (wf : WF cfg m0) (s : Sh × (Tid → Loc))
    (hr : Reachable cfg m0 s) : Linearizable cfg m0 s := by
  have hI := ginv_reach wf hr
  refine ⟨lin cfg s.1.trace, lin_nodup cfg _, ?_, ?_, hI.rt, ?_, fun h => (hI.free h).1⟩
  · intro t v hg hv
    exact (mem_lin cfg t _).mpr (Or.inr ⟨hg, v, hv⟩)
  · intro t ht
    have hT := hI.thr t
    rcases (mem_lin cfg t _).mp ht with h | ⟨hg, v, hv⟩
    · have hp := hT.rel_ev h
      have hg : cfg.isGrow t = true := by
        cases hgg : cfg.isGrow t with
        | true => rfl
        | false => have := hT.reader hgg; rw [hp] at this; cases this
      refine ⟨hg, hT.inv_ev ?_⟩
      intro hi
      have := (hT.idle hi).2.2.1
      rw [hp] at this; cases this
    · refine ⟨hg, hT.inv_ev ?_⟩
      intro hi
      have := hT.res_ev v hv
      rw [hi] at this; cases this
  · intro t v newer older hg hd hv
    exact (hI.thr t).done_val v ((hI.thr t).res_ev v hv) hg newer older hd

/-- **Bounds.** `data` never changes (the maximum is reserved up front); whenever no grow is inside its
    critical section, `pages ≤ maxPages` and `size` is the allocation-time value or `pages * 65536` (U32). -/
theorem grow_bounds (cfg : Cfg) (m0 : Mem) (wf : WF cfg m0) (s : Sh × (Tid → Loc)) (hr : Reachable cfg m0 s) :
    s.1.mem.data = m0.data ∧
    (s.1.mutex = none → s.1.mem.pages ≤ cfg.imm.maxPages ∧ SizeInv m0 s.1.mem) := by
  have hI := ginv_reach wf hr
  refine ⟨hI.data, fun h => ?_⟩
  obtain ⟨h1, h2⟩ := hI.free h
  exact ⟨by rw [h1]; exact replay_le cfg wf.init_le _, h2⟩

/-- failed grows change nothing, successful ones add their delta -/
theorem replay_step (cfg : Cfg) (p0 : Nat) (older : List Tid) (t : Tid) (hp : p0 ≤ cfg.imm.maxPages)
    (hmax : cfg.imm.maxPages < FAIL) :
    (retOf cfg p0 older t = FAIL → replay cfg p0 (t :: older) = replay cfg p0 older) ∧
    (retOf cfg p0 older t ≠ FAIL → retOf cfg p0 older t = replay cfg p0 older ∧
      replay cfg p0 (t :: older) = replay cfg p0 older + cfg.arg t) := by
  have hle := replay_le cfg hp older
  show ((specGrow cfg.imm (replay cfg p0 older) (cfg.arg t)).1 = FAIL →
      (specGrow cfg.imm (replay cfg p0 older) (cfg.arg t)).2 = replay cfg p0 older) ∧
    ((specGrow cfg.imm (replay cfg p0 older) (cfg.arg t)).1 ≠ FAIL →
      (specGrow cfg.imm (replay cfg p0 older) (cfg.arg t)).1 = replay cfg p0 older ∧
      (specGrow cfg.imm (replay cfg p0 older) (cfg.arg t)).2 = replay cfg p0 older + cfg.arg t)
  unfold specGrow
  split
  · refine ⟨fun h => ?_, fun _ => ⟨rfl, rfl⟩⟩
    simp only at h
    omega
  · exact ⟨fun _ => rfl, fun h => absurd rfl h⟩

/-- sum of the deltas of the successful grows of an order -/
def succSum (cfg : Cfg) (p0 : Nat) : List Tid → Nat
  | [] => 0
  | t :: older => succSum cfg p0 older + (if retOf cfg p0 older t = FAIL then 0 else cfg.arg t)

/-- **final size = initial size + Σ successful deltas ≤ maximum** (combine with `grow_linearizable`:
    in a state with the mutex free, `pages = replay … order`). -/
theorem grow_final_pages (cfg : Cfg) (p0 : Nat) (hp : p0 ≤ cfg.imm.maxPages) (hmax : cfg.imm.maxPages < FAIL) :
    ∀ order : List Tid, replay cfg p0 order = p0 + succSum cfg p0 order ∧ replay cfg p0 order ≤ cfg.imm.maxPages
  | [] => ⟨rfl, hp⟩
  | t :: older => by
    obtain ⟨ih, _⟩ := grow_final_pages cfg p0 hp hmax older
    refine ⟨?_, replay_le cfg hp _⟩
    obtain ⟨h1, h2⟩ := replay_step cfg p0 older t hp hmax
    unfold succSum
    split
    · rename_i h; rw [h1 h, ih]; omega
    · rename_i h; rw [(h2 h).2, ih]; omega

/-- **distinct old sizes**: of two successful grows, the later one (with anything in between) returns a
    strictly larger old size than the earlier one, provided the earlier delta is positive. -/
theorem grow_distinct_old_sizes (cfg : Cfg) (p0 : Nat) (hp : p0 ≤ cfg.imm.maxPages)
    (hmax : cfg.imm.maxPages < FAIL) (between older : List Tid) (a b : Tid)
    (ha : retOf cfg p0 older a ≠ FAIL) (hb : retOf cfg p0 (between ++ a :: older) b ≠ FAIL)
    (hpos : 0 < cfg.arg a) :
    retOf cfg p0 older a < retOf cfg p0 (between ++ a :: older) b := by
  obtain ⟨h1, h2⟩ := (replay_step cfg p0 older a hp hmax).2 ha
  obtain ⟨h3, _⟩ := (replay_step cfg p0 (between ++ a :: older) b hp hmax).2 hb
  have := replay_mono_append cfg p0 (a :: older) between
  rw [h1, h3]
  omega

/-- **No data race**, general form: if every linearized operation (`isGrow`: grows, and size queries that take the
    lock) obeys the lock discipline and the remaining operations never read `pages`/`size` (`hro`; e.g. loads
    and stores, which read only `data`), no two threads are ever poised at conflicting descriptor accesses.
    `hro` is necessary: `unlocked_size_read_would_race`.  Instantiated for the current tree in `grow_race_free`. -/
theorem grow_race_free_of_discipline (cfg : Cfg) (m0 : Mem) (wf : WF cfg m0)
    (hro : ∀ t, cfg.isGrow t = false → NoSizeRead (cfg.prog t) = true)
    (s : Sh × (Tid → Loc)) (hr : Reachable cfg m0 s) : ¬ Race cfg s :=
  no_race_of_ginv wf hro (ginv_reach wf hr)

/-! ## Part 2 — the proposed repair satisfies the hypotheses -/

theorem repaired_reads_under_lock : ReadsUnderLock repairedSteps = true := by decide

/-- symbolic execution of a concrete step list against the specification, by cases on
    (fits / delta = 0 / exceeds the maximum without or with U32 wrap-around) -/
macro "seq_correct_tac " prog:ident : tactic => `(tactic| (
  intro imm hs hmax delta hd m hle
  unfold specGrow
  by_cases h : m.pages + delta ≤ imm.maxPages
  · have hnp : (m.pages + delta) % 4294967296 = m.pages + delta := Nat.mod_eq_of_lt (by omega)
    by_cases hd0 : delta = 0
    · have hp : m.pages % 4294967296 = m.pages := Nat.mod_eq_of_lt (by omega)
      refine ⟨m, ⟨64, ?_⟩, ?_, Or.inl rfl⟩
      · simp [runSeq, act, $prog:ident, MExpr.eval, setReg, initRegs, readFld, writeFld, hs, b2n, hle, hd0, hp]
      · simp [hd0, hle]
    · refine ⟨{ m with pages := m.pages + delta, size := (m.pages + delta) * 65536 % 4294967296 }, ⟨64, ?_⟩, ?_,
        Or.inr rfl⟩
      · simp [runSeq, act, $prog:ident, MExpr.eval, setReg, initRegs, readFld, writeFld, hs, b2n, hnp, h, hd0]
      · simp [h]
  · refine ⟨m, ⟨64, ?_⟩, ?_, Or.inl rfl⟩
    · by_cases hw : m.pages + delta < 4294967296
      · have hnp : (m.pages + delta) % 4294967296 = m.pages + delta := Nat.mod_eq_of_lt hw
        simp [runSeq, act, $prog:ident, MExpr.eval, setReg, initRegs, readFld, writeFld, hs, b2n, hnp, h, FAIL]
      · have hnp : ¬ (m.pages ≤ (m.pages + delta) % 4294967296) := by omega
        simp [runSeq, act, $prog:ident, MExpr.eval, setReg, initRegs, readFld, writeFld, hs, b2n, hnp, h, FAIL]
    · simp [h]))

/-- alone, the repaired grow implements the specification for EVERY `delta` (incl. those that wrap) -/
theorem repaired_seq_correct : ∀ (imm : Imm), imm.shared = true → imm.maxPages ≤ 65536 →
    ∀ delta, delta < 4294967296 → SeqCorrect imm repairedSteps delta := by
  seq_correct_tac repairedSteps

/-- all of Part 1 applies to threads running the repaired grow next to arbitrary read-only operations -/
theorem grow_linearizable_repaired (cfg : Cfg) (m0 : Mem) (hs : cfg.imm.shared = true)
    (hmax : cfg.imm.maxPages ≤ 65536) (h0 : m0.pages ≤ cfg.imm.maxPages)
    (hg : ∀ t, cfg.isGrow t = true → cfg.prog t = repairedSteps ∧ cfg.arg t < 4294967296)
    (hr : ∀ t, cfg.isGrow t = false → ReadOnly (cfg.prog t) = true) :
    WF cfg m0 ∧ ∀ s, Reachable cfg m0 s → Linearizable cfg m0 s := by
  have wf : WF cfg m0 :=
    ⟨hs, h0, fun t ht => by rw [(hg t ht).1]; exact repaired_reads_under_lock,
      fun t ht => by rw [(hg t ht).1]; exact repaired_seq_correct cfg.imm hs hmax _ (hg t ht).2, hr⟩
  exact ⟨wf, fun s h => grow_linearizable cfg m0 wf s h⟩

/-! ## Part 3 — the regenerated `Gen.growSteps` (what /repo's wasmMemoryGrow does now) -/

/-- a state reached by `lostUpdateSchedule` in which both `grow(1)` returned 1 and 2 pages remain is not
    linearizable -/
theorem lostUpdate_not_linearizable (prog : List MStep) (h : lostUpdateCheck prog = true) :
    ∃ s, Reachable (cfgGrow1 prog) mem1 s ∧ ¬ Linearizable (cfgGrow1 prog) mem1 s := by
  refine ⟨(runSegments (cfgGrow1 prog) lostUpdateSchedule (initState (cfgGrow1 prog) mem1) []).1,
    runSegments_reach _ _ _ Reach.init, ?_⟩
  unfold lostUpdateCheck at h
  simp only [Bool.and_eq_true, decide_eq_true_eq] at h
  obtain ⟨⟨⟨⟨⟨⟨_, _⟩, hpages⟩, hmutex⟩, _⟩, hr0⟩, hr1⟩ := h
  rintro ⟨order, _, hcomp, _, _, _, hfin⟩
  have h0 : 0 ∈ order := hcomp 0 1 rfl hr0
  have h1 : 1 ∈ order := hcomp 1 1 rfl hr1
  have hlen := two_le_length_of_mem h0 h1
  have := hfin hmutex
  rw [hpages] at this
  have hrep := replay_cfgGrow1 prog order
  have : (2 : Nat) = min (1 + order.length) 10 := by rw [← hrep]; exact this
  omega

/-- **Lost update** (DESIGN §6 #14).  On the pinned tree `oldPages`/`newPages` are read BEFORE
    WASM_MUTEX_LOCK: under the schedule T0 up to the lock, T1 completely, T0 to the end, both `grow(1)` return
    the old size 1 and one delta is lost — that reachable state is not linearizable.  (Second disjunct:
    what holds instead once the regenerated step list passes the discipline check.) -/
theorem grow_lost_update_counterexample :
    (∃ s, Reachable (cfgGrow1 Gen.growSteps) mem1 s ∧ ¬ Linearizable (cfgGrow1 Gen.growSteps) mem1 s) ∨
    ReadsUnderLock Gen.growSteps = true := by
  first
  | exact Or.inr (by decide)
  | exact Or.inl (lostUpdate_not_linearizable Gen.growSteps (by decide))

theorem wrapZero_not_seqCorrect (prog : List MStep) (h : wrapZeroCheck prog = true) :
    ¬ SeqCorrect { maxPages := 10 } prog 4294967295 := by
  intro hseq
  obtain ⟨m', hF, _, _⟩ := hseq mem1 (by decide)
  unfold wrapZeroCheck at h
  split at h
  · rename_i m v hrun
    simp only [Bool.and_eq_true, decide_eq_true_eq] at h
    have := Final_det hF ⟨64, hrun⟩
    have hv : (specGrow { maxPages := 10 } mem1.pages 4294967295).1 = v := congrArg Prod.snd this
    rw [h.1] at hv
    revert hv; decide
  · cases h

/-- **Wrap-around to 0** (found while modelling).  `newPages = pages + delta` wraps to exactly 0 for
    `delta = 2^32 − pages`; the pinned code tests `newPages == 0` first and returns 0 ("old size 0") instead
    of −1: even single-threaded, `grow(0xFFFFFFFF)` on a 1-page memory is not the specified memory.grow.
    (Second disjunct: the regenerated list is sequentially correct for every delta.) -/
theorem grow_wrap_zero_counterexample :
    ¬ SeqCorrect { maxPages := 10 } Gen.growSteps 4294967295 ∨
    (∀ (imm : Imm), imm.shared = true → imm.maxPages ≤ 65536 → ∀ delta, delta < 4294967296 →
      SeqCorrect imm Gen.growSteps delta) := by
  first
  | exact Or.inl (wrapZero_not_seqCorrect Gen.growSteps (by decide))
  | exact Or.inr (by seq_correct_tac Gen.growSteps)

/-- Status of the regenerated code: either it passes the discipline check and is sequentially correct —
    then `grow_linearizable`, `grow_bounds`, `grow_race_free_partial` apply to it verbatim (as in
    `grow_linearizable_repaired`) — or it fails the discipline check. -/
theorem gen_grow_discipline :
    (ReadsUnderLock Gen.growSteps = true ∧
      ∀ (imm : Imm), imm.shared = true → imm.maxPages ≤ 65536 → ∀ delta, delta < 4294967296 →
        SeqCorrect imm Gen.growSteps delta) ∨
    ReadsUnderLock Gen.growSteps = false := by
  first
  | exact Or.inr (by decide)
  | exact Or.inl ⟨by decide, by seq_correct_tac Gen.growSteps⟩

/-- Why memory.size must take the lock (DESIGN §6 #18, fixed in /repo ee826ee): with the plain read
    `si = m->pages;` that c.c used to emit (`plainSizeSteps`) a state is reachable in which a grow is about to
    write `pages` while the size query is about to read it — a data race. -/
theorem unlocked_size_read_would_race :
    ∃ s, Reachable (cfgGrowSize Gen.growSteps) mem1 s ∧ Race (cfgGrowSize Gen.growSteps) s :=
  sizeRace_of_check (by decide)

/-- registers of `wasmMemoryAllocate`: 0 initialPages, 1 maxPages, 2 shared -/
def allocRegs (initial max shared : Nat) : Nat → Nat := fun r => if r = 0 then initial else if r = 1 then max else shared

/-- **`size` wraps to 0** (DESIGN §6 #20): `const U32 size = (shared ? maxPages : initialPages) * 65536` — a
    shared memory with the legal declared maximum of 65536 pages is allocated with 0 bytes. -/
theorem alloc_size_wraps_counterexample : Gen.allocSize.eval (allocRegs 1 65536 1) = 0 := by decide

/-- …and for every maximum below 65536 pages the U32 product is exact -/
theorem alloc_size_exact_partial (initial max : Nat) (h : max < 65536)
    (hshape : Gen.allocSize = .mul (.cond (.reg 2) (.reg 1) (.reg 0)) (.lit 65536)) :
    Gen.allocSize.eval (allocRegs initial max 1) = max * 65536 := by
  rw [hshape]
  simp only [MExpr.eval, allocRegs]
  simp
  omega

/-- **The regenerated code is linearizable** (any number of threads, deltas, interleavings; next to arbitrary
    read-only operations) — unless it fails the discipline check, in which case
    `grow_lost_update_counterexample` shows the violation.  On a tree where `ReadsUnderLock Gen.growSteps`
    evaluates to `true` (driver `gstatus`: `rul 1`) the first disjunct is refutable by `decide`, i.e. this is
    `grow_linearizable` for what /repo's wasmMemoryGrow does now. -/
theorem grow_linearizable_gen (cfg : Cfg) (m0 : Mem) (hs : cfg.imm.shared = true)
    (hmax : cfg.imm.maxPages ≤ 65536) (h0 : m0.pages ≤ cfg.imm.maxPages)
    (hg : ∀ t, cfg.isGrow t = true → cfg.prog t = Gen.growSteps ∧ cfg.arg t < 4294967296)
    (hr : ∀ t, cfg.isGrow t = false → ReadOnly (cfg.prog t) = true) :
    ReadsUnderLock Gen.growSteps = false ∨
    (WF cfg m0 ∧ ∀ s, Reachable cfg m0 s → Linearizable cfg m0 s ∧ s.1.mem.data = m0.data ∧
      (s.1.mutex = none → s.1.mem.pages ≤ cfg.imm.maxPages ∧ SizeInv m0 s.1.mem)) := by
  rcases gen_grow_discipline with ⟨h1, h2⟩ | h
  · refine Or.inr ?_
    have wf : WF cfg m0 :=
      ⟨hs, h0, fun t ht => by rw [(hg t ht).1]; exact h1,
        fun t ht => by rw [(hg t ht).1]; exact h2 cfg.imm hs hmax _ (hg t ht).2, hr⟩
    exact ⟨wf, fun s h => ⟨grow_linearizable cfg m0 wf s h, grow_bounds cfg m0 wf s h⟩⟩
  · exact Or.inl h

/-! ### current tree (after /repo commits 07872f3, ee826ee): the regenerated wasmMemoryGrow / wasmMemorySize pass the check.
   These two are the obligations a regression of the fix breaks (moving a read of `pages` out of the critical
   section makes `decide` fail; the C18 check then replays the lost-update schedule on the real header). -/

theorem gen_reads_under_lock : ReadsUnderLock Gen.growSteps = true := by decide

/-- **`data` of a shared memory is never written after allocation** (so the unlocked reads of `data` in every load,
    store and atomic access of other threads need no lock): no path of the regenerated wasmMemoryGrow for a shared
    memory reaches `memory->data = …` or `realloc`.  (Semantic counterpart: third clause of `grow_race_free`,
    `grow_bounds`: `data` is constant in every reachable state.) -/
theorem grow_shared_never_writes_data : SharedNeverWritesData Gen.growSteps = true := by decide

/-- **Zero-filling never happens outside the critical section**: no path of the regenerated wasmMemoryGrow for a
    shared memory reaches a `memset` while the mutex is not held — in particular not after the unlock that makes the
    new size visible.  (On this tree the shared path contains no memset at all: the block is calloc'ed at the maximum
    size, `grow_shared_keeps_contents` in Props/C05Grow.lean.) -/
theorem grow_zero_fill_inside_critical_section : ZeroFillInsideCS Gen.growSteps = true := by decide

theorem gen_seq_correct : ∀ (imm : Imm), imm.shared = true → imm.maxPages ≤ 65536 → ∀ delta, delta < 4294967296 →
    SeqCorrect imm Gen.growSteps delta := by
  rcases gen_grow_discipline with ⟨_, h⟩ | h
  · exact h
  · rw [gen_reads_under_lock] at h; cases h

/-- the regenerated `wasmMemorySize` (what memory.size calls since ee826ee) reads `pages` under the lock … -/
theorem size_reads_under_lock : ReadsUnderLock Gen.sizeSteps = true := by decide

/-- … and, alone, returns the current page count and changes nothing — which is the specification of
    `memory.grow(0)`; so a size query is handled as the linearized operation "grow by 0" -/
theorem size_seq_correct (imm : Imm) (hs : imm.shared = true) : SeqCorrect imm Gen.sizeSteps 0 := by
  intro m hle
  refine ⟨m, ⟨32, ?_⟩, ?_, Or.inl rfl⟩
  · simp [runSeq, act, Gen.sizeSteps, MExpr.eval, setReg, initRegs, readFld, hs, b2n, specGrow, hle]
  · simp [specGrow, hle]

/-- The operations of the current tree on one shared memory: the linearized ones (`isGrow`) are
    `memory.grow(delta)` = `Gen.growSteps`, or `memory.size` = `Gen.sizeSteps` (argument slot 0); all others
    (loads, stores, …) only read, and never `pages`/`size`. -/
def CurrentOps (cfg : Cfg) : Prop :=
  (∀ t, cfg.isGrow t = true →
    (cfg.prog t = Gen.growSteps ∧ cfg.arg t < 4294967296) ∨ (cfg.prog t = Gen.sizeSteps ∧ cfg.arg t = 0)) ∧
  (∀ t, cfg.isGrow t = false → ReadOnly (cfg.prog t) = true ∧ NoSizeRead (cfg.prog t) = true)

theorem current_wf (cfg : Cfg) (m0 : Mem) (hs : cfg.imm.shared = true) (hmax : cfg.imm.maxPages ≤ 65536)
    (h0 : m0.pages ≤ cfg.imm.maxPages) (ops : CurrentOps cfg) : WF cfg m0 := by
  refine ⟨hs, h0, ?_, ?_, fun t ht => (ops.2 t ht).1⟩
  · intro t ht
    rcases ops.1 t ht with ⟨h, _⟩ | ⟨h, _⟩ <;> rw [h]
    · exact gen_reads_under_lock
    · exact size_reads_under_lock
  · intro t ht
    rcases ops.1 t ht with ⟨h, ha⟩ | ⟨h, ha⟩ <;> rw [h]
    · exact gen_seq_correct cfg.imm hs hmax _ ha
    · rw [ha]; exact size_seq_correct cfg.imm hs

/-- **Linearizability of what /repo does now** — grows AND size queries, next to arbitrary loads/stores, any
    number of threads, any deltas, any interleaving.  `Linearizable` ranges over all `isGrow` operations, so for
    a size query it says: the value returned is the page count after the prefix of the grows that precede it in
    ONE total order of all grows and size queries that is consistent with real time (a size query that starts
    after a grow returned sees it; one that returned before a grow started does not). -/
theorem grow_linearizable_current (cfg : Cfg) (m0 : Mem) (hs : cfg.imm.shared = true)
    (hmax : cfg.imm.maxPages ≤ 65536) (h0 : m0.pages ≤ cfg.imm.maxPages) (ops : CurrentOps cfg) :
    ∀ s, Reachable cfg m0 s → Linearizable cfg m0 s ∧ s.1.mem.data = m0.data ∧
      (s.1.mutex = none → s.1.mem.pages ≤ cfg.imm.maxPages ∧ SizeInv m0 s.1.mem) := by
  have wf := current_wf cfg m0 hs hmax h0 ops
  exact fun s h => ⟨grow_linearizable cfg m0 wf s h, grow_bounds cfg m0 wf s h⟩

/-- a size query changes nothing and returns the size at its place in the order -/
theorem size_query_spec (cfg : Cfg) (p0 : Nat) (older : List Tid) (t : Tid) (ha : cfg.arg t = 0)
    (hp : p0 ≤ cfg.imm.maxPages) :
    retOf cfg p0 older t = replay cfg p0 older ∧ replay cfg p0 (t :: older) = replay cfg p0 older := by
  have hle := replay_le cfg hp older
  show (specGrow cfg.imm (replay cfg p0 older) (cfg.arg t)).1 = _ ∧
    (specGrow cfg.imm (replay cfg p0 older) (cfg.arg t)).2 = _
  rw [ha]; simp [specGrow, hle]

/-- **Race freedom of what /repo does now** (grow threads AND memory.size threads AND data accesses): in every
    reachable state (1) no two threads are poised at conflicting accesses to a descriptor field; (2) every thread
    about to access `pages` or `size` — read or write — holds the memory's mutex; (3) the only fields ever
    written are `pages` and `size`: `data` (the one field loads and stores read, without the lock) is never
    written while the memory is shared. -/
theorem grow_race_free (cfg : Cfg) (m0 : Mem) (hs : cfg.imm.shared = true) (hmax : cfg.imm.maxPages ≤ 65536)
    (h0 : m0.pages ≤ cfg.imm.maxPages) (ops : CurrentOps cfg) (s : Sh × (Tid → Loc)) (hr : Reachable cfg m0 s) :
    ¬ Race cfg s ∧
    (∀ t f w, nextAccess cfg t (s.2 t) = some (f, w) → (f = .pages ∨ f = .size) → s.1.mutex = some t) ∧
    (∀ t f, nextAccess cfg t (s.2 t) = some (f, true) → f = .pages ∨ f = .size) := by
  have wf := current_wf cfg m0 hs hmax h0 ops
  have hro : ∀ t, cfg.isGrow t = false → NoSizeRead (cfg.prog t) = true := fun t ht => (ops.2 t ht).2
  have hI := ginv_reach wf hr
  exact ⟨no_race_of_ginv wf hro hI, fun t f w h hf => accessor_holds wf hro hI h hf,
    fun t f h => (writer_holds wf hI h).2⟩

/-- three grows (deltas 1, 2, 3), a `memory.size` (thread 3) and loads (all others) on a memory of 1 page, max 10 -/
def exampleCfg : Cfg :=
  { imm := { maxPages := 10 },
    prog := fun t => if t < 3 then Gen.growSteps else if t = 3 then Gen.sizeSteps else accessSteps,
    arg := fun t => if t < 3 then t + 1 else 0, isGrow := fun t => decide (t < 4) }

/-- the hypotheses are satisfiable -/
example : CurrentOps exampleCfg ∧ WF exampleCfg mem1 := by
  have ops : CurrentOps exampleCfg := by
    constructor
    · intro t ht
      have h4 : t < 4 := of_decide_eq_true ht
      by_cases h3 : t < 3
      · refine Or.inl ⟨if_pos h3, ?_⟩
        show (if t < 3 then t + 1 else 0) < 4294967296
        rw [if_pos h3]; exact Nat.lt_of_lt_of_le (Nat.succ_lt_succ h3) (by decide)
      · have : t = 3 := Nat.le_antisymm (Nat.le_of_lt_succ h4) (Nat.le_of_not_lt h3)
        subst this
        exact Or.inr ⟨rfl, rfl⟩
    · intro t ht
      have h4 : ¬ t < 4 := of_decide_eq_false ht
      have h3 : ¬ t < 3 := fun h => h4 (Nat.lt_succ_of_lt h)
      have h3' : t ≠ 3 := fun h => h4 (h ▸ by decide)
      show ReadOnly (if t < 3 then Gen.growSteps else if t = 3 then Gen.sizeSteps else accessSteps) = true ∧
        NoSizeRead (if t < 3 then Gen.growSteps else if t = 3 then Gen.sizeSteps else accessSteps) = true
      rw [if_neg h3, if_neg h3']
      exact ⟨by decide, by decide⟩
  exact ⟨ops, current_wf exampleCfg mem1 rfl (by decide) (by decide) ops⟩

end W2c2Verif.Props.C18
