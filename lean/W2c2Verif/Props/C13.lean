import W2c2Verif.Model.WasiPosix
namespace W2c2Verif.Props.C13
open W2c2Verif W2c2Verif.Model.Wasi

/-- placeholder while the check is being brought up -/
theorem std_streams_init {σ} (m : Mem) (h : σ) :
    (initTable m h).fds = [⟨0, none, none⟩, ⟨1, none, none⟩, ⟨2, none, none⟩] := rfl

end W2c2Verif.Props.C13
