/-
  Props.C13 — WASI descriptors: unique while open, EBADF after close, host memory stays safe.

  The model (`Model.Wasi`) covers EVERY descriptor-taking import of `wasi/wasi.c`, in both ABI
  name spaces (`wasi_snapshot_preview1`, `wasi_unstable`):
    fd_write fd_pwrite fd_read fd_pread fd_seek fd_tell fd_readdir (up to the listing loop)
    fd_close fd_fdstat_get fd_datasync fd_sync fd_prestat_get fd_prestat_dir_name path_open
    fd_filestat_get path_filestat_get path_rename path_unlink_file path_remove_directory
    path_create_directory path_symlink path_readlink, and the unimplemented stubs
    (fd_filestat_set_size, fd_fdstat_set_flags, … : `return WASI_ERRNO_NOSYS`).
  State: the descriptor table exactly as coded (append-only list of {fd, dir, path}) and a
  liveness map of the `strndup`ed path strings; reading a freed string is `.ub .useAfterFree`,
  freeing it twice `.ub .doubleFree`, `strcpy` from NULL `.ub .nullDeref`.

  All theorems hold for EVERY host (`H : Host σ`: `close`, `closedir`, `open`, … may return
  anything, incl. failures) and every guest memory, and are inductions over arbitrary
  histories of calls of both ABIs.  They are stated for `Cfg.ofGen`, the structural facts
  regenerated from the current source (`Gen.Wasi`): `ofGen_fixed` is the proof obligation that
  the source still contains the three repairs (path cleared on close, closed slots rejected
  by `wasiFileDescriptorGet`, NULL-path test in fd_readdir); without them the
  `unfixed_…_counterexample` theorems show the property fails (these were the defects found on
  the pinned tree; /repo commits ca3f538, 2fb1333).

  Outside the statements: guest pointers outside guest memory (`.ub .outOfBounds` in the model);
  the unimplemented stubs return ENOSYS without looking at their descriptor.
-/
import W2c2Verif.Lemmas.WasiEbadf
import W2c2Verif.Lemmas.WasiNative
import W2c2Verif.Model.WasiPosix

namespace W2c2Verif.Props.C13
open W2c2Verif W2c2Verif.Model.Wasi W2c2Verif.Spec.Posix

variable {σ : Type}

/-- the regenerated source has the three repairs -/
theorem ofGen_fixed : Fixed Cfg.ofGen := ⟨rfl, rfl, rfl⟩

/-! ## the table invariant -/

/-- `wasiInit` followed by any number of embedder pre-opens establishes the invariant -/
theorem fd_table_inv_init (mem : Mem) (host : σ) (pre : List Bytes) :
    InvS (pre.foldl addPreopen (initTable mem host)) := by
  have : ∀ (l : List Bytes) (s : St σ), InvS s → InvS (l.foldl addPreopen s) := by
    intro l
    induction l with
    | nil => intro s h; exact h
    | cons p r ih => intro s h; exact ih _ (InvS_addPreopen s p h)
  exact this pre _ (InvS_initTable mem host)

/-- `Inv init → Inv (run ops)`: every stored path is live, paths are pairwise distinct, a
    descriptor with a directory stream has a path, descriptors 0–2 are the standard streams
    (or closed) — preserved by every history of calls of both ABIs, for every host. -/
theorem fd_table_inv (H : Host σ) (hist : List (Abi × Call)) :
    ∀ (s s' : St σ) (rs : List Res), run Cfg.ofGen H s hist = .val (s', rs) → InvS s → InvS s' := by
  induction hist with
  | nil => intro s s' rs h hi; simp [run] at h; obtain ⟨h1, _⟩ := h; subst h1; exact hi
  | cons ac rest ih =>
    intro s s' rs h hi
    obtain ⟨abi, c⟩ := ac
    simp only [run] at h
    cases hs : step Cfg.ofGen H abi s c with
    | val x =>
      obtain ⟨s1, r⟩ := x
      rw [hs] at h
      simp only [Out.bind_val] at h
      cases hr : run Cfg.ofGen H s1 rest with
      | val y =>
        obtain ⟨s2, rs2⟩ := y
        rw [hr] at h
        simp only [Out.bind_val, Out.val.injEq, Prod.mk.injEq] at h
        obtain ⟨h1, _⟩ := h
        subst h1
        exact ih s1 s2 rs2 hr (step_InvS Cfg.ofGen ofGen_fixed.clears H abi s s1 c r hs hi)
      | trap t => rw [hr] at h; simp at h
      | ub k => rw [hr] at h; simp at h
      | oof => rw [hr] at h; simp at h
    | trap t => rw [hs] at h; simp at h
    | ub k => rw [hs] at h; simp at h
    | oof => rw [hs] at h; simp at h

/-- `closed d → d = ⟨−1, none, none⟩`: a successful fd_close leaves exactly the empty descriptor … -/
theorem close_empties (H : Host σ) (abi : Abi) (s s' : St σ) (n : Nat) (log : List (Nat × Bytes))
    (h : step Cfg.ofGen H abi s (.fdClose n) = .val (s', .errno 0 log)) : s'.fds[n]? = some Desc.empty :=
  fdClose_ok_empty Cfg.ofGen ofGen_fixed.clears H s s' n log h

/-- … and no later call of any history changes that slot (descriptor numbers are never reused) -/
theorem closed_stays_closed (H : Host σ) (n : Nat) (hist : List (Abi × Call)) (s s' : St σ) (rs : List Res)
    (he : s.fds[n]? = some Desc.empty) (h : run Cfg.ofGen H s hist = .val (s', rs)) :
    s'.fds[n]? = some Desc.empty :=
  empty_stable_run Cfg.ofGen H n hist s s' rs he h

/-- descriptors 0–2 denote the host's standard streams 0–2 (no path, no directory stream) until
    they are closed, in every reachable state -/
theorem std_streams (H : Host σ) (hist : List (Abi × Call)) (s s' : St σ) (rs : List Res)
    (h : run Cfg.ofGen H s hist = .val (s', rs)) (hi : InvS s) (i : Nat) (hi3 : i < 3) :
    s'.fds[i]? = some ⟨i, none, none⟩ ∨ s'.fds[i]? = some Desc.empty :=
  (fd_table_inv H hist s s' rs h hi).std i hi3

/-! ## uniqueness -/

/-- A successful path_open returns `t.length` — a number no descriptor has or ever had —,
    stores it little-endian at the result pointer, appends exactly one entry with a freshly
    allocated path string and leaves every existing entry untouched. -/
theorem fd_unique (H : Host σ) (abi : Abi) (s s' : St σ) (a b c d e f g hh fdPtr : Nat) (log : List (Nat × Bytes))
    (h : step Cfg.ofGen H abi s (.pathOpen a b c d e f g hh fdPtr) = .val (s', .errno 0 log)) :
    log = [(fdPtr, leBytes 4 s.fds.length)] ∧
    s'.fds.length = s.fds.length + 1 ∧
    (∀ i, i < s.fds.length → s'.fds[i]? = s.fds[i]?) ∧
    (∃ nfd : Int, s'.fds[s.fds.length]? = some ⟨nfd, none, some s.heap.length⟩) ∧
    (∃ p, s'.heap = s.heap ++ [.live p]) := by
  obtain ⟨h', nfd, p, s2, w', hadd, hs', _, hlog⟩ := pathOpen_ok Cfg.ofGen H s s' a b c d e f g hh fdPtr log h
  obtain ⟨_, hf, hheap, _, _⟩ := tableAdd_spec _ _ _ _ _ hadd
  subst hs'
  simp only at hf hheap
  refine ⟨hlog, ?_, ?_, ⟨nfd, ?_⟩, ⟨cstr p, ?_⟩⟩
  · simp [hf]
  · intro i hi; simp only [hf]; exact List.getElem?_append_left hi
  · simp [hf]
  · simp [hheap]

/-- the table only grows: a number, once issued, is never issued again -/
theorem numbers_never_reused (H : Host σ) (abi : Abi) (s s' : St σ) (c : Call) (r : Res)
    (h : step Cfg.ofGen H abi s c = .val (s', r)) : s.fds.length ≤ s'.fds.length :=
  step_length_mono Cfg.ofGen H abi s s' c r h

/-- live descriptors never alias: two different numbers never share a path string -/
theorem paths_never_alias (H : Host σ) (hist : List (Abi × Call)) (s s' : St σ) (rs : List Res)
    (h : run Cfg.ofGen H s hist = .val (s', rs)) (hi : InvS s)
    (i j : Nat) (d d' : Desc) (hp : Nat) (hd : s'.fds[i]? = some d) (hd' : s'.fds[j]? = some d')
    (h1 : d.path = some hp) (h2 : d'.path = some hp) : i = j :=
  (fd_table_inv H hist s s' rs h hi).inj i j d d' hp hd hd' h1 h2

/-! ## native descriptors: what a descriptor denotes changes only by its own close -/

/-- the regenerated source does not close a table entry's native descriptor in fd_readdir (it would
    leave the stale number in the table: the next `open` reuses it and the directory descriptor
    aliases the new file) -/
theorem ofGen_readdir_keeps_native_fd : Cfg.ofGen.readdirClosesNativeFd = false := rfl

/-- **native_fds_open_distinct** (over the POSIX host): in every state any history of calls of both
    ABIs reaches from the initial state, every native descriptor stored in a live table entry is
    open in the host, and no two table entries store the same one.  Hence distinct live WASI
    descriptors never share a native open file, and no call other than fd_close of that very
    descriptor closes or re-targets the file behind it (`read-only calls`, fd_readdir, path_open
    and fd_close of OTHER descriptors keep every stored native descriptor open). -/
theorem native_fds_open_distinct (m : Nat) (hist : List (Abi × Call)) (s' : St State) (rs : List Res)
    (h : run Cfg.ofGen posixHost (initState m) hist = .val (s', rs)) :
    (∀ (i : Nat) (d : Desc), s'.fds[i]? = some d → 0 ≤ d.fd → (s'.host.ofd? d.fd).isSome = true) ∧
    (∀ (i j : Nat) (d d' : Desc), s'.fds[i]? = some d → s'.fds[j]? = some d' → 0 ≤ d.fd → d.fd = d'.fd → i = j) := by
  have hn := run_NF Cfg.ofGen ofGen_readdir_keeps_native_fd hist (initState m) s' rs h (NF_initState m)
  exact ⟨fun i d hd hfd => by rw [ofd?_isSome]; exact hn.isOpen i d hd hfd, hn.distinct⟩

/-- one step, any state satisfying the invariant, any call (used by the check's table observer:
    `stale` / `alias` / `retarget` reports are violations of this) -/
theorem native_fds_step (abi : Abi) (s s' : St State) (c : Call) (r : Res)
    (h : step Cfg.ofGen posixHost abi s c = .val (s', r)) (hi : NF s) : NF s' :=
  step_NF Cfg.ofGen ofGen_readdir_keeps_native_fd abi s s' c r h hi

/-- with the seeded/unsafe variant (fd_readdir closes the native descriptor but the table keeps the
    number) the invariant fails: path_open(d0, O_DIRECTORY) ; fd_readdir(4) leaves entry 4 with a
    native descriptor that is not open -/
theorem readdir_closing_native_fd_counterexample :
    (match run { Cfg.ofGen with readdirClosesNativeFd := true } posixHost
        ({ initState 1000 with
            mem := ⟨65536, fun i => if i = 100 then 100 else if i = 101 then 48 else 0⟩,
            host := (initState 1000).host.mkdir [strBytes "sb", strBytes "d0"] } : St State)
        [(.preview1, .pathOpen 3 0 100 2 2 2 0 0 200), (.preview1, .fdReaddir 4 300 0 0 400)] with
      | .val (s', _) =>
        (match s'.fds[4]? with
         | some d => decide (0 ≤ d.fd) && !(s'.host.ofd? d.fd).isSome
         | none => false)
      | _ => false) = true := by
  decide +kernel

/-! ## closed and never-issued numbers -/

/-- The source validates the directory descriptor of EVERY path_* import unconditionally — lookup
    (`wasiFileDescriptorGet`, EBADF) and NULL-path test, before the guest path is looked at — which
    is the shape `pathPrologue` / the path calls of the model have.  (Regenerated per function; a
    path-dependent skip of the lookup, e.g. for absolute guest paths, makes this fail.) -/
theorem every_path_call_validates_dirfd :
    ∀ x ∈ Gen.Wasi.pathCallsValidateDirfd, x.2 = true := by decide

/-- … and all eight path_* imports are covered by that extraction -/
theorem path_call_facts_complete :
    Gen.Wasi.pathCallsValidateDirfd.map (·.1) =
      ["path_open", "path_filestat_get", "path_rename", "path_unlink_file", "path_remove_directory",
       "path_create_directory", "path_symlink", "path_readlink"] := by decide

/-- The tracing configuration (`-DWASI_TRACE_ENABLED=1`, where every `WASI_TRACE((fmt, …))` evaluates and prints its
    arguments) is part of the real code: regenerated by interpreting that configuration with a poisoning `free` —
    no string argument of a trace call in / after fd_close is a released object (e.g. the path of the by-value
    descriptor copy after `wasiDirectorySet(wasiFD, NULL)` freed it). -/
theorem trace_arguments_are_live : Gen.Wasi.traceArgsLive = true := by decide

/-- After a successful fd_close(n), at any later point of any history, every call that takes n
    (incl. a second fd_close, fd_readdir, path_open with n as directory, both arguments of
    path_rename, fd_seek with any whence) returns EBADF and changes nothing — no guest memory, no
    host call, no table entry.  (`implemented` excludes only the unimplemented ENOSYS stubs.) -/
theorem closed_is_ebadf (H : Host σ) (abi0 abi : Abi) (s0 s1 s2 : St σ) (n : Nat) (log : List (Nat × Bytes))
    (hist : List (Abi × Call)) (rs : List Res)
    (hclose : step Cfg.ofGen H abi0 s0 (.fdClose n) = .val (s1, .errno 0 log))
    (hrun : run Cfg.ofGen H s1 hist = .val (s2, rs))
    (c : Call) (hn : n ∈ c.fdArgs) (hc : c.implemented) :
    step Cfg.ofGen H abi s2 c = .val (s2, .errno BADF []) := by
  have he1 := close_empties H abi0 s0 s1 n log hclose
  have he2 := closed_stays_closed H n hist s1 s2 rs he1 hrun
  exact dead_is_ebadf Cfg.ofGen H abi s2 c n hn (getDesc_none_of_empty ofGen_fixed.rejects he2)
    (looksUpFirst_of_implemented Cfg.ofGen abi c rfl hc)

/-- numbers never issued (≥ the table length, e.g. 2^32 − 1) -/
theorem never_issued_is_ebadf (H : Host σ) (abi : Abi) (s : St σ) (n : Nat) (hlen : s.fds.length ≤ n)
    (c : Call) (hn : n ∈ c.fdArgs) (hc : c.implemented) :
    step Cfg.ofGen H abi s c = .val (s, .errno BADF []) :=
  dead_is_ebadf Cfg.ofGen H abi s c n hn (getDesc_none_of_len hlen)
    (looksUpFirst_of_implemented Cfg.ofGen abi c rfl hc)

/-- `implemented` holds for every call but the stubs (non-vacuity) -/
example : (Call.fdClose 4).implemented := trivial
example : (Call.ro (.fdSeek 4 0 7 0)).implemented := trivial
example : (Call.ro (.pathRename 3 0 0 4 0 0)).implemented := trivial

/-- in particular fd_seek with an INVALID whence on a never issued number is EBADF, not EINVAL
    (it was EINVAL before /repo 2515ee4: whence was converted and rejected first) -/
theorem seek_bad_whence_on_dead_is_ebadf (H : Host σ) (abi : Abi) (s : St σ) (n off wh res : Nat)
    (hlen : s.fds.length ≤ n) :
    step Cfg.ofGen H abi s (.ro (.fdSeek n off wh res)) = .val (s, .errno BADF []) :=
  never_issued_is_ebadf H abi s n hlen _ (by simp [Call.fdArgs]) trivial

/-! ## memory safety -/

/-- No history of calls, on any host, frees a path twice, reads a freed path or copies from a
    NULL path: the only undefined behaviour the model can reach is a guest pointer outside
    guest memory. -/
theorem no_ub (H : Host σ) (hist : List (Abi × Call)) (s : St σ) (hi : InvS s) (k : UBKind)
    (h : run Cfg.ofGen H s hist = .ub k) : k = .outOfBounds :=
  OnlyOOB_run Cfg.ofGen ofGen_fixed H hist s hi k h

/-- in particular from the initial state with any pre-opens -/
theorem no_ub_from_init (H : Host σ) (mem : Mem) (host : σ) (pre : List Bytes) (hist : List (Abi × Call))
    (k : UBKind) (h : run Cfg.ofGen H (pre.foldl addPreopen (initTable mem host)) hist = .ub k) :
    k ≠ .doubleFree ∧ k ≠ .useAfterFree ∧ k ≠ .nullDeref := by
  have := no_ub H hist _ (fd_table_inv_init mem host pre) k h
  subst this
  exact ⟨by decide, by decide, by decide⟩

/-! ## prestat -/

/-- fd_prestat_get on a descriptor with a (live) path: tag 0 (directory) and the length of the
    path, little-endian at `ptr` and `ptr + 4`; nothing else changes. -/
theorem prestat_reports_path (H : Host σ) (abi : Abi) (s : St σ) (n ptr hp : Nat) (d : Desc) (p : Bytes)
    (hd : getDesc Cfg.ofGen s n = some d) (hpath : d.path = some hp) (hl : s.heap[hp]? = some (.live p))
    (hb : ptr + 8 ≤ s.mem.size) :
    ∃ s', step Cfg.ofGen H abi s (.ro (.fdPrestatGet n ptr)) =
        .val (s', .errno 0 [(ptr, leBytes 4 0), (ptr + 4, leBytes 4 p.length)]) ∧
      s'.fds = s.fds ∧ s'.heap = s.heap ∧ s'.host = s.host ∧
      s'.mem.read ptr 4 = .val (leBytes 4 0) ∧ s'.mem.read (ptr + 4) 4 = .val (leBytes 4 p.length) := by
  obtain ⟨m1, hm1, hs1⟩ := @MW.store_inb ⟨s.mem, []⟩ ptr (leBytes 4 0)
    (by show ptr + (leBytes 4 0).length ≤ s.mem.size; rw [leBytes_length]; omega)
  have hsz1 : m1.size = s.mem.size := Mem.write_size hm1
  obtain ⟨m2, hm2, hs2⟩ := @MW.store_inb ⟨m1, [(ptr, leBytes 4 0)]⟩ (ptr + 4) (leBytes 4 p.length)
    (by show ptr + 4 + (leBytes 4 p.length).length ≤ m1.size; rw [leBytes_length, hsz1]; omega)
  refine ⟨{ s with mem := m2 }, ?_, rfl, rfl, rfl, ?_, ?_⟩
  · simp only [step, stepRO, hd, hpath, readHeap, hl, Out.bind_val, Gen.Wasi.WASI_PREOPEN_TYPE_DIRECTORY]
    simp only [List.nil_append] at hs1 hs2
    rw [hs1]; simp only [Out.bind_val]
    rw [hs2]; simp [ret, Out.map']
  · have h1 := Mem.read_write_same hm1
    rw [leBytes_length] at h1
    rw [Mem.read_write_disjoint hm2 ptr 4 (Or.inl (Nat.le_refl _))]
    exact h1
  · have h2 := Mem.read_write_same hm2
    rw [leBytes_length] at h2
    exact h2

/-- fd_prestat_dir_name writes the first `min (len path) bufLen` bytes of the path -/
theorem prestat_dir_name_writes_path (H : Host σ) (abi : Abi) (s : St σ) (n ptr len hp : Nat) (d : Desc) (p : Bytes)
    (hd : getDesc Cfg.ofGen s n = some d) (hpath : d.path = some hp) (hl : s.heap[hp]? = some (.live p))
    (hb : ptr + min p.length len ≤ s.mem.size) :
    ∃ s', step Cfg.ofGen H abi s (.ro (.fdPrestatDirName n ptr len)) =
        .val (s', .errno 0 [(ptr, p.take (min p.length len))]) ∧
      s'.fds = s.fds ∧ s'.heap = s.heap ∧ s'.host = s.host ∧
      s'.mem.read ptr (min p.length len) = .val (p.take (min p.length len)) := by
  have hlen : (p.take (min p.length len)).length = min p.length len := by simp
  obtain ⟨m1, hm1, hs1⟩ := @MW.store_inb ⟨s.mem, []⟩ ptr (p.take (min p.length len)) (by rw [hlen]; exact hb)
  refine ⟨{ s with mem := m1 }, ?_, rfl, rfl, rfl, ?_⟩
  · simp only [step, stepRO, hd, hpath, readHeap, hl, Out.bind_val]
    simp only [List.nil_append] at hs1
    rw [hs1]; simp [ret, Out.map']
  · have h1 := Mem.read_write_same hm1
    rw [hlen] at h1
    exact h1

/-- a pre-opened directory is such a descriptor: `wasiFileDescriptorAdd(-1, path, …)` registers
    index `t.length` with a live copy of `path` -/
theorem preopen_registers_path (s : St σ) (path : Bytes) (h0 : 0 < (cstr path).length)
    (h1 : (cstr path).length < PATH_MAX) :
    (addPreopen s path).fds[s.fds.length]? = some ⟨-1, none, some s.heap.length⟩ ∧
    (addPreopen s path).heap[s.heap.length]? = some (.live (cstr path)) := by
  simp [addPreopen, tableAdd, h0, h1]

/-! ## the repairs are necessary (the defects found on the pinned tree) -/

/-- the source as it was pinned: no `path = NULL` after `free`, no rejection of closed slots, no
    NULL-path test in fd_readdir -/
def unfixed : Cfg :=
  { Cfg.ofGen with closeClearsPath := false, getRejectsClosed := false, readdirNullPath := none }

def s0 : St State := initState (2 ^ 63 - 1)

/-- guest memory with the path "a" at address 100 -/
def s0a : St State :=
  { s0 with mem := ⟨65536, fun i => if i = 100 then 97 else 0⟩ }

/-- path_open(3, "a", O_CREAT) ; fd_close(4) ; fd_close(4)  — double free (defect #10) -/
theorem unfixed_double_free_counterexample :
    (run unfixed posixHost s0a
      [(.preview1, .pathOpen 3 0 100 1 1 66 0 0 200), (.preview1, .fdClose 4), (.preview1, .fdClose 4)]).isUB = true := by
  decide +kernel

/-- fd_readdir(0, …) — `strcpy` from a NULL path (defect #11) -/
theorem unfixed_null_deref_counterexample :
    (run unfixed posixHost s0 [(.preview1, .fdReaddir 0 300 0 0 400)]).isUB = true := by
  decide +kernel

end W2c2Verif.Props.C13
