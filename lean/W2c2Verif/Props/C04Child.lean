/-
  Props.C04Child — call_indirect on an instance made by `<module>NewChild` (what the WASI thread-spawn implementation runs every thread
  on): "call_indirect through a table entry initialised by an element segment reaches the listed function" needs the CHILD's table to be
  allocated and filled.  Over `Model.NewChild` (call sequence and the instance argument of EVERY Init* call regenerated from
  `wasmCWriteNewChildFunction`: `Gen.newChildSteps`, `Gen.newChildTarget`):

  * `newChild_inittables_on_child` (= Props.C06Child.newChild_runs_on_child): InitTables — like every other Init* call — runs on the child.
  * `child_defined_table_slots`: hence every slot of a table the child defines holds the function listed by the LAST element segment
    covering it (null if none does), exactly as in an instance made by `<module>Instantiate` (`Props.C04.elem_init_correct` /
    `Props.C06.lastCover_eq_slotSpec` give the `slotSpec` reading), and that table is a new object, not the parent's.
  Tied to the real output by the NewChild families of tools/checks/c03.py (call_indirect on parent, child and independent instances,
  interleaved, vs V8) and the `child-state` correspondence of tools/checks/c06.py.
-/
import W2c2Verif.Props.C06Child

namespace W2c2Verif.Props.C04Child
open W2c2Verif Model Model.Inst Spec.Inst

theorem newChild_inittables_on_child (d : ModDesc) (r : Resolver) (start : St → Out St) (w : World) (self : Instance) :
    newChild d r start w self =
      ((childInit d r w self >>= fun s => if d.hasStart then start s else .val s) >>= fun s =>
        .val { w := s.1, self := self, child := s.2 }) :=
  Props.C06Child.newChild_runs_on_child d r start w self

/-- the tables a child defines are new objects whose slots hold what the element segments list (before its start function runs) -/
theorem child_defined_table_slots (d : ModDesc) (r : Resolver) (start : St → Out St) (w : World) (self : Instance)
    (hns : ∀ k, d.memShared.getD k false = false) (hdata : d.mems.length > 0 ∨ d.datas = []) (hf : Fits d w r) :
    ∃ s, newChild d r start w self = ((if d.hasStart then start s else .val s) >>= fun s => .val { w := s.1, self := self, child := s.2 }) ∧
      s.2.tables = (List.range d.tables.length).map (w.tables.length + ·) ∧
      ∀ k tt, d.tables[k]? = some tt → ∀ a, a < tt.1 →
        cell s.1.tables (w.tables.length + k) a = some (lastCover (elemSegsAt d w r (w.tables.length + k)) none a) := by
  obtain ⟨s, hi, he⟩ := Props.C06Child.newChild_child_initialised d r start w self hns hdata hf
  refine ⟨s, he, hi.ownTables, ?_⟩
  intro k tt hk a ha
  have hn : ¬ (w.tables.length + k < w.tables.length) := by omega
  rw [hi.table]
  simp [tableAfter, tablePrior, hk, ha, hn]

end W2c2Verif.Props.C04Child
