/-
  C09 (static / dynamic classification with `-r REF`) at the level of function BODIES.

  `Props/C09Pool.lean` (`split_static_sound`) is about hash values: a static function's hash occurs among the reference hashes.
  The property speaks about bodies: "a function is classified static only if the reference module contains a byte-identical
  body".  Here the hash function is an explicit parameter `hash : Body → Nat` (the real one is SHA-1 over locals + code of the
  code-section entry, reader.c; its 20 bytes read big-endian so that memcmp order = `<`), and the statement carries the hypothesis
  it needs: `hash` separates the bodies at hand.  For SHA-1 that hypothesis is collision resistance — recorded in the trusted
  base, not proved; that the C code in w2c2/sha1.c computes SHA-1 is a correspondence of tools/checks/c09.py (`sha1-spec`: the real
  SHA1Init/Update/Final against an independent implementation, single and split updates, every length 0..300 and every multiple
  of 64 ± 1 up to 4096), and the property itself is searched on module pairs whose bodies are exactly 64·k bytes long and differ
  only in their last block.
-/
import W2c2Verif.Lemmas.SplitBodies

namespace W2c2Verif.Props.C09Split
open W2c2Verif Model.Split

/-- **A function is classified static only if the reference module contains a byte-identical body** — for any hash function that
    separates the bodies of the module from the different bodies of the reference module.  `bodies` / `refBodies` are the code
    entries (locals + code) in function order; the IDs are hashed, sorted and merged as main.c does. -/
theorem static_only_if_identical_reference_body {Body : Type} (hash : Body → Nat) (bodies refBodies : List Body)
    (hsep : ∀ b ∈ bodies, ∀ r ∈ refBodies, hash b = hash r → b = r)
    (x : FnId) (hx : x ∈ (split (sortIds (idsOf (bodies.map hash))) (sortIds (idsOf (refBodies.map hash)))).1) :
    ∃ b, bodies[x.idx]? = some b ∧ b ∈ refBodies := by
  have hsub := (split_sublists (sortIds (idsOf (bodies.map hash))) (sortIds (idsOf (refBodies.map hash)))).1
  have h1 : x ∈ idsOf (bodies.map hash) := (mem_sortIds x _).mp (hsub.subset hx)
  have h2 := mem_idsOf x _ h1
  have h3 : x.hash ∈ (sortIds (idsOf (refBodies.map hash))).map (·.hash) :=
    (split_static_sublist_ref _ _).subset (List.mem_map.mpr ⟨x, hx, rfl⟩)
  obtain ⟨y, hy, hyx⟩ := List.mem_map.mp h3
  have h4 := mem_idsOf y _ ((mem_sortIds y _).mp hy)
  rw [List.getElem?_map] at h2 h4
  cases hb : bodies[x.idx]? with
  | none => simp [hb] at h2
  | some b =>
    cases hr : refBodies[y.idx]? with
    | none => simp [hr] at h4
    | some r =>
      simp only [hb, hr, Option.map_some, Option.some.injEq] at h2 h4
      have hbm : b ∈ bodies := List.mem_of_getElem? hb
      have hrm : r ∈ refBodies := List.mem_of_getElem? hr
      have : b = r := hsep b hbm r hrm (by rw [h2, h4, hyx])
      exact ⟨b, rfl, this ▸ hrm⟩

/-- conversely, without the separation hypothesis the statement fails: a hash that maps two different bodies to one value makes the
    modified function static (what a SHA-1 implementation that ignores the last block of a 64·k byte body does) -/
theorem colliding_hash_misclassifies :
    ∃ (hash : List Nat → Nat) (bodies refBodies : List (List Nat)) (x : FnId),
      x ∈ (split (sortIds (idsOf (bodies.map hash))) (sortIds (idsOf (refBodies.map hash)))).1 ∧
      ∀ b, bodies[x.idx]? = some b → b ∉ refBodies :=
  ⟨fun b => b.length, [[1, 2]], [[1, 3]], ⟨2, 0⟩, by simp [split, sortIds, idsOf, insertSorted], by simp⟩

/-- the hypothesis is satisfiable (and decidable for concrete bodies) -/
example : ∀ b ∈ [[1, 2], [7]], ∀ r ∈ [[7], [9, 9]], (fun l : List Nat => l.sum) b = (fun l : List Nat => l.sum) r → b = r := by decide

end W2c2Verif.Props.C09Split
