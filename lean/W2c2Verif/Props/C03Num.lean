/-
  Props.C03Num — C01 + C02 + C05 composed with C03/C04: the simulation theorem with NOTHING left abstract about numeric
  instructions and memory accesses.

  specification side (`(m.run (withConcMem specNS grow) cfs n).1`): the WebAssembly semantics of the module's functions
    where every numeric instruction is `Spec.numOp` of its mnemonic (the functions `Spec.Int` / the exact soft-float
    `SF` that C01 / C02 are stated against, tied to V8 by the `N` commands of the correspondence checks) and every
    load / store is `Spec.load` / `Spec.store` at the effective address;
  emitted-C side (`m.runT (withConcMem macroNS grow) cfs n`): the C functions w2c2 emits (`compileFuncs`), where every
    numeric statement is EXECUTED BY THE C SEMANTICS `CSem` — the statement shape from the dispatch table
    `Gen.emitTable` regenerated from c.c, the macros (`I32_ROTL`, `DIV_S`, `I32_TRUNC_S_F32`, …) from `Gen.macrosLE`
    regenerated from w2c2_base.h — and every load / store is the C semantics of the runtime function of that name
    regenerated from w2c2_base.h.

  `module_sim_concrete`: for every module, every call-depth bound, every function, all arguments and every well-typed
  instance state: if the specification returns a result (with globals / memory `g'`) or traps, the emitted C does the
  same.   All 136 numeric opcodes of `Gen.emitTable` are covered (`sigTable_complete`).
  `grow` (wasmMemoryGrow) and host functions stay parameters (C05Grow / C18; any function).
-/
import W2c2Verif.Lemmas.NumConcrete
import W2c2Verif.Props.C05Sim

namespace W2c2Verif.Props.C03
open W2c2Verif Model Gen Spec Sim

set_option maxRecDepth 100000 in
/-- every numeric opcode the translator dispatches has a row: nothing is left to an abstract semantics -/
theorem sigTable_complete : Gen.emitTable.all (fun e => (lookupAssoc sigTable e.1).isSome) = true := by decide

set_option maxRecDepth 100000 in
example : Gen.emitTable.length = 136 ∧ sigTable.length = 136 := by decide

/-- a numeric instruction, alone: the C statement w2c2 emits for it computes `Spec.numOp` on operands of its type -/
theorem numeric_instr_concrete (opcode : String) (args : List Val) (h : Out.Defined (specNum opcode args)) :
    macroNum opcode args = specNum opcode args := macroNum_refines_specNum opcode args h

/-- **C03/C04 with concrete numerics and memory.** -/
theorem module_sim_concrete (m : MModule) (grow : Mem → Nat → Mem × BitVec 32) (cfs : List Model.CFunc)
    (hc : m.compileFuncs m.funcs = .ok cfs) (hh : HostOK m) (n fn : Nat) (args : List Val) (g : GS) (hg : GTyped m.ctx g) :
    Refines ((m.run (withConcMem specNS grow m.datas) cfs n).1 fn args g) (m.runT (withConcMem macroNS grow m.datas) cfs n fn args g) := by
  have hs := module_sim m (withConcMem specNS grow m.datas) (numOK_spec_mem grow m.datas) (C05.memOK_concrete specNS grow m.datas) cfs hc hh n fn args g hg
  have ht := runT_eq m _ _ (baseRef_macro grow m.datas) cfs n fn args g
  constructor
  · intro r hr
    have h2 := hs.1 r hr
    rw [ht (by rw [h2]; trivial), h2]
  · intro t htr
    have h2 := hs.2 t htr
    rw [ht (by rw [h2]; trivial), h2]

/-! ## non-vacuity: `(func (param i32 i32) (result i32) (i32.store (i32.const 8) (i32.div_s (local.get 0) (local.get 1)))
      (i32.rotl (i32.load (i32.const 8)) (i32.const 3)))` — a division that can trap, a store, a load, a macro -/

def numDemo : MModule where
  types := [⟨[.i32, .i32], [.i32]⟩]
  imports := []
  funcs := [⟨0, [], [.const .i32 8, .localGet 0, .localGet 1, .numeric "wasmOpcodeI32DivS", .store "wasmOpcodeI32Store" 0,
                    .const .i32 8, .load "wasmOpcodeI32Load" 0, .const .i32 3, .numeric "wasmOpcodeI32Rotl"]⟩]
  table := []
  globalTypes := []
  host := fun _ _ _ => .oof

def noGrow : Mem → Nat → Mem × BitVec 32 := fun m _ => (m, 0xFFFFFFFF)
def demoMem : GS := { globals := [], mem := { bytes := fun _ => 0, size := 64 } }

example : (numDemo.compileFuncs numDemo.funcs).toOption.isSome = true := by decide
def numDemoC : List Model.CFunc := (numDemo.compileFuncs numDemo.funcs).toOption.getD []

/-- 100 / 7 = 14, stored, loaded, rotated left by 3: 112 — on the specification side … -/
example : (((numDemo.run (withConcMem specNS noGrow) numDemoC 20).1 0 [.i32 100, .i32 7] demoMem).map' (·.1)) = .val (some (.i32 112)) := by rfl
/-- … and on the emitted-C side, where `DIV_S`-less `/`, `i32_store`, `i32_load` and `I32_ROTL` are executed by the C semantics -/
example : ((numDemo.runT (withConcMem macroNS noGrow) numDemoC 20 0 [.i32 100, .i32 7] demoMem).map' (·.1)) = .val (some (.i32 112)) := by rfl
/-- division by zero traps on both sides -/
example : (((numDemo.run (withConcMem specNS noGrow) numDemoC 20).1 0 [.i32 100, .i32 0] demoMem).map' (·.1)) = .trap .divByZero := by rfl
example : ((numDemo.runT (withConcMem macroNS noGrow) numDemoC 20 0 [.i32 100, .i32 0] demoMem).map' (·.1)) = .trap .divByZero := by rfl

end W2c2Verif.Props.C03
