/-
  Props.C04Ident — the C symbol of EVERY import is a C identifier (C11 "the generated C compiles", C04 "a call reaches the imported
  function": a symbol that is not an identifier cannot be declared, defined by the embedder, or called).  Over `Model.Mangle` =
  the regenerated rule `Gen.Mangle` (escaping routine, separator, and `moduleLeadEscape`: which leading bytes of the MODULE name the
  wrappers `wasmCWrite{File,String}EscapedModule` escape).  On a tree without the wrapper (before /repo ed458af, where
  `(import "1env" "f")` gave `U32 1env__f(void*,U32);`) the regenerated rule has no lead escape and this module no longer builds.
-/
import W2c2Verif.Lemmas.MangleIdent

namespace W2c2Verif.Props.C04Ident
open W2c2Verif Model Model.Mangle Gen.Mangle Lemmas.Mangle

/-- the symbol of EVERY import (any module and field byte strings) is a C identifier: non-empty, first character a letter or an
    underscore, every other character alphanumeric or an underscore.  (Before /repo ed458af a module name starting with a digit gave
    an identifier starting with a digit — `U32 1env__f(void*,U32);` —: with the regenerated rule of that tree this theorem fails.) -/
theorem import_symbol_is_identifier (m f : List UInt8) : IsIdentifier (mangleL m f) := by
  have hall : ∀ x ∈ mangleL m f, isIdChar x = true := by
    intro x hx
    simp only [mangleL, List.mem_append, separator] at hx
    rcases hx with (hx | hx) | hx
    · exact escModL_idChars m x hx
    · simp at hx; subst hx; decide
    · exact escL_idChars f none x hx
  rcases escModL_head m with h0 | ⟨h, t, ht, hs⟩
  · refine ⟨95, 95 :: escL none f, by simp [mangleL, h0, separator], by decide, ?_⟩
    intro x hx
    apply hall
    simp [mangleL, h0, separator]
    simp at hx
    rcases hx with rfl | hx
    · exact .inl rfl
    · exact .inr hx
  · refine ⟨h, t ++ separator ++ escL none f, by simp [mangleL, ht], hs, ?_⟩
    intro x hx
    apply hall
    simp only [mangleL, ht, List.cons_append, List.mem_cons]
    exact .inr (by simpa using hx)

/-- "1env"."f" → X31env__f -/
example : IsIdentifier (mangleL [49, 101, 110, 118] [102]) := import_symbol_is_identifier _ _

end W2c2Verif.Props.C04Ident
