/-
  Props.C04Tables — "element segments place exactly the listed functions at offset+i of the designated table", for the TEXT of
  `<module>InitTables` as `wasmCWriteInitTables` prints it (Model/InitTables.lean over the regenerated `Gen.InitTables`, which
  holds BOTH branches of every `if (pretty)`):

  * `pretty_same_tokens`: with and without `-p` the function body consists of the same tokens (pretty printing changes white
    space only; in particular both copies of the store's format string print the same arguments).
  * `entry_is_store`: one pass through the entry loop prints exactly one statement, `<the segment's table>.data[offset + POSITION] =
    (wasmFunc)&<the LISTED function>;` — position of the entry inside its segment, not its function index.
  * `segment_denotes_writeSeg`: the statements of a segment are `offset = <its offset expression>;` and one such store per entry, in
    order; run on a table they do what `Model.writeSeg` does — the function `Props.C04.elem_init_correct` is about.
  * `emitted_tables_correct`: hence after all segments (any number, overlapping or not) every slot holds the function listed by the
    LAST segment covering it (`slotSpec`), in either output mode.
-/
import W2c2Verif.Model.InitTables
import W2c2Verif.Props.C04

namespace W2c2Verif.Props.C04Tables
open W2c2Verif Model Model.Inst Model.InitTables Gen.InitTables

private theorem sel_pretty (h : Bool) :
    sel true h declPart = sel false h declPart ∧ sel true h tableLoop = sel false h tableLoop ∧
    sel true h segHead = sel false h segHead ∧ sel true h entryLoop = sel false h entryLoop := by
  cases h <;> decide

private theorem renderEntries_pretty (seg : ElemSegD) : ∀ (fs : List Nat) (pos : Nat),
    renderEntries true seg pos fs = renderEntries false seg pos fs
  | [], _ => rfl
  | f :: rest, pos => by
    simp only [renderEntries, entryToks, (sel_pretty true).2.2.2, renderEntries_pretty seg rest (pos + 1)]

private theorem renderTables_pretty (imports : Nat) : ∀ (ts : List (Nat × Nat)) (j : Nat),
    renderTables true imports j ts = renderTables false imports j ts
  | [], _ => rfl
  | t :: rest, j => by
    simp only [renderTables, (sel_pretty true).2.1, renderTables_pretty imports rest (j + 1)]

/-- `-p` changes white space only -/
theorem pretty_same_tokens (d : ModDesc) : render true d = render false d := by
  unfold render
  rw [(sel_pretty _).1, renderTables_pretty]
  congr 1
  congr 1
  funext seg
  unfold renderSeg headToks
  rw [(sel_pretty true).2.2.1, renderEntries_pretty]

/-- one entry = one store into slot offset + POSITION of the segment's table, of the LISTED function -/
theorem entry_is_store (pretty : Bool) (seg : ElemSegD) (pos f : Nat) :
    stmtOf (entryToks pretty seg pos f) = some (.store seg.table pos f) := by
  cases pretty <;> rfl

theorem head_is_setOffset (pretty : Bool) (seg : ElemSegD) : stmtOf (headToks pretty seg) = some (.setOffset seg.offset) := by
  cases pretty <;> rfl

private theorem mapM_some {α β} (f : α → Option β) (g : α → β) (h : ∀ a, f a = some (g a)) : ∀ (l : List α), l.mapM f = some (l.map g)
  | [] => rfl
  | a :: rest => by simp [List.mapM_cons, h a, mapM_some f g h rest]

theorem segment_stmts (pretty : Bool) (seg : ElemSegD) :
    stmtsOfSeg pretty seg = some (.setOffset seg.offset :: seg.funcs.zipIdx.map fun fk => .store seg.table fk.2 fk.1) := by
  unfold stmtsOfSeg
  rw [head_is_setOffset, mapM_some _ (fun fk => Stmt.store seg.table fk.2 fk.1) (fun fk => entry_is_store pretty seg fk.2 fk.1)]
  rfl

/-- the text of a segment, in either mode, stores the listed functions at offset, offset+1, … : it denotes `Model.writeSeg` -/
theorem segment_denotes_writeSeg (pretty : Bool) (seg : ElemSegD) (off : Nat) (tbl : List (Option Nat)) :
    ∃ ss, stmtsOfSeg pretty seg = some ss ∧ runStmts off tbl ss = writeSeg tbl ⟨off, seg.funcs⟩ := by
  refine ⟨_, segment_stmts pretty seg, ?_⟩
  simp only [runStmts, writeSeg, List.foldl_cons, List.foldl_map]

/-- all segments of a table (evaluated offsets `offs`), in either output mode: every slot holds the function listed by the LAST
    segment that covers it, an uncovered slot stays null -/
theorem emitted_tables_correct (pretty : Bool) (size : Nat) (segs : List (ElemSegD × Nat)) (k : Nat) (hk : k < size) :
    (segs.foldl (fun t so => runStmts so.2 t ((stmtsOfSeg pretty so.1).getD [])) (List.replicate size none))[k]? =
      some (slotSpec (segs.map fun so => ⟨so.2, so.1.funcs⟩) k) := by
  rw [← Props.C04.elem_init_correct size _ k hk]
  congr 1
  unfold initTable
  rw [List.foldl_map]
  congr 1
  funext t so
  obtain ⟨ss, h1, h2⟩ := segment_denotes_writeSeg pretty so.1 so.2 t
  rw [h1]
  exact h2

/-! ### non-vacuity -/

/-- the entry loop's tokens for entry 2 of a segment into table 0 listing function 7: `T0 .data[offset+ 2 ]=(wasmFunc) &f7 ;` -/
example : entryToks true ⟨0, .const 5, [9, 8, 7]⟩ 2 7 =
    [.tableUse 0, .kw .dataOffsetPlus, .num 2, .kw .closeAssignCast, .funcRef 7, .kw .semi] := by decide
example : (stmtsOfSeg false ⟨0, .const 5, [9, 8]⟩).map (runStmts 1 [none, none, none, none]) = some [none, some 9, some 8, none] := by decide

end W2c2Verif.Props.C04Tables
