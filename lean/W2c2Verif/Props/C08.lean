/-
  Props.C08 — translation depends on the decoded module, not on its byte encoding.

  Part 1 (this section): the LEB128 decoders of leb128.h (model `Model.Leb`, constants regenerated into
  `Gen.Reader`) decode EVERY encoding the binary grammar allows (`Spec.Binary.ULeb/SLeb`: any redundant
  padding up to ⌈N/7⌉ bytes, unused bits of the last byte as the spec demands) to the denoted value and
  consume exactly the bytes of the encoding — for all values, all paddings, whatever follows in the buffer.
-/
import W2c2Verif.Lemmas.Leb

namespace W2c2Verif.Props.C08
open W2c2Verif.Model.Leb W2c2Verif.Spec.Binary W2c2Verif.Lemmas.Leb
open W2c2Verif.Gen.Reader (LebDecoder leb128ReadU32 leb128ReadI32 leb128ReadU64 leb128ReadI64)

/-! The regenerated decoder rows have the shape the proofs need (loop bound ≥ ⌈width/7⌉, masks 7F/80/40,
    guard = width).  `int32LEB128MaxByteCount 5→4`, another mask or guard makes these fail. -/
theorem wf_u32 : WF leb128ReadU32 := ⟨rfl, rfl, rfl, by decide, by decide⟩
theorem wf_u64 : WF leb128ReadU64 := ⟨rfl, rfl, rfl, by decide, by decide⟩
theorem wf_i32 : WFS leb128ReadI32 := { step := rfl, pay := rfl, cont := rfl, fuel := by decide, wpos := by decide, signed := rfl, sign := rfl, guard := rfl }
theorem wf_i64 : WFS leb128ReadI64 := { step := rfl, pay := rfl, cont := rfl, fuel := by decide, wpos := by decide, signed := rfl, sign := rfl, guard := rfl }

/-- **leb_u_decode** (N = 32 and N = 64): every `uN` encoding of `v`, followed by any bytes, is decoded to
    `v`; the return value is the length of the encoding; the buffer is advanced to exactly what follows;
    no undefined shift occurs. -/
theorem leb_u_decode :
    (∀ (v : Nat) (bs rest : List UInt8), ULeb 32 v bs →
      readU32 (bs ++ rest) = { value := v, count := bs.length, rest := rest, ub := false }) ∧
    (∀ (v : Nat) (bs rest : List UInt8), ULeb 64 v bs →
      readU64 (bs ++ rest) = { value := v, count := bs.length, rest := rest, ub := false }) :=
  ⟨fun _ _ rest h => readU_uleb wf_u32 rfl h rest, fun _ _ rest h => readU_uleb wf_u64 rfl h rest⟩

/-- **leb_s_decode**, N = 32: every `s32` encoding (including 5-byte ones, whose last byte carries the sign in
    bit 3 and copies of it in bits 4–6) is decoded to `v`, exactly consumed, without undefined behaviour. -/
theorem leb_s_decode_32 (v : Int) (bs rest : List UInt8) (h : SLeb 32 v bs) :
    readI32 (bs ++ rest) = { value := v, count := bs.length, rest := rest, ub := false } := by
  have := readS_sleb wf_i32 h rest
  have hne : ¬ (leb128ReadI32.signExtForm ≠ "unsignedMask" ∧ v < 0 ∧ 7 * bs.length + 1 = leb128ReadI32.width) := by
    have : leb128ReadI32.width = 32 := rfl
    omega
  simpa [hne, readI32] using this

/-- **leb_s_decode**, N = 64: every `s64` encoding (10th byte: sign in bit 0, copies in bits 1–6; 9-byte
    encodings, whose sign extension shifts by 63) is decoded to `v`, exactly consumed, and — with the
    sign-extension expression of the current source, `(I64)(~(U64)0 << shift)` — without undefined behaviour. -/
theorem leb_s_decode_64 (v : Int) (bs rest : List UInt8) (h : SLeb 64 v bs) :
    readI64 (bs ++ rest) = { value := v, count := bs.length, rest := rest, ub := false } := by
  have := readS_sleb wf_i64 h rest
  have hform : leb128ReadI64.signExtForm = "unsignedMask" := by decide
  have hne : ¬ (leb128ReadI64.signExtForm ≠ "unsignedMask" ∧ v < 0 ∧ 7 * bs.length + 1 = leb128ReadI64.width) := by
    intro hc; exact hc.1 hform
  simpa [hne, readI64] using this

/-- **leb_s_decode** for both widths, full strength. -/
theorem leb_s_decode :
    (∀ (v : Int) (bs rest : List UInt8), SLeb 32 v bs →
      readI32 (bs ++ rest) = { value := v, count := bs.length, rest := rest, ub := false }) ∧
    (∀ (v : Int) (bs rest : List UInt8), SLeb 64 v bs →
      readI64 (bs ++ rest) = { value := v, count := bs.length, rest := rest, ub := false }) :=
  ⟨leb_s_decode_32, leb_s_decode_64⟩

/-- The decoder as it was before /repo 415f201 (`value |= -((I64) 1 << shift)`). -/
def leb128ReadI64_before_415f201 : LebDecoder := { leb128ReadI64 with signExtForm := "negOneShifted" }

set_option maxRecDepth 100000 in
/-- Regression witness: with the former sign-extension expression `-((I64) 1 << shift)` the decoder was
    undefined (signed overflow, `shift = 63`) on a VALID encoding: `-1` written in 9 bytes, e.g. as the
    immediate of `i64.const` (every negative `i64` in `[-2^62, -2^55)` needs 9 bytes even in its shortest
    encoding).  If that expression comes back, `Gen.Reader.leb128ReadI64` becomes this row again and
    `leb_s_decode_64` / `leb_total` no longer check. -/
theorem leb_s64_old_form_ub_regression :
    SLeb 64 (-1) [0xFF, 0xFF, 0xFF, 0xFF, 0xFF, 0xFF, 0xFF, 0xFF, 0x7F] ∧
    (readS leb128ReadI64_before_415f201 [0xFF, 0xFF, 0xFF, 0xFF, 0xFF, 0xFF, 0xFF, 0xFF, 0x7F]).ub = true ∧
    (readS leb128ReadI64_before_415f201 [0xFF, 0xFF, 0xFF, 0xFF, 0xFF, 0xFF, 0xFF, 0xFF, 0x7F]).value = -1 := by
  refine ⟨?_, by decide, by decide⟩
  have h9 : SLeb 8 (-1) [0x7F] := SLeb.neg (N := 8) 0x7F (by decide) (by decide) (by decide) (by decide)
  have step : ∀ {N : Nat} {bs : List UInt8}, 7 < N → SLeb (N - 7) (-1) bs → SLeb N (-1) (0xFF :: bs) :=
    fun hN ht => SLeb.more (m := -1) 0xFF (by decide) hN ht
  exact step (by decide) (step (by decide) (step (by decide) (step (by decide) (step (by decide)
    (step (by decide) (step (by decide) (step (by decide) h9)))))))

/-- **leb_total**: on ANY buffer each decoder reads at most `max` bytes and never more than the buffer
    holds, returns exactly the unread suffix, produces a `width`-bit pattern, returns 0 iff the buffer was
    empty, and performs no undefined shift or negation. -/
theorem leb_total (d : LebDecoder) (hd : d ∈ [leb128ReadU32, leb128ReadI32, leb128ReadU64, leb128ReadI64])
    (bs : List UInt8) :
    (run d bs).1.count ≤ d.maxBytes ∧ (run d bs).1.count ≤ bs.length ∧
    (run d bs).2 = bs.drop (run d bs).1.count ∧ (run d bs).1.value < 2 ^ d.width ∧
    ((run d bs).1.count = 0 ↔ bs = []) ∧
    (run d bs).1.ub = false := by
  have hwf : WF d ∧ 7 * d.maxBytes < d.width + 7 ∧ 0 < d.maxBytes ∧ d.guardBits ≤ d.width := by
    simp only [List.mem_cons, List.mem_nil_iff, or_false] at hd
    rcases hd with rfl | rfl | rfl | rfl
    · exact ⟨wf_u32, by decide, by decide, by decide⟩
    · exact ⟨wf_i32.toWF, by decide, by decide, by decide⟩
    · exact ⟨wf_u64, by decide, by decide, by decide⟩
    · exact ⟨wf_i64.toWF, by decide, by decide, by decide⟩
  obtain ⟨hwf, hm, hpos, hg⟩ := hwf
  obtain ⟨t1, t2, t3, t4, t5⟩ := run_total hwf bs
  refine ⟨t1, t2, t3, t4, t5 hpos, ?_⟩
  have hl := run_loop_ub hwf hm bs
  obtain ⟨_, _, _, _, l5, _, _, _⟩ := loop_total hwf d.maxBytes bs St.init
  have hs0 : St.init.shift = 0 := rfl
  have hc0 : St.init.count = 0 := rfl
  rw [hs0, hc0] at l5
  cases hub : (run d bs).1.ub with
  | false => rfl
  | true =>
    exfalso
    rcases signExtend_ub d _ hg hub with h | ⟨hf, hsg, hlt, hw⟩
    · rw [hl] at h; exact absurd h (by decide)
    · simp only [List.mem_cons, List.mem_nil_iff, or_false] at hd
      rcases hd with rfl | rfl | rfl | rfl
      · exact absurd hsg (by decide)
      · have : leb128ReadI32.width = 32 := rfl
        have : leb128ReadI32.guardBits = 32 := rfl
        omega
      · exact absurd hsg (by decide)
      · exact hf (by decide)

/-! Non-vacuity: concrete encodings with redundant padding satisfy the hypotheses. -/
set_option maxRecDepth 100000 in
example : ULeb 32 300 [0xAC, 0x82, 0x80, 0x80, 0x00] :=
  ULeb.more (m := 2) 0xAC (by decide) (by decide)
    (ULeb.more (m := 0) 0x82 (by decide) (by decide)
      (ULeb.more (m := 0) 0x80 (by decide) (by decide)
        (ULeb.more (m := 0) 0x80 (by decide) (by decide) (ULeb.last 0x00 (by decide) (by decide) (by decide)))))
set_option maxRecDepth 100000 in
example : SLeb 32 (-1) [0xFF, 0xFF, 0xFF, 0xFF, 0x7F] :=
  SLeb.more (m := -1) 0xFF (by decide) (by decide)
    (SLeb.more (m := -1) 0xFF (by decide) (by decide)
      (SLeb.more (m := -1) 0xFF (by decide) (by decide)
        (SLeb.more (m := -1) 0xFF (by decide) (by decide)
          (SLeb.neg (N := 4) 0x7F (by decide) (by decide) (by decide) (by decide)))))

end W2c2Verif.Props.C08
