/-
  Props.C08 — translation depends on the decoded module, not on its byte encoding.

  Part 1 (this section): the LEB128 decoders of leb128.h (model `Model.Leb`, constants regenerated into
  `Gen.Reader`) decode EVERY encoding the binary grammar allows (`Spec.Binary.ULeb/SLeb`: any redundant
  padding up to ⌈N/7⌉ bytes, unused bits of the last byte as the spec demands) to the denoted value and
  consume exactly the bytes of the encoding — for all values, all paddings, whatever follows in the buffer.
-/
import W2c2Verif.Lemmas.Leb
import W2c2Verif.Lemmas.ReaderDispatch

namespace W2c2Verif.Props.C08
open W2c2Verif.Model.Leb W2c2Verif.Spec.Binary W2c2Verif.Lemmas.Leb
open W2c2Verif.Gen.Reader (LebDecoder leb128ReadU32 leb128ReadI32 leb128ReadU64 leb128ReadI64)

/-! The regenerated decoder rows have the shape the proofs need (loop bound ≥ ⌈width/7⌉, masks 7F/80/40,
    guard = width).  `int32LEB128MaxByteCount 5→4`, another mask or guard makes these fail. -/
theorem wf_u32 : WF leb128ReadU32 := ⟨rfl, rfl, rfl, by decide, by decide⟩
theorem wf_u64 : WF leb128ReadU64 := ⟨rfl, rfl, rfl, by decide, by decide⟩
theorem wf_i32 : WFS leb128ReadI32 := { step := rfl, pay := rfl, cont := rfl, fuel := by decide, wpos := by decide, signed := rfl, sign := rfl, guard := rfl }
theorem wf_i64 : WFS leb128ReadI64 := { step := rfl, pay := rfl, cont := rfl, fuel := by decide, wpos := by decide, signed := rfl, sign := rfl, guard := rfl }

/-- **leb_u_decode** (N = 32 and N = 64): every `uN` encoding of `v`, followed by any bytes, is decoded to
    `v`; the return value is the length of the encoding; the buffer is advanced to exactly what follows;
    no undefined shift occurs. -/
theorem leb_u_decode :
    (∀ (v : Nat) (bs rest : List UInt8), ULeb 32 v bs →
      readU32 (bs ++ rest) = { value := v, count := bs.length, rest := rest, ub := false }) ∧
    (∀ (v : Nat) (bs rest : List UInt8), ULeb 64 v bs →
      readU64 (bs ++ rest) = { value := v, count := bs.length, rest := rest, ub := false }) :=
  ⟨fun _ _ rest h => readU_uleb wf_u32 rfl h rest, fun _ _ rest h => readU_uleb wf_u64 rfl h rest⟩

/-- **leb_s_decode**, N = 32: every `s32` encoding (including 5-byte ones, whose last byte carries the sign in
    bit 3 and copies of it in bits 4–6) is decoded to `v`, exactly consumed, without undefined behaviour. -/
theorem leb_s_decode_32 (v : Int) (bs rest : List UInt8) (h : SLeb 32 v bs) :
    readI32 (bs ++ rest) = { value := v, count := bs.length, rest := rest, ub := false } := by
  have := readS_sleb wf_i32 h rest
  have hne : ¬ (leb128ReadI32.signExtForm ≠ "unsignedMask" ∧ v < 0 ∧ 7 * bs.length + 1 = leb128ReadI32.width) := by
    have : leb128ReadI32.width = 32 := rfl
    omega
  simpa [hne, readI32] using this

/-- **leb_s_decode**, N = 64: every `s64` encoding (10th byte: sign in bit 0, copies in bits 1–6; 9-byte
    encodings, whose sign extension shifts by 63) is decoded to `v`, exactly consumed, and — with the
    sign-extension expression of the current source, `(I64)(~(U64)0 << shift)` — without undefined behaviour. -/
theorem leb_s_decode_64 (v : Int) (bs rest : List UInt8) (h : SLeb 64 v bs) :
    readI64 (bs ++ rest) = { value := v, count := bs.length, rest := rest, ub := false } := by
  have := readS_sleb wf_i64 h rest
  have hform : leb128ReadI64.signExtForm = "unsignedMask" := by decide
  have hne : ¬ (leb128ReadI64.signExtForm ≠ "unsignedMask" ∧ v < 0 ∧ 7 * bs.length + 1 = leb128ReadI64.width) := by
    intro hc; exact hc.1 hform
  simpa [hne, readI64] using this

/-- **leb_s_decode** for both widths, full strength. -/
theorem leb_s_decode :
    (∀ (v : Int) (bs rest : List UInt8), SLeb 32 v bs →
      readI32 (bs ++ rest) = { value := v, count := bs.length, rest := rest, ub := false }) ∧
    (∀ (v : Int) (bs rest : List UInt8), SLeb 64 v bs →
      readI64 (bs ++ rest) = { value := v, count := bs.length, rest := rest, ub := false }) :=
  ⟨leb_s_decode_32, leb_s_decode_64⟩

/-- The decoder as it was before /repo 415f201 (`value |= -((I64) 1 << shift)`). -/
def leb128ReadI64_before_415f201 : LebDecoder := { leb128ReadI64 with signExtForm := "negOneShifted" }

set_option maxRecDepth 100000 in
/-- Regression witness: with the former sign-extension expression `-((I64) 1 << shift)` the decoder was
    undefined (signed overflow, `shift = 63`) on a VALID encoding: `-1` written in 9 bytes, e.g. as the
    immediate of `i64.const` (every negative `i64` in `[-2^62, -2^55)` needs 9 bytes even in its shortest
    encoding).  If that expression comes back, `Gen.Reader.leb128ReadI64` becomes this row again and
    `leb_s_decode_64` / `leb_total` no longer check. -/
theorem leb_s64_old_form_ub_regression :
    SLeb 64 (-1) [0xFF, 0xFF, 0xFF, 0xFF, 0xFF, 0xFF, 0xFF, 0xFF, 0x7F] ∧
    (readS leb128ReadI64_before_415f201 [0xFF, 0xFF, 0xFF, 0xFF, 0xFF, 0xFF, 0xFF, 0xFF, 0x7F]).ub = true ∧
    (readS leb128ReadI64_before_415f201 [0xFF, 0xFF, 0xFF, 0xFF, 0xFF, 0xFF, 0xFF, 0xFF, 0x7F]).value = -1 := by
  refine ⟨?_, by decide, by decide⟩
  have h9 : SLeb 8 (-1) [0x7F] := SLeb.neg (N := 8) 0x7F (by decide) (by decide) (by decide) (by decide)
  have step : ∀ {N : Nat} {bs : List UInt8}, 7 < N → SLeb (N - 7) (-1) bs → SLeb N (-1) (0xFF :: bs) :=
    fun hN ht => SLeb.more (m := -1) 0xFF (by decide) hN ht
  exact step (by decide) (step (by decide) (step (by decide) (step (by decide) (step (by decide)
    (step (by decide) (step (by decide) (step (by decide) h9)))))))

/-- **leb_total**: on ANY buffer each decoder reads at most `max` bytes and never more than the buffer
    holds, returns exactly the unread suffix, produces a `width`-bit pattern, returns 0 iff the buffer was
    empty, and performs no undefined shift or negation. -/
theorem leb_total (d : LebDecoder) (hd : d ∈ [leb128ReadU32, leb128ReadI32, leb128ReadU64, leb128ReadI64])
    (bs : List UInt8) :
    (run d bs).1.count ≤ d.maxBytes ∧ (run d bs).1.count ≤ bs.length ∧
    (run d bs).2 = bs.drop (run d bs).1.count ∧ (run d bs).1.value < 2 ^ d.width ∧
    ((run d bs).1.count = 0 ↔ bs = []) ∧
    (run d bs).1.ub = false := by
  have hwf : WF d ∧ 7 * d.maxBytes < d.width + 7 ∧ 0 < d.maxBytes ∧ d.guardBits ≤ d.width := by
    simp only [List.mem_cons, List.mem_nil_iff, or_false] at hd
    rcases hd with rfl | rfl | rfl | rfl
    · exact ⟨wf_u32, by decide, by decide, by decide⟩
    · exact ⟨wf_i32.toWF, by decide, by decide, by decide⟩
    · exact ⟨wf_u64, by decide, by decide, by decide⟩
    · exact ⟨wf_i64.toWF, by decide, by decide, by decide⟩
  obtain ⟨hwf, hm, hpos, hg⟩ := hwf
  obtain ⟨t1, t2, t3, t4, t5⟩ := run_total hwf bs
  refine ⟨t1, t2, t3, t4, t5 hpos, ?_⟩
  have hl := run_loop_ub hwf hm bs
  obtain ⟨_, _, _, _, l5, _, _, _⟩ := loop_total hwf d.maxBytes bs St.init
  have hs0 : St.init.shift = 0 := rfl
  have hc0 : St.init.count = 0 := rfl
  rw [hs0, hc0] at l5
  cases hub : (run d bs).1.ub with
  | false => rfl
  | true =>
    exfalso
    rcases signExtend_ub d _ hg hub with h | ⟨hf, hsg, hlt, hw⟩
    · rw [hl] at h; exact absurd h (by decide)
    · simp only [List.mem_cons, List.mem_nil_iff, or_false] at hd
      rcases hd with rfl | rfl | rfl | rfl
      · exact absurd hsg (by decide)
      · have : leb128ReadI32.width = 32 := rfl
        have : leb128ReadI32.guardBits = 32 := rfl
        omega
      · exact absurd hsg (by decide)
      · exact hf (by decide)

/-! Non-vacuity: concrete encodings with redundant padding satisfy the hypotheses. -/
set_option maxRecDepth 100000 in
example : ULeb 32 300 [0xAC, 0x82, 0x80, 0x80, 0x00] :=
  ULeb.more (m := 2) 0xAC (by decide) (by decide)
    (ULeb.more (m := 0) 0x82 (by decide) (by decide)
      (ULeb.more (m := 0) 0x80 (by decide) (by decide)
        (ULeb.more (m := 0) 0x80 (by decide) (by decide) (ULeb.last 0x00 (by decide) (by decide) (by decide)))))
set_option maxRecDepth 100000 in
example : SLeb 32 (-1) [0xFF, 0xFF, 0xFF, 0xFF, 0x7F] :=
  SLeb.more (m := -1) 0xFF (by decide) (by decide)
    (SLeb.more (m := -1) 0xFF (by decide) (by decide)
      (SLeb.more (m := -1) 0xFF (by decide) (by decide)
        (SLeb.more (m := -1) 0xFF (by decide) (by decide)
          (SLeb.neg (N := 4) 0x7F (by decide) (by decide) (by decide) (by decide)))))

end W2c2Verif.Props.C08

/-! ## Part 2 — the section layer of reader.c (`Model.Reader`)

`Sim m m'` = equal except for `RawModule.length` (the file length) and `RawModule.debugSections` (the
`.debug_*` custom sections, consulted under `-g` only). -/

namespace W2c2Verif.Props.C08
open W2c2Verif.Model W2c2Verif.Model.Reader W2c2Verif.Spec.Binary W2c2Verif.Lemmas.Reader
open W2c2Verif.Gen

theorem readEqual_magic (bs : List UInt8) :
    readEqual Reader.magic E.invalidMagic (Reader.magic ++ bs) = .ok ((), bs) := by
  unfold readEqual
  have hl : ¬ (Reader.magic ++ bs).length < Reader.magic.length := by rw [List.length_append]; omega
  rw [if_neg hl, List.take_left' rfl, if_pos rfl, List.drop_left' rfl]

theorem read_magic (cfg : Cfg) (bs : List UInt8) :
    Model.Reader.read cfg (Reader.magic ++ bs) = readSections cfg bs (RawModule.empty (Reader.magic ++ bs).length) := by
  unfold Model.Reader.read
  rw [readEqual_magic]

/-- **sections_framing_invariant**: take two files that contain the same sequence of non-custom sections
    `(id, payload)`.  Custom sections — any number, any names and contents, at any section boundary, including
    before the first and after the last section — and the padding of every section-size and name-length field
    may differ arbitrarily.  If the reader accepts both files, it decodes the same module (up to the file length
    and the recorded `.debug_*` sections).  Under `-g` the statement excludes custom sections called `name`,
    which the reader then parses. -/
theorem sections_framing_invariant (cfg : Cfg) (items₁ items₂ : List Item) (bs₁ bs₂ : List UInt8)
    (e₁ : EncStream items₁ bs₁) (e₂ : EncStream items₂ bs₂) (hv : view items₁ = view items₂)
    (hc₁ : ∀ nm ∈ customNames items₁, ¬ (cfg.debug = true ∧ cstr nm = strBytes Reader.nameSectionName))
    (hc₂ : ∀ nm ∈ customNames items₂, ¬ (cfg.debug = true ∧ cstr nm = strBytes Reader.nameSectionName))
    (r₁ r₂ : RawModule)
    (h₁ : Model.Reader.read cfg (Reader.magic ++ bs₁) = .ok r₁) (h₂ : Model.Reader.read cfg (Reader.magic ++ bs₂) = .ok r₂) :
    Sim r₁ r₂ := by
  rw [read_magic] at h₁ h₂
  refine readSections_framing cfg _ items₁ items₂ bs₁ bs₂ _ _ r₁ r₂ (Nat.le_refl _) e₁ e₂ hv hc₁ hc₂
    ⟨_, _, rfl⟩ ?_ ?_ h₁ h₂
  · show bs₁.length ≤ (Reader.magic ++ bs₁).length
    rw [List.length_append]; omega
  · show bs₂.length ≤ (Reader.magic ++ bs₂).length
    rw [List.length_append]; omega

/-- Without `-g` no custom section is interpreted: no side condition. -/
theorem sections_framing_invariant_no_debug (strict : Bool) (items₁ items₂ : List Item) (bs₁ bs₂ : List UInt8)
    (e₁ : EncStream items₁ bs₁) (e₂ : EncStream items₂ bs₂) (hv : view items₁ = view items₂) (r₁ r₂ : RawModule)
    (h₁ : Model.Reader.read ⟨false, strict⟩ (Reader.magic ++ bs₁) = .ok r₁)
    (h₂ : Model.Reader.read ⟨false, strict⟩ (Reader.magic ++ bs₂) = .ok r₂) : Sim r₁ r₂ :=
  sections_framing_invariant _ items₁ items₂ bs₁ bs₂ e₁ e₂ hv (fun _ _ h => by simp at h) (fun _ _ h => by simp at h)
    r₁ r₂ h₁ h₂

/-- A custom section (not a name section under `-g`) at any position is consumed exactly and leaves the module
    unchanged up to the list of debug sections. -/
theorem custom_section_skipped (cfg : Cfg) (m : RawModule) {nm content b : List UInt8} (rest : List UInt8)
    (henc : EncItem (.custom nm content) b)
    (hno : ¬ (cfg.debug = true ∧ cstr nm = strBytes Reader.nameSectionName)) :
    ∃ m', readSection cfg m (b ++ rest) = .ok (m', rest) ∧ Sim m m' :=
  readSection_custom cfg m rest henc hno

/-! ### absent optional sections mean empty -/

/-- **absent_is_empty**: the module the loop starts from (`calloc`) has every vector empty and no start
    function, and a file with no sections at all decodes to it. -/
theorem absent_is_empty (cfg : Cfg) :
    Model.Reader.read cfg Reader.magic = .ok (RawModule.empty 8) ∧
    (RawModule.empty 8).types = [] ∧ (RawModule.empty 8).functions = [] ∧ (RawModule.empty 8).exports = [] ∧
    (RawModule.empty 8).globals = [] ∧ (RawModule.empty 8).funcImports = [] ∧ (RawModule.empty 8).globalImports = [] ∧
    (RawModule.empty 8).memImports = [] ∧ (RawModule.empty 8).tableImports = [] ∧ (RawModule.empty 8).memories = [] ∧
    (RawModule.empty 8).tables = [] ∧ (RawModule.empty 8).datas = [] ∧ (RawModule.empty 8).elems = [] ∧
    (RawModule.empty 8).start = none := by
  refine ⟨?_, rfl, rfl, rfl, rfl, rfl, rfl, rfl, rfl, rfl, rfl, rfl, rfl, rfl⟩
  have h := read_magic cfg []
  rw [List.append_nil] at h
  rw [h, readSections_nil]; rfl

/-- The fields a section reader may change, reset to their initial value. -/
def eraseOwn (rd : String) (m : RawModule) : RawModule :=
  match rd with
  | "wasmReadCustomSection" => { m with debugSections := [], funcNames := [], funcNamesLen := 0 }
  | "wasmReadTypeSection" => { m with types := [] }
  | "wasmReadImportSection" => { m with funcImports := [], globalImports := [], memImports := [], tableImports := [] }
  | "wasmReadFunctionSection" => { m with functions := [] }
  | "wasmReadTableSection" => { m with tables := [] }
  | "wasmReadMemorySection" => { m with memories := [] }
  | "wasmReadGlobalSection" => { m with globals := [] }
  | "wasmReadExportSection" => { m with functions := [], exports := [] }
  | "wasmReadStartSection" => { m with start := none }
  | "wasmReadElementSection" => { m with elems := [] }
  | "wasmReadCodeSection" => { m with functions := [] }
  | "wasmReadDataSection" => { m with datas := [] }
  | _ => m

theorem importEntry_footprint (m : RawModule) :
    OkInv (fun m' => eraseOwn "wasmReadImportSection" m' = eraseOwn "wasmReadImportSection" m) (importEntry m) := by
  unfold importEntry
  refine ok_bind fun mod => ok_bind fun nm => ok_bind fun k => ok_ite (fun _ => ok_fail _) fun _ => ?_
  split
  · exact ok_bind fun _ => ok_pure rfl
  · exact ok_bind fun _ => ok_pure rfl
  · exact ok_bind fun _ => ok_pure rfl
  · exact ok_bind fun _ => ok_pure rfl
  · exact ok_fail _

theorem nameSectionLoop_footprint (endRem : Int) : ∀ fuel (m : RawModule),
    OkInv (fun m' => eraseOwn "wasmReadCustomSection" m' = eraseOwn "wasmReadCustomSection" m) (nameSectionLoop endRem fuel m) := by
  intro fuel
  induction fuel with
  | zero => intro m; exact ok_pure rfl
  | succ n ih =>
    intro m bs m' rest h
    unfold nameSectionLoop at h
    split at h
    · cases h; rfl
    · revert h
      refine (ok_bind (I := fun x => eraseOwn "wasmReadCustomSection" x = eraseOwn "wasmReadCustomSection" m) fun id =>
        ok_bind fun size => ok_bind_inv
          (I := fun x => eraseOwn "wasmReadCustomSection" x = eraseOwn "wasmReadCustomSection" m)
          (J := fun x => eraseOwn "wasmReadCustomSection" x = eraseOwn "wasmReadCustomSection" m) ?_ ?_) bs m' rest
      · refine ok_ite (fun _ => ?_) fun _ => ok_bind fun _ => ok_pure rfl
        unfold functionNamesSubsection
        refine ok_bind fun n => ?_
        split
        · exact ok_undefined _
        · refine ok_bind fun names => ?_
          split
          · exact ok_pure rfl
          · exact ok_fail _
          · exact ok_undefined _
      · intro a ha; rw [← ha]; exact ih a

/-- **section_footprint** (the other half of "absent means empty"): the reader of a section changes only the
    fields that section owns; every other field keeps the value it had — initially the empty vector. -/
theorem section_footprint (cfg : Cfg) (rd : String) (size : Nat) (m : RawModule) :
    OkInv (fun m' => eraseOwn rd m' = eraseOwn rd m) (sectionReader cfg rd size m) := by
  unfold sectionReader
  split
  · unfold customSection
    refine ok_bind fun before => ok_bind fun nm => ok_bind fun after => ok_ite (fun _ => ?_) fun _ => ok_ite (fun _ => ?_) fun _ => ?_
    · exact ok_bind fun rem => ok_bind fun _ => ok_pure rfl
    · intro bs m' rest h; exact nameSectionLoop_footprint _ _ m bs m' rest h
    · exact ok_bind fun _ => ok_pure rfl
  · unfold typeSection; exact ok_bind fun n => ok_bind fun ts => ok_pure rfl
  · unfold importSection
    exact ok_bind fun n => ok_iter (I := fun x => eraseOwn "wasmReadImportSection" x = eraseOwn "wasmReadImportSection" m)
      (fun s hs => by rw [← hs]; exact importEntry_footprint s) n m rfl
  · unfold functionSection; exact ok_bind fun n => ok_bind fun ts => ok_pure rfl
  · unfold tableSection; exact ok_bind fun n => ok_bind fun ts => ok_pure rfl
  · unfold memorySection; exact ok_bind fun n => ok_bind fun ts => ok_pure rfl
  · unfold globalSection; exact ok_bind fun n => ok_bind fun ts => ok_pure rfl
  · unfold exportSection; exact ok_bind fun n => ok_bind fun ts => ok_pure rfl
  · unfold startSection; exact ok_bind fun n => ok_pure rfl
  · unfold elementSection; exact ok_bind fun n => ok_bind fun ts => ok_pure rfl
  · unfold codeSection
    exact ok_bind fun rem => ok_bind fun n => ok_ite (fun _ => ok_fail _) fun _ => ok_bind fun fs => ok_pure rfl
  · unfold dataSection; exact ok_bind fun n => ok_bind fun ts => ok_pure rfl
  · unfold dataCountSection; exact ok_bind fun n => ok_pure rfl
  · exact ok_fail _

/-! ### an empty vector section equals an omitted one -/

theorem vec_zero {α : Type} (p : P α) (bs : List UInt8) : vec p 0 bs = .ok ([], bs) := rfl

/-- **empty_vs_omitted_section**: a section whose payload is the vector count 0 (in any padding) is consumed
    exactly and sets its vector to empty — on a module in which that vector is still empty (the section was
    omitted so far) the module is unchanged.  Covers type, function, table, memory, global, element and data
    sections. -/
theorem empty_vs_omitted_section (cfg : Cfg) (m : RawModule) {sz : List UInt8} (h0 : ULeb 32 0 sz) (rest : List UInt8) :
    typeSection m (sz ++ rest) = .ok ({ m with types := [] }, rest) ∧
    functionSection m (sz ++ rest) = .ok ({ m with functions := [] }, rest) ∧
    tableSection m (sz ++ rest) = .ok ({ m with tables := [] }, rest) ∧
    memorySection m (sz ++ rest) = .ok ({ m with memories := [] }, rest) ∧
    globalSection cfg m (sz ++ rest) = .ok ({ m with globals := [] }, rest) ∧
    elementSection cfg m (sz ++ rest) = .ok ({ m with elems := [] }, rest) ∧
    dataSection cfg m (sz ++ rest) = .ok ({ m with datas := [] }, rest) := by
  refine ⟨?_, ?_, ?_, ?_, ?_, ?_, ?_⟩
  · unfold typeSection; rw [bind_eq_of_ok (u32_uleb _ h0 rest), bind_eq_of_ok (vec_zero _ rest)]; rfl
  · unfold functionSection; rw [bind_eq_of_ok (u32_uleb _ h0 rest), bind_eq_of_ok (vec_zero _ rest)]; rfl
  · unfold tableSection; rw [bind_eq_of_ok (u32_uleb _ h0 rest), bind_eq_of_ok (vec_zero _ rest)]; rfl
  · unfold memorySection; rw [bind_eq_of_ok (u32_uleb _ h0 rest), bind_eq_of_ok (vec_zero _ rest)]; rfl
  · unfold globalSection; rw [bind_eq_of_ok (u32_uleb _ h0 rest), bind_eq_of_ok (vec_zero _ rest)]; rfl
  · unfold elementSection; rw [bind_eq_of_ok (u32_uleb _ h0 rest), bind_eq_of_ok (vec_zero _ rest)]; rfl
  · unfold dataSection; rw [bind_eq_of_ok (u32_uleb _ h0 rest), bind_eq_of_ok (vec_zero _ rest)]; rfl

/-- On a module whose vector is still empty, the empty section is a no-op (so "empty" = "omitted"). -/
theorem empty_section_noop (m : RawModule) (hm : m.types = []) {sz : List UInt8} (h0 : ULeb 32 0 sz) (rest : List UInt8) :
    typeSection m (sz ++ rest) = .ok (m, rest) := by
  rw [(empty_vs_omitted_section ⟨false, false⟩ m h0 rest).1]
  cases m; simp_all

/-! ### data segments: flag 0 and flag 2 with memory index 0 -/

theorem uleb_zero_byte : ULeb 32 0 [0] := ULeb.last (N := 32) 0 (by decide) (by decide) (by decide)

set_option maxRecDepth 100000 in
theorem uleb_two_byte : ULeb 32 2 [2] := ULeb.last (N := 32) 2 (by decide) (by decide) (by decide)

/-- what follows the flag (and the memory index) of an active data segment for memory `mi` -/
def activeDataTail (cfg : Cfg) (mi : Nat) : P DataSegment :=
  sliced (constExpr cfg E.invalidDataSectionOffsetExpression) >>= fun off =>
    bytesVec E.invalidDataSectionBytes >>= fun bs =>
      pure { memoryIndex := mi, offset := off, bytes := bs, passive := false }

theorem dataEntry_flag0 (cfg : Cfg) (X : List UInt8) : dataEntry cfg ([0] ++ X) = activeDataTail cfg 0 X := by
  unfold dataEntry
  rw [bind_eq_of_ok (u32_uleb _ uleb_zero_byte X)]
  have h0 : Reader.dataKinds.find? (fun r => r.1 = 0) = some (0, false, true, false) := by decide
  rw [h0]
  rfl

theorem dataEntry_flag2 (cfg : Cfg) {mi : List UInt8} (hmi : ULeb 32 0 mi) (X : List UInt8) :
    dataEntry cfg ([2] ++ (mi ++ X)) = activeDataTail cfg 0 X := by
  unfold dataEntry
  rw [bind_eq_of_ok (u32_uleb _ uleb_two_byte (mi ++ X))]
  have h2 : Reader.dataKinds.find? (fun r => r.1 = 2) = some (2, true, true, false) := by decide
  rw [h2]
  show (u32 E.invalidDataSectionMemoryIndex >>= _) (mi ++ X) = _
  rw [bind_eq_of_ok (u32_uleb _ hmi X)]
  rfl

/-- **data_segment_flag0_eq_flag2mem0**: an active data segment written with flag 0 and the same segment
    written with flag 2 and an explicit memory index 0 (in any padding) decode to the same `WasmDataSegment`
    (memory index 0, same offset expression bytes, same data bytes, not passive); neither is treated as passive. -/
theorem data_segment_flag0_eq_flag2mem0 (cfg : Cfg) {mi : List UInt8} (hmi : ULeb 32 0 mi) (X : List UInt8) :
    dataEntry cfg ([2] ++ (mi ++ X)) = dataEntry cfg ([0] ++ X) := by
  rw [dataEntry_flag0, dataEntry_flag2 cfg hmi]

end W2c2Verif.Props.C08

/-! ## Part 3 — the read/encode round trip, first half: every spec encoding of a section payload is accepted and
decoded to the section's abstract content, whatever follows it in the file.

Here: type, function, table, memory, start and data-count sections (vector counts, indices and limits in any LEB
padding), collected in `read_encode_roundtrip_partial`.  The import, global, export, element, code, data and custom
sections, the statement for all 13 kinds of section through the dispatcher (`read_encode_roundtrip`, of which
`read_encode_roundtrip_partial` is the part proved in this file) and for whole files (`module_roundtrip`,
`module_encodings_agree`) are Part 4, `Props/C08Sections.lean`. -/

namespace W2c2Verif.Props.C08
open W2c2Verif.Model W2c2Verif.Model.Reader W2c2Verif.Spec.Binary W2c2Verif.Lemmas.Reader
open W2c2Verif.Gen

def absVT : VT → ValType
  | .i32 => .i32 | .i64 => .i64 | .f32 => .f32 | .f64 => .f64

def absFuncTy (ft : FuncTy) : FuncType := { params := ft.params.map absVT, results := ft.results.map absVT }

/-- what `wasmReadMemoryType` stores: no maximum or one above 65535 pages becomes 65535 -/
def absMemLimits : Lim → Limits
  | .noMax n => { min := n, max := Reader.memoryDefaultMax, shared := false }
  | .withMax n m => { min := n, max := if Reader.memoryDefaultMax < m then Reader.memoryDefaultMax else m, shared := false }
  | .shared n m => { min := n, max := if Reader.memoryDefaultMax < m then Reader.memoryDefaultMax else m, shared := true }

/-- what `wasmReadTableType` stores: no maximum becomes `UINT32_MAX` -/
def absTableLimits : Lim → Limits
  | .noMax n => { min := n, max := Reader.tableDefaultMax, shared := false }
  | .withMax n m => { min := n, max := m, shared := false }
  | .shared n m => { min := n, max := m, shared := true }

/-- generic vector lemma: if each element encoding is read back, so is the sequence -/
theorem vec_enc {α β : Type} {E : α → List UInt8 → Prop} {p : P β} {f : α → β}
    (hp : ∀ a b rest, E a b → p (b ++ rest) = .ok (f a, rest)) :
    ∀ {as : List α} {body : List UInt8}, EncSeq E as body → ∀ rest, vec p as.length (body ++ rest) = .ok (as.map f, rest) := by
  intro as body h
  induction h with
  | nil => intro rest; rfl
  | @cons a as b bs ha _ ih =>
    intro rest
    show (p >>= fun x => vec p as.length >>= fun xs => pure (x :: xs)) ((b ++ bs) ++ rest) = _
    rw [List.append_assoc, bind_eq_of_ok (hp a b (bs ++ rest) ha), bind_eq_of_ok (ih rest)]
    rfl

set_option maxRecDepth 100000 in
theorem i32_valtype_byte (e : Nat) (t : VT) (rest : List UInt8) :
    ∃ c : Int, i32 e ([t.byte] ++ rest) = .ok (c, rest) ∧ decodeValueType c = some (absVT t) := by
  have key : ∀ (b : UInt8) (v : Int), SLeb 32 v [b] → i32 e ([b] ++ rest) = .ok (v, rest) := by
    intro b v h
    have hr := leb_s_decode_32 v [b] rest h
    rw [i32_run, hr]
    exact if_neg (by simp)
  cases t
  · exact ⟨-1, key 0x7F (-1) (SLeb.neg (N := 32) 0x7F (by decide) (by decide) (by decide) (by decide)), by decide⟩
  · exact ⟨-2, key 0x7E (-2) (SLeb.neg (N := 32) 0x7E (by decide) (by decide) (by decide) (by decide)), by decide⟩
  · exact ⟨-3, key 0x7D (-3) (SLeb.neg (N := 32) 0x7D (by decide) (by decide) (by decide) (by decide)), by decide⟩
  · exact ⟨-4, key 0x7C (-4) (SLeb.neg (N := 32) 0x7C (by decide) (by decide) (by decide) (by decide)), by decide⟩

theorem valueType_enc (e : Nat) (t : VT) (b rest : List UInt8) (h : EncValType t b) :
    valueType e (b ++ rest) = .ok (absVT t, rest) := by
  rw [h]
  obtain ⟨c, hc, hd⟩ := i32_valtype_byte e t rest
  unfold valueType
  rw [bind_eq_of_ok hc, hd]
  rfl

theorem valueTypes_enc (e : Nat) {ts : List VT} {b : List UInt8} (h : EncVector EncValType ts b) (rest : List UInt8)
    (ecount : Nat) :
    (u32 ecount >>= fun n => vec (valueType e) n) (b ++ rest) = .ok (ts.map absVT, rest) := by
  cases h with
  | @mk c body hc hb =>
    rw [List.append_assoc, bind_eq_of_ok (u32_uleb _ hc (body ++ rest))]
    exact vec_enc (fun a b rest h => valueType_enc e a b rest h) hb rest

theorem functionType_enc (ft : FuncTy) (b rest : List UInt8) (h : EncFuncType ft b) :
    functionType (b ++ rest) = .ok (absFuncTy ft, rest) := by
  cases h with
  | @mk p r hp hr =>
    unfold functionType
    have hb : byte E.invalidFunctionTypeIndicator ((0x60 :: (p ++ r)) ++ rest) = .ok (0x60, p ++ (r ++ rest)) := by
      simp [byte, List.append_assoc]
    rw [bind_eq_of_ok hb, ite_run, if_neg (by decide)]
    cases hp with
    | @mk c1 body1 hc1 hb1 =>
    cases hr with
    | @mk c2 body2 hc2 hb2 =>
      rw [List.append_assoc, bind_eq_of_ok (u32_uleb _ hc1 _),
        bind_eq_of_ok (vec_enc (fun a b rest h => valueType_enc _ a b rest h) hb1 _),
        List.append_assoc, bind_eq_of_ok (u32_uleb _ hc2 _),
        bind_eq_of_ok (vec_enc (fun a b rest h => valueType_enc _ a b rest h) hb2 _)]
      rfl

/-- type section -/
theorem typeSection_roundtrip (m : RawModule) (tys : List FuncTy) (payload rest : List UInt8)
    (h : EncVector EncFuncType tys payload) :
    typeSection m (payload ++ rest) = .ok ({ m with types := tys.map absFuncTy }, rest) := by
  cases h with
  | @mk c body hc hb =>
    unfold typeSection
    rw [List.append_assoc, bind_eq_of_ok (u32_uleb _ hc _),
      bind_eq_of_ok (vec_enc (fun a b rest h => functionType_enc a b rest h) hb rest)]
    rfl

/-- `vec_enc` when the element reader is only known to succeed on the elements of this list -/
theorem vec_enc_mem {α β : Type} {E : α → List UInt8 → Prop} {p : P β} {f : α → β} :
    ∀ {as : List α} {body : List UInt8}, EncSeq E as body →
      (∀ a ∈ as, ∀ b rest, E a b → p (b ++ rest) = .ok (f a, rest)) →
      ∀ rest, vec p as.length (body ++ rest) = .ok (as.map f, rest) := by
  intro as body h
  induction h with
  | nil => intro _ rest; rfl
  | @cons a as b bs ha _ ih =>
    intro hp rest
    show (p >>= fun x => vec p as.length >>= fun xs => pure (x :: xs)) ((b ++ bs) ++ rest) = _
    rw [List.append_assoc, bind_eq_of_ok (hp a (by simp) b (bs ++ rest) ha),
      bind_eq_of_ok (ih (fun x hx => hp x (by simp [hx])) rest)]
    rfl

/-- function section (the type indices of a valid module are below the number of types; an index that is not
    is rejected with `InvalidFunctionTypeIndex`) -/
theorem functionSection_roundtrip (m : RawModule) (idxs : List Nat) (payload rest : List UInt8)
    (h : EncVector (fun (i : Nat) b => ULeb 32 i b) idxs payload) (hvalid : ∀ i ∈ idxs, i < m.types.length) :
    functionSection m (payload ++ rest) = .ok ({ m with functions := idxs.map Function.empty }, rest) := by
  cases h with
  | @mk c body hc hb =>
    unfold functionSection
    rw [List.append_assoc, bind_eq_of_ok (u32_uleb _ hc _)]
    have hentry : ∀ a ∈ idxs, ∀ (b rest : List UInt8), ULeb 32 a b →
        functionEntry m.types.length (b ++ rest) = .ok (Function.empty a, rest) := by
      intro a ha b rest hb
      unfold functionEntry
      rw [bind_eq_of_ok (u32_uleb _ hb rest), ite_run, if_neg (by have := hvalid a ha; omega)]
      rfl
    rw [bind_eq_of_ok (vec_enc_mem hb hentry rest)]
    rfl

theorem limits_enc (l : Lim) (b rest : List UInt8) (h : EncLimits l b) :
    ∃ lm hasMax, limits (b ++ rest) = .ok ((lm, hasMax), rest) ∧
      (match l with
       | .noMax n => lm = { min := n, max := 0, shared := false } ∧ hasMax = false
       | .withMax n m => lm = { min := n, max := m, shared := false } ∧ hasMax = true
       | .shared n m => lm = { min := n, max := m, shared := true } ∧ hasMax = true) := by
  cases h with
  | @noMax n a ha =>
    refine ⟨_, _, ?_, rfl, rfl⟩
    unfold limits
    have hb : byte E.invalidLimitKind ((0x00 :: a) ++ rest) = .ok (0x00, a ++ rest) := rfl
    rw [bind_eq_of_ok hb, bind_eq_of_ok (u32_uleb _ ha rest)]
    rfl
  | @withMax n mx a b2 ha hb2 =>
    refine ⟨_, _, ?_, rfl, rfl⟩
    unfold limits
    have hb : byte E.invalidLimitKind ((0x01 :: (a ++ b2)) ++ rest) = .ok (0x01, a ++ (b2 ++ rest)) := by
      simp [byte, List.append_assoc]
    rw [bind_eq_of_ok hb, bind_eq_of_ok (u32_uleb _ ha _)]
    have hk : Reader.limitKinds.find? (fun r => r.1 = (0x01 : UInt8).toNat) = some (1, true, false) := by decide
    rw [hk]
    show (u32 E.invalidLimitMaximum >>= _) (b2 ++ rest) = _
    rw [bind_eq_of_ok (u32_uleb _ hb2 rest)]
    rfl
  | @shared n mx a b2 ha hb2 =>
    refine ⟨_, _, ?_, rfl, rfl⟩
    unfold limits
    have hb : byte E.invalidLimitKind ((0x03 :: (a ++ b2)) ++ rest) = .ok (0x03, a ++ (b2 ++ rest)) := by
      simp [byte, List.append_assoc]
    rw [bind_eq_of_ok hb, bind_eq_of_ok (u32_uleb _ ha _)]
    have hk : Reader.limitKinds.find? (fun r => r.1 = (0x03 : UInt8).toNat) = some (3, true, true) := by decide
    rw [hk]
    show (u32 E.invalidLimitMaximum >>= _) (b2 ++ rest) = _
    rw [bind_eq_of_ok (u32_uleb _ hb2 rest)]
    rfl

theorem memoryType_enc (l : Lim) (b rest : List UInt8) (h : EncLimits l b) :
    memoryType (b ++ rest) = .ok (absMemLimits l, rest) := by
  obtain ⟨lm, hm, hl, hcase⟩ := limits_enc l b rest h
  unfold memoryType
  rw [bind_eq_of_ok hl]
  have hrule : Reader.memoryMaxRule = "noMaxOrTooLarge" := rfl
  cases l with
  | noMax n => obtain ⟨rfl, rfl⟩ := hcase; rfl
  | withMax n m =>
    obtain ⟨rfl, rfl⟩ := hcase
    show Res.ok (_, rest) = _
    simp only [useDefaultMax, hrule, absMemLimits, Bool.not_true, Bool.false_or]
    by_cases hc : Reader.memoryDefaultMax < m <;> simp [hc]
  | shared n m =>
    obtain ⟨rfl, rfl⟩ := hcase
    show Res.ok (_, rest) = _
    simp only [useDefaultMax, hrule, absMemLimits, Bool.not_true, Bool.false_or]
    by_cases hc : Reader.memoryDefaultMax < m <;> simp [hc]

theorem tableType_enc (l : Lim) (b rest : List UInt8) (h : EncTableType l b) :
    tableType (b ++ rest) = .ok (absTableLimits l, rest) := by
  cases h with
  | @mk b' hl' =>
    obtain ⟨lm, hm, hl, hcase⟩ := limits_enc l b' rest hl'
    unfold tableType
    have hb : byte E.invalidTableSectionTableType ((0x70 :: b') ++ rest) = .ok (0x70, b' ++ rest) := rfl
    rw [bind_eq_of_ok hb, ite_run, if_neg (by decide), bind_eq_of_ok hl]
    cases l with
    | noMax n => obtain ⟨rfl, rfl⟩ := hcase; rfl
    | withMax n m => obtain ⟨rfl, rfl⟩ := hcase; rfl
    | shared n m => obtain ⟨rfl, rfl⟩ := hcase; rfl

/-- memory section: limits kinds 0x00 / 0x01 / 0x03 (shared), default and clamped maxima -/
theorem memorySection_roundtrip (m : RawModule) (ls : List Lim) (payload rest : List UInt8)
    (h : EncVector EncLimits ls payload) :
    memorySection m (payload ++ rest) = .ok ({ m with memories := ls.map absMemLimits }, rest) := by
  cases h with
  | @mk c body hc hb =>
    unfold memorySection
    rw [List.append_assoc, bind_eq_of_ok (u32_uleb _ hc _),
      bind_eq_of_ok (vec_enc (fun a b rest h => memoryType_enc a b rest h) hb rest)]
    rfl

/-- table section -/
theorem tableSection_roundtrip (m : RawModule) (ls : List Lim) (payload rest : List UInt8)
    (h : EncVector EncTableType ls payload) :
    tableSection m (payload ++ rest) = .ok ({ m with tables := ls.map absTableLimits }, rest) := by
  cases h with
  | @mk c body hc hb =>
    unfold tableSection
    rw [List.append_assoc, bind_eq_of_ok (u32_uleb _ hc _),
      bind_eq_of_ok (vec_enc (fun a b rest h => tableType_enc a b rest h) hb rest)]
    rfl

/-- start section and data-count section -/
theorem startSection_roundtrip (m : RawModule) (i : Nat) (payload rest : List UInt8) (h : ULeb 32 i payload) :
    startSection m (payload ++ rest) = .ok ({ m with start := some i }, rest) := by
  unfold startSection
  rw [bind_eq_of_ok (u32_uleb _ h rest)]
  rfl

theorem dataCountSection_roundtrip (m : RawModule) (n : Nat) (payload rest : List UInt8) (h : ULeb 32 n payload) :
    dataCountSection m (payload ++ rest) = .ok (m, rest) := by
  unfold dataCountSection
  rw [bind_eq_of_ok (u32_uleb _ h rest)]
  rfl

/-- **read_encode_roundtrip_partial** — the covered sections in one statement (see the list above). -/
theorem read_encode_roundtrip_partial (m : RawModule) (rest : List UInt8) :
    (∀ tys payload, EncVector EncFuncType tys payload →
      typeSection m (payload ++ rest) = .ok ({ m with types := tys.map absFuncTy }, rest)) ∧
    (∀ ls payload, EncVector EncLimits ls payload →
      memorySection m (payload ++ rest) = .ok ({ m with memories := ls.map absMemLimits }, rest)) ∧
    (∀ ls payload, EncVector EncTableType ls payload →
      tableSection m (payload ++ rest) = .ok ({ m with tables := ls.map absTableLimits }, rest)) ∧
    (∀ idxs payload, EncVector (fun (i : Nat) b => ULeb 32 i b) idxs payload → (∀ i ∈ idxs, i < m.types.length) →
      functionSection m (payload ++ rest) = .ok ({ m with functions := idxs.map Function.empty }, rest)) ∧
    (∀ i payload, ULeb 32 i payload → startSection m (payload ++ rest) = .ok ({ m with start := some i }, rest)) ∧
    (∀ n payload, ULeb 32 n payload → dataCountSection m (payload ++ rest) = .ok (m, rest)) :=
  ⟨fun tys p h => typeSection_roundtrip m tys p rest h, fun ls p h => memorySection_roundtrip m ls p rest h,
   fun ls p h => tableSection_roundtrip m ls p rest h, fun idxs p h hv => functionSection_roundtrip m idxs p rest h hv,
   fun i p h => startSection_roundtrip m i p rest h, fun n p h => dataCountSection_roundtrip m n p rest h⟩

/-! Non-vacuity -/
set_option maxRecDepth 100000 in
example : EncVector EncFuncType [{ params := [.i32], results := [] }] [0x81, 0x00, 0x60, 0x01, 0x7F, 0x00] :=
  EncVector.mk (as := [_]) (c := [0x81, 0x00]) (body := [0x60, 0x01, 0x7F, 0x00])
    (ULeb.more (m := 0) 0x81 (by decide) (by decide) (ULeb.last 0x00 (by decide) (by decide) (by decide)))
    (EncSeq.cons (b := [0x60, 0x01, 0x7F, 0x00]) (bs := [])
      (EncFuncType.mk (p := [0x01, 0x7F]) (r := [0x00])
        (EncVector.mk (as := [VT.i32]) (c := [0x01]) (body := [0x7F]) (ULeb.last 0x01 (by decide) (by decide) (by decide))
          (EncSeq.cons (b := [0x7F]) (bs := []) rfl EncSeq.nil))
        (EncVector.mk (as := []) (c := [0x00]) (body := []) (ULeb.last 0x00 (by decide) (by decide) (by decide)) EncSeq.nil))
      EncSeq.nil)

end W2c2Verif.Props.C08
