/-
  Props.C11Ops — C11, numeric part: for EVERY numeric opcode (integer and floating point) the
  statement w2c2 emits (dispatch table and macros regenerated from the current c.c / w2c2_base.h),
  evaluated by the UB-tracking C semantics `CSem` on ARBITRARY operand values, is never undefined:
  no signed overflow, no shift by >= width, no division overflow, no out-of-range float-to-int
  conversion, no use of a builtin outside its domain.  (Corollaries of C01Ops / C02Ops / C02TruncOps, which
  show each evaluation to be a value or the specified trap; for the 16 float-to-int truncations this rests on
  the exactness of the range guards, Props/C02Guards.)
-/
import W2c2Verif.Props.C01Ops
import W2c2Verif.Props.C02Ops
import W2c2Verif.Props.C02TruncOps

namespace W2c2Verif.Props.C11
open W2c2Verif


theorem no_ub_i32_eqz (x : BitVec 32) (k : UBKind) :
    Model.runNumeric C01.macroDefs "wasmOpcodeI32Eqz" [(.i32, .u32 x)] ≠ .ub k := by
  rw [C01.op_i32_eqz]
  first
  | (intro h; cases h; done)
  | (simp only [Spec.idiv_s, Spec.idiv_u, Spec.irem_s, Spec.irem_u]; repeat' split
     all_goals (intro h; cases h))

theorem no_ub_i32_eq (x : BitVec 32) (y : BitVec 32) (k : UBKind) :
    Model.runNumeric C01.macroDefs "wasmOpcodeI32Eq" [(.i32, .u32 x), (.i32, .u32 y)] ≠ .ub k := by
  rw [C01.op_i32_eq]
  first
  | (intro h; cases h; done)
  | (simp only [Spec.idiv_s, Spec.idiv_u, Spec.irem_s, Spec.irem_u]; repeat' split
     all_goals (intro h; cases h))

theorem no_ub_i32_ne (x : BitVec 32) (y : BitVec 32) (k : UBKind) :
    Model.runNumeric C01.macroDefs "wasmOpcodeI32Ne" [(.i32, .u32 x), (.i32, .u32 y)] ≠ .ub k := by
  rw [C01.op_i32_ne]
  first
  | (intro h; cases h; done)
  | (simp only [Spec.idiv_s, Spec.idiv_u, Spec.irem_s, Spec.irem_u]; repeat' split
     all_goals (intro h; cases h))

theorem no_ub_i32_lt_s (x : BitVec 32) (y : BitVec 32) (k : UBKind) :
    Model.runNumeric C01.macroDefs "wasmOpcodeI32LtS" [(.i32, .u32 x), (.i32, .u32 y)] ≠ .ub k := by
  rw [C01.op_i32_lt_s]
  first
  | (intro h; cases h; done)
  | (simp only [Spec.idiv_s, Spec.idiv_u, Spec.irem_s, Spec.irem_u]; repeat' split
     all_goals (intro h; cases h))

theorem no_ub_i32_lt_u (x : BitVec 32) (y : BitVec 32) (k : UBKind) :
    Model.runNumeric C01.macroDefs "wasmOpcodeI32LtU" [(.i32, .u32 x), (.i32, .u32 y)] ≠ .ub k := by
  rw [C01.op_i32_lt_u]
  first
  | (intro h; cases h; done)
  | (simp only [Spec.idiv_s, Spec.idiv_u, Spec.irem_s, Spec.irem_u]; repeat' split
     all_goals (intro h; cases h))

theorem no_ub_i32_gt_s (x : BitVec 32) (y : BitVec 32) (k : UBKind) :
    Model.runNumeric C01.macroDefs "wasmOpcodeI32GtS" [(.i32, .u32 x), (.i32, .u32 y)] ≠ .ub k := by
  rw [C01.op_i32_gt_s]
  first
  | (intro h; cases h; done)
  | (simp only [Spec.idiv_s, Spec.idiv_u, Spec.irem_s, Spec.irem_u]; repeat' split
     all_goals (intro h; cases h))

theorem no_ub_i32_gt_u (x : BitVec 32) (y : BitVec 32) (k : UBKind) :
    Model.runNumeric C01.macroDefs "wasmOpcodeI32GtU" [(.i32, .u32 x), (.i32, .u32 y)] ≠ .ub k := by
  rw [C01.op_i32_gt_u]
  first
  | (intro h; cases h; done)
  | (simp only [Spec.idiv_s, Spec.idiv_u, Spec.irem_s, Spec.irem_u]; repeat' split
     all_goals (intro h; cases h))

theorem no_ub_i32_le_s (x : BitVec 32) (y : BitVec 32) (k : UBKind) :
    Model.runNumeric C01.macroDefs "wasmOpcodeI32LeS" [(.i32, .u32 x), (.i32, .u32 y)] ≠ .ub k := by
  rw [C01.op_i32_le_s]
  first
  | (intro h; cases h; done)
  | (simp only [Spec.idiv_s, Spec.idiv_u, Spec.irem_s, Spec.irem_u]; repeat' split
     all_goals (intro h; cases h))

theorem no_ub_i32_le_u (x : BitVec 32) (y : BitVec 32) (k : UBKind) :
    Model.runNumeric C01.macroDefs "wasmOpcodeI32LeU" [(.i32, .u32 x), (.i32, .u32 y)] ≠ .ub k := by
  rw [C01.op_i32_le_u]
  first
  | (intro h; cases h; done)
  | (simp only [Spec.idiv_s, Spec.idiv_u, Spec.irem_s, Spec.irem_u]; repeat' split
     all_goals (intro h; cases h))

theorem no_ub_i32_ge_s (x : BitVec 32) (y : BitVec 32) (k : UBKind) :
    Model.runNumeric C01.macroDefs "wasmOpcodeI32GeS" [(.i32, .u32 x), (.i32, .u32 y)] ≠ .ub k := by
  rw [C01.op_i32_ge_s]
  first
  | (intro h; cases h; done)
  | (simp only [Spec.idiv_s, Spec.idiv_u, Spec.irem_s, Spec.irem_u]; repeat' split
     all_goals (intro h; cases h))

theorem no_ub_i32_ge_u (x : BitVec 32) (y : BitVec 32) (k : UBKind) :
    Model.runNumeric C01.macroDefs "wasmOpcodeI32GeU" [(.i32, .u32 x), (.i32, .u32 y)] ≠ .ub k := by
  rw [C01.op_i32_ge_u]
  first
  | (intro h; cases h; done)
  | (simp only [Spec.idiv_s, Spec.idiv_u, Spec.irem_s, Spec.irem_u]; repeat' split
     all_goals (intro h; cases h))

theorem no_ub_i32_clz (x : BitVec 32) (k : UBKind) :
    Model.runNumeric C01.macroDefs "wasmOpcodeI32Clz" [(.i32, .u32 x)] ≠ .ub k := by
  rw [C01.op_i32_clz]
  first
  | (intro h; cases h; done)
  | (simp only [Spec.idiv_s, Spec.idiv_u, Spec.irem_s, Spec.irem_u]; repeat' split
     all_goals (intro h; cases h))

theorem no_ub_i32_ctz (x : BitVec 32) (k : UBKind) :
    Model.runNumeric C01.macroDefs "wasmOpcodeI32Ctz" [(.i32, .u32 x)] ≠ .ub k := by
  rw [C01.op_i32_ctz]
  first
  | (intro h; cases h; done)
  | (simp only [Spec.idiv_s, Spec.idiv_u, Spec.irem_s, Spec.irem_u]; repeat' split
     all_goals (intro h; cases h))

theorem no_ub_i32_popcnt (x : BitVec 32) (k : UBKind) :
    Model.runNumeric C01.macroDefs "wasmOpcodeI32PopCnt" [(.i32, .u32 x)] ≠ .ub k := by
  rw [C01.op_i32_popcnt]
  first
  | (intro h; cases h; done)
  | (simp only [Spec.idiv_s, Spec.idiv_u, Spec.irem_s, Spec.irem_u]; repeat' split
     all_goals (intro h; cases h))

theorem no_ub_i32_add (x : BitVec 32) (y : BitVec 32) (k : UBKind) :
    Model.runNumeric C01.macroDefs "wasmOpcodeI32Add" [(.i32, .u32 x), (.i32, .u32 y)] ≠ .ub k := by
  rw [C01.op_i32_add]
  first
  | (intro h; cases h; done)
  | (simp only [Spec.idiv_s, Spec.idiv_u, Spec.irem_s, Spec.irem_u]; repeat' split
     all_goals (intro h; cases h))

theorem no_ub_i32_sub (x : BitVec 32) (y : BitVec 32) (k : UBKind) :
    Model.runNumeric C01.macroDefs "wasmOpcodeI32Sub" [(.i32, .u32 x), (.i32, .u32 y)] ≠ .ub k := by
  rw [C01.op_i32_sub]
  first
  | (intro h; cases h; done)
  | (simp only [Spec.idiv_s, Spec.idiv_u, Spec.irem_s, Spec.irem_u]; repeat' split
     all_goals (intro h; cases h))

theorem no_ub_i32_mul (x : BitVec 32) (y : BitVec 32) (k : UBKind) :
    Model.runNumeric C01.macroDefs "wasmOpcodeI32Mul" [(.i32, .u32 x), (.i32, .u32 y)] ≠ .ub k := by
  rw [C01.op_i32_mul]
  first
  | (intro h; cases h; done)
  | (simp only [Spec.idiv_s, Spec.idiv_u, Spec.irem_s, Spec.irem_u]; repeat' split
     all_goals (intro h; cases h))

theorem no_ub_i32_div_s (x : BitVec 32) (y : BitVec 32) (k : UBKind) :
    Model.runNumeric C01.macroDefs "wasmOpcodeI32DivS" [(.i32, .u32 x), (.i32, .u32 y)] ≠ .ub k := by
  rw [C01.op_i32_div_s]
  first
  | (intro h; cases h; done)
  | (simp only [Spec.idiv_s, Spec.idiv_u, Spec.irem_s, Spec.irem_u]; repeat' split
     all_goals (intro h; cases h))

theorem no_ub_i32_div_u (x : BitVec 32) (y : BitVec 32) (k : UBKind) :
    Model.runNumeric C01.macroDefs "wasmOpcodeI32DivU" [(.i32, .u32 x), (.i32, .u32 y)] ≠ .ub k := by
  rw [C01.op_i32_div_u]
  first
  | (intro h; cases h; done)
  | (simp only [Spec.idiv_s, Spec.idiv_u, Spec.irem_s, Spec.irem_u]; repeat' split
     all_goals (intro h; cases h))

theorem no_ub_i32_rem_s (x : BitVec 32) (y : BitVec 32) (k : UBKind) :
    Model.runNumeric C01.macroDefs "wasmOpcodeI32RemS" [(.i32, .u32 x), (.i32, .u32 y)] ≠ .ub k := by
  rw [C01.op_i32_rem_s]
  first
  | (intro h; cases h; done)
  | (simp only [Spec.idiv_s, Spec.idiv_u, Spec.irem_s, Spec.irem_u]; repeat' split
     all_goals (intro h; cases h))

theorem no_ub_i32_rem_u (x : BitVec 32) (y : BitVec 32) (k : UBKind) :
    Model.runNumeric C01.macroDefs "wasmOpcodeI32RemU" [(.i32, .u32 x), (.i32, .u32 y)] ≠ .ub k := by
  rw [C01.op_i32_rem_u]
  first
  | (intro h; cases h; done)
  | (simp only [Spec.idiv_s, Spec.idiv_u, Spec.irem_s, Spec.irem_u]; repeat' split
     all_goals (intro h; cases h))

theorem no_ub_i32_and (x : BitVec 32) (y : BitVec 32) (k : UBKind) :
    Model.runNumeric C01.macroDefs "wasmOpcodeI32And" [(.i32, .u32 x), (.i32, .u32 y)] ≠ .ub k := by
  rw [C01.op_i32_and]
  first
  | (intro h; cases h; done)
  | (simp only [Spec.idiv_s, Spec.idiv_u, Spec.irem_s, Spec.irem_u]; repeat' split
     all_goals (intro h; cases h))

theorem no_ub_i32_or (x : BitVec 32) (y : BitVec 32) (k : UBKind) :
    Model.runNumeric C01.macroDefs "wasmOpcodeI32Or" [(.i32, .u32 x), (.i32, .u32 y)] ≠ .ub k := by
  rw [C01.op_i32_or]
  first
  | (intro h; cases h; done)
  | (simp only [Spec.idiv_s, Spec.idiv_u, Spec.irem_s, Spec.irem_u]; repeat' split
     all_goals (intro h; cases h))

theorem no_ub_i32_xor (x : BitVec 32) (y : BitVec 32) (k : UBKind) :
    Model.runNumeric C01.macroDefs "wasmOpcodeI32Xor" [(.i32, .u32 x), (.i32, .u32 y)] ≠ .ub k := by
  rw [C01.op_i32_xor]
  first
  | (intro h; cases h; done)
  | (simp only [Spec.idiv_s, Spec.idiv_u, Spec.irem_s, Spec.irem_u]; repeat' split
     all_goals (intro h; cases h))

theorem no_ub_i32_shl (x : BitVec 32) (y : BitVec 32) (k : UBKind) :
    Model.runNumeric C01.macroDefs "wasmOpcodeI32Shl" [(.i32, .u32 x), (.i32, .u32 y)] ≠ .ub k := by
  rw [C01.op_i32_shl]
  first
  | (intro h; cases h; done)
  | (simp only [Spec.idiv_s, Spec.idiv_u, Spec.irem_s, Spec.irem_u]; repeat' split
     all_goals (intro h; cases h))

theorem no_ub_i32_shr_s (x : BitVec 32) (y : BitVec 32) (k : UBKind) :
    Model.runNumeric C01.macroDefs "wasmOpcodeI32ShrS" [(.i32, .u32 x), (.i32, .u32 y)] ≠ .ub k := by
  rw [C01.op_i32_shr_s]
  first
  | (intro h; cases h; done)
  | (simp only [Spec.idiv_s, Spec.idiv_u, Spec.irem_s, Spec.irem_u]; repeat' split
     all_goals (intro h; cases h))

theorem no_ub_i32_shr_u (x : BitVec 32) (y : BitVec 32) (k : UBKind) :
    Model.runNumeric C01.macroDefs "wasmOpcodeI32ShrU" [(.i32, .u32 x), (.i32, .u32 y)] ≠ .ub k := by
  rw [C01.op_i32_shr_u]
  first
  | (intro h; cases h; done)
  | (simp only [Spec.idiv_s, Spec.idiv_u, Spec.irem_s, Spec.irem_u]; repeat' split
     all_goals (intro h; cases h))

theorem no_ub_i32_rotl (x : BitVec 32) (y : BitVec 32) (k : UBKind) :
    Model.runNumeric C01.macroDefs "wasmOpcodeI32Rotl" [(.i32, .u32 x), (.i32, .u32 y)] ≠ .ub k := by
  rw [C01.op_i32_rotl]
  first
  | (intro h; cases h; done)
  | (simp only [Spec.idiv_s, Spec.idiv_u, Spec.irem_s, Spec.irem_u]; repeat' split
     all_goals (intro h; cases h))

theorem no_ub_i32_rotr (x : BitVec 32) (y : BitVec 32) (k : UBKind) :
    Model.runNumeric C01.macroDefs "wasmOpcodeI32Rotr" [(.i32, .u32 x), (.i32, .u32 y)] ≠ .ub k := by
  rw [C01.op_i32_rotr]
  first
  | (intro h; cases h; done)
  | (simp only [Spec.idiv_s, Spec.idiv_u, Spec.irem_s, Spec.irem_u]; repeat' split
     all_goals (intro h; cases h))

theorem no_ub_i64_eqz (x : BitVec 64) (k : UBKind) :
    Model.runNumeric C01.macroDefs "wasmOpcodeI64Eqz" [(.i64, .u64 x)] ≠ .ub k := by
  rw [C01.op_i64_eqz]
  first
  | (intro h; cases h; done)
  | (simp only [Spec.idiv_s, Spec.idiv_u, Spec.irem_s, Spec.irem_u]; repeat' split
     all_goals (intro h; cases h))

theorem no_ub_i64_eq (x : BitVec 64) (y : BitVec 64) (k : UBKind) :
    Model.runNumeric C01.macroDefs "wasmOpcodeI64Eq" [(.i64, .u64 x), (.i64, .u64 y)] ≠ .ub k := by
  rw [C01.op_i64_eq]
  first
  | (intro h; cases h; done)
  | (simp only [Spec.idiv_s, Spec.idiv_u, Spec.irem_s, Spec.irem_u]; repeat' split
     all_goals (intro h; cases h))

theorem no_ub_i64_ne (x : BitVec 64) (y : BitVec 64) (k : UBKind) :
    Model.runNumeric C01.macroDefs "wasmOpcodeI64Ne" [(.i64, .u64 x), (.i64, .u64 y)] ≠ .ub k := by
  rw [C01.op_i64_ne]
  first
  | (intro h; cases h; done)
  | (simp only [Spec.idiv_s, Spec.idiv_u, Spec.irem_s, Spec.irem_u]; repeat' split
     all_goals (intro h; cases h))

theorem no_ub_i64_lt_s (x : BitVec 64) (y : BitVec 64) (k : UBKind) :
    Model.runNumeric C01.macroDefs "wasmOpcodeI64LtS" [(.i64, .u64 x), (.i64, .u64 y)] ≠ .ub k := by
  rw [C01.op_i64_lt_s]
  first
  | (intro h; cases h; done)
  | (simp only [Spec.idiv_s, Spec.idiv_u, Spec.irem_s, Spec.irem_u]; repeat' split
     all_goals (intro h; cases h))

theorem no_ub_i64_lt_u (x : BitVec 64) (y : BitVec 64) (k : UBKind) :
    Model.runNumeric C01.macroDefs "wasmOpcodeI64LtU" [(.i64, .u64 x), (.i64, .u64 y)] ≠ .ub k := by
  rw [C01.op_i64_lt_u]
  first
  | (intro h; cases h; done)
  | (simp only [Spec.idiv_s, Spec.idiv_u, Spec.irem_s, Spec.irem_u]; repeat' split
     all_goals (intro h; cases h))

theorem no_ub_i64_gt_s (x : BitVec 64) (y : BitVec 64) (k : UBKind) :
    Model.runNumeric C01.macroDefs "wasmOpcodeI64GtS" [(.i64, .u64 x), (.i64, .u64 y)] ≠ .ub k := by
  rw [C01.op_i64_gt_s]
  first
  | (intro h; cases h; done)
  | (simp only [Spec.idiv_s, Spec.idiv_u, Spec.irem_s, Spec.irem_u]; repeat' split
     all_goals (intro h; cases h))

theorem no_ub_i64_gt_u (x : BitVec 64) (y : BitVec 64) (k : UBKind) :
    Model.runNumeric C01.macroDefs "wasmOpcodeI64GtU" [(.i64, .u64 x), (.i64, .u64 y)] ≠ .ub k := by
  rw [C01.op_i64_gt_u]
  first
  | (intro h; cases h; done)
  | (simp only [Spec.idiv_s, Spec.idiv_u, Spec.irem_s, Spec.irem_u]; repeat' split
     all_goals (intro h; cases h))

theorem no_ub_i64_le_s (x : BitVec 64) (y : BitVec 64) (k : UBKind) :
    Model.runNumeric C01.macroDefs "wasmOpcodeI64LeS" [(.i64, .u64 x), (.i64, .u64 y)] ≠ .ub k := by
  rw [C01.op_i64_le_s]
  first
  | (intro h; cases h; done)
  | (simp only [Spec.idiv_s, Spec.idiv_u, Spec.irem_s, Spec.irem_u]; repeat' split
     all_goals (intro h; cases h))

theorem no_ub_i64_le_u (x : BitVec 64) (y : BitVec 64) (k : UBKind) :
    Model.runNumeric C01.macroDefs "wasmOpcodeI64LeU" [(.i64, .u64 x), (.i64, .u64 y)] ≠ .ub k := by
  rw [C01.op_i64_le_u]
  first
  | (intro h; cases h; done)
  | (simp only [Spec.idiv_s, Spec.idiv_u, Spec.irem_s, Spec.irem_u]; repeat' split
     all_goals (intro h; cases h))

theorem no_ub_i64_ge_s (x : BitVec 64) (y : BitVec 64) (k : UBKind) :
    Model.runNumeric C01.macroDefs "wasmOpcodeI64GeS" [(.i64, .u64 x), (.i64, .u64 y)] ≠ .ub k := by
  rw [C01.op_i64_ge_s]
  first
  | (intro h; cases h; done)
  | (simp only [Spec.idiv_s, Spec.idiv_u, Spec.irem_s, Spec.irem_u]; repeat' split
     all_goals (intro h; cases h))

theorem no_ub_i64_ge_u (x : BitVec 64) (y : BitVec 64) (k : UBKind) :
    Model.runNumeric C01.macroDefs "wasmOpcodeI64GeU" [(.i64, .u64 x), (.i64, .u64 y)] ≠ .ub k := by
  rw [C01.op_i64_ge_u]
  first
  | (intro h; cases h; done)
  | (simp only [Spec.idiv_s, Spec.idiv_u, Spec.irem_s, Spec.irem_u]; repeat' split
     all_goals (intro h; cases h))

theorem no_ub_i64_clz (x : BitVec 64) (k : UBKind) :
    Model.runNumeric C01.macroDefs "wasmOpcodeI64Clz" [(.i64, .u64 x)] ≠ .ub k := by
  rw [C01.op_i64_clz]
  first
  | (intro h; cases h; done)
  | (simp only [Spec.idiv_s, Spec.idiv_u, Spec.irem_s, Spec.irem_u]; repeat' split
     all_goals (intro h; cases h))

theorem no_ub_i64_ctz (x : BitVec 64) (k : UBKind) :
    Model.runNumeric C01.macroDefs "wasmOpcodeI64Ctz" [(.i64, .u64 x)] ≠ .ub k := by
  rw [C01.op_i64_ctz]
  first
  | (intro h; cases h; done)
  | (simp only [Spec.idiv_s, Spec.idiv_u, Spec.irem_s, Spec.irem_u]; repeat' split
     all_goals (intro h; cases h))

theorem no_ub_i64_popcnt (x : BitVec 64) (k : UBKind) :
    Model.runNumeric C01.macroDefs "wasmOpcodeI64PopCnt" [(.i64, .u64 x)] ≠ .ub k := by
  rw [C01.op_i64_popcnt]
  first
  | (intro h; cases h; done)
  | (simp only [Spec.idiv_s, Spec.idiv_u, Spec.irem_s, Spec.irem_u]; repeat' split
     all_goals (intro h; cases h))

theorem no_ub_i64_add (x : BitVec 64) (y : BitVec 64) (k : UBKind) :
    Model.runNumeric C01.macroDefs "wasmOpcodeI64Add" [(.i64, .u64 x), (.i64, .u64 y)] ≠ .ub k := by
  rw [C01.op_i64_add]
  first
  | (intro h; cases h; done)
  | (simp only [Spec.idiv_s, Spec.idiv_u, Spec.irem_s, Spec.irem_u]; repeat' split
     all_goals (intro h; cases h))

theorem no_ub_i64_sub (x : BitVec 64) (y : BitVec 64) (k : UBKind) :
    Model.runNumeric C01.macroDefs "wasmOpcodeI64Sub" [(.i64, .u64 x), (.i64, .u64 y)] ≠ .ub k := by
  rw [C01.op_i64_sub]
  first
  | (intro h; cases h; done)
  | (simp only [Spec.idiv_s, Spec.idiv_u, Spec.irem_s, Spec.irem_u]; repeat' split
     all_goals (intro h; cases h))

theorem no_ub_i64_mul (x : BitVec 64) (y : BitVec 64) (k : UBKind) :
    Model.runNumeric C01.macroDefs "wasmOpcodeI64Mul" [(.i64, .u64 x), (.i64, .u64 y)] ≠ .ub k := by
  rw [C01.op_i64_mul]
  first
  | (intro h; cases h; done)
  | (simp only [Spec.idiv_s, Spec.idiv_u, Spec.irem_s, Spec.irem_u]; repeat' split
     all_goals (intro h; cases h))

theorem no_ub_i64_div_s (x : BitVec 64) (y : BitVec 64) (k : UBKind) :
    Model.runNumeric C01.macroDefs "wasmOpcodeI64DivS" [(.i64, .u64 x), (.i64, .u64 y)] ≠ .ub k := by
  rw [C01.op_i64_div_s]
  first
  | (intro h; cases h; done)
  | (simp only [Spec.idiv_s, Spec.idiv_u, Spec.irem_s, Spec.irem_u]; repeat' split
     all_goals (intro h; cases h))

theorem no_ub_i64_div_u (x : BitVec 64) (y : BitVec 64) (k : UBKind) :
    Model.runNumeric C01.macroDefs "wasmOpcodeI64DivU" [(.i64, .u64 x), (.i64, .u64 y)] ≠ .ub k := by
  rw [C01.op_i64_div_u]
  first
  | (intro h; cases h; done)
  | (simp only [Spec.idiv_s, Spec.idiv_u, Spec.irem_s, Spec.irem_u]; repeat' split
     all_goals (intro h; cases h))

theorem no_ub_i64_rem_s (x : BitVec 64) (y : BitVec 64) (k : UBKind) :
    Model.runNumeric C01.macroDefs "wasmOpcodeI64RemS" [(.i64, .u64 x), (.i64, .u64 y)] ≠ .ub k := by
  rw [C01.op_i64_rem_s]
  first
  | (intro h; cases h; done)
  | (simp only [Spec.idiv_s, Spec.idiv_u, Spec.irem_s, Spec.irem_u]; repeat' split
     all_goals (intro h; cases h))

theorem no_ub_i64_rem_u (x : BitVec 64) (y : BitVec 64) (k : UBKind) :
    Model.runNumeric C01.macroDefs "wasmOpcodeI64RemU" [(.i64, .u64 x), (.i64, .u64 y)] ≠ .ub k := by
  rw [C01.op_i64_rem_u]
  first
  | (intro h; cases h; done)
  | (simp only [Spec.idiv_s, Spec.idiv_u, Spec.irem_s, Spec.irem_u]; repeat' split
     all_goals (intro h; cases h))

theorem no_ub_i64_and (x : BitVec 64) (y : BitVec 64) (k : UBKind) :
    Model.runNumeric C01.macroDefs "wasmOpcodeI64And" [(.i64, .u64 x), (.i64, .u64 y)] ≠ .ub k := by
  rw [C01.op_i64_and]
  first
  | (intro h; cases h; done)
  | (simp only [Spec.idiv_s, Spec.idiv_u, Spec.irem_s, Spec.irem_u]; repeat' split
     all_goals (intro h; cases h))

theorem no_ub_i64_or (x : BitVec 64) (y : BitVec 64) (k : UBKind) :
    Model.runNumeric C01.macroDefs "wasmOpcodeI64Or" [(.i64, .u64 x), (.i64, .u64 y)] ≠ .ub k := by
  rw [C01.op_i64_or]
  first
  | (intro h; cases h; done)
  | (simp only [Spec.idiv_s, Spec.idiv_u, Spec.irem_s, Spec.irem_u]; repeat' split
     all_goals (intro h; cases h))

theorem no_ub_i64_xor (x : BitVec 64) (y : BitVec 64) (k : UBKind) :
    Model.runNumeric C01.macroDefs "wasmOpcodeI64Xor" [(.i64, .u64 x), (.i64, .u64 y)] ≠ .ub k := by
  rw [C01.op_i64_xor]
  first
  | (intro h; cases h; done)
  | (simp only [Spec.idiv_s, Spec.idiv_u, Spec.irem_s, Spec.irem_u]; repeat' split
     all_goals (intro h; cases h))

theorem no_ub_i64_shl (x : BitVec 64) (y : BitVec 64) (k : UBKind) :
    Model.runNumeric C01.macroDefs "wasmOpcodeI64Shl" [(.i64, .u64 x), (.i64, .u64 y)] ≠ .ub k := by
  rw [C01.op_i64_shl]
  first
  | (intro h; cases h; done)
  | (simp only [Spec.idiv_s, Spec.idiv_u, Spec.irem_s, Spec.irem_u]; repeat' split
     all_goals (intro h; cases h))

theorem no_ub_i64_shr_s (x : BitVec 64) (y : BitVec 64) (k : UBKind) :
    Model.runNumeric C01.macroDefs "wasmOpcodeI64ShrS" [(.i64, .u64 x), (.i64, .u64 y)] ≠ .ub k := by
  rw [C01.op_i64_shr_s]
  first
  | (intro h; cases h; done)
  | (simp only [Spec.idiv_s, Spec.idiv_u, Spec.irem_s, Spec.irem_u]; repeat' split
     all_goals (intro h; cases h))

theorem no_ub_i64_shr_u (x : BitVec 64) (y : BitVec 64) (k : UBKind) :
    Model.runNumeric C01.macroDefs "wasmOpcodeI64ShrU" [(.i64, .u64 x), (.i64, .u64 y)] ≠ .ub k := by
  rw [C01.op_i64_shr_u]
  first
  | (intro h; cases h; done)
  | (simp only [Spec.idiv_s, Spec.idiv_u, Spec.irem_s, Spec.irem_u]; repeat' split
     all_goals (intro h; cases h))

theorem no_ub_i64_rotl (x : BitVec 64) (y : BitVec 64) (k : UBKind) :
    Model.runNumeric C01.macroDefs "wasmOpcodeI64Rotl" [(.i64, .u64 x), (.i64, .u64 y)] ≠ .ub k := by
  rw [C01.op_i64_rotl]
  first
  | (intro h; cases h; done)
  | (simp only [Spec.idiv_s, Spec.idiv_u, Spec.irem_s, Spec.irem_u]; repeat' split
     all_goals (intro h; cases h))

theorem no_ub_i64_rotr (x : BitVec 64) (y : BitVec 64) (k : UBKind) :
    Model.runNumeric C01.macroDefs "wasmOpcodeI64Rotr" [(.i64, .u64 x), (.i64, .u64 y)] ≠ .ub k := by
  rw [C01.op_i64_rotr]
  first
  | (intro h; cases h; done)
  | (simp only [Spec.idiv_s, Spec.idiv_u, Spec.irem_s, Spec.irem_u]; repeat' split
     all_goals (intro h; cases h))

theorem no_ub_i32_wrap_i64 (x : BitVec 64) (k : UBKind) :
    Model.runNumeric C01.macroDefs "wasmOpcodeI32WrapI64" [(.i64, .u64 x)] ≠ .ub k := by
  rw [C01.op_i32_wrap_i64]
  first
  | (intro h; cases h; done)
  | (simp only [Spec.idiv_s, Spec.idiv_u, Spec.irem_s, Spec.irem_u]; repeat' split
     all_goals (intro h; cases h))

theorem no_ub_i64_extend_i32_s (x : BitVec 32) (k : UBKind) :
    Model.runNumeric C01.macroDefs "wasmOpcodeI64ExtendI32S" [(.i32, .u32 x)] ≠ .ub k := by
  rw [C01.op_i64_extend_i32_s]
  first
  | (intro h; cases h; done)
  | (simp only [Spec.idiv_s, Spec.idiv_u, Spec.irem_s, Spec.irem_u]; repeat' split
     all_goals (intro h; cases h))

theorem no_ub_i64_extend_i32_u (x : BitVec 32) (k : UBKind) :
    Model.runNumeric C01.macroDefs "wasmOpcodeI64ExtendI32U" [(.i32, .u32 x)] ≠ .ub k := by
  rw [C01.op_i64_extend_i32_u]
  first
  | (intro h; cases h; done)
  | (simp only [Spec.idiv_s, Spec.idiv_u, Spec.irem_s, Spec.irem_u]; repeat' split
     all_goals (intro h; cases h))

theorem no_ub_i32_extend8_s (x : BitVec 32) (k : UBKind) :
    Model.runNumeric C01.macroDefs "wasmOpcodeI32Extend8S" [(.i32, .u32 x)] ≠ .ub k := by
  rw [C01.op_i32_extend8_s]
  first
  | (intro h; cases h; done)
  | (simp only [Spec.idiv_s, Spec.idiv_u, Spec.irem_s, Spec.irem_u]; repeat' split
     all_goals (intro h; cases h))

theorem no_ub_i32_extend16_s (x : BitVec 32) (k : UBKind) :
    Model.runNumeric C01.macroDefs "wasmOpcodeI32Extend16S" [(.i32, .u32 x)] ≠ .ub k := by
  rw [C01.op_i32_extend16_s]
  first
  | (intro h; cases h; done)
  | (simp only [Spec.idiv_s, Spec.idiv_u, Spec.irem_s, Spec.irem_u]; repeat' split
     all_goals (intro h; cases h))

theorem no_ub_i64_extend8_s (x : BitVec 64) (k : UBKind) :
    Model.runNumeric C01.macroDefs "wasmOpcodeI64Extend8S" [(.i64, .u64 x)] ≠ .ub k := by
  rw [C01.op_i64_extend8_s]
  first
  | (intro h; cases h; done)
  | (simp only [Spec.idiv_s, Spec.idiv_u, Spec.irem_s, Spec.irem_u]; repeat' split
     all_goals (intro h; cases h))

theorem no_ub_i64_extend16_s (x : BitVec 64) (k : UBKind) :
    Model.runNumeric C01.macroDefs "wasmOpcodeI64Extend16S" [(.i64, .u64 x)] ≠ .ub k := by
  rw [C01.op_i64_extend16_s]
  first
  | (intro h; cases h; done)
  | (simp only [Spec.idiv_s, Spec.idiv_u, Spec.irem_s, Spec.irem_u]; repeat' split
     all_goals (intro h; cases h))

theorem no_ub_i64_extend32_s (x : BitVec 64) (k : UBKind) :
    Model.runNumeric C01.macroDefs "wasmOpcodeI64Extend32S" [(.i64, .u64 x)] ≠ .ub k := by
  rw [C01.op_i64_extend32_s]
  first
  | (intro h; cases h; done)
  | (simp only [Spec.idiv_s, Spec.idiv_u, Spec.irem_s, Spec.irem_u]; repeat' split
     all_goals (intro h; cases h))

theorem no_ub_f32_eq (x : BitVec 32) (y : BitVec 32) (k : UBKind) :
    Model.runNumeric C01.macroDefs "wasmOpcodeF32Eq" [(.f32, .f32 x), (.f32, .f32 y)] ≠ .ub k := by
  rw [C02.op_f32_eq]
  first
  | (intro h; cases h; done)
  | (simp only [Spec.idiv_s, Spec.idiv_u, Spec.irem_s, Spec.irem_u]; repeat' split
     all_goals (intro h; cases h))

theorem no_ub_f32_ne (x : BitVec 32) (y : BitVec 32) (k : UBKind) :
    Model.runNumeric C01.macroDefs "wasmOpcodeF32Ne" [(.f32, .f32 x), (.f32, .f32 y)] ≠ .ub k := by
  rw [C02.op_f32_ne]
  first
  | (intro h; cases h; done)
  | (simp only [Spec.idiv_s, Spec.idiv_u, Spec.irem_s, Spec.irem_u]; repeat' split
     all_goals (intro h; cases h))

theorem no_ub_f32_lt (x : BitVec 32) (y : BitVec 32) (k : UBKind) :
    Model.runNumeric C01.macroDefs "wasmOpcodeF32Lt" [(.f32, .f32 x), (.f32, .f32 y)] ≠ .ub k := by
  rw [C02.op_f32_lt]
  first
  | (intro h; cases h; done)
  | (simp only [Spec.idiv_s, Spec.idiv_u, Spec.irem_s, Spec.irem_u]; repeat' split
     all_goals (intro h; cases h))

theorem no_ub_f32_gt (x : BitVec 32) (y : BitVec 32) (k : UBKind) :
    Model.runNumeric C01.macroDefs "wasmOpcodeF32Gt" [(.f32, .f32 x), (.f32, .f32 y)] ≠ .ub k := by
  rw [C02.op_f32_gt]
  first
  | (intro h; cases h; done)
  | (simp only [Spec.idiv_s, Spec.idiv_u, Spec.irem_s, Spec.irem_u]; repeat' split
     all_goals (intro h; cases h))

theorem no_ub_f32_le (x : BitVec 32) (y : BitVec 32) (k : UBKind) :
    Model.runNumeric C01.macroDefs "wasmOpcodeF32Le" [(.f32, .f32 x), (.f32, .f32 y)] ≠ .ub k := by
  rw [C02.op_f32_le]
  first
  | (intro h; cases h; done)
  | (simp only [Spec.idiv_s, Spec.idiv_u, Spec.irem_s, Spec.irem_u]; repeat' split
     all_goals (intro h; cases h))

theorem no_ub_f32_ge (x : BitVec 32) (y : BitVec 32) (k : UBKind) :
    Model.runNumeric C01.macroDefs "wasmOpcodeF32Ge" [(.f32, .f32 x), (.f32, .f32 y)] ≠ .ub k := by
  rw [C02.op_f32_ge]
  first
  | (intro h; cases h; done)
  | (simp only [Spec.idiv_s, Spec.idiv_u, Spec.irem_s, Spec.irem_u]; repeat' split
     all_goals (intro h; cases h))

theorem no_ub_f32_abs (x : BitVec 32) (k : UBKind) :
    Model.runNumeric C01.macroDefs "wasmOpcodeF32Abs" [(.f32, .f32 x)] ≠ .ub k := by
  rw [C02.op_f32_abs]
  first
  | (intro h; cases h; done)
  | (simp only [Spec.idiv_s, Spec.idiv_u, Spec.irem_s, Spec.irem_u]; repeat' split
     all_goals (intro h; cases h))

theorem no_ub_f32_neg (x : BitVec 32) (k : UBKind) :
    Model.runNumeric C01.macroDefs "wasmOpcodeF32Neg" [(.f32, .f32 x)] ≠ .ub k := by
  rw [C02.op_f32_neg]
  first
  | (intro h; cases h; done)
  | (simp only [Spec.idiv_s, Spec.idiv_u, Spec.irem_s, Spec.irem_u]; repeat' split
     all_goals (intro h; cases h))

theorem no_ub_f32_ceil (x : BitVec 32) (k : UBKind) :
    Model.runNumeric C01.macroDefs "wasmOpcodeF32Ceil" [(.f32, .f32 x)] ≠ .ub k := by
  rw [C02.op_f32_ceil]
  first
  | (intro h; cases h; done)
  | (simp only [Spec.idiv_s, Spec.idiv_u, Spec.irem_s, Spec.irem_u]; repeat' split
     all_goals (intro h; cases h))

theorem no_ub_f32_floor (x : BitVec 32) (k : UBKind) :
    Model.runNumeric C01.macroDefs "wasmOpcodeF32Floor" [(.f32, .f32 x)] ≠ .ub k := by
  rw [C02.op_f32_floor]
  first
  | (intro h; cases h; done)
  | (simp only [Spec.idiv_s, Spec.idiv_u, Spec.irem_s, Spec.irem_u]; repeat' split
     all_goals (intro h; cases h))

theorem no_ub_f32_trunc (x : BitVec 32) (k : UBKind) :
    Model.runNumeric C01.macroDefs "wasmOpcodeF32Trunc" [(.f32, .f32 x)] ≠ .ub k := by
  rw [C02.op_f32_trunc]
  first
  | (intro h; cases h; done)
  | (simp only [Spec.idiv_s, Spec.idiv_u, Spec.irem_s, Spec.irem_u]; repeat' split
     all_goals (intro h; cases h))

theorem no_ub_f32_nearest (x : BitVec 32) (k : UBKind) :
    Model.runNumeric C01.macroDefs "wasmOpcodeF32Nearest" [(.f32, .f32 x)] ≠ .ub k := by
  rw [C02.op_f32_nearest]
  first
  | (intro h; cases h; done)
  | (simp only [Spec.idiv_s, Spec.idiv_u, Spec.irem_s, Spec.irem_u]; repeat' split
     all_goals (intro h; cases h))

theorem no_ub_f32_sqrt (x : BitVec 32) (k : UBKind) :
    Model.runNumeric C01.macroDefs "wasmOpcodeF32Sqrt" [(.f32, .f32 x)] ≠ .ub k := by
  rw [C02.op_f32_sqrt]
  first
  | (intro h; cases h; done)
  | (simp only [Spec.idiv_s, Spec.idiv_u, Spec.irem_s, Spec.irem_u]; repeat' split
     all_goals (intro h; cases h))

theorem no_ub_f32_add (x : BitVec 32) (y : BitVec 32) (k : UBKind) :
    Model.runNumeric C01.macroDefs "wasmOpcodeF32Add" [(.f32, .f32 x), (.f32, .f32 y)] ≠ .ub k := by
  rw [C02.op_f32_add]
  first
  | (intro h; cases h; done)
  | (simp only [Spec.idiv_s, Spec.idiv_u, Spec.irem_s, Spec.irem_u]; repeat' split
     all_goals (intro h; cases h))

theorem no_ub_f32_sub (x : BitVec 32) (y : BitVec 32) (k : UBKind) :
    Model.runNumeric C01.macroDefs "wasmOpcodeF32Sub" [(.f32, .f32 x), (.f32, .f32 y)] ≠ .ub k := by
  rw [C02.op_f32_sub]
  first
  | (intro h; cases h; done)
  | (simp only [Spec.idiv_s, Spec.idiv_u, Spec.irem_s, Spec.irem_u]; repeat' split
     all_goals (intro h; cases h))

theorem no_ub_f32_mul (x : BitVec 32) (y : BitVec 32) (k : UBKind) :
    Model.runNumeric C01.macroDefs "wasmOpcodeF32Mul" [(.f32, .f32 x), (.f32, .f32 y)] ≠ .ub k := by
  rw [C02.op_f32_mul]
  first
  | (intro h; cases h; done)
  | (simp only [Spec.idiv_s, Spec.idiv_u, Spec.irem_s, Spec.irem_u]; repeat' split
     all_goals (intro h; cases h))

theorem no_ub_f32_div (x : BitVec 32) (y : BitVec 32) (k : UBKind) :
    Model.runNumeric C01.macroDefs "wasmOpcodeF32Div" [(.f32, .f32 x), (.f32, .f32 y)] ≠ .ub k := by
  rw [C02.op_f32_div]
  first
  | (intro h; cases h; done)
  | (simp only [Spec.idiv_s, Spec.idiv_u, Spec.irem_s, Spec.irem_u]; repeat' split
     all_goals (intro h; cases h))

theorem no_ub_f32_min (x : BitVec 32) (y : BitVec 32) (k : UBKind) :
    Model.runNumeric C01.macroDefs "wasmOpcodeF32Min" [(.f32, .f32 x), (.f32, .f32 y)] ≠ .ub k := by
  rw [C02.op_f32_min]
  first
  | (intro h; cases h; done)
  | (simp only [Spec.idiv_s, Spec.idiv_u, Spec.irem_s, Spec.irem_u]; repeat' split
     all_goals (intro h; cases h))

theorem no_ub_f32_max (x : BitVec 32) (y : BitVec 32) (k : UBKind) :
    Model.runNumeric C01.macroDefs "wasmOpcodeF32Max" [(.f32, .f32 x), (.f32, .f32 y)] ≠ .ub k := by
  rw [C02.op_f32_max]
  first
  | (intro h; cases h; done)
  | (simp only [Spec.idiv_s, Spec.idiv_u, Spec.irem_s, Spec.irem_u]; repeat' split
     all_goals (intro h; cases h))

theorem no_ub_f32_copysign (x : BitVec 32) (y : BitVec 32) (k : UBKind) :
    Model.runNumeric C01.macroDefs "wasmOpcodeF32CopySign" [(.f32, .f32 x), (.f32, .f32 y)] ≠ .ub k := by
  rw [C02.op_f32_copysign]
  first
  | (intro h; cases h; done)
  | (simp only [Spec.idiv_s, Spec.idiv_u, Spec.irem_s, Spec.irem_u]; repeat' split
     all_goals (intro h; cases h))

theorem no_ub_f64_eq (x : BitVec 64) (y : BitVec 64) (k : UBKind) :
    Model.runNumeric C01.macroDefs "wasmOpcodeF64Eq" [(.f64, .f64 x), (.f64, .f64 y)] ≠ .ub k := by
  rw [C02.op_f64_eq]
  first
  | (intro h; cases h; done)
  | (simp only [Spec.idiv_s, Spec.idiv_u, Spec.irem_s, Spec.irem_u]; repeat' split
     all_goals (intro h; cases h))

theorem no_ub_f64_ne (x : BitVec 64) (y : BitVec 64) (k : UBKind) :
    Model.runNumeric C01.macroDefs "wasmOpcodeF64Ne" [(.f64, .f64 x), (.f64, .f64 y)] ≠ .ub k := by
  rw [C02.op_f64_ne]
  first
  | (intro h; cases h; done)
  | (simp only [Spec.idiv_s, Spec.idiv_u, Spec.irem_s, Spec.irem_u]; repeat' split
     all_goals (intro h; cases h))

theorem no_ub_f64_lt (x : BitVec 64) (y : BitVec 64) (k : UBKind) :
    Model.runNumeric C01.macroDefs "wasmOpcodeF64Lt" [(.f64, .f64 x), (.f64, .f64 y)] ≠ .ub k := by
  rw [C02.op_f64_lt]
  first
  | (intro h; cases h; done)
  | (simp only [Spec.idiv_s, Spec.idiv_u, Spec.irem_s, Spec.irem_u]; repeat' split
     all_goals (intro h; cases h))

theorem no_ub_f64_gt (x : BitVec 64) (y : BitVec 64) (k : UBKind) :
    Model.runNumeric C01.macroDefs "wasmOpcodeF64Gt" [(.f64, .f64 x), (.f64, .f64 y)] ≠ .ub k := by
  rw [C02.op_f64_gt]
  first
  | (intro h; cases h; done)
  | (simp only [Spec.idiv_s, Spec.idiv_u, Spec.irem_s, Spec.irem_u]; repeat' split
     all_goals (intro h; cases h))

theorem no_ub_f64_le (x : BitVec 64) (y : BitVec 64) (k : UBKind) :
    Model.runNumeric C01.macroDefs "wasmOpcodeF64Le" [(.f64, .f64 x), (.f64, .f64 y)] ≠ .ub k := by
  rw [C02.op_f64_le]
  first
  | (intro h; cases h; done)
  | (simp only [Spec.idiv_s, Spec.idiv_u, Spec.irem_s, Spec.irem_u]; repeat' split
     all_goals (intro h; cases h))

theorem no_ub_f64_ge (x : BitVec 64) (y : BitVec 64) (k : UBKind) :
    Model.runNumeric C01.macroDefs "wasmOpcodeF64Ge" [(.f64, .f64 x), (.f64, .f64 y)] ≠ .ub k := by
  rw [C02.op_f64_ge]
  first
  | (intro h; cases h; done)
  | (simp only [Spec.idiv_s, Spec.idiv_u, Spec.irem_s, Spec.irem_u]; repeat' split
     all_goals (intro h; cases h))

theorem no_ub_f64_abs (x : BitVec 64) (k : UBKind) :
    Model.runNumeric C01.macroDefs "wasmOpcodeF64Abs" [(.f64, .f64 x)] ≠ .ub k := by
  rw [C02.op_f64_abs]
  first
  | (intro h; cases h; done)
  | (simp only [Spec.idiv_s, Spec.idiv_u, Spec.irem_s, Spec.irem_u]; repeat' split
     all_goals (intro h; cases h))

theorem no_ub_f64_neg (x : BitVec 64) (k : UBKind) :
    Model.runNumeric C01.macroDefs "wasmOpcodeF64Neg" [(.f64, .f64 x)] ≠ .ub k := by
  rw [C02.op_f64_neg]
  first
  | (intro h; cases h; done)
  | (simp only [Spec.idiv_s, Spec.idiv_u, Spec.irem_s, Spec.irem_u]; repeat' split
     all_goals (intro h; cases h))

theorem no_ub_f64_ceil (x : BitVec 64) (k : UBKind) :
    Model.runNumeric C01.macroDefs "wasmOpcodeF64Ceil" [(.f64, .f64 x)] ≠ .ub k := by
  rw [C02.op_f64_ceil]
  first
  | (intro h; cases h; done)
  | (simp only [Spec.idiv_s, Spec.idiv_u, Spec.irem_s, Spec.irem_u]; repeat' split
     all_goals (intro h; cases h))

theorem no_ub_f64_floor (x : BitVec 64) (k : UBKind) :
    Model.runNumeric C01.macroDefs "wasmOpcodeF64Floor" [(.f64, .f64 x)] ≠ .ub k := by
  rw [C02.op_f64_floor]
  first
  | (intro h; cases h; done)
  | (simp only [Spec.idiv_s, Spec.idiv_u, Spec.irem_s, Spec.irem_u]; repeat' split
     all_goals (intro h; cases h))

theorem no_ub_f64_trunc (x : BitVec 64) (k : UBKind) :
    Model.runNumeric C01.macroDefs "wasmOpcodeF64Trunc" [(.f64, .f64 x)] ≠ .ub k := by
  rw [C02.op_f64_trunc]
  first
  | (intro h; cases h; done)
  | (simp only [Spec.idiv_s, Spec.idiv_u, Spec.irem_s, Spec.irem_u]; repeat' split
     all_goals (intro h; cases h))

theorem no_ub_f64_nearest (x : BitVec 64) (k : UBKind) :
    Model.runNumeric C01.macroDefs "wasmOpcodeF64Nearest" [(.f64, .f64 x)] ≠ .ub k := by
  rw [C02.op_f64_nearest]
  first
  | (intro h; cases h; done)
  | (simp only [Spec.idiv_s, Spec.idiv_u, Spec.irem_s, Spec.irem_u]; repeat' split
     all_goals (intro h; cases h))

theorem no_ub_f64_sqrt (x : BitVec 64) (k : UBKind) :
    Model.runNumeric C01.macroDefs "wasmOpcodeF64Sqrt" [(.f64, .f64 x)] ≠ .ub k := by
  rw [C02.op_f64_sqrt]
  first
  | (intro h; cases h; done)
  | (simp only [Spec.idiv_s, Spec.idiv_u, Spec.irem_s, Spec.irem_u]; repeat' split
     all_goals (intro h; cases h))

theorem no_ub_f64_add (x : BitVec 64) (y : BitVec 64) (k : UBKind) :
    Model.runNumeric C01.macroDefs "wasmOpcodeF64Add" [(.f64, .f64 x), (.f64, .f64 y)] ≠ .ub k := by
  rw [C02.op_f64_add]
  first
  | (intro h; cases h; done)
  | (simp only [Spec.idiv_s, Spec.idiv_u, Spec.irem_s, Spec.irem_u]; repeat' split
     all_goals (intro h; cases h))

theorem no_ub_f64_sub (x : BitVec 64) (y : BitVec 64) (k : UBKind) :
    Model.runNumeric C01.macroDefs "wasmOpcodeF64Sub" [(.f64, .f64 x), (.f64, .f64 y)] ≠ .ub k := by
  rw [C02.op_f64_sub]
  first
  | (intro h; cases h; done)
  | (simp only [Spec.idiv_s, Spec.idiv_u, Spec.irem_s, Spec.irem_u]; repeat' split
     all_goals (intro h; cases h))

theorem no_ub_f64_mul (x : BitVec 64) (y : BitVec 64) (k : UBKind) :
    Model.runNumeric C01.macroDefs "wasmOpcodeF64Mul" [(.f64, .f64 x), (.f64, .f64 y)] ≠ .ub k := by
  rw [C02.op_f64_mul]
  first
  | (intro h; cases h; done)
  | (simp only [Spec.idiv_s, Spec.idiv_u, Spec.irem_s, Spec.irem_u]; repeat' split
     all_goals (intro h; cases h))

theorem no_ub_f64_div (x : BitVec 64) (y : BitVec 64) (k : UBKind) :
    Model.runNumeric C01.macroDefs "wasmOpcodeF64Div" [(.f64, .f64 x), (.f64, .f64 y)] ≠ .ub k := by
  rw [C02.op_f64_div]
  first
  | (intro h; cases h; done)
  | (simp only [Spec.idiv_s, Spec.idiv_u, Spec.irem_s, Spec.irem_u]; repeat' split
     all_goals (intro h; cases h))

theorem no_ub_f64_min (x : BitVec 64) (y : BitVec 64) (k : UBKind) :
    Model.runNumeric C01.macroDefs "wasmOpcodeF64Min" [(.f64, .f64 x), (.f64, .f64 y)] ≠ .ub k := by
  rw [C02.op_f64_min]
  first
  | (intro h; cases h; done)
  | (simp only [Spec.idiv_s, Spec.idiv_u, Spec.irem_s, Spec.irem_u]; repeat' split
     all_goals (intro h; cases h))

theorem no_ub_f64_max (x : BitVec 64) (y : BitVec 64) (k : UBKind) :
    Model.runNumeric C01.macroDefs "wasmOpcodeF64Max" [(.f64, .f64 x), (.f64, .f64 y)] ≠ .ub k := by
  rw [C02.op_f64_max]
  first
  | (intro h; cases h; done)
  | (simp only [Spec.idiv_s, Spec.idiv_u, Spec.irem_s, Spec.irem_u]; repeat' split
     all_goals (intro h; cases h))

theorem no_ub_f64_copysign (x : BitVec 64) (y : BitVec 64) (k : UBKind) :
    Model.runNumeric C01.macroDefs "wasmOpcodeF64CopySign" [(.f64, .f64 x), (.f64, .f64 y)] ≠ .ub k := by
  rw [C02.op_f64_copysign]
  first
  | (intro h; cases h; done)
  | (simp only [Spec.idiv_s, Spec.idiv_u, Spec.irem_s, Spec.irem_u]; repeat' split
     all_goals (intro h; cases h))

theorem no_ub_i32_trunc_f32_s (x : BitVec 32) (k : UBKind) :
    Model.runNumeric C01.macroDefs "wasmOpcodeI32TruncF32S" [(.f32, .f32 x)] ≠ .ub k := C02.no_ub_i32_trunc_f32_s x k

theorem no_ub_i32_trunc_f32_u (x : BitVec 32) (k : UBKind) :
    Model.runNumeric C01.macroDefs "wasmOpcodeI32TruncF32U" [(.f32, .f32 x)] ≠ .ub k := C02.no_ub_i32_trunc_f32_u x k

theorem no_ub_i32_trunc_f64_s (x : BitVec 64) (k : UBKind) :
    Model.runNumeric C01.macroDefs "wasmOpcodeI32TruncF64S" [(.f64, .f64 x)] ≠ .ub k := C02.no_ub_i32_trunc_f64_s x k

theorem no_ub_i32_trunc_f64_u (x : BitVec 64) (k : UBKind) :
    Model.runNumeric C01.macroDefs "wasmOpcodeI32TruncF64U" [(.f64, .f64 x)] ≠ .ub k := C02.no_ub_i32_trunc_f64_u x k

theorem no_ub_i64_trunc_f32_s (x : BitVec 32) (k : UBKind) :
    Model.runNumeric C01.macroDefs "wasmOpcodeI64TruncF32S" [(.f32, .f32 x)] ≠ .ub k := C02.no_ub_i64_trunc_f32_s x k

theorem no_ub_i64_trunc_f32_u (x : BitVec 32) (k : UBKind) :
    Model.runNumeric C01.macroDefs "wasmOpcodeI64TruncF32U" [(.f32, .f32 x)] ≠ .ub k := C02.no_ub_i64_trunc_f32_u x k

theorem no_ub_i64_trunc_f64_s (x : BitVec 64) (k : UBKind) :
    Model.runNumeric C01.macroDefs "wasmOpcodeI64TruncF64S" [(.f64, .f64 x)] ≠ .ub k := C02.no_ub_i64_trunc_f64_s x k

theorem no_ub_i64_trunc_f64_u (x : BitVec 64) (k : UBKind) :
    Model.runNumeric C01.macroDefs "wasmOpcodeI64TruncF64U" [(.f64, .f64 x)] ≠ .ub k := C02.no_ub_i64_trunc_f64_u x k

theorem no_ub_f32_convert_i32_s (x : BitVec 32) (k : UBKind) :
    Model.runNumeric C01.macroDefs "wasmOpcodeF32ConvertI32S" [(.i32, .u32 x)] ≠ .ub k := by
  rw [C02.op_f32_convert_i32_s]
  first
  | (intro h; cases h; done)
  | (simp only [Spec.idiv_s, Spec.idiv_u, Spec.irem_s, Spec.irem_u]; repeat' split
     all_goals (intro h; cases h))

theorem no_ub_f32_convert_i32_u (x : BitVec 32) (k : UBKind) :
    Model.runNumeric C01.macroDefs "wasmOpcodeF32ConvertI32U" [(.i32, .u32 x)] ≠ .ub k := by
  rw [C02.op_f32_convert_i32_u]
  first
  | (intro h; cases h; done)
  | (simp only [Spec.idiv_s, Spec.idiv_u, Spec.irem_s, Spec.irem_u]; repeat' split
     all_goals (intro h; cases h))

theorem no_ub_f32_convert_i64_s (x : BitVec 64) (k : UBKind) :
    Model.runNumeric C01.macroDefs "wasmOpcodeF32ConvertI64S" [(.i64, .u64 x)] ≠ .ub k := by
  rw [C02.op_f32_convert_i64_s]
  first
  | (intro h; cases h; done)
  | (simp only [Spec.idiv_s, Spec.idiv_u, Spec.irem_s, Spec.irem_u]; repeat' split
     all_goals (intro h; cases h))

theorem no_ub_f32_convert_i64_u (x : BitVec 64) (k : UBKind) :
    Model.runNumeric C01.macroDefs "wasmOpcodeF32ConvertI64U" [(.i64, .u64 x)] ≠ .ub k := by
  rw [C02.op_f32_convert_i64_u]
  first
  | (intro h; cases h; done)
  | (simp only [Spec.idiv_s, Spec.idiv_u, Spec.irem_s, Spec.irem_u]; repeat' split
     all_goals (intro h; cases h))

theorem no_ub_f32_demote_f64 (x : BitVec 64) (k : UBKind) :
    Model.runNumeric C01.macroDefs "wasmOpcodeF32DemoteF64" [(.f64, .f64 x)] ≠ .ub k := by
  rw [C02.op_f32_demote_f64]
  first
  | (intro h; cases h; done)
  | (simp only [Spec.idiv_s, Spec.idiv_u, Spec.irem_s, Spec.irem_u]; repeat' split
     all_goals (intro h; cases h))

theorem no_ub_f64_convert_i32_s (x : BitVec 32) (k : UBKind) :
    Model.runNumeric C01.macroDefs "wasmOpcodeF64ConvertI32S" [(.i32, .u32 x)] ≠ .ub k := by
  rw [C02.op_f64_convert_i32_s]
  first
  | (intro h; cases h; done)
  | (simp only [Spec.idiv_s, Spec.idiv_u, Spec.irem_s, Spec.irem_u]; repeat' split
     all_goals (intro h; cases h))

theorem no_ub_f64_convert_i32_u (x : BitVec 32) (k : UBKind) :
    Model.runNumeric C01.macroDefs "wasmOpcodeF64ConvertI32U" [(.i32, .u32 x)] ≠ .ub k := by
  rw [C02.op_f64_convert_i32_u]
  first
  | (intro h; cases h; done)
  | (simp only [Spec.idiv_s, Spec.idiv_u, Spec.irem_s, Spec.irem_u]; repeat' split
     all_goals (intro h; cases h))

theorem no_ub_f64_convert_i64_s (x : BitVec 64) (k : UBKind) :
    Model.runNumeric C01.macroDefs "wasmOpcodeF64ConvertI64S" [(.i64, .u64 x)] ≠ .ub k := by
  rw [C02.op_f64_convert_i64_s]
  first
  | (intro h; cases h; done)
  | (simp only [Spec.idiv_s, Spec.idiv_u, Spec.irem_s, Spec.irem_u]; repeat' split
     all_goals (intro h; cases h))

theorem no_ub_f64_convert_i64_u (x : BitVec 64) (k : UBKind) :
    Model.runNumeric C01.macroDefs "wasmOpcodeF64ConvertI64U" [(.i64, .u64 x)] ≠ .ub k := by
  rw [C02.op_f64_convert_i64_u]
  first
  | (intro h; cases h; done)
  | (simp only [Spec.idiv_s, Spec.idiv_u, Spec.irem_s, Spec.irem_u]; repeat' split
     all_goals (intro h; cases h))

theorem no_ub_f64_promote_f32 (x : BitVec 32) (k : UBKind) :
    Model.runNumeric C01.macroDefs "wasmOpcodeF64PromoteF32" [(.f32, .f32 x)] ≠ .ub k := by
  rw [C02.op_f64_promote_f32]
  first
  | (intro h; cases h; done)
  | (simp only [Spec.idiv_s, Spec.idiv_u, Spec.irem_s, Spec.irem_u]; repeat' split
     all_goals (intro h; cases h))

theorem no_ub_i32_reinterpret_f32 (x : BitVec 32) (k : UBKind) :
    Model.runNumeric C01.macroDefs "wasmOpcodeI32ReinterpretF32" [(.f32, .f32 x)] ≠ .ub k := by
  rw [C02.op_i32_reinterpret_f32]
  first
  | (intro h; cases h; done)
  | (simp only [Spec.idiv_s, Spec.idiv_u, Spec.irem_s, Spec.irem_u]; repeat' split
     all_goals (intro h; cases h))

theorem no_ub_i64_reinterpret_f64 (x : BitVec 64) (k : UBKind) :
    Model.runNumeric C01.macroDefs "wasmOpcodeI64ReinterpretF64" [(.f64, .f64 x)] ≠ .ub k := by
  rw [C02.op_i64_reinterpret_f64]
  first
  | (intro h; cases h; done)
  | (simp only [Spec.idiv_s, Spec.idiv_u, Spec.irem_s, Spec.irem_u]; repeat' split
     all_goals (intro h; cases h))

theorem no_ub_f32_reinterpret_i32 (x : BitVec 32) (k : UBKind) :
    Model.runNumeric C01.macroDefs "wasmOpcodeF32ReinterpretI32" [(.i32, .u32 x)] ≠ .ub k := by
  rw [C02.op_f32_reinterpret_i32]
  first
  | (intro h; cases h; done)
  | (simp only [Spec.idiv_s, Spec.idiv_u, Spec.irem_s, Spec.irem_u]; repeat' split
     all_goals (intro h; cases h))

theorem no_ub_f64_reinterpret_i64 (x : BitVec 64) (k : UBKind) :
    Model.runNumeric C01.macroDefs "wasmOpcodeF64ReinterpretI64" [(.i64, .u64 x)] ≠ .ub k := by
  rw [C02.op_f64_reinterpret_i64]
  first
  | (intro h; cases h; done)
  | (simp only [Spec.idiv_s, Spec.idiv_u, Spec.irem_s, Spec.irem_u]; repeat' split
     all_goals (intro h; cases h))

theorem no_ub_i32_trunc_sat_f32_s (x : BitVec 32) (k : UBKind) :
    Model.runNumeric C01.macroDefs "wasmMiscOpcodeI32TruncSatF32S" [(.f32, .f32 x)] ≠ .ub k := C02.no_ub_i32_trunc_sat_f32_s x k

theorem no_ub_i32_trunc_sat_f32_u (x : BitVec 32) (k : UBKind) :
    Model.runNumeric C01.macroDefs "wasmMiscOpcodeI32TruncSatF32U" [(.f32, .f32 x)] ≠ .ub k := C02.no_ub_i32_trunc_sat_f32_u x k

theorem no_ub_i32_trunc_sat_f64_s (x : BitVec 64) (k : UBKind) :
    Model.runNumeric C01.macroDefs "wasmMiscOpcodeI32TruncSatF64S" [(.f64, .f64 x)] ≠ .ub k := C02.no_ub_i32_trunc_sat_f64_s x k

theorem no_ub_i32_trunc_sat_f64_u (x : BitVec 64) (k : UBKind) :
    Model.runNumeric C01.macroDefs "wasmMiscOpcodeI32TruncSatF64U" [(.f64, .f64 x)] ≠ .ub k := C02.no_ub_i32_trunc_sat_f64_u x k

theorem no_ub_i64_trunc_sat_f32_s (x : BitVec 32) (k : UBKind) :
    Model.runNumeric C01.macroDefs "wasmMiscOpcodeI64TruncSatF32S" [(.f32, .f32 x)] ≠ .ub k := C02.no_ub_i64_trunc_sat_f32_s x k

theorem no_ub_i64_trunc_sat_f32_u (x : BitVec 32) (k : UBKind) :
    Model.runNumeric C01.macroDefs "wasmMiscOpcodeI64TruncSatF32U" [(.f32, .f32 x)] ≠ .ub k := C02.no_ub_i64_trunc_sat_f32_u x k

theorem no_ub_i64_trunc_sat_f64_s (x : BitVec 64) (k : UBKind) :
    Model.runNumeric C01.macroDefs "wasmMiscOpcodeI64TruncSatF64S" [(.f64, .f64 x)] ≠ .ub k := C02.no_ub_i64_trunc_sat_f64_s x k

theorem no_ub_i64_trunc_sat_f64_u (x : BitVec 64) (k : UBKind) :
    Model.runNumeric C01.macroDefs "wasmMiscOpcodeI64TruncSatF64U" [(.f64, .f64 x)] ≠ .ub k := C02.no_ub_i64_trunc_sat_f64_u x k

/-- number of opcodes covered -/
def coveredOpcodes : Nat := 136

/-- opcodes without a no-UB theorem (none) -/
def pendingOpcodes : List String := []

end W2c2Verif.Props.C11
