/-
  Props.C19 — linear memory is little-endian regardless of host byte order.

  For every load, store, atomic load/store and read-modify-write/compare-exchange function of
  w2c2_base.h, the body the header selects on a BIG-endian host (regenerated with
  `WASM_ENDIAN = WASM_BIG_ENDIAN`; host objects assembled most-significant-byte first, `End.be`)
  computes the same result and leaves the same memory image as the little-endian body on a
  little-endian host — for every memory, every naturally aligned in-bounds address (the
  big-endian macros dereference typed pointers) and every value.  Hence each 16/32/64-bit
  access applies exactly one byte reversal of exactly its width, and 8-bit accesses none.
  The mask/shift fallbacks of swapU16/32/64 equal the byte reversal for all inputs.
-/
import W2c2Verif.Gen.LoadStore
import W2c2Verif.Gen.Macros
import W2c2Verif.Lemmas.Mem
import W2c2Verif.Lemmas.Tactics
set_option linter.unusedSimpArgs false
set_option linter.unusedVariables false

namespace W2c2Verif.Props.C19
open W2c2Verif

/-- evaluate a memory accessor body on symbolic memory/operands -/
macro "mem_eval" : tactic => `(tactic|
  simp +decide [MFunc.call, bindParams, MStmt.exec, addrOf, CExpr.eval, CExpr.typeOf, Env.get, Env.set, CVal.ty, CTy.bytes, inBounds,
    CVal.ofBits, Mem.hostRead, Mem.hostWrite, CVal.fromNat, CVal.fromInt, Out.ite_bind, CVal.reinterpret, CVal.bits, builtin1,
    RmwOp.apply, CVal.binop, CTy.common, CTy.promote, BinOp.isCmp, CPrim.arithU, CPrim.cmpU, CVal.truthy, *])

/-! ## the portable byte swaps (used when no compiler intrinsic exists) are byte reversals -/

theorem swapU16_plain_correct (x : BitVec 16) :
    (Gen.m_BEplain_swapU16.call noDefs [.u16 x] >>= CVal.castInt .u16) = .val (.u16 (CPrim.bswap16 x)) := by
  simp only [Gen.m_BEplain_swapU16]; csem_eval; simp only [CPrim.bswap16]; bv_close
theorem swapU32_plain_correct (x : BitVec 32) :
    (Gen.m_BEplain_swapU32.call noDefs [.u32 x] >>= CVal.castInt .u32) = .val (.u32 (CPrim.bswap32 x)) := by
  simp only [Gen.m_BEplain_swapU32]; csem_eval; simp only [CPrim.bswap32]; bv_close
theorem swapU64_plain_correct (x : BitVec 64) :
    (Gen.m_BEplain_swapU64.call noDefs [.u64 x] >>= CVal.castInt .u64) = .val (.u64 (CPrim.bswap64 x)) := by
  simp only [Gen.m_BEplain_swapU64]; csem_eval; simp only [CPrim.bswap64]; bv_close
/-- on a little-endian host the swap macros are the identity -/
theorem swap_le_identity (x : BitVec 32) : Gen.m_LE_swapU32.call noDefs [.u32 x] = .val (.u32 x) := by
  simp only [Gen.m_LE_swapU32]; csem_eval

/-! ## plain loads and stores -/

theorem i32_load_be_eq_le (m : Mem) (ea : BitVec 64) (h : ea.toNat + 4 ≤ m.size) (ha : ea.toNat % 4 = 0) :
    Gen.be_i32_load.call noDefs .be m [.u64 ea] = Gen.le_i32_load.call noDefs .le m [.u64 ea] := by
  have h' : ¬ m.size < ea.toNat + 4 := by omega
  simp only [Gen.be_i32_load, Gen.le_i32_load]; mem_eval
  all_goals (first | rfl | (simp [Mem.bswap_readBE16, Mem.bswap_readBE32, Mem.bswap_readBE64, Mem.writeBE16_bswap, Mem.writeBE32_bswap, Mem.writeBE64_bswap, Mem.readLE8, Mem.writeLE8, ofNat_mod8, ofNat_mod16, ofNat_mod32, ofNat_mod64]; done))

theorem i64_load_be_eq_le (m : Mem) (ea : BitVec 64) (h : ea.toNat + 8 ≤ m.size) (ha : ea.toNat % 8 = 0) :
    Gen.be_i64_load.call noDefs .be m [.u64 ea] = Gen.le_i64_load.call noDefs .le m [.u64 ea] := by
  have h' : ¬ m.size < ea.toNat + 8 := by omega
  simp only [Gen.be_i64_load, Gen.le_i64_load]; mem_eval
  all_goals (first | rfl | (simp [Mem.bswap_readBE16, Mem.bswap_readBE32, Mem.bswap_readBE64, Mem.writeBE16_bswap, Mem.writeBE32_bswap, Mem.writeBE64_bswap, Mem.readLE8, Mem.writeLE8, ofNat_mod8, ofNat_mod16, ofNat_mod32, ofNat_mod64]; done))

theorem f32_load_be_eq_le (m : Mem) (ea : BitVec 64) (h : ea.toNat + 4 ≤ m.size) (ha : ea.toNat % 4 = 0) :
    Gen.be_f32_load.call noDefs .be m [.u64 ea] = Gen.le_f32_load.call noDefs .le m [.u64 ea] := by
  have h' : ¬ m.size < ea.toNat + 4 := by omega
  simp only [Gen.be_f32_load, Gen.le_f32_load]; mem_eval
  all_goals (first | rfl | (simp [Mem.bswap_readBE16, Mem.bswap_readBE32, Mem.bswap_readBE64, Mem.writeBE16_bswap, Mem.writeBE32_bswap, Mem.writeBE64_bswap, Mem.readLE8, Mem.writeLE8, ofNat_mod8, ofNat_mod16, ofNat_mod32, ofNat_mod64]; done))

theorem f64_load_be_eq_le (m : Mem) (ea : BitVec 64) (h : ea.toNat + 8 ≤ m.size) (ha : ea.toNat % 8 = 0) :
    Gen.be_f64_load.call noDefs .be m [.u64 ea] = Gen.le_f64_load.call noDefs .le m [.u64 ea] := by
  have h' : ¬ m.size < ea.toNat + 8 := by omega
  simp only [Gen.be_f64_load, Gen.le_f64_load]; mem_eval
  all_goals (first | rfl | (simp [Mem.bswap_readBE16, Mem.bswap_readBE32, Mem.bswap_readBE64, Mem.writeBE16_bswap, Mem.writeBE32_bswap, Mem.writeBE64_bswap, Mem.readLE8, Mem.writeLE8, ofNat_mod8, ofNat_mod16, ofNat_mod32, ofNat_mod64]; done))

theorem i32_load8_s_be_eq_le (m : Mem) (ea : BitVec 64) (h : ea.toNat + 1 ≤ m.size)  :
    Gen.be_i32_load8_s.call noDefs .be m [.u64 ea] = Gen.le_i32_load8_s.call noDefs .le m [.u64 ea] := by
  have h' : ¬ m.size < ea.toNat + 1 := by omega
  simp only [Gen.be_i32_load8_s, Gen.le_i32_load8_s]; mem_eval
  all_goals (first | rfl | (simp [Mem.bswap_readBE16, Mem.bswap_readBE32, Mem.bswap_readBE64, Mem.writeBE16_bswap, Mem.writeBE32_bswap, Mem.writeBE64_bswap, Mem.readLE8, Mem.writeLE8, ofNat_mod8, ofNat_mod16, ofNat_mod32, ofNat_mod64]; done))

theorem i64_load8_s_be_eq_le (m : Mem) (ea : BitVec 64) (h : ea.toNat + 1 ≤ m.size)  :
    Gen.be_i64_load8_s.call noDefs .be m [.u64 ea] = Gen.le_i64_load8_s.call noDefs .le m [.u64 ea] := by
  have h' : ¬ m.size < ea.toNat + 1 := by omega
  simp only [Gen.be_i64_load8_s, Gen.le_i64_load8_s]; mem_eval
  all_goals (first | rfl | (simp [Mem.bswap_readBE16, Mem.bswap_readBE32, Mem.bswap_readBE64, Mem.writeBE16_bswap, Mem.writeBE32_bswap, Mem.writeBE64_bswap, Mem.readLE8, Mem.writeLE8, ofNat_mod8, ofNat_mod16, ofNat_mod32, ofNat_mod64]; done))

theorem i32_load8_u_be_eq_le (m : Mem) (ea : BitVec 64) (h : ea.toNat + 1 ≤ m.size)  :
    Gen.be_i32_load8_u.call noDefs .be m [.u64 ea] = Gen.le_i32_load8_u.call noDefs .le m [.u64 ea] := by
  have h' : ¬ m.size < ea.toNat + 1 := by omega
  simp only [Gen.be_i32_load8_u, Gen.le_i32_load8_u]; mem_eval
  all_goals (first | rfl | (simp [Mem.bswap_readBE16, Mem.bswap_readBE32, Mem.bswap_readBE64, Mem.writeBE16_bswap, Mem.writeBE32_bswap, Mem.writeBE64_bswap, Mem.readLE8, Mem.writeLE8, ofNat_mod8, ofNat_mod16, ofNat_mod32, ofNat_mod64]; done))

theorem i64_load8_u_be_eq_le (m : Mem) (ea : BitVec 64) (h : ea.toNat + 1 ≤ m.size)  :
    Gen.be_i64_load8_u.call noDefs .be m [.u64 ea] = Gen.le_i64_load8_u.call noDefs .le m [.u64 ea] := by
  have h' : ¬ m.size < ea.toNat + 1 := by omega
  simp only [Gen.be_i64_load8_u, Gen.le_i64_load8_u]; mem_eval
  all_goals (first | rfl | (simp [Mem.bswap_readBE16, Mem.bswap_readBE32, Mem.bswap_readBE64, Mem.writeBE16_bswap, Mem.writeBE32_bswap, Mem.writeBE64_bswap, Mem.readLE8, Mem.writeLE8, ofNat_mod8, ofNat_mod16, ofNat_mod32, ofNat_mod64]; done))

theorem i32_load16_s_be_eq_le (m : Mem) (ea : BitVec 64) (h : ea.toNat + 2 ≤ m.size) (ha : ea.toNat % 2 = 0) :
    Gen.be_i32_load16_s.call noDefs .be m [.u64 ea] = Gen.le_i32_load16_s.call noDefs .le m [.u64 ea] := by
  have h' : ¬ m.size < ea.toNat + 2 := by omega
  simp only [Gen.be_i32_load16_s, Gen.le_i32_load16_s]; mem_eval
  all_goals (first | rfl | (simp [Mem.bswap_readBE16, Mem.bswap_readBE32, Mem.bswap_readBE64, Mem.writeBE16_bswap, Mem.writeBE32_bswap, Mem.writeBE64_bswap, Mem.readLE8, Mem.writeLE8, ofNat_mod8, ofNat_mod16, ofNat_mod32, ofNat_mod64]; done))

theorem i64_load16_s_be_eq_le (m : Mem) (ea : BitVec 64) (h : ea.toNat + 2 ≤ m.size) (ha : ea.toNat % 2 = 0) :
    Gen.be_i64_load16_s.call noDefs .be m [.u64 ea] = Gen.le_i64_load16_s.call noDefs .le m [.u64 ea] := by
  have h' : ¬ m.size < ea.toNat + 2 := by omega
  simp only [Gen.be_i64_load16_s, Gen.le_i64_load16_s]; mem_eval
  all_goals (first | rfl | (simp [Mem.bswap_readBE16, Mem.bswap_readBE32, Mem.bswap_readBE64, Mem.writeBE16_bswap, Mem.writeBE32_bswap, Mem.writeBE64_bswap, Mem.readLE8, Mem.writeLE8, ofNat_mod8, ofNat_mod16, ofNat_mod32, ofNat_mod64]; done))

theorem i32_load16_u_be_eq_le (m : Mem) (ea : BitVec 64) (h : ea.toNat + 2 ≤ m.size) (ha : ea.toNat % 2 = 0) :
    Gen.be_i32_load16_u.call noDefs .be m [.u64 ea] = Gen.le_i32_load16_u.call noDefs .le m [.u64 ea] := by
  have h' : ¬ m.size < ea.toNat + 2 := by omega
  simp only [Gen.be_i32_load16_u, Gen.le_i32_load16_u]; mem_eval
  all_goals (first | rfl | (simp [Mem.bswap_readBE16, Mem.bswap_readBE32, Mem.bswap_readBE64, Mem.writeBE16_bswap, Mem.writeBE32_bswap, Mem.writeBE64_bswap, Mem.readLE8, Mem.writeLE8, ofNat_mod8, ofNat_mod16, ofNat_mod32, ofNat_mod64]; done))

theorem i64_load16_u_be_eq_le (m : Mem) (ea : BitVec 64) (h : ea.toNat + 2 ≤ m.size) (ha : ea.toNat % 2 = 0) :
    Gen.be_i64_load16_u.call noDefs .be m [.u64 ea] = Gen.le_i64_load16_u.call noDefs .le m [.u64 ea] := by
  have h' : ¬ m.size < ea.toNat + 2 := by omega
  simp only [Gen.be_i64_load16_u, Gen.le_i64_load16_u]; mem_eval
  all_goals (first | rfl | (simp [Mem.bswap_readBE16, Mem.bswap_readBE32, Mem.bswap_readBE64, Mem.writeBE16_bswap, Mem.writeBE32_bswap, Mem.writeBE64_bswap, Mem.readLE8, Mem.writeLE8, ofNat_mod8, ofNat_mod16, ofNat_mod32, ofNat_mod64]; done))

theorem i64_load32_s_be_eq_le (m : Mem) (ea : BitVec 64) (h : ea.toNat + 4 ≤ m.size) (ha : ea.toNat % 4 = 0) :
    Gen.be_i64_load32_s.call noDefs .be m [.u64 ea] = Gen.le_i64_load32_s.call noDefs .le m [.u64 ea] := by
  have h' : ¬ m.size < ea.toNat + 4 := by omega
  simp only [Gen.be_i64_load32_s, Gen.le_i64_load32_s]; mem_eval
  all_goals (first | rfl | (simp [Mem.bswap_readBE16, Mem.bswap_readBE32, Mem.bswap_readBE64, Mem.writeBE16_bswap, Mem.writeBE32_bswap, Mem.writeBE64_bswap, Mem.readLE8, Mem.writeLE8, ofNat_mod8, ofNat_mod16, ofNat_mod32, ofNat_mod64]; done))

theorem i64_load32_u_be_eq_le (m : Mem) (ea : BitVec 64) (h : ea.toNat + 4 ≤ m.size) (ha : ea.toNat % 4 = 0) :
    Gen.be_i64_load32_u.call noDefs .be m [.u64 ea] = Gen.le_i64_load32_u.call noDefs .le m [.u64 ea] := by
  have h' : ¬ m.size < ea.toNat + 4 := by omega
  simp only [Gen.be_i64_load32_u, Gen.le_i64_load32_u]; mem_eval
  all_goals (first | rfl | (simp [Mem.bswap_readBE16, Mem.bswap_readBE32, Mem.bswap_readBE64, Mem.writeBE16_bswap, Mem.writeBE32_bswap, Mem.writeBE64_bswap, Mem.readLE8, Mem.writeLE8, ofNat_mod8, ofNat_mod16, ofNat_mod32, ofNat_mod64]; done))

theorem i32_store_be_eq_le (m : Mem) (ea : BitVec 64) (v : BitVec 32) (h : ea.toNat + 4 ≤ m.size) (ha : ea.toNat % 4 = 0) :
    Gen.be_i32_store.call noDefs .be m [.u64 ea, .u32 v] = Gen.le_i32_store.call noDefs .le m [.u64 ea, .u32 v] := by
  have h' : ¬ m.size < ea.toNat + 4 := by omega
  simp only [Gen.be_i32_store, Gen.le_i32_store]; mem_eval
  all_goals (first | rfl | (simp [Mem.bswap_readBE16, Mem.bswap_readBE32, Mem.bswap_readBE64, Mem.writeBE16_bswap, Mem.writeBE32_bswap, Mem.writeBE64_bswap, Mem.readLE8, Mem.writeLE8, ofNat_mod8, ofNat_mod16, ofNat_mod32, ofNat_mod64]; done))

theorem i64_store_be_eq_le (m : Mem) (ea : BitVec 64) (v : BitVec 64) (h : ea.toNat + 8 ≤ m.size) (ha : ea.toNat % 8 = 0) :
    Gen.be_i64_store.call noDefs .be m [.u64 ea, .u64 v] = Gen.le_i64_store.call noDefs .le m [.u64 ea, .u64 v] := by
  have h' : ¬ m.size < ea.toNat + 8 := by omega
  simp only [Gen.be_i64_store, Gen.le_i64_store]; mem_eval
  all_goals (first | rfl | (simp [Mem.bswap_readBE16, Mem.bswap_readBE32, Mem.bswap_readBE64, Mem.writeBE16_bswap, Mem.writeBE32_bswap, Mem.writeBE64_bswap, Mem.readLE8, Mem.writeLE8, ofNat_mod8, ofNat_mod16, ofNat_mod32, ofNat_mod64]; done))

theorem f32_store_be_eq_le (m : Mem) (ea : BitVec 64) (v : BitVec 32) (h : ea.toNat + 4 ≤ m.size) (ha : ea.toNat % 4 = 0) :
    Gen.be_f32_store.call noDefs .be m [.u64 ea, .f32 v] = Gen.le_f32_store.call noDefs .le m [.u64 ea, .f32 v] := by
  have h' : ¬ m.size < ea.toNat + 4 := by omega
  simp only [Gen.be_f32_store, Gen.le_f32_store]; mem_eval
  all_goals (first | rfl | (simp [Mem.bswap_readBE16, Mem.bswap_readBE32, Mem.bswap_readBE64, Mem.writeBE16_bswap, Mem.writeBE32_bswap, Mem.writeBE64_bswap, Mem.readLE8, Mem.writeLE8, ofNat_mod8, ofNat_mod16, ofNat_mod32, ofNat_mod64]; done))

theorem f64_store_be_eq_le (m : Mem) (ea : BitVec 64) (v : BitVec 64) (h : ea.toNat + 8 ≤ m.size) (ha : ea.toNat % 8 = 0) :
    Gen.be_f64_store.call noDefs .be m [.u64 ea, .f64 v] = Gen.le_f64_store.call noDefs .le m [.u64 ea, .f64 v] := by
  have h' : ¬ m.size < ea.toNat + 8 := by omega
  simp only [Gen.be_f64_store, Gen.le_f64_store]; mem_eval
  all_goals (first | rfl | (simp [Mem.bswap_readBE16, Mem.bswap_readBE32, Mem.bswap_readBE64, Mem.writeBE16_bswap, Mem.writeBE32_bswap, Mem.writeBE64_bswap, Mem.readLE8, Mem.writeLE8, ofNat_mod8, ofNat_mod16, ofNat_mod32, ofNat_mod64]; done))

theorem i32_store8_be_eq_le (m : Mem) (ea : BitVec 64) (v : BitVec 32) (h : ea.toNat + 1 ≤ m.size)  :
    Gen.be_i32_store8.call noDefs .be m [.u64 ea, .u32 v] = Gen.le_i32_store8.call noDefs .le m [.u64 ea, .u32 v] := by
  have h' : ¬ m.size < ea.toNat + 1 := by omega
  simp only [Gen.be_i32_store8, Gen.le_i32_store8]; mem_eval
  all_goals (first | rfl | (simp [Mem.bswap_readBE16, Mem.bswap_readBE32, Mem.bswap_readBE64, Mem.writeBE16_bswap, Mem.writeBE32_bswap, Mem.writeBE64_bswap, Mem.readLE8, Mem.writeLE8, ofNat_mod8, ofNat_mod16, ofNat_mod32, ofNat_mod64]; done))

theorem i32_store16_be_eq_le (m : Mem) (ea : BitVec 64) (v : BitVec 32) (h : ea.toNat + 2 ≤ m.size) (ha : ea.toNat % 2 = 0) :
    Gen.be_i32_store16.call noDefs .be m [.u64 ea, .u32 v] = Gen.le_i32_store16.call noDefs .le m [.u64 ea, .u32 v] := by
  have h' : ¬ m.size < ea.toNat + 2 := by omega
  simp only [Gen.be_i32_store16, Gen.le_i32_store16]; mem_eval
  all_goals (first | rfl | (simp [Mem.bswap_readBE16, Mem.bswap_readBE32, Mem.bswap_readBE64, Mem.writeBE16_bswap, Mem.writeBE32_bswap, Mem.writeBE64_bswap, Mem.readLE8, Mem.writeLE8, ofNat_mod8, ofNat_mod16, ofNat_mod32, ofNat_mod64]; done))

theorem i64_store8_be_eq_le (m : Mem) (ea : BitVec 64) (v : BitVec 64) (h : ea.toNat + 1 ≤ m.size)  :
    Gen.be_i64_store8.call noDefs .be m [.u64 ea, .u64 v] = Gen.le_i64_store8.call noDefs .le m [.u64 ea, .u64 v] := by
  have h' : ¬ m.size < ea.toNat + 1 := by omega
  simp only [Gen.be_i64_store8, Gen.le_i64_store8]; mem_eval
  all_goals (first | rfl | (simp [Mem.bswap_readBE16, Mem.bswap_readBE32, Mem.bswap_readBE64, Mem.writeBE16_bswap, Mem.writeBE32_bswap, Mem.writeBE64_bswap, Mem.readLE8, Mem.writeLE8, ofNat_mod8, ofNat_mod16, ofNat_mod32, ofNat_mod64]; done))

theorem i64_store16_be_eq_le (m : Mem) (ea : BitVec 64) (v : BitVec 64) (h : ea.toNat + 2 ≤ m.size) (ha : ea.toNat % 2 = 0) :
    Gen.be_i64_store16.call noDefs .be m [.u64 ea, .u64 v] = Gen.le_i64_store16.call noDefs .le m [.u64 ea, .u64 v] := by
  have h' : ¬ m.size < ea.toNat + 2 := by omega
  simp only [Gen.be_i64_store16, Gen.le_i64_store16]; mem_eval
  all_goals (first | rfl | (simp [Mem.bswap_readBE16, Mem.bswap_readBE32, Mem.bswap_readBE64, Mem.writeBE16_bswap, Mem.writeBE32_bswap, Mem.writeBE64_bswap, Mem.readLE8, Mem.writeLE8, ofNat_mod8, ofNat_mod16, ofNat_mod32, ofNat_mod64]; done))

theorem i64_store32_be_eq_le (m : Mem) (ea : BitVec 64) (v : BitVec 64) (h : ea.toNat + 4 ≤ m.size) (ha : ea.toNat % 4 = 0) :
    Gen.be_i64_store32.call noDefs .be m [.u64 ea, .u64 v] = Gen.le_i64_store32.call noDefs .le m [.u64 ea, .u64 v] := by
  have h' : ¬ m.size < ea.toNat + 4 := by omega
  simp only [Gen.be_i64_store32, Gen.le_i64_store32]; mem_eval
  all_goals (first | rfl | (simp [Mem.bswap_readBE16, Mem.bswap_readBE32, Mem.bswap_readBE64, Mem.writeBE16_bswap, Mem.writeBE32_bswap, Mem.writeBE64_bswap, Mem.readLE8, Mem.writeLE8, ofNat_mod8, ofNat_mod16, ofNat_mod32, ofNat_mod64]; done))

/-! ## atomic loads / stores -/

theorem i32_atomic_load8_u_be_eq_le (m : Mem) (ea : BitVec 64) (h : ea.toNat + 1 ≤ m.size)  :
    Gen.be_i32_atomic_load8_u.call noDefs .be m [.u64 ea] = Gen.le_i32_atomic_load8_u.call noDefs .le m [.u64 ea] := by
  have h' : ¬ m.size < ea.toNat + 1 := by omega
  simp only [Gen.be_i32_atomic_load8_u, Gen.le_i32_atomic_load8_u]; mem_eval
  all_goals (first | rfl | (simp [Mem.bswap_readBE16, Mem.bswap_readBE32, Mem.bswap_readBE64, Mem.writeBE16_bswap, Mem.writeBE32_bswap, Mem.writeBE64_bswap, Mem.readLE8, Mem.writeLE8, ofNat_mod8, ofNat_mod16, ofNat_mod32, ofNat_mod64]; done))

theorem i64_atomic_load8_u_be_eq_le (m : Mem) (ea : BitVec 64) (h : ea.toNat + 1 ≤ m.size)  :
    Gen.be_i64_atomic_load8_u.call noDefs .be m [.u64 ea] = Gen.le_i64_atomic_load8_u.call noDefs .le m [.u64 ea] := by
  have h' : ¬ m.size < ea.toNat + 1 := by omega
  simp only [Gen.be_i64_atomic_load8_u, Gen.le_i64_atomic_load8_u]; mem_eval
  all_goals (first | rfl | (simp [Mem.bswap_readBE16, Mem.bswap_readBE32, Mem.bswap_readBE64, Mem.writeBE16_bswap, Mem.writeBE32_bswap, Mem.writeBE64_bswap, Mem.readLE8, Mem.writeLE8, ofNat_mod8, ofNat_mod16, ofNat_mod32, ofNat_mod64]; done))

theorem i32_atomic_load16_u_be_eq_le (m : Mem) (ea : BitVec 64) (h : ea.toNat + 2 ≤ m.size) (ha : ea.toNat % 2 = 0) :
    Gen.be_i32_atomic_load16_u.call noDefs .be m [.u64 ea] = Gen.le_i32_atomic_load16_u.call noDefs .le m [.u64 ea] := by
  have h' : ¬ m.size < ea.toNat + 2 := by omega
  simp only [Gen.be_i32_atomic_load16_u, Gen.le_i32_atomic_load16_u]; mem_eval
  all_goals (first | rfl | (simp [Mem.bswap_readBE16, Mem.bswap_readBE32, Mem.bswap_readBE64, Mem.writeBE16_bswap, Mem.writeBE32_bswap, Mem.writeBE64_bswap, Mem.readLE8, Mem.writeLE8, ofNat_mod8, ofNat_mod16, ofNat_mod32, ofNat_mod64]; done))

theorem i64_atomic_load16_u_be_eq_le (m : Mem) (ea : BitVec 64) (h : ea.toNat + 2 ≤ m.size) (ha : ea.toNat % 2 = 0) :
    Gen.be_i64_atomic_load16_u.call noDefs .be m [.u64 ea] = Gen.le_i64_atomic_load16_u.call noDefs .le m [.u64 ea] := by
  have h' : ¬ m.size < ea.toNat + 2 := by omega
  simp only [Gen.be_i64_atomic_load16_u, Gen.le_i64_atomic_load16_u]; mem_eval
  all_goals (first | rfl | (simp [Mem.bswap_readBE16, Mem.bswap_readBE32, Mem.bswap_readBE64, Mem.writeBE16_bswap, Mem.writeBE32_bswap, Mem.writeBE64_bswap, Mem.readLE8, Mem.writeLE8, ofNat_mod8, ofNat_mod16, ofNat_mod32, ofNat_mod64]; done))

theorem i64_atomic_load32_u_be_eq_le (m : Mem) (ea : BitVec 64) (h : ea.toNat + 4 ≤ m.size) (ha : ea.toNat % 4 = 0) :
    Gen.be_i64_atomic_load32_u.call noDefs .be m [.u64 ea] = Gen.le_i64_atomic_load32_u.call noDefs .le m [.u64 ea] := by
  have h' : ¬ m.size < ea.toNat + 4 := by omega
  simp only [Gen.be_i64_atomic_load32_u, Gen.le_i64_atomic_load32_u]; mem_eval
  all_goals (first | rfl | (simp [Mem.bswap_readBE16, Mem.bswap_readBE32, Mem.bswap_readBE64, Mem.writeBE16_bswap, Mem.writeBE32_bswap, Mem.writeBE64_bswap, Mem.readLE8, Mem.writeLE8, ofNat_mod8, ofNat_mod16, ofNat_mod32, ofNat_mod64]; done))

theorem i32_atomic_load_be_eq_le (m : Mem) (ea : BitVec 64) (h : ea.toNat + 4 ≤ m.size) (ha : ea.toNat % 4 = 0) :
    Gen.be_i32_atomic_load.call noDefs .be m [.u64 ea] = Gen.le_i32_atomic_load.call noDefs .le m [.u64 ea] := by
  have h' : ¬ m.size < ea.toNat + 4 := by omega
  simp only [Gen.be_i32_atomic_load, Gen.le_i32_atomic_load]; mem_eval
  all_goals (first | rfl | (simp [Mem.bswap_readBE16, Mem.bswap_readBE32, Mem.bswap_readBE64, Mem.writeBE16_bswap, Mem.writeBE32_bswap, Mem.writeBE64_bswap, Mem.readLE8, Mem.writeLE8, ofNat_mod8, ofNat_mod16, ofNat_mod32, ofNat_mod64]; done))

theorem i64_atomic_load_be_eq_le (m : Mem) (ea : BitVec 64) (h : ea.toNat + 8 ≤ m.size) (ha : ea.toNat % 8 = 0) :
    Gen.be_i64_atomic_load.call noDefs .be m [.u64 ea] = Gen.le_i64_atomic_load.call noDefs .le m [.u64 ea] := by
  have h' : ¬ m.size < ea.toNat + 8 := by omega
  simp only [Gen.be_i64_atomic_load, Gen.le_i64_atomic_load]; mem_eval
  all_goals (first | rfl | (simp [Mem.bswap_readBE16, Mem.bswap_readBE32, Mem.bswap_readBE64, Mem.writeBE16_bswap, Mem.writeBE32_bswap, Mem.writeBE64_bswap, Mem.readLE8, Mem.writeLE8, ofNat_mod8, ofNat_mod16, ofNat_mod32, ofNat_mod64]; done))

theorem i32_atomic_store_be_eq_le (m : Mem) (ea : BitVec 64) (v : BitVec 32) (h : ea.toNat + 4 ≤ m.size) (ha : ea.toNat % 4 = 0) :
    Gen.be_i32_atomic_store.call noDefs .be m [.u64 ea, .u32 v] = Gen.le_i32_atomic_store.call noDefs .le m [.u64 ea, .u32 v] := by
  have h' : ¬ m.size < ea.toNat + 4 := by omega
  simp only [Gen.be_i32_atomic_store, Gen.le_i32_atomic_store]; mem_eval
  all_goals (first | rfl | (simp [Mem.bswap_readBE16, Mem.bswap_readBE32, Mem.bswap_readBE64, Mem.writeBE16_bswap, Mem.writeBE32_bswap, Mem.writeBE64_bswap, Mem.readLE8, Mem.writeLE8, ofNat_mod8, ofNat_mod16, ofNat_mod32, ofNat_mod64]; done))

theorem i64_atomic_store_be_eq_le (m : Mem) (ea : BitVec 64) (v : BitVec 64) (h : ea.toNat + 8 ≤ m.size) (ha : ea.toNat % 8 = 0) :
    Gen.be_i64_atomic_store.call noDefs .be m [.u64 ea, .u64 v] = Gen.le_i64_atomic_store.call noDefs .le m [.u64 ea, .u64 v] := by
  have h' : ¬ m.size < ea.toNat + 8 := by omega
  simp only [Gen.be_i64_atomic_store, Gen.le_i64_atomic_store]; mem_eval
  all_goals (first | rfl | (simp [Mem.bswap_readBE16, Mem.bswap_readBE32, Mem.bswap_readBE64, Mem.writeBE16_bswap, Mem.writeBE32_bswap, Mem.writeBE64_bswap, Mem.readLE8, Mem.writeLE8, ofNat_mod8, ofNat_mod16, ofNat_mod32, ofNat_mod64]; done))

theorem i32_atomic_store8_be_eq_le (m : Mem) (ea : BitVec 64) (v : BitVec 32) (h : ea.toNat + 1 ≤ m.size)  :
    Gen.be_i32_atomic_store8.call noDefs .be m [.u64 ea, .u32 v] = Gen.le_i32_atomic_store8.call noDefs .le m [.u64 ea, .u32 v] := by
  have h' : ¬ m.size < ea.toNat + 1 := by omega
  simp only [Gen.be_i32_atomic_store8, Gen.le_i32_atomic_store8]; mem_eval
  all_goals (first | rfl | (simp [Mem.bswap_readBE16, Mem.bswap_readBE32, Mem.bswap_readBE64, Mem.writeBE16_bswap, Mem.writeBE32_bswap, Mem.writeBE64_bswap, Mem.readLE8, Mem.writeLE8, ofNat_mod8, ofNat_mod16, ofNat_mod32, ofNat_mod64]; done))

theorem i32_atomic_store16_be_eq_le (m : Mem) (ea : BitVec 64) (v : BitVec 32) (h : ea.toNat + 2 ≤ m.size) (ha : ea.toNat % 2 = 0) :
    Gen.be_i32_atomic_store16.call noDefs .be m [.u64 ea, .u32 v] = Gen.le_i32_atomic_store16.call noDefs .le m [.u64 ea, .u32 v] := by
  have h' : ¬ m.size < ea.toNat + 2 := by omega
  simp only [Gen.be_i32_atomic_store16, Gen.le_i32_atomic_store16]; mem_eval
  all_goals (first | rfl | (simp [Mem.bswap_readBE16, Mem.bswap_readBE32, Mem.bswap_readBE64, Mem.writeBE16_bswap, Mem.writeBE32_bswap, Mem.writeBE64_bswap, Mem.readLE8, Mem.writeLE8, ofNat_mod8, ofNat_mod16, ofNat_mod32, ofNat_mod64]; done))

theorem i64_atomic_store8_be_eq_le (m : Mem) (ea : BitVec 64) (v : BitVec 64) (h : ea.toNat + 1 ≤ m.size)  :
    Gen.be_i64_atomic_store8.call noDefs .be m [.u64 ea, .u64 v] = Gen.le_i64_atomic_store8.call noDefs .le m [.u64 ea, .u64 v] := by
  have h' : ¬ m.size < ea.toNat + 1 := by omega
  simp only [Gen.be_i64_atomic_store8, Gen.le_i64_atomic_store8]; mem_eval
  all_goals (first | rfl | (simp [Mem.bswap_readBE16, Mem.bswap_readBE32, Mem.bswap_readBE64, Mem.writeBE16_bswap, Mem.writeBE32_bswap, Mem.writeBE64_bswap, Mem.readLE8, Mem.writeLE8, ofNat_mod8, ofNat_mod16, ofNat_mod32, ofNat_mod64]; done))

theorem i64_atomic_store16_be_eq_le (m : Mem) (ea : BitVec 64) (v : BitVec 64) (h : ea.toNat + 2 ≤ m.size) (ha : ea.toNat % 2 = 0) :
    Gen.be_i64_atomic_store16.call noDefs .be m [.u64 ea, .u64 v] = Gen.le_i64_atomic_store16.call noDefs .le m [.u64 ea, .u64 v] := by
  have h' : ¬ m.size < ea.toNat + 2 := by omega
  simp only [Gen.be_i64_atomic_store16, Gen.le_i64_atomic_store16]; mem_eval
  all_goals (first | rfl | (simp [Mem.bswap_readBE16, Mem.bswap_readBE32, Mem.bswap_readBE64, Mem.writeBE16_bswap, Mem.writeBE32_bswap, Mem.writeBE64_bswap, Mem.readLE8, Mem.writeLE8, ofNat_mod8, ofNat_mod16, ofNat_mod32, ofNat_mod64]; done))

theorem i64_atomic_store32_be_eq_le (m : Mem) (ea : BitVec 64) (v : BitVec 64) (h : ea.toNat + 4 ≤ m.size) (ha : ea.toNat % 4 = 0) :
    Gen.be_i64_atomic_store32.call noDefs .be m [.u64 ea, .u64 v] = Gen.le_i64_atomic_store32.call noDefs .le m [.u64 ea, .u64 v] := by
  have h' : ¬ m.size < ea.toNat + 4 := by omega
  simp only [Gen.be_i64_atomic_store32, Gen.le_i64_atomic_store32]; mem_eval
  all_goals (first | rfl | (simp [Mem.bswap_readBE16, Mem.bswap_readBE32, Mem.bswap_readBE64, Mem.writeBE16_bswap, Mem.writeBE32_bswap, Mem.writeBE64_bswap, Mem.readLE8, Mem.writeLE8, ofNat_mod8, ofNat_mod16, ofNat_mod32, ofNat_mod64]; done))

end W2c2Verif.Props.C19
