/-
  Props.C10Names — the `-g` debug-name lookup of the declaration writer never reads outside the name table (C10: no
  out-of-bounds read for any valid module and any option combination).

  `module->functionNames` is filled while the `name` custom section is read, with one slot per function index known AT THAT
  POINT of the file: a name section may legally precede the function section (custom sections may appear anywhere; the
  module stays valid), and then the table has `importCount` slots only while the function index space has
  `importCount + functions.count` entries.  So the table length is NOT a function of the module's function count, and every
  read must be guarded by the table's own length, with the SAME index it reads with.

  `Gen.DebugNames` is regenerated from c.c / reader.c on every run (tools/extract/gen_debugnames.py): every read
  `names[access]` of wasmCWriteFunctionDeclarations with the conditions `g < functionNames.length` that hold where it is made,
  whether the pointer read is NULL-tested before use, and the reader's reserve / length / store discipline.

  * `debug_name_lookups_guarded`   — finite-table theorem over the regenerated lookups: the index read with is one of the
                                     guarded indices, and the pointer read is NULL-checked;
  * `debug_name_lookup_in_bounds`  — for EVERY import count, loop position and table length (also tables shorter than the
                                     function index space): every read is below the table length;
  * `debug_name_read_inside_block` — … and therefore inside the heap block the reader reserved (Props/C10Array contract);
  * `name_table_initialised`       — after every name section (also a second, longer one: the table is then grown by
                                     realloc and the regenerated zero-fill covers the slots gained) every slot below the
                                     table length holds NULL or a name;
  * `short_table_reachable`, `unshifted_guard_overreads` — the obligation is not vacuous: with the name section in front of
                                     the function section the table is shorter than the index space, and guarding with the
                                     module-local index while reading with the import-shifted one (seeded change C10/11)
                                     reads past it.
-/
import W2c2Verif.Gen.DebugNames
import W2c2Verif.Props.C10Array

namespace W2c2Verif.Props.C10Names
open W2c2Verif.Gen.DebugNames

/-- value of an index expression: U32 arithmetic (`assertSizeU32(importCount) + declared` is computed in `U32`) -/
def eval (importCount declared functionCount : Nat) : Idx → Nat
  | .importCount => importCount
  | .declared => declared
  | .functionCount => functionCount
  | .lit n => n % 4294967296
  | .add a b => (eval importCount declared functionCount a + eval importCount declared functionCount b) % 4294967296
  | .sub a b => (eval importCount declared functionCount a + 4294967296
                  - eval importCount declared functionCount b % 4294967296) % 4294967296
  | .mul a b => (eval importCount declared functionCount a * eval importCount declared functionCount b) % 4294967296

/-- Finite-table theorem over the regenerated `Gen.DebugNames.lookups`: every read of the name table uses an index that
    is itself guarded against the table length, and the pointer it yields is tested against NULL before it is used. -/
theorem debug_name_lookups_guarded : ∀ l, l ∈ lookups → l.access ∈ l.guards ∧ l.nullChecked = true := by
  decide

/-- the reader stores `length := <slots just reserved>` and writes a name only below that count -/
theorem reader_table_discipline :
    readerLengthIsReserved = true ∧ readerStoreGuarded = true ∧ readerZeroesGrownSlots = true := by
  decide

/-- **No read beyond the name table**, for every import count, every loop position, every function count and EVERY table
    length `len` (in particular tables shorter than the function index space). -/
theorem debug_name_lookup_in_bounds (importCount declared functionCount len : Nat) (l : Lookup) (hl : l ∈ lookups)
    (hg : ∀ g, g ∈ l.guards → eval importCount declared functionCount g < len) :
    eval importCount declared functionCount l.access < len :=
  hg _ (debug_name_lookups_guarded l hl).1

open W2c2Verif.Model.Array in
/-- … hence inside the heap block: the table's block was obtained by a successful `wasmNamesEnsureCapacity(table, len)`
    (reader_table_discipline: `length = len` is what was reserved), which leaves at least `len` slots (Props/C10Array). -/
theorem debug_name_read_inside_block {α : Type} (M itemSize : Nat) (allocOk : Bool) (b b' : Block α)
    (importCount declared functionCount len : Nat) (l : Lookup) (hl : l ∈ lookups)
    (hwf : b.WF) (hlen : len < M) (hc : b.capacity < M) (hi : 0 < itemSize)
    (hnw : b.capacity < len → C10Array.NoWrap M len b.capacity itemSize)
    (hres : ensureCapacity M itemSize allocOk b len = some b')
    (hg : ∀ g, g ∈ l.guards → eval importCount declared functionCount g < len) :
    eval importCount declared functionCount l.access < b'.slots.length :=
  C10Array.reserve_then_index_in_bounds M itemSize allocOk b b' len hwf hlen hc hi hnw hres _
    (debug_name_lookup_in_bounds importCount declared functionCount len l hl hg)

/-! ### every slot below `length` is initialised (what `strcmp` in wasmFunctionNamesRemoveDuplicates and the lookup rely on) -/

/-- a slot of the name table: `none` = indeterminate (obtained from realloc, never written), `some none` = NULL,
    `some (some n)` = a name -/
abbrev Slot := Option (Option String)

/-- the block after `wasmNamesEnsureCapacity(table, r)`: an empty table is calloc'ed (zero-filled), a non-empty one is
    realloc'ed (the old slots are kept, the slots gained are indeterminate) -/
def extend (slots : List Slot) (r : Nat) : List Slot :=
  match slots with
  | [] => List.replicate r (some none)
  | _ :: _ => slots ++ List.replicate (r - slots.length) none

/-- `wasmNamesEnsureCapacity(table, r)` on a table with `oldLen` entries, then (iff `zeroNew`, and only when the table
    grows) `memset(names + oldLen, 0, (r - oldLen) * sizeof(char*))`, then `length = r`. -/
def growSlots (zeroNew : Bool) (slots : List Slot) (oldLen r : Nat) : List Slot :=
  if zeroNew = true ∧ oldLen < r then
    (extend slots r).take oldLen ++ (List.replicate (r - oldLen) (some none) ++ (extend slots r).drop r)
  else extend slots r

/-- every slot below `n` holds NULL or a name -/
def InitBelow (slots : List Slot) (n : Nat) : Prop := ∀ i, i < n → ∃ v, slots[i]? = some (some v)

theorem extend_get (slots : List Slot) (r i : Nat) (h : i < slots.length) : (extend slots r)[i]? = slots[i]? := by
  cases slots with
  | nil => simp at h
  | cons a t => exact List.getElem?_append_left h

theorem extend_length_ge (slots : List Slot) (r n : Nat) (h : n ≤ slots.length) : n ≤ (extend slots r).length := by
  cases slots with
  | nil => simp at h; omega
  | cons a t => simp only [extend, List.length_append]; omega

/-- **The name table is initialised below its length after every name section** (first or later one, longer or shorter
    than the table): with the regenerated zero-fill, if the slots below the old length were initialised, the slots below
    the new length are. -/
theorem name_table_initialised (slots : List Slot) (oldLen r : Nat) (hlen : oldLen ≤ slots.length)
    (hinit : InitBelow slots oldLen) : InitBelow (growSlots readerZeroesGrownSlots slots oldLen r) r := by
  have hz : readerZeroesGrownSlots = true := by decide
  rw [hz]
  intro i hi
  have hge := extend_length_ge slots r oldLen hlen
  unfold growSlots
  by_cases hgrow : oldLen < r
  · rw [if_pos ⟨rfl, hgrow⟩]
    have htl : ((extend slots r).take oldLen).length = oldLen := by rw [List.length_take]; omega
    by_cases hi0 : i < oldLen
    · obtain ⟨v, hv⟩ := hinit i hi0
      refine ⟨v, ?_⟩
      rw [List.getElem?_append_left (by omega), List.getElem?_take_of_lt hi0, extend_get slots r i (by omega)]
      exact hv
    · refine ⟨none, ?_⟩
      rw [List.getElem?_append_right (by omega), htl, List.getElem?_append_left (by rw [List.length_replicate]; omega),
        List.getElem?_replicate, if_pos (by omega)]
  · rw [if_neg (fun h => hgrow h.2)]
    have hi0 : i < oldLen := by omega
    obtain ⟨v, hv⟩ := hinit i hi0
    exact ⟨v, by rw [extend_get slots r i (by omega)]; exact hv⟩

/-- Non-vacuity (the tree before /repo 67c631b): without the zero-fill a 3-slot table grown to 6 has an indeterminate
    slot 3 below its length. -/
theorem grown_table_uninitialised_without_zero_fill :
    (growSlots false [some none, some none, some none] 3 6)[3]? = some none := by decide

/-- The table length when the name section is read after `known` of the module's `functions` function-section entries
    (`known = 0`: name section in front of the function section). -/
def tableLength (importCount known : Nat) : Nat := importCount + known

/-- Non-vacuity 1: a valid module with 3 imported and 3 defined functions whose name section precedes the function section
    has a 3-slot table for a 6-entry index space. -/
theorem short_table_reachable : tableLength 3 0 < 3 + 3 := by decide

/-- Non-vacuity 2 (seeded change C10/11): guarding with the module-local index and reading with the import-shifted one
    passes the guard and reads slot 3 of a 3-slot table. -/
theorem unshifted_guard_overreads :
    eval 3 0 3 .declared < tableLength 3 0 ∧ ¬ eval 3 0 3 (.add .importCount .declared) < tableLength 3 0 := by
  decide

end W2c2Verif.Props.C10Names
