/-
  Props.C16 — atomic memory instructions, value level (single step).

  For each of the 7 atomic loads, 7 atomic stores, 42 read-modify-write and 7 compare-exchange
  functions of w2c2_base.h (bodies regenerated from the current header, this host's
  configuration: one `__atomic_*` builtin per function, modelled as ONE indivisible memory
  step), for every memory, naturally aligned in-bounds address and operand values: the result
  is the zero-extended old cell value and the cell receives the wrapped new value, exactly as
  the threads proposal specifies (`Spec.rmw`, `Spec.cmpxchg`, `Spec.load/store`); cmpxchg
  compares against the WRAPPED expected operand and always returns the old value.
  Atomicity across threads (each wrapper performs exactly one memory step, hence any
  interleaving of wrappers is a sequential order of these steps) is `single_step` below.
-/
import W2c2Verif.Gen.LoadStore
import W2c2Verif.Lemmas.Mem
import W2c2Verif.Lemmas.Tactics
set_option linter.unusedSimpArgs false
set_option linter.unusedVariables false

namespace W2c2Verif.Props.C16
open W2c2Verif

/-- evaluate a memory accessor body on symbolic memory/operands -/
macro "mem_eval" : tactic => `(tactic|
  simp +decide [MFunc.call, bindParams, MStmt.exec, addrOf, CExpr.eval, CExpr.typeOf, Env.get, Env.set, CVal.ty, CTy.bytes, inBounds,
    CVal.ofBits, Mem.hostRead, Mem.hostWrite, CVal.fromNat, CVal.fromInt, Out.ite_bind, CVal.reinterpret, CVal.bits, builtin1,
    RmwOp.apply, CVal.binop, CTy.common, CTy.promote, BinOp.isCmp, CPrim.arithU, CPrim.cmpU, CVal.truthy, *])

theorem toNat_eq_mod_iff16 {N : Nat} (x : BitVec 16) (e : BitVec N) : (x.toNat = e.toNat % 65536) ↔ x = e.setWidth 16 := by
  constructor
  · intro h; apply BitVec.eq_of_toNat_eq; simpa using h
  · intro h; subst h; simp
theorem toNat_eq_mod_iff8 {N : Nat} (x : BitVec 8) (e : BitVec N) : (x.toNat = e.toNat % 256) ↔ x = e.setWidth 8 := by
  constructor
  · intro h; apply BitVec.eq_of_toNat_eq; simpa using h
  · intro h; subst h; simp
theorem toNat_eq_mod_iff32 {N : Nat} (x : BitVec 32) (e : BitVec N) : (x.toNat = e.toNat % 4294967296) ↔ x = e.setWidth 32 := by
  constructor
  · intro h; apply BitVec.eq_of_toNat_eq; simpa using h
  · intro h; subst h; simp
theorem toNat_eq_iff64 (x e : BitVec 64) : (x.toNat = e.toNat) ↔ x = e := by
  constructor
  · intro h; exact BitVec.eq_of_toNat_eq h
  · intro h; subst h; rfl

macro "atomic_fin" : tactic => `(tactic|
  all_goals (simp [Spec.rmw, Spec.cmpxchg, Spec.load, Spec.store, RmwOp.apply, Mem.readLE8_eq, Mem.readLE16_eq, Mem.readLE32_eq, Mem.readLE64_eq,
    Mem.writeLE8_eq, Mem.writeLE16_eq, Mem.writeLE32_eq, Mem.writeLE64_eq, Spec.zext8, Spec.zext16, Spec.zext32,
    Spec.store_setWidth32, Spec.store_setWidth16, Spec.store_setWidth8, Spec.storeBytes_mod1, Spec.storeBytes_mod2, Spec.storeBytes_mod4,
    toNat_eq_mod_iff8, toNat_eq_mod_iff16, toNat_eq_mod_iff32, toNat_eq_iff64]))

theorem i32_atomic_load8_u_correct (m : Mem) (ea : BitVec 64) (h : ea.toNat + 1 ≤ m.size)  :
    Gen.le_i32_atomic_load8_u.call noDefs .le m [.u64 ea] = .val (some (.u32 (Spec.load 1 false 32 m ea.toNat)), m) := by
  have h' : ¬ m.size < ea.toNat + 1 := by omega
  have h1 : ea.toNat % 1 = 0 := Nat.mod_one _
  simp only [Gen.le_i32_atomic_load8_u]; mem_eval
  atomic_fin

theorem i64_atomic_load8_u_correct (m : Mem) (ea : BitVec 64) (h : ea.toNat + 1 ≤ m.size)  :
    Gen.le_i64_atomic_load8_u.call noDefs .le m [.u64 ea] = .val (some (.u64 (Spec.load 1 false 64 m ea.toNat)), m) := by
  have h' : ¬ m.size < ea.toNat + 1 := by omega
  have h1 : ea.toNat % 1 = 0 := Nat.mod_one _
  simp only [Gen.le_i64_atomic_load8_u]; mem_eval
  atomic_fin

theorem i32_atomic_load16_u_correct (m : Mem) (ea : BitVec 64) (h : ea.toNat + 2 ≤ m.size) (ha : ea.toNat % 2 = 0) :
    Gen.le_i32_atomic_load16_u.call noDefs .le m [.u64 ea] = .val (some (.u32 (Spec.load 2 false 32 m ea.toNat)), m) := by
  have h' : ¬ m.size < ea.toNat + 2 := by omega
  have h1 : ea.toNat % 1 = 0 := Nat.mod_one _
  simp only [Gen.le_i32_atomic_load16_u]; mem_eval
  atomic_fin

theorem i64_atomic_load16_u_correct (m : Mem) (ea : BitVec 64) (h : ea.toNat + 2 ≤ m.size) (ha : ea.toNat % 2 = 0) :
    Gen.le_i64_atomic_load16_u.call noDefs .le m [.u64 ea] = .val (some (.u64 (Spec.load 2 false 64 m ea.toNat)), m) := by
  have h' : ¬ m.size < ea.toNat + 2 := by omega
  have h1 : ea.toNat % 1 = 0 := Nat.mod_one _
  simp only [Gen.le_i64_atomic_load16_u]; mem_eval
  atomic_fin

theorem i64_atomic_load32_u_correct (m : Mem) (ea : BitVec 64) (h : ea.toNat + 4 ≤ m.size) (ha : ea.toNat % 4 = 0) :
    Gen.le_i64_atomic_load32_u.call noDefs .le m [.u64 ea] = .val (some (.u64 (Spec.load 4 false 64 m ea.toNat)), m) := by
  have h' : ¬ m.size < ea.toNat + 4 := by omega
  have h1 : ea.toNat % 1 = 0 := Nat.mod_one _
  simp only [Gen.le_i64_atomic_load32_u]; mem_eval
  atomic_fin

theorem i32_atomic_load_correct (m : Mem) (ea : BitVec 64) (h : ea.toNat + 4 ≤ m.size) (ha : ea.toNat % 4 = 0) :
    Gen.le_i32_atomic_load.call noDefs .le m [.u64 ea] = .val (some (.u32 (Spec.load 4 false 32 m ea.toNat)), m) := by
  have h' : ¬ m.size < ea.toNat + 4 := by omega
  have h1 : ea.toNat % 1 = 0 := Nat.mod_one _
  simp only [Gen.le_i32_atomic_load]; mem_eval
  atomic_fin

theorem i64_atomic_load_correct (m : Mem) (ea : BitVec 64) (h : ea.toNat + 8 ≤ m.size) (ha : ea.toNat % 8 = 0) :
    Gen.le_i64_atomic_load.call noDefs .le m [.u64 ea] = .val (some (.u64 (Spec.load 8 false 64 m ea.toNat)), m) := by
  have h' : ¬ m.size < ea.toNat + 8 := by omega
  have h1 : ea.toNat % 1 = 0 := Nat.mod_one _
  simp only [Gen.le_i64_atomic_load]; mem_eval
  atomic_fin

theorem i32_atomic_store_correct (m : Mem) (ea : BitVec 64) (v : BitVec 32) (h : ea.toNat + 4 ≤ m.size) (ha : ea.toNat % 4 = 0) :
    Gen.le_i32_atomic_store.call noDefs .le m [.u64 ea, .u32 v] = .val (none, Spec.store 4 m ea.toNat v) := by
  have h' : ¬ m.size < ea.toNat + 4 := by omega
  have h1 : ea.toNat % 1 = 0 := Nat.mod_one _
  simp only [Gen.le_i32_atomic_store]; mem_eval
  atomic_fin

theorem i64_atomic_store_correct (m : Mem) (ea : BitVec 64) (v : BitVec 64) (h : ea.toNat + 8 ≤ m.size) (ha : ea.toNat % 8 = 0) :
    Gen.le_i64_atomic_store.call noDefs .le m [.u64 ea, .u64 v] = .val (none, Spec.store 8 m ea.toNat v) := by
  have h' : ¬ m.size < ea.toNat + 8 := by omega
  have h1 : ea.toNat % 1 = 0 := Nat.mod_one _
  simp only [Gen.le_i64_atomic_store]; mem_eval
  atomic_fin

theorem i32_atomic_store8_correct (m : Mem) (ea : BitVec 64) (v : BitVec 32) (h : ea.toNat + 1 ≤ m.size)  :
    Gen.le_i32_atomic_store8.call noDefs .le m [.u64 ea, .u32 v] = .val (none, Spec.store 1 m ea.toNat v) := by
  have h' : ¬ m.size < ea.toNat + 1 := by omega
  have h1 : ea.toNat % 1 = 0 := Nat.mod_one _
  simp only [Gen.le_i32_atomic_store8]; mem_eval
  atomic_fin

theorem i32_atomic_store16_correct (m : Mem) (ea : BitVec 64) (v : BitVec 32) (h : ea.toNat + 2 ≤ m.size) (ha : ea.toNat % 2 = 0) :
    Gen.le_i32_atomic_store16.call noDefs .le m [.u64 ea, .u32 v] = .val (none, Spec.store 2 m ea.toNat v) := by
  have h' : ¬ m.size < ea.toNat + 2 := by omega
  have h1 : ea.toNat % 1 = 0 := Nat.mod_one _
  simp only [Gen.le_i32_atomic_store16]; mem_eval
  atomic_fin

theorem i64_atomic_store8_correct (m : Mem) (ea : BitVec 64) (v : BitVec 64) (h : ea.toNat + 1 ≤ m.size)  :
    Gen.le_i64_atomic_store8.call noDefs .le m [.u64 ea, .u64 v] = .val (none, Spec.store 1 m ea.toNat v) := by
  have h' : ¬ m.size < ea.toNat + 1 := by omega
  have h1 : ea.toNat % 1 = 0 := Nat.mod_one _
  simp only [Gen.le_i64_atomic_store8]; mem_eval
  atomic_fin

theorem i64_atomic_store16_correct (m : Mem) (ea : BitVec 64) (v : BitVec 64) (h : ea.toNat + 2 ≤ m.size) (ha : ea.toNat % 2 = 0) :
    Gen.le_i64_atomic_store16.call noDefs .le m [.u64 ea, .u64 v] = .val (none, Spec.store 2 m ea.toNat v) := by
  have h' : ¬ m.size < ea.toNat + 2 := by omega
  have h1 : ea.toNat % 1 = 0 := Nat.mod_one _
  simp only [Gen.le_i64_atomic_store16]; mem_eval
  atomic_fin

theorem i64_atomic_store32_correct (m : Mem) (ea : BitVec 64) (v : BitVec 64) (h : ea.toNat + 4 ≤ m.size) (ha : ea.toNat % 4 = 0) :
    Gen.le_i64_atomic_store32.call noDefs .le m [.u64 ea, .u64 v] = .val (none, Spec.store 4 m ea.toNat v) := by
  have h' : ¬ m.size < ea.toNat + 4 := by omega
  have h1 : ea.toNat % 1 = 0 := Nat.mod_one _
  simp only [Gen.le_i64_atomic_store32]; mem_eval
  atomic_fin

theorem i32_atomic_rmw8_add_u_correct (m : Mem) (ea : BitVec 64) (v : BitVec 32) (h : ea.toNat + 1 ≤ m.size)  :
    Gen.le_i32_atomic_rmw8_add_u.call noDefs .le m [.u64 ea, .u32 v] =
      .val (some (.u32 (Spec.rmw 1 8 32 .add m ea.toNat v).1), (Spec.rmw 1 8 32 .add m ea.toNat v).2) := by
  have h' : ¬ m.size < ea.toNat + 1 := by omega
  have h1 : ea.toNat % 1 = 0 := Nat.mod_one _
  simp only [Gen.le_i32_atomic_rmw8_add_u]; mem_eval
  atomic_fin

theorem i32_atomic_rmw16_add_u_correct (m : Mem) (ea : BitVec 64) (v : BitVec 32) (h : ea.toNat + 2 ≤ m.size) (ha : ea.toNat % 2 = 0) :
    Gen.le_i32_atomic_rmw16_add_u.call noDefs .le m [.u64 ea, .u32 v] =
      .val (some (.u32 (Spec.rmw 2 16 32 .add m ea.toNat v).1), (Spec.rmw 2 16 32 .add m ea.toNat v).2) := by
  have h' : ¬ m.size < ea.toNat + 2 := by omega
  have h1 : ea.toNat % 1 = 0 := Nat.mod_one _
  simp only [Gen.le_i32_atomic_rmw16_add_u]; mem_eval
  atomic_fin

theorem i32_atomic_rmw_add_correct (m : Mem) (ea : BitVec 64) (v : BitVec 32) (h : ea.toNat + 4 ≤ m.size) (ha : ea.toNat % 4 = 0) :
    Gen.le_i32_atomic_rmw_add.call noDefs .le m [.u64 ea, .u32 v] =
      .val (some (.u32 (Spec.rmw 4 32 32 .add m ea.toNat v).1), (Spec.rmw 4 32 32 .add m ea.toNat v).2) := by
  have h' : ¬ m.size < ea.toNat + 4 := by omega
  have h1 : ea.toNat % 1 = 0 := Nat.mod_one _
  simp only [Gen.le_i32_atomic_rmw_add]; mem_eval
  atomic_fin

theorem i64_atomic_rmw8_add_u_correct (m : Mem) (ea : BitVec 64) (v : BitVec 64) (h : ea.toNat + 1 ≤ m.size)  :
    Gen.le_i64_atomic_rmw8_add_u.call noDefs .le m [.u64 ea, .u64 v] =
      .val (some (.u64 (Spec.rmw 1 8 64 .add m ea.toNat v).1), (Spec.rmw 1 8 64 .add m ea.toNat v).2) := by
  have h' : ¬ m.size < ea.toNat + 1 := by omega
  have h1 : ea.toNat % 1 = 0 := Nat.mod_one _
  simp only [Gen.le_i64_atomic_rmw8_add_u]; mem_eval
  atomic_fin

theorem i64_atomic_rmw16_add_u_correct (m : Mem) (ea : BitVec 64) (v : BitVec 64) (h : ea.toNat + 2 ≤ m.size) (ha : ea.toNat % 2 = 0) :
    Gen.le_i64_atomic_rmw16_add_u.call noDefs .le m [.u64 ea, .u64 v] =
      .val (some (.u64 (Spec.rmw 2 16 64 .add m ea.toNat v).1), (Spec.rmw 2 16 64 .add m ea.toNat v).2) := by
  have h' : ¬ m.size < ea.toNat + 2 := by omega
  have h1 : ea.toNat % 1 = 0 := Nat.mod_one _
  simp only [Gen.le_i64_atomic_rmw16_add_u]; mem_eval
  atomic_fin

theorem i64_atomic_rmw32_add_u_correct (m : Mem) (ea : BitVec 64) (v : BitVec 64) (h : ea.toNat + 4 ≤ m.size) (ha : ea.toNat % 4 = 0) :
    Gen.le_i64_atomic_rmw32_add_u.call noDefs .le m [.u64 ea, .u64 v] =
      .val (some (.u64 (Spec.rmw 4 32 64 .add m ea.toNat v).1), (Spec.rmw 4 32 64 .add m ea.toNat v).2) := by
  have h' : ¬ m.size < ea.toNat + 4 := by omega
  have h1 : ea.toNat % 1 = 0 := Nat.mod_one _
  simp only [Gen.le_i64_atomic_rmw32_add_u]; mem_eval
  atomic_fin

theorem i64_atomic_rmw_add_correct (m : Mem) (ea : BitVec 64) (v : BitVec 64) (h : ea.toNat + 8 ≤ m.size) (ha : ea.toNat % 8 = 0) :
    Gen.le_i64_atomic_rmw_add.call noDefs .le m [.u64 ea, .u64 v] =
      .val (some (.u64 (Spec.rmw 8 64 64 .add m ea.toNat v).1), (Spec.rmw 8 64 64 .add m ea.toNat v).2) := by
  have h' : ¬ m.size < ea.toNat + 8 := by omega
  have h1 : ea.toNat % 1 = 0 := Nat.mod_one _
  simp only [Gen.le_i64_atomic_rmw_add]; mem_eval
  atomic_fin

theorem i32_atomic_rmw8_sub_u_correct (m : Mem) (ea : BitVec 64) (v : BitVec 32) (h : ea.toNat + 1 ≤ m.size)  :
    Gen.le_i32_atomic_rmw8_sub_u.call noDefs .le m [.u64 ea, .u32 v] =
      .val (some (.u32 (Spec.rmw 1 8 32 .sub m ea.toNat v).1), (Spec.rmw 1 8 32 .sub m ea.toNat v).2) := by
  have h' : ¬ m.size < ea.toNat + 1 := by omega
  have h1 : ea.toNat % 1 = 0 := Nat.mod_one _
  simp only [Gen.le_i32_atomic_rmw8_sub_u]; mem_eval
  atomic_fin

theorem i32_atomic_rmw16_sub_u_correct (m : Mem) (ea : BitVec 64) (v : BitVec 32) (h : ea.toNat + 2 ≤ m.size) (ha : ea.toNat % 2 = 0) :
    Gen.le_i32_atomic_rmw16_sub_u.call noDefs .le m [.u64 ea, .u32 v] =
      .val (some (.u32 (Spec.rmw 2 16 32 .sub m ea.toNat v).1), (Spec.rmw 2 16 32 .sub m ea.toNat v).2) := by
  have h' : ¬ m.size < ea.toNat + 2 := by omega
  have h1 : ea.toNat % 1 = 0 := Nat.mod_one _
  simp only [Gen.le_i32_atomic_rmw16_sub_u]; mem_eval
  atomic_fin

theorem i32_atomic_rmw_sub_correct (m : Mem) (ea : BitVec 64) (v : BitVec 32) (h : ea.toNat + 4 ≤ m.size) (ha : ea.toNat % 4 = 0) :
    Gen.le_i32_atomic_rmw_sub.call noDefs .le m [.u64 ea, .u32 v] =
      .val (some (.u32 (Spec.rmw 4 32 32 .sub m ea.toNat v).1), (Spec.rmw 4 32 32 .sub m ea.toNat v).2) := by
  have h' : ¬ m.size < ea.toNat + 4 := by omega
  have h1 : ea.toNat % 1 = 0 := Nat.mod_one _
  simp only [Gen.le_i32_atomic_rmw_sub]; mem_eval
  atomic_fin

theorem i64_atomic_rmw8_sub_u_correct (m : Mem) (ea : BitVec 64) (v : BitVec 64) (h : ea.toNat + 1 ≤ m.size)  :
    Gen.le_i64_atomic_rmw8_sub_u.call noDefs .le m [.u64 ea, .u64 v] =
      .val (some (.u64 (Spec.rmw 1 8 64 .sub m ea.toNat v).1), (Spec.rmw 1 8 64 .sub m ea.toNat v).2) := by
  have h' : ¬ m.size < ea.toNat + 1 := by omega
  have h1 : ea.toNat % 1 = 0 := Nat.mod_one _
  simp only [Gen.le_i64_atomic_rmw8_sub_u]; mem_eval
  atomic_fin

theorem i64_atomic_rmw16_sub_u_correct (m : Mem) (ea : BitVec 64) (v : BitVec 64) (h : ea.toNat + 2 ≤ m.size) (ha : ea.toNat % 2 = 0) :
    Gen.le_i64_atomic_rmw16_sub_u.call noDefs .le m [.u64 ea, .u64 v] =
      .val (some (.u64 (Spec.rmw 2 16 64 .sub m ea.toNat v).1), (Spec.rmw 2 16 64 .sub m ea.toNat v).2) := by
  have h' : ¬ m.size < ea.toNat + 2 := by omega
  have h1 : ea.toNat % 1 = 0 := Nat.mod_one _
  simp only [Gen.le_i64_atomic_rmw16_sub_u]; mem_eval
  atomic_fin

theorem i64_atomic_rmw32_sub_u_correct (m : Mem) (ea : BitVec 64) (v : BitVec 64) (h : ea.toNat + 4 ≤ m.size) (ha : ea.toNat % 4 = 0) :
    Gen.le_i64_atomic_rmw32_sub_u.call noDefs .le m [.u64 ea, .u64 v] =
      .val (some (.u64 (Spec.rmw 4 32 64 .sub m ea.toNat v).1), (Spec.rmw 4 32 64 .sub m ea.toNat v).2) := by
  have h' : ¬ m.size < ea.toNat + 4 := by omega
  have h1 : ea.toNat % 1 = 0 := Nat.mod_one _
  simp only [Gen.le_i64_atomic_rmw32_sub_u]; mem_eval
  atomic_fin

theorem i64_atomic_rmw_sub_correct (m : Mem) (ea : BitVec 64) (v : BitVec 64) (h : ea.toNat + 8 ≤ m.size) (ha : ea.toNat % 8 = 0) :
    Gen.le_i64_atomic_rmw_sub.call noDefs .le m [.u64 ea, .u64 v] =
      .val (some (.u64 (Spec.rmw 8 64 64 .sub m ea.toNat v).1), (Spec.rmw 8 64 64 .sub m ea.toNat v).2) := by
  have h' : ¬ m.size < ea.toNat + 8 := by omega
  have h1 : ea.toNat % 1 = 0 := Nat.mod_one _
  simp only [Gen.le_i64_atomic_rmw_sub]; mem_eval
  atomic_fin

theorem i32_atomic_rmw8_and_u_correct (m : Mem) (ea : BitVec 64) (v : BitVec 32) (h : ea.toNat + 1 ≤ m.size)  :
    Gen.le_i32_atomic_rmw8_and_u.call noDefs .le m [.u64 ea, .u32 v] =
      .val (some (.u32 (Spec.rmw 1 8 32 .and m ea.toNat v).1), (Spec.rmw 1 8 32 .and m ea.toNat v).2) := by
  have h' : ¬ m.size < ea.toNat + 1 := by omega
  have h1 : ea.toNat % 1 = 0 := Nat.mod_one _
  simp only [Gen.le_i32_atomic_rmw8_and_u]; mem_eval
  atomic_fin

theorem i32_atomic_rmw16_and_u_correct (m : Mem) (ea : BitVec 64) (v : BitVec 32) (h : ea.toNat + 2 ≤ m.size) (ha : ea.toNat % 2 = 0) :
    Gen.le_i32_atomic_rmw16_and_u.call noDefs .le m [.u64 ea, .u32 v] =
      .val (some (.u32 (Spec.rmw 2 16 32 .and m ea.toNat v).1), (Spec.rmw 2 16 32 .and m ea.toNat v).2) := by
  have h' : ¬ m.size < ea.toNat + 2 := by omega
  have h1 : ea.toNat % 1 = 0 := Nat.mod_one _
  simp only [Gen.le_i32_atomic_rmw16_and_u]; mem_eval
  atomic_fin

theorem i32_atomic_rmw_and_correct (m : Mem) (ea : BitVec 64) (v : BitVec 32) (h : ea.toNat + 4 ≤ m.size) (ha : ea.toNat % 4 = 0) :
    Gen.le_i32_atomic_rmw_and.call noDefs .le m [.u64 ea, .u32 v] =
      .val (some (.u32 (Spec.rmw 4 32 32 .and m ea.toNat v).1), (Spec.rmw 4 32 32 .and m ea.toNat v).2) := by
  have h' : ¬ m.size < ea.toNat + 4 := by omega
  have h1 : ea.toNat % 1 = 0 := Nat.mod_one _
  simp only [Gen.le_i32_atomic_rmw_and]; mem_eval
  atomic_fin

theorem i64_atomic_rmw8_and_u_correct (m : Mem) (ea : BitVec 64) (v : BitVec 64) (h : ea.toNat + 1 ≤ m.size)  :
    Gen.le_i64_atomic_rmw8_and_u.call noDefs .le m [.u64 ea, .u64 v] =
      .val (some (.u64 (Spec.rmw 1 8 64 .and m ea.toNat v).1), (Spec.rmw 1 8 64 .and m ea.toNat v).2) := by
  have h' : ¬ m.size < ea.toNat + 1 := by omega
  have h1 : ea.toNat % 1 = 0 := Nat.mod_one _
  simp only [Gen.le_i64_atomic_rmw8_and_u]; mem_eval
  atomic_fin

theorem i64_atomic_rmw16_and_u_correct (m : Mem) (ea : BitVec 64) (v : BitVec 64) (h : ea.toNat + 2 ≤ m.size) (ha : ea.toNat % 2 = 0) :
    Gen.le_i64_atomic_rmw16_and_u.call noDefs .le m [.u64 ea, .u64 v] =
      .val (some (.u64 (Spec.rmw 2 16 64 .and m ea.toNat v).1), (Spec.rmw 2 16 64 .and m ea.toNat v).2) := by
  have h' : ¬ m.size < ea.toNat + 2 := by omega
  have h1 : ea.toNat % 1 = 0 := Nat.mod_one _
  simp only [Gen.le_i64_atomic_rmw16_and_u]; mem_eval
  atomic_fin

theorem i64_atomic_rmw32_and_u_correct (m : Mem) (ea : BitVec 64) (v : BitVec 64) (h : ea.toNat + 4 ≤ m.size) (ha : ea.toNat % 4 = 0) :
    Gen.le_i64_atomic_rmw32_and_u.call noDefs .le m [.u64 ea, .u64 v] =
      .val (some (.u64 (Spec.rmw 4 32 64 .and m ea.toNat v).1), (Spec.rmw 4 32 64 .and m ea.toNat v).2) := by
  have h' : ¬ m.size < ea.toNat + 4 := by omega
  have h1 : ea.toNat % 1 = 0 := Nat.mod_one _
  simp only [Gen.le_i64_atomic_rmw32_and_u]; mem_eval
  atomic_fin

theorem i64_atomic_rmw_and_correct (m : Mem) (ea : BitVec 64) (v : BitVec 64) (h : ea.toNat + 8 ≤ m.size) (ha : ea.toNat % 8 = 0) :
    Gen.le_i64_atomic_rmw_and.call noDefs .le m [.u64 ea, .u64 v] =
      .val (some (.u64 (Spec.rmw 8 64 64 .and m ea.toNat v).1), (Spec.rmw 8 64 64 .and m ea.toNat v).2) := by
  have h' : ¬ m.size < ea.toNat + 8 := by omega
  have h1 : ea.toNat % 1 = 0 := Nat.mod_one _
  simp only [Gen.le_i64_atomic_rmw_and]; mem_eval
  atomic_fin

theorem i32_atomic_rmw8_or_u_correct (m : Mem) (ea : BitVec 64) (v : BitVec 32) (h : ea.toNat + 1 ≤ m.size)  :
    Gen.le_i32_atomic_rmw8_or_u.call noDefs .le m [.u64 ea, .u32 v] =
      .val (some (.u32 (Spec.rmw 1 8 32 .or m ea.toNat v).1), (Spec.rmw 1 8 32 .or m ea.toNat v).2) := by
  have h' : ¬ m.size < ea.toNat + 1 := by omega
  have h1 : ea.toNat % 1 = 0 := Nat.mod_one _
  simp only [Gen.le_i32_atomic_rmw8_or_u]; mem_eval
  atomic_fin

theorem i32_atomic_rmw16_or_u_correct (m : Mem) (ea : BitVec 64) (v : BitVec 32) (h : ea.toNat + 2 ≤ m.size) (ha : ea.toNat % 2 = 0) :
    Gen.le_i32_atomic_rmw16_or_u.call noDefs .le m [.u64 ea, .u32 v] =
      .val (some (.u32 (Spec.rmw 2 16 32 .or m ea.toNat v).1), (Spec.rmw 2 16 32 .or m ea.toNat v).2) := by
  have h' : ¬ m.size < ea.toNat + 2 := by omega
  have h1 : ea.toNat % 1 = 0 := Nat.mod_one _
  simp only [Gen.le_i32_atomic_rmw16_or_u]; mem_eval
  atomic_fin

theorem i32_atomic_rmw_or_correct (m : Mem) (ea : BitVec 64) (v : BitVec 32) (h : ea.toNat + 4 ≤ m.size) (ha : ea.toNat % 4 = 0) :
    Gen.le_i32_atomic_rmw_or.call noDefs .le m [.u64 ea, .u32 v] =
      .val (some (.u32 (Spec.rmw 4 32 32 .or m ea.toNat v).1), (Spec.rmw 4 32 32 .or m ea.toNat v).2) := by
  have h' : ¬ m.size < ea.toNat + 4 := by omega
  have h1 : ea.toNat % 1 = 0 := Nat.mod_one _
  simp only [Gen.le_i32_atomic_rmw_or]; mem_eval
  atomic_fin

theorem i64_atomic_rmw8_or_u_correct (m : Mem) (ea : BitVec 64) (v : BitVec 64) (h : ea.toNat + 1 ≤ m.size)  :
    Gen.le_i64_atomic_rmw8_or_u.call noDefs .le m [.u64 ea, .u64 v] =
      .val (some (.u64 (Spec.rmw 1 8 64 .or m ea.toNat v).1), (Spec.rmw 1 8 64 .or m ea.toNat v).2) := by
  have h' : ¬ m.size < ea.toNat + 1 := by omega
  have h1 : ea.toNat % 1 = 0 := Nat.mod_one _
  simp only [Gen.le_i64_atomic_rmw8_or_u]; mem_eval
  atomic_fin

theorem i64_atomic_rmw16_or_u_correct (m : Mem) (ea : BitVec 64) (v : BitVec 64) (h : ea.toNat + 2 ≤ m.size) (ha : ea.toNat % 2 = 0) :
    Gen.le_i64_atomic_rmw16_or_u.call noDefs .le m [.u64 ea, .u64 v] =
      .val (some (.u64 (Spec.rmw 2 16 64 .or m ea.toNat v).1), (Spec.rmw 2 16 64 .or m ea.toNat v).2) := by
  have h' : ¬ m.size < ea.toNat + 2 := by omega
  have h1 : ea.toNat % 1 = 0 := Nat.mod_one _
  simp only [Gen.le_i64_atomic_rmw16_or_u]; mem_eval
  atomic_fin

theorem i64_atomic_rmw32_or_u_correct (m : Mem) (ea : BitVec 64) (v : BitVec 64) (h : ea.toNat + 4 ≤ m.size) (ha : ea.toNat % 4 = 0) :
    Gen.le_i64_atomic_rmw32_or_u.call noDefs .le m [.u64 ea, .u64 v] =
      .val (some (.u64 (Spec.rmw 4 32 64 .or m ea.toNat v).1), (Spec.rmw 4 32 64 .or m ea.toNat v).2) := by
  have h' : ¬ m.size < ea.toNat + 4 := by omega
  have h1 : ea.toNat % 1 = 0 := Nat.mod_one _
  simp only [Gen.le_i64_atomic_rmw32_or_u]; mem_eval
  atomic_fin

theorem i64_atomic_rmw_or_correct (m : Mem) (ea : BitVec 64) (v : BitVec 64) (h : ea.toNat + 8 ≤ m.size) (ha : ea.toNat % 8 = 0) :
    Gen.le_i64_atomic_rmw_or.call noDefs .le m [.u64 ea, .u64 v] =
      .val (some (.u64 (Spec.rmw 8 64 64 .or m ea.toNat v).1), (Spec.rmw 8 64 64 .or m ea.toNat v).2) := by
  have h' : ¬ m.size < ea.toNat + 8 := by omega
  have h1 : ea.toNat % 1 = 0 := Nat.mod_one _
  simp only [Gen.le_i64_atomic_rmw_or]; mem_eval
  atomic_fin

theorem i32_atomic_rmw8_xor_u_correct (m : Mem) (ea : BitVec 64) (v : BitVec 32) (h : ea.toNat + 1 ≤ m.size)  :
    Gen.le_i32_atomic_rmw8_xor_u.call noDefs .le m [.u64 ea, .u32 v] =
      .val (some (.u32 (Spec.rmw 1 8 32 .xor m ea.toNat v).1), (Spec.rmw 1 8 32 .xor m ea.toNat v).2) := by
  have h' : ¬ m.size < ea.toNat + 1 := by omega
  have h1 : ea.toNat % 1 = 0 := Nat.mod_one _
  simp only [Gen.le_i32_atomic_rmw8_xor_u]; mem_eval
  atomic_fin

theorem i32_atomic_rmw16_xor_u_correct (m : Mem) (ea : BitVec 64) (v : BitVec 32) (h : ea.toNat + 2 ≤ m.size) (ha : ea.toNat % 2 = 0) :
    Gen.le_i32_atomic_rmw16_xor_u.call noDefs .le m [.u64 ea, .u32 v] =
      .val (some (.u32 (Spec.rmw 2 16 32 .xor m ea.toNat v).1), (Spec.rmw 2 16 32 .xor m ea.toNat v).2) := by
  have h' : ¬ m.size < ea.toNat + 2 := by omega
  have h1 : ea.toNat % 1 = 0 := Nat.mod_one _
  simp only [Gen.le_i32_atomic_rmw16_xor_u]; mem_eval
  atomic_fin

theorem i32_atomic_rmw_xor_correct (m : Mem) (ea : BitVec 64) (v : BitVec 32) (h : ea.toNat + 4 ≤ m.size) (ha : ea.toNat % 4 = 0) :
    Gen.le_i32_atomic_rmw_xor.call noDefs .le m [.u64 ea, .u32 v] =
      .val (some (.u32 (Spec.rmw 4 32 32 .xor m ea.toNat v).1), (Spec.rmw 4 32 32 .xor m ea.toNat v).2) := by
  have h' : ¬ m.size < ea.toNat + 4 := by omega
  have h1 : ea.toNat % 1 = 0 := Nat.mod_one _
  simp only [Gen.le_i32_atomic_rmw_xor]; mem_eval
  atomic_fin

theorem i64_atomic_rmw8_xor_u_correct (m : Mem) (ea : BitVec 64) (v : BitVec 64) (h : ea.toNat + 1 ≤ m.size)  :
    Gen.le_i64_atomic_rmw8_xor_u.call noDefs .le m [.u64 ea, .u64 v] =
      .val (some (.u64 (Spec.rmw 1 8 64 .xor m ea.toNat v).1), (Spec.rmw 1 8 64 .xor m ea.toNat v).2) := by
  have h' : ¬ m.size < ea.toNat + 1 := by omega
  have h1 : ea.toNat % 1 = 0 := Nat.mod_one _
  simp only [Gen.le_i64_atomic_rmw8_xor_u]; mem_eval
  atomic_fin

theorem i64_atomic_rmw16_xor_u_correct (m : Mem) (ea : BitVec 64) (v : BitVec 64) (h : ea.toNat + 2 ≤ m.size) (ha : ea.toNat % 2 = 0) :
    Gen.le_i64_atomic_rmw16_xor_u.call noDefs .le m [.u64 ea, .u64 v] =
      .val (some (.u64 (Spec.rmw 2 16 64 .xor m ea.toNat v).1), (Spec.rmw 2 16 64 .xor m ea.toNat v).2) := by
  have h' : ¬ m.size < ea.toNat + 2 := by omega
  have h1 : ea.toNat % 1 = 0 := Nat.mod_one _
  simp only [Gen.le_i64_atomic_rmw16_xor_u]; mem_eval
  atomic_fin

theorem i64_atomic_rmw32_xor_u_correct (m : Mem) (ea : BitVec 64) (v : BitVec 64) (h : ea.toNat + 4 ≤ m.size) (ha : ea.toNat % 4 = 0) :
    Gen.le_i64_atomic_rmw32_xor_u.call noDefs .le m [.u64 ea, .u64 v] =
      .val (some (.u64 (Spec.rmw 4 32 64 .xor m ea.toNat v).1), (Spec.rmw 4 32 64 .xor m ea.toNat v).2) := by
  have h' : ¬ m.size < ea.toNat + 4 := by omega
  have h1 : ea.toNat % 1 = 0 := Nat.mod_one _
  simp only [Gen.le_i64_atomic_rmw32_xor_u]; mem_eval
  atomic_fin

theorem i64_atomic_rmw_xor_correct (m : Mem) (ea : BitVec 64) (v : BitVec 64) (h : ea.toNat + 8 ≤ m.size) (ha : ea.toNat % 8 = 0) :
    Gen.le_i64_atomic_rmw_xor.call noDefs .le m [.u64 ea, .u64 v] =
      .val (some (.u64 (Spec.rmw 8 64 64 .xor m ea.toNat v).1), (Spec.rmw 8 64 64 .xor m ea.toNat v).2) := by
  have h' : ¬ m.size < ea.toNat + 8 := by omega
  have h1 : ea.toNat % 1 = 0 := Nat.mod_one _
  simp only [Gen.le_i64_atomic_rmw_xor]; mem_eval
  atomic_fin

theorem i32_atomic_rmw8_xchg_u_correct (m : Mem) (ea : BitVec 64) (v : BitVec 32) (h : ea.toNat + 1 ≤ m.size)  :
    Gen.le_i32_atomic_rmw8_xchg_u.call noDefs .le m [.u64 ea, .u32 v] =
      .val (some (.u32 (Spec.rmw 1 8 32 .xchg m ea.toNat v).1), (Spec.rmw 1 8 32 .xchg m ea.toNat v).2) := by
  have h' : ¬ m.size < ea.toNat + 1 := by omega
  have h1 : ea.toNat % 1 = 0 := Nat.mod_one _
  simp only [Gen.le_i32_atomic_rmw8_xchg_u]; mem_eval
  atomic_fin

theorem i32_atomic_rmw16_xchg_u_correct (m : Mem) (ea : BitVec 64) (v : BitVec 32) (h : ea.toNat + 2 ≤ m.size) (ha : ea.toNat % 2 = 0) :
    Gen.le_i32_atomic_rmw16_xchg_u.call noDefs .le m [.u64 ea, .u32 v] =
      .val (some (.u32 (Spec.rmw 2 16 32 .xchg m ea.toNat v).1), (Spec.rmw 2 16 32 .xchg m ea.toNat v).2) := by
  have h' : ¬ m.size < ea.toNat + 2 := by omega
  have h1 : ea.toNat % 1 = 0 := Nat.mod_one _
  simp only [Gen.le_i32_atomic_rmw16_xchg_u]; mem_eval
  atomic_fin

theorem i32_atomic_rmw_xchg_correct (m : Mem) (ea : BitVec 64) (v : BitVec 32) (h : ea.toNat + 4 ≤ m.size) (ha : ea.toNat % 4 = 0) :
    Gen.le_i32_atomic_rmw_xchg.call noDefs .le m [.u64 ea, .u32 v] =
      .val (some (.u32 (Spec.rmw 4 32 32 .xchg m ea.toNat v).1), (Spec.rmw 4 32 32 .xchg m ea.toNat v).2) := by
  have h' : ¬ m.size < ea.toNat + 4 := by omega
  have h1 : ea.toNat % 1 = 0 := Nat.mod_one _
  simp only [Gen.le_i32_atomic_rmw_xchg]; mem_eval
  atomic_fin

theorem i64_atomic_rmw8_xchg_u_correct (m : Mem) (ea : BitVec 64) (v : BitVec 64) (h : ea.toNat + 1 ≤ m.size)  :
    Gen.le_i64_atomic_rmw8_xchg_u.call noDefs .le m [.u64 ea, .u64 v] =
      .val (some (.u64 (Spec.rmw 1 8 64 .xchg m ea.toNat v).1), (Spec.rmw 1 8 64 .xchg m ea.toNat v).2) := by
  have h' : ¬ m.size < ea.toNat + 1 := by omega
  have h1 : ea.toNat % 1 = 0 := Nat.mod_one _
  simp only [Gen.le_i64_atomic_rmw8_xchg_u]; mem_eval
  atomic_fin

theorem i64_atomic_rmw16_xchg_u_correct (m : Mem) (ea : BitVec 64) (v : BitVec 64) (h : ea.toNat + 2 ≤ m.size) (ha : ea.toNat % 2 = 0) :
    Gen.le_i64_atomic_rmw16_xchg_u.call noDefs .le m [.u64 ea, .u64 v] =
      .val (some (.u64 (Spec.rmw 2 16 64 .xchg m ea.toNat v).1), (Spec.rmw 2 16 64 .xchg m ea.toNat v).2) := by
  have h' : ¬ m.size < ea.toNat + 2 := by omega
  have h1 : ea.toNat % 1 = 0 := Nat.mod_one _
  simp only [Gen.le_i64_atomic_rmw16_xchg_u]; mem_eval
  atomic_fin

theorem i64_atomic_rmw32_xchg_u_correct (m : Mem) (ea : BitVec 64) (v : BitVec 64) (h : ea.toNat + 4 ≤ m.size) (ha : ea.toNat % 4 = 0) :
    Gen.le_i64_atomic_rmw32_xchg_u.call noDefs .le m [.u64 ea, .u64 v] =
      .val (some (.u64 (Spec.rmw 4 32 64 .xchg m ea.toNat v).1), (Spec.rmw 4 32 64 .xchg m ea.toNat v).2) := by
  have h' : ¬ m.size < ea.toNat + 4 := by omega
  have h1 : ea.toNat % 1 = 0 := Nat.mod_one _
  simp only [Gen.le_i64_atomic_rmw32_xchg_u]; mem_eval
  atomic_fin

theorem i64_atomic_rmw_xchg_correct (m : Mem) (ea : BitVec 64) (v : BitVec 64) (h : ea.toNat + 8 ≤ m.size) (ha : ea.toNat % 8 = 0) :
    Gen.le_i64_atomic_rmw_xchg.call noDefs .le m [.u64 ea, .u64 v] =
      .val (some (.u64 (Spec.rmw 8 64 64 .xchg m ea.toNat v).1), (Spec.rmw 8 64 64 .xchg m ea.toNat v).2) := by
  have h' : ¬ m.size < ea.toNat + 8 := by omega
  have h1 : ea.toNat % 1 = 0 := Nat.mod_one _
  simp only [Gen.le_i64_atomic_rmw_xchg]; mem_eval
  atomic_fin

theorem i32_atomic_rmw8_cmpxchg_u_correct (m : Mem) (ea : BitVec 64) (e r : BitVec 32) (h : ea.toNat + 1 ≤ m.size)  :
    Gen.le_i32_atomic_rmw8_cmpxchg_u.call noDefs .le m [.u64 ea, .u32 e, .u32 r] =
      .val (some (.u32 (Spec.cmpxchg 1 8 32 m ea.toNat e r).1), (Spec.cmpxchg 1 8 32 m ea.toNat e r).2) := by
  have h' : ¬ m.size < ea.toNat + 1 := by omega
  have h1 : ea.toNat % 1 = 0 := Nat.mod_one _
  simp only [Gen.le_i32_atomic_rmw8_cmpxchg_u]; mem_eval
  simp only [Spec.cmpxchg, Spec.load, Bool.false_eq_true, ↓reduceIte, ← Mem.readLE8_eq, ← Mem.readLE16_eq, ← Mem.readLE32_eq, ← Mem.readLE64_eq,
    toNat_eq_mod_iff8, toNat_eq_mod_iff16, toNat_eq_mod_iff32, toNat_eq_iff64, BitVec.toNat_inj, BitVec.setWidth_eq]
  split <;> simp [*, Mem.writeLE8_eq, Mem.writeLE16_eq, Mem.writeLE32_eq, Mem.writeLE64_eq]

theorem i32_atomic_rmw16_cmpxchg_u_correct (m : Mem) (ea : BitVec 64) (e r : BitVec 32) (h : ea.toNat + 2 ≤ m.size) (ha : ea.toNat % 2 = 0) :
    Gen.le_i32_atomic_rmw16_cmpxchg_u.call noDefs .le m [.u64 ea, .u32 e, .u32 r] =
      .val (some (.u32 (Spec.cmpxchg 2 16 32 m ea.toNat e r).1), (Spec.cmpxchg 2 16 32 m ea.toNat e r).2) := by
  have h' : ¬ m.size < ea.toNat + 2 := by omega
  have h1 : ea.toNat % 1 = 0 := Nat.mod_one _
  simp only [Gen.le_i32_atomic_rmw16_cmpxchg_u]; mem_eval
  simp only [Spec.cmpxchg, Spec.load, Bool.false_eq_true, ↓reduceIte, ← Mem.readLE8_eq, ← Mem.readLE16_eq, ← Mem.readLE32_eq, ← Mem.readLE64_eq,
    toNat_eq_mod_iff8, toNat_eq_mod_iff16, toNat_eq_mod_iff32, toNat_eq_iff64, BitVec.toNat_inj, BitVec.setWidth_eq]
  split <;> simp [*, Mem.writeLE8_eq, Mem.writeLE16_eq, Mem.writeLE32_eq, Mem.writeLE64_eq]

theorem i32_atomic_rmw_cmpxchg_correct (m : Mem) (ea : BitVec 64) (e r : BitVec 32) (h : ea.toNat + 4 ≤ m.size) (ha : ea.toNat % 4 = 0) :
    Gen.le_i32_atomic_rmw_cmpxchg.call noDefs .le m [.u64 ea, .u32 e, .u32 r] =
      .val (some (.u32 (Spec.cmpxchg 4 32 32 m ea.toNat e r).1), (Spec.cmpxchg 4 32 32 m ea.toNat e r).2) := by
  have h' : ¬ m.size < ea.toNat + 4 := by omega
  have h1 : ea.toNat % 1 = 0 := Nat.mod_one _
  simp only [Gen.le_i32_atomic_rmw_cmpxchg]; mem_eval
  simp only [Spec.cmpxchg, Spec.load, Bool.false_eq_true, ↓reduceIte, ← Mem.readLE8_eq, ← Mem.readLE16_eq, ← Mem.readLE32_eq, ← Mem.readLE64_eq,
    toNat_eq_mod_iff8, toNat_eq_mod_iff16, toNat_eq_mod_iff32, toNat_eq_iff64, BitVec.toNat_inj, BitVec.setWidth_eq]
  split <;> simp [*, Mem.writeLE8_eq, Mem.writeLE16_eq, Mem.writeLE32_eq, Mem.writeLE64_eq]

theorem i64_atomic_rmw8_cmpxchg_u_correct (m : Mem) (ea : BitVec 64) (e r : BitVec 64) (h : ea.toNat + 1 ≤ m.size)  :
    Gen.le_i64_atomic_rmw8_cmpxchg_u.call noDefs .le m [.u64 ea, .u64 e, .u64 r] =
      .val (some (.u64 (Spec.cmpxchg 1 8 64 m ea.toNat e r).1), (Spec.cmpxchg 1 8 64 m ea.toNat e r).2) := by
  have h' : ¬ m.size < ea.toNat + 1 := by omega
  have h1 : ea.toNat % 1 = 0 := Nat.mod_one _
  simp only [Gen.le_i64_atomic_rmw8_cmpxchg_u]; mem_eval
  simp only [Spec.cmpxchg, Spec.load, Bool.false_eq_true, ↓reduceIte, ← Mem.readLE8_eq, ← Mem.readLE16_eq, ← Mem.readLE32_eq, ← Mem.readLE64_eq,
    toNat_eq_mod_iff8, toNat_eq_mod_iff16, toNat_eq_mod_iff32, toNat_eq_iff64, BitVec.toNat_inj, BitVec.setWidth_eq]
  split <;> simp [*, Mem.writeLE8_eq, Mem.writeLE16_eq, Mem.writeLE32_eq, Mem.writeLE64_eq]

theorem i64_atomic_rmw16_cmpxchg_u_correct (m : Mem) (ea : BitVec 64) (e r : BitVec 64) (h : ea.toNat + 2 ≤ m.size) (ha : ea.toNat % 2 = 0) :
    Gen.le_i64_atomic_rmw16_cmpxchg_u.call noDefs .le m [.u64 ea, .u64 e, .u64 r] =
      .val (some (.u64 (Spec.cmpxchg 2 16 64 m ea.toNat e r).1), (Spec.cmpxchg 2 16 64 m ea.toNat e r).2) := by
  have h' : ¬ m.size < ea.toNat + 2 := by omega
  have h1 : ea.toNat % 1 = 0 := Nat.mod_one _
  simp only [Gen.le_i64_atomic_rmw16_cmpxchg_u]; mem_eval
  simp only [Spec.cmpxchg, Spec.load, Bool.false_eq_true, ↓reduceIte, ← Mem.readLE8_eq, ← Mem.readLE16_eq, ← Mem.readLE32_eq, ← Mem.readLE64_eq,
    toNat_eq_mod_iff8, toNat_eq_mod_iff16, toNat_eq_mod_iff32, toNat_eq_iff64, BitVec.toNat_inj, BitVec.setWidth_eq]
  split <;> simp [*, Mem.writeLE8_eq, Mem.writeLE16_eq, Mem.writeLE32_eq, Mem.writeLE64_eq]

theorem i64_atomic_rmw32_cmpxchg_u_correct (m : Mem) (ea : BitVec 64) (e r : BitVec 64) (h : ea.toNat + 4 ≤ m.size) (ha : ea.toNat % 4 = 0) :
    Gen.le_i64_atomic_rmw32_cmpxchg_u.call noDefs .le m [.u64 ea, .u64 e, .u64 r] =
      .val (some (.u64 (Spec.cmpxchg 4 32 64 m ea.toNat e r).1), (Spec.cmpxchg 4 32 64 m ea.toNat e r).2) := by
  have h' : ¬ m.size < ea.toNat + 4 := by omega
  have h1 : ea.toNat % 1 = 0 := Nat.mod_one _
  simp only [Gen.le_i64_atomic_rmw32_cmpxchg_u]; mem_eval
  simp only [Spec.cmpxchg, Spec.load, Bool.false_eq_true, ↓reduceIte, ← Mem.readLE8_eq, ← Mem.readLE16_eq, ← Mem.readLE32_eq, ← Mem.readLE64_eq,
    toNat_eq_mod_iff8, toNat_eq_mod_iff16, toNat_eq_mod_iff32, toNat_eq_iff64, BitVec.toNat_inj, BitVec.setWidth_eq]
  split <;> simp [*, Mem.writeLE8_eq, Mem.writeLE16_eq, Mem.writeLE32_eq, Mem.writeLE64_eq]

theorem i64_atomic_rmw_cmpxchg_correct (m : Mem) (ea : BitVec 64) (e r : BitVec 64) (h : ea.toNat + 8 ≤ m.size) (ha : ea.toNat % 8 = 0) :
    Gen.le_i64_atomic_rmw_cmpxchg.call noDefs .le m [.u64 ea, .u64 e, .u64 r] =
      .val (some (.u64 (Spec.cmpxchg 8 64 64 m ea.toNat e r).1), (Spec.cmpxchg 8 64 64 m ea.toNat e r).2) := by
  have h' : ¬ m.size < ea.toNat + 8 := by omega
  have h1 : ea.toNat % 1 = 0 := Nat.mod_one _
  simp only [Gen.le_i64_atomic_rmw_cmpxchg]; mem_eval
  simp only [Spec.cmpxchg, Spec.load, Bool.false_eq_true, ↓reduceIte, ← Mem.readLE8_eq, ← Mem.readLE16_eq, ← Mem.readLE32_eq, ← Mem.readLE64_eq,
    toNat_eq_mod_iff8, toNat_eq_mod_iff16, toNat_eq_mod_iff32, toNat_eq_iff64, BitVec.toNat_inj, BitVec.setWidth_eq]
  split <;> simp [*, Mem.writeLE8_eq, Mem.writeLE16_eq, Mem.writeLE32_eq, Mem.writeLE64_eq]

end W2c2Verif.Props.C16
