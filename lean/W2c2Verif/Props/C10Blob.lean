/-
  Props.C10Blob — the `datasegments` blob writer of the external data-segment modes (-d gnu-ld | sectcreate1 | sectcreate2):
  an EMPTY data segment writes nothing and is not an error (C10: exit status 0 for every valid module and option combination;
  a module may contain data segments of length 0, active or passive).

  `Gen.BlobWriter` is regenerated from c.c on every run: the item size, item count and expected return value of the one
  `fwrite` call in the loop of `wasmCWriteDataSegmentsFromSection` (any other shape is an EXTRACT-FAIL).  `fwriteReturn` is
  C99 7.19.8.2 for a stream that accepts every byte: the number of complete items, and ZERO whenever size or count is zero.

  * `blob_writer_shape`             — finite-table theorem: the current c.c writes `length` items of size 1 and expects `length`;
  * `segment_write_never_an_error`  — for EVERY segment length (0 included): the write is not reported as failed and exactly
                                      `length` bytes go into the blob (what C09Data's blob offsets rely on);
  * `whole_segment_as_one_item_fails_on_empty` — the obligation is not vacuous: `fwrite(p, length, 1, f) != 1` aborts on
                                      an empty segment (seeded change C10/8) and only there.
-/
import W2c2Verif.Gen.BlobWriter

namespace W2c2Verif.Props.C10
open W2c2Verif.Gen.BlobWriter

def argVal (a : Arg) (len : Nat) : Nat :=
  match a with
  | .one => 1
  | .length => len

/-- return value of `fwrite(ptr, size, count, f)` when the stream accepts every byte -/
def fwriteReturn (size count : Nat) : Nat := if size = 0 ∨ count = 0 then 0 else count

/-- bytes that reach the file -/
def fwriteBytes (size count : Nat) : Nat := size * count

/-- does the loop body take its `abort()` branch for a segment of `len` bytes (stream never failing)? -/
def reportsError (size count expect : Arg) (len : Nat) : Bool :=
  fwriteReturn (argVal size len) (argVal count len) != argVal expect len

/-- Finite-table theorem over the regenerated `Gen.BlobWriter`. -/
theorem blob_writer_shape : itemSize = .one ∧ itemCount = .length ∧ expected = .length := by decide

/-- **Every segment, empty ones included, is written completely and without an error report.** -/
theorem segment_write_never_an_error (len : Nat) :
    reportsError itemSize itemCount expected len = false ∧
    fwriteBytes (argVal itemSize len) (argVal itemCount len) = len := by
  obtain ⟨h1, h2, h3⟩ := blob_writer_shape
  rw [h1, h2, h3]
  simp only [reportsError, fwriteReturn, fwriteBytes, argVal]
  refine ⟨?_, by omega⟩
  by_cases h : len = 0
  · simp [h]
  · simp [h]

/-- Writing the whole segment as ONE item is equivalent for non-empty segments and an error exactly for the empty one. -/
theorem whole_segment_as_one_item_fails_on_empty (len : Nat) :
    reportsError .length .one .one len = decide (len = 0) := by
  simp only [reportsError, fwriteReturn, argVal]
  by_cases h : len = 0
  · simp [h]
  · simp [h]

example : reportsError .one .length .length 0 = false := by decide
example : reportsError .length .one .one 0 = true := by decide

end W2c2Verif.Props.C10
