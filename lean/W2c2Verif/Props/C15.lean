/-
  Props.C15 — WASI process services: args, environment, clocks, randomness, exit, thread spawn.

  Model: Model/WasiProc.lean (each C function statement by statement; guest memory stores without
  bounds checks ⇒ a write outside the memory is `.ub`), constants from Gen/WasiPath.lean.
-/
import W2c2Verif.Lemmas.WasiPathProc
import W2c2Verif.Lemmas.WasiPathSpawn

namespace W2c2Verif.C15
open W2c2Verif W2c2Verif.WasiPath W2c2Verif.WasiProc

/-- the generated constants and code shapes the hand-written models rely on -/
theorem gen_assumptions_proc :
    Gen.WasiPath.argSizeExtra = 1 ∧ Gen.WasiPath.argCopyExtra = 1 ∧ Gen.WasiPath.argPtrStride = 4 ∧
    Gen.WasiPath.envSizeExtra = 1 ∧ Gen.WasiPath.envCopyExtra = 1 ∧ Gen.WasiPath.envPtrStride = 4 ∧
    Gen.WasiPath.clockTable = [(0, "CLOCK_REALTIME"), (1, "CLOCK_MONOTONIC"),
      (2, "CLOCK_PROCESS_CPUTIME_ID"), (3, "CLOCK_THREAD_CPUTIME_ID")] ∧
    Gen.WasiPath.clockDefaultErrno = 28 ∧ Gen.WasiPath.nsecPerSec = 1000000000 ∧
    Gen.WasiPath.entropyChunked = true ∧ Gen.WasiPath.entropyChunk = 256 ∧
    Gen.WasiPath.firstThreadID = 1 ∧ Gen.WasiPath.threadIDIncrement = 1 ∧ Gen.WasiPath.threadIDAtomic = true ∧
    Gen.WasiPath.threadStartExport = "wasi_thread_start" ∧ Gen.WasiPath.spawnMissingExportResult = -1 := by
  decide

/-- the export comparison of the lookup loop is string EQUALITY with "wasi_thread_start"
    (a prefix / bounded comparison regenerates a different definition and breaks this obligation) -/
theorem gen_export_match_exact (name : String) :
    Gen.WasiPath.exportNameMatches name = (name == "wasi_thread_start") := rfl

/-! ### args / environ -/

/-- **args_layout.**  For an argument vector of ANY size and content, a guest memory below 4 GiB
    and pointer-array / string-buffer regions that lie inside the memory and do not overlap:
    `args_get` succeeds without undefined behaviour and afterwards
      * the string buffer `[b, b + Σ(|aₖ|+1))` holds `a₀ 0 a₁ 0 …` (`flatStrings`),
      * the pointer array `[p, p + 4n)` holds the little-endian addresses of the strings
        (`flatPointers`: entry `k` = `b + Σ_{j<k}(|aⱼ|+1)`),
      * every other byte of the memory is unchanged. -/
theorem args_layout (argv : List Bytes) (mem : Mem) (p b : Nat)
    (h32 : mem.length < 4294967296) (hb : b + (flatStrings argv).length ≤ mem.length)
    (hp : p + 4 * argv.length ≤ mem.length)
    (hd : p + 4 * argv.length ≤ b ∨ b + (flatStrings argv).length ≤ p) :
    ∃ mem', argsGet argv mem p b = .val (0, mem') ∧ mem'.length = mem.length ∧
      ∀ k, mem'[k]? =
        if b ≤ k ∧ k < b + (flatStrings argv).length then (flatStrings argv)[k - b]?
        else if p ≤ k ∧ k < p + 4 * argv.length then (flatPointers argv b)[k - p]?
        else mem[k]? := by
  obtain ⟨m', hrun, hlen, hpt⟩ := getLoop_spec argv 0 p b mem h32 hb (by simpa using hp) (by simpa using hd)
  refine ⟨m', ?_, hlen, ?_⟩
  · unfold argsGet
    simp only [Gen.WasiPath.argCopyExtra, Gen.WasiPath.argPtrStride, hrun, Out.bind_val]
    rfl
  · intro k; simpa using hpt k

/-- entry `k` of the pointer array is the address of string `k`: `b` plus the sizes (with
    terminators) of the strings before it -/
theorem pointer_entry : ∀ (v : List Bytes) (b k : Nat), k < v.length →
    ((flatPointers v b).drop (4 * k)).take 4 = leBytes 4 (b + (flatStrings (v.take k)).length) := by
  intro v
  induction v with
  | nil => intro _ k h; simp at h
  | cons a rest ih =>
    intro b k hk
    cases k with
    | zero =>
      simp only [flatPointers, Nat.mul_zero, List.drop_zero, List.take_zero, flatStrings, List.length_nil, Nat.add_zero]
      rw [List.take_append_of_le_length (by simp [leBytes_length]), List.take_of_length_le (by simp [leBytes_length])]
    | succ k =>
      have h4 : (leBytes 4 b).length = 4 := leBytes_length 4 b
      simp only [flatPointers, List.take_succ_cons]
      have : 4 * (k + 1) = (leBytes 4 b).length + 4 * k := by rw [h4]; omega
      rw [this, ← List.drop_drop, List.drop_left, ih (b + a.length + 1) k (by simpa using hk)]
      congr 1
      rw [flatStrings_length_cons]; omega

/-- …and the bytes at that address are the string followed by its NUL -/
theorem string_entry : ∀ (v : List Bytes) (k : Nat) (hk : k < v.length),
    ((flatStrings v).drop (flatStrings (v.take k)).length).take (v[k].length + 1) = v[k] ++ [0] := by
  intro v
  induction v with
  | nil => intro k h; simp at h
  | cons a rest ih =>
    intro k hk
    cases k with
    | zero =>
      simp only [List.take_zero, flatStrings, List.length_nil, List.drop_zero, List.getElem_cons_zero]
      rw [List.take_append_of_le_length (by simp), List.take_of_length_le (by simp)]
    | succ k =>
      simp only [List.take_succ_cons, List.getElem_cons_succ]
      have hl : (flatStrings (a :: rest.take k)).length = (a ++ [0]).length + (flatStrings (rest.take k)).length := by
        rw [flatStrings_length_cons]; simp
      have hs : flatStrings (a :: rest) = (a ++ [0]) ++ flatStrings rest := rfl
      rw [hl, hs, ← List.drop_drop, List.drop_left]
      exact ih k (by simpa using hk)

/-- args_sizes_get reports the number of arguments and Σ(|aₖ|+1) (as `U32`s), writes nothing else -/
theorem args_sizes (argv : List Bytes) (mem : Mem) (cP sP : Nat)
    (hc : cP + 4 ≤ mem.length) (hs : sP + 4 ≤ mem.length) :
    argsSizesGet argv mem cP sP =
      .val (0, put (put mem cP (leBytes 4 argv.length)) sP (leBytes 4 (flatStrings argv).length)) := by
  unfold argsSizesGet
  simp only [Gen.WasiPath.argSizeExtra, sizeLoop_eq, Nat.zero_add, i32Store]
  rw [storeBytes_put mem cP _ (by simp [leBytes_length]; omega)]
  simp only [Out.bind_val]
  rw [storeBytes_put _ sP _ (by rw [put_length _ _ _ (by simp [leBytes_length]; omega)]; simp [leBytes_length]; omega)]
  rfl

/-- **args_sizes_use_argc.**  The reported sizes are a function of the FIRST `argc` entries of the embedder's
    `argv` array only: entries behind them (an array longer than `argc`, as any NULL-terminated `argv`
    passed with a smaller count) do not count, and `argc = 0` never touches the array, not even a NULL one. -/
theorem args_sizes_use_argc (mem : Mem) (cP sP : Nat) :
    (∀ (a : List Bytes) (argc : Nat), argc ≤ a.length →
      argsSizesGetArr (some a) argc mem cP sP = argsSizesGet (a.take argc) mem cP sP) ∧
    argsSizesGetArr none 0 mem cP sP = argsSizesGet [] mem cP sP ∧
    (∀ a : List Bytes, argsSizesGetArr (some a) 0 mem cP sP = argsSizesGet [] mem cP sP) := by
  refine ⟨?_, ?_, ?_⟩
  · intro a argc h
    simp only [argsSizesGetArr, Gen.WasiPath.argsSizesLoopUsesArgc, if_true, h, argsSizesGet, List.length_take,
      Nat.min_eq_left h]
  · simp [argsSizesGetArr, Gen.WasiPath.argsSizesLoopUsesArgc, argsSizesGet, sizeLoop]
  · intro a
    simp [argsSizesGetArr, Gen.WasiPath.argsSizesLoopUsesArgc, argsSizesGet, sizeLoop]

/-- **sizes_agree_with_get.**  The size `args_sizes_get` reports is exactly the number of bytes
    `args_get` writes into the string buffer, and the count is the number of pointer entries. -/
theorem sizes_agree_with_get (argv : List Bytes) :
    sizeLoop Gen.WasiPath.argSizeExtra argv 0 = (flatStrings argv).length ∧
    (flatPointers argv 0).length = 4 * argv.length ∧
    (flatStrings argv).length = (argv.map (fun a => a.length + 1)).sum := by
  refine ⟨by simp [Gen.WasiPath.argSizeExtra, sizeLoop_eq], flatPointers_length argv 0, ?_⟩
  induction argv with
  | nil => rfl
  | cons a rest ih => rw [flatStrings_length_cons, List.map_cons, List.sum_cons, ih]

/-- environ_get / environ_sizes_get are the same code over `wasi.envp` -/
theorem environ_eq_args (envp : List Bytes) (mem : Mem) (p b : Nat) :
    environGet envp mem p b = argsGet envp mem p b ∧ environSizesGet envp mem p b = argsSizesGet envp mem p b :=
  ⟨rfl, rfl⟩

/-- **environ_layout.**  Same statement as `args_layout` for the environment vector. -/
theorem environ_layout (envp : List Bytes) (mem : Mem) (p b : Nat)
    (h32 : mem.length < 4294967296) (hb : b + (flatStrings envp).length ≤ mem.length)
    (hp : p + 4 * envp.length ≤ mem.length)
    (hd : p + 4 * envp.length ≤ b ∨ b + (flatStrings envp).length ≤ p) :
    ∃ mem', environGet envp mem p b = .val (0, mem') ∧ mem'.length = mem.length ∧
      ∀ k, mem'[k]? =
        if b ≤ k ∧ k < b + (flatStrings envp).length then (flatStrings envp)[k - b]?
        else if p ≤ k ∧ k < p + 4 * envp.length then (flatPointers envp b)[k - p]?
        else mem[k]? := by
  rw [(environ_eq_args envp mem p b).1]
  exact args_layout envp mem p b h32 hb hp hd

/-- hypotheses satisfiable, and the bounds are needed: a buffer that ends past the memory is an
    out-of-bounds write (`.ub`), not an error return -/
example : argsGet [[97], [98, 99]] (List.replicate 16 0xAA) 0 8 =
    .val (0, [8, 0, 0, 0, 10, 0, 0, 0, 97, 0, 98, 99, 0, 0xAA, 0xAA, 0xAA]) := by decide
example : argsGet [[97], [98, 99]] (List.replicate 12 0xAA) 0 8 = .ub .outOfBounds := by decide

/-! ### clock_time_get -/

theorem nsec_cast : (Gen.WasiPath.nsecPerSec : Int) = 1000000000 := rfl

theorem scaledSum_ok (a b : Nat) (x y : Int) (hx : 0 ≤ x) (hy : 0 ≤ y)
    (hfit : x * (a : Int) + y * (b : Int) ≤ 9223372036854775807) :
    scaledSum a x b y = .val (x * (a : Int) + y * (b : Int)) := by
  unfold scaledSum
  have h1 : 0 ≤ x * (a : Int) := Int.mul_nonneg hx (Int.natCast_nonneg a)
  have h2 : 0 ≤ y * (b : Int) := Int.mul_nonneg hy (Int.natCast_nonneg b)
  have c1 : ¬ (x * (a : Int) < -9223372036854775808 ∨ 9223372036854775807 < x * (a : Int)) := by omega
  have c2 : ¬ (y * (b : Int) < -9223372036854775808 ∨ 9223372036854775807 < y * (b : Int)) := by omega
  have c3 : ¬ (x * (a : Int) + y * (b : Int) < -9223372036854775808 ∨ 9223372036854775807 < x * (a : Int) + y * (b : Int)) := by omega
  simp only [c1, c2, c3, if_false]

theorem scaledSum_val (a b : Nat) (x y r : Int) (h : scaledSum a x b y = .val r) : r = x * (a : Int) + y * (b : Int) := by
  unfold scaledSum at h
  by_cases c1 : x * (a : Int) < -9223372036854775808 ∨ 9223372036854775807 < x * (a : Int)
  · simp [c1] at h
  by_cases c2 : y * (b : Int) < -9223372036854775808 ∨ 9223372036854775807 < y * (b : Int)
  · simp [c1, c2] at h
  by_cases c3 : x * (a : Int) + y * (b : Int) < -9223372036854775808 ∨ 9223372036854775807 < x * (a : Int) + y * (b : Int)
  · simp [c1, c2, c3] at h
  simp only [c1, c2, c3, if_false, Out.val.injEq] at h
  exact h.symm

/-- **convert_scaled_to_ns.**  Both conversions are seconds·10⁹ plus the sub-second part scaled to nanoseconds
    (`tv_nsec`·1, `tv_usec`·1000), as regenerated from convertTimespec / convertTimeval. -/
theorem convert_scaled_to_ns :
    Gen.WasiPath.timespecSecScale = 1000000000 ∧ Gen.WasiPath.timespecNsecScale = 1 ∧
    Gen.WasiPath.timevalSecScale = 1000000000 ∧ Gen.WasiPath.timevalUsecScale = 1000 ∧
    (∀ sec nsec r, convertTimespec sec nsec = .val r → r = sec * 1000000000 + nsec) ∧
    (∀ sec usec r, convertTimeval sec usec = .val r → r = sec * 1000000000 + usec * 1000) := by
  refine ⟨rfl, rfl, rfl, rfl, ?_, ?_⟩
  · intro sec nsec r h
    have := scaledSum_val _ _ _ _ _ h
    simpa [Gen.WasiPath.timespecSecScale, Gen.WasiPath.timespecNsecScale] using this
  · intro sec usec r h
    have := scaledSum_val _ _ _ _ _ h
    simpa [Gen.WasiPath.timevalSecScale, Gen.WasiPath.timevalUsecScale] using this

/-- **clock_fallback_ns.**  A library built without POSIX timers (-DWASI_FALLBACK_TIMERS_ENABLED=1): realtime
    (id 0, `gettimeofday`) and process CPU time (id 2, `getrusage`) report `sec·10⁹ + usec·1000`; every other
    id EINVAL. -/
theorem clock_fallback_ns (host : HostClock) (id : Nat) (mem : Mem) (ptr : Nat) (hp : ptr + 8 ≤ mem.length) :
    Gen.WasiPath.fallbackClockTable = [(0, "gettimeofday"), (2, "getrusage")] ∧
    (∀ call sec usec, Gen.WasiPath.fallbackClockTable.find? (fun r => r.1 == id) = some (id, call) →
      host call = .inr (sec, usec) → 0 ≤ sec → 0 ≤ usec → sec * 1000000000 + usec * 1000 ≤ 9223372036854775807 →
      clockTimeGetFallback host id mem ptr = .val (0, put mem ptr (leBytes 8 (sec * 1000000000 + usec * 1000).toNat))) ∧
    (id ≠ 0 → id ≠ 2 → clockTimeGetFallback host id mem ptr = .val (28, mem)) := by
  refine ⟨rfl, ?_, ?_⟩
  · intro call sec usec hfind hh h0 hu hfit
    unfold clockTimeGetFallback
    rw [hfind]
    simp only [hh, convertTimeval]
    rw [scaledSum_ok _ _ _ _ h0 hu (by simpa [Gen.WasiPath.timevalSecScale, Gen.WasiPath.timevalUsecScale] using hfit)]
    simp only [Out.bind_val, i64Store, Gen.WasiPath.timevalSecScale, Gen.WasiPath.timevalUsecScale]
    have hbits : i64Bits (sec * ((1000000000 : Nat) : Int) + usec * ((1000 : Nat) : Int)) = (sec * 1000000000 + usec * 1000).toNat := by
      unfold i64Bits
      have e1 : ((1000000000 : Nat) : Int) = 1000000000 := rfl
      have e2 : ((1000 : Nat) : Int) = 1000 := rfl
      rw [e1, e2, Int.emod_eq_of_lt (by omega) (by omega)]
    rw [hbits, storeBytes_put mem ptr _ (by simp [leBytes_length]; omega)]
    rfl
  · intro h0 h2
    unfold clockTimeGetFallback
    have : Gen.WasiPath.fallbackClockTable.find? (fun r => r.1 == id) = none := by
      simp only [Gen.WasiPath.fallbackClockTable, List.find?_cons, List.find?_nil]
      have n0 : (0 == id) = false := by simp; omega
      have n2 : (2 == id) = false := by simp; omega
      simp [n0, n2]
    rw [this]
    rfl

/-- **clock_id_ignores_precision.**  The host clock that `clock_time_get` reads is a function of the WASI
    clock id ONLY: the regenerated scan of the whole function body finds no branch on `precision` (or any
    other use of it).  A "use a cheaper clock for coarse precision" edit regenerates a non-trivial
    `clockOverride` and breaks this obligation — such a clock lags the precise one, and a history of calls
    mixing precisions would see the monotonic clock go backwards. -/
theorem clock_id_ignores_precision (id p q : Nat) :
    Gen.WasiPath.clockOverride id p = none ∧ clockNative id p = clockNative id q ∧
    clockNative id p = (Gen.WasiPath.clockTable.find? (fun r => r.1 == id)).map (·.2) := by
  refine ⟨rfl, rfl, ?_⟩
  unfold clockNative
  cases Gen.WasiPath.clockTable.find? (fun r => r.1 == id) with
  | none => rfl
  | some r => rfl

/-- clock_res_get maps the clock ids exactly as clock_time_get does -/
theorem clock_res_table_agrees :
    Gen.WasiPath.clockResTable = Gen.WasiPath.clockTable ∧
    Gen.WasiPath.clockResDefaultErrno = Gen.WasiPath.clockDefaultErrno := by decide

/-- **clock_ns.**  For the four clock ids of the table: success and the eight result bytes are the
    little-endian value `sec·10⁹ + nsec` of that host clock — for every host time whose nanosecond
    count fits an `I64` (no signed overflow before year 2262); a failing host call gives its
    translated errno; every other clock id gives EINVAL and writes nothing.  All of this for EVERY value of
    the `precision` argument. -/
theorem clock_ns (host : HostClock) (id precision : Nat) (mem : Mem) (ptr : Nat) (hp : ptr + 8 ≤ mem.length) :
    (∀ name sec nsec, Gen.WasiPath.clockTable.find? (fun r => r.1 == id) = some (id, name) →
      host name = .inr (sec, nsec) → 0 ≤ sec → 0 ≤ nsec → nsec < 1000000000 →
      sec * 1000000000 + nsec ≤ 9223372036854775807 →
      clockTimeGet host id precision mem ptr = .val (0, put mem ptr (leBytes 8 (sec * 1000000000 + nsec).toNat))) ∧
    (∀ name e, Gen.WasiPath.clockTable.find? (fun r => r.1 == id) = some (id, name) → host name = .inl e →
      clockTimeGet host id precision mem ptr = .val (wasiErrno e, mem)) ∧
    (4 ≤ id → clockTimeGet host id precision mem ptr = .val (28, mem)) := by
  refine ⟨?_, ?_, ?_⟩
  · intro name sec nsec hfind hh h0 hn0 hn1 hfit
    unfold clockTimeGet
    rw [(clock_id_ignores_precision id precision 0).2.2, hfind]
    simp only [Option.map_some, hh, convertTimespec]
    rw [scaledSum_ok _ _ _ _ h0 hn0 (by simpa [Gen.WasiPath.timespecSecScale, Gen.WasiPath.timespecNsecScale] using hfit)]
    simp only [Out.bind_val, i64Store, Gen.WasiPath.timespecSecScale, Gen.WasiPath.timespecNsecScale]
    have hbits : i64Bits (sec * ((1000000000 : Nat) : Int) + nsec * ((1 : Nat) : Int)) = (sec * 1000000000 + nsec).toNat := by
      unfold i64Bits
      have e1 : ((1000000000 : Nat) : Int) = 1000000000 := rfl
      have e2 : ((1 : Nat) : Int) = 1 := rfl
      rw [e1, e2, Int.mul_one, Int.emod_eq_of_lt (by omega) (by omega)]
    rw [hbits, storeBytes_put mem ptr _ (by simp [leBytes_length]; omega)]
    rfl
  · intro name e hfind hh
    unfold clockTimeGet
    rw [(clock_id_ignores_precision id precision 0).2.2, hfind]
    simp only [Option.map_some, hh]
  · intro h4
    unfold clockTimeGet
    have : Gen.WasiPath.clockTable.find? (fun r => r.1 == id) = none := by
      simp only [Gen.WasiPath.clockTable, List.find?_cons, List.find?_nil]
      have n0 : (0 == id) = false := by simp; omega
      have n1 : (1 == id) = false := by simp; omega
      have n2 : (2 == id) = false := by simp; omega
      have n3 : (3 == id) = false := by simp; omega
      simp [n0, n1, n2, n3]
    rw [(clock_id_ignores_precision id precision 0).2.2, this]
    rfl

/-- the clock-id table: 0 realtime, 1 monotonic, 2 process CPU time, 3 thread CPU time -/
theorem clock_table (id : Nat) (h : id < 4) :
    Gen.WasiPath.clockTable.find? (fun r => r.1 == id) =
      some (id, ["CLOCK_REALTIME", "CLOCK_MONOTONIC", "CLOCK_PROCESS_CPUTIME_ID", "CLOCK_THREAD_CPUTIME_ID"][id]!) := by
  have : id = 0 ∨ id = 1 ∨ id = 2 ∨ id = 3 := by omega
  rcases this with h | h | h | h <;> subst h <;> decide

/-- **clock_monotonic_partial.**  If the host's monotonic clock does not go backwards, neither do
    the reported values (the conversion is monotone on the non-overflowing range).  The host clock
    itself is assumed. -/
theorem clock_monotonic_partial (s1 n1 s2 n2 : Int) (r1 r2 : Int)
    (h1 : convertTimespec s1 n1 = .val r1) (h2 : convertTimespec s2 n2 = .val r2)
    (hn1 : 0 ≤ n1 ∧ n1 < 1000000000) (hn2 : 0 ≤ n2 ∧ n2 < 1000000000)
    (hle : s1 < s2 ∨ (s1 = s2 ∧ n1 ≤ n2)) : r1 ≤ r2 := by
  have e1 := (convert_scaled_to_ns).2.2.2.2.1 s1 n1 r1 h1
  have e2 := (convert_scaled_to_ns).2.2.2.2.1 s2 n2 r2 h2
  rcases hle with h | ⟨h, h'⟩
  · omega
  · subst h; omega

/-- **clock_history_monotone_partial.**  Two calls on the same clock id with ANY two precision values,
    the second seeing a host time of that clock not earlier than the first: the second reported value is
    not smaller.  (Host clock non-decreasing is assumed; by induction this covers every history and every
    mix of precisions, since the clock read does not depend on the precision.) -/
theorem clock_history_monotone_partial (host1 host2 : HostClock) (id p1 p2 : Nat) (mem1 mem2 : Mem) (ptr1 ptr2 : Nat)
    (name : String) (s1 n1 s2 n2 : Int) (m1 m2 : Mem)
    (hname : clockNative id 0 = some name)
    (h1 : host1 name = .inr (s1, n1)) (h2 : host2 name = .inr (s2, n2))
    (hn1 : 0 ≤ n1 ∧ n1 < 1000000000) (hn2 : 0 ≤ n2 ∧ n2 < 1000000000)
    (hle : s1 < s2 ∨ (s1 = s2 ∧ n1 ≤ n2))
    (r1 : clockTimeGet host1 id p1 mem1 ptr1 = .val (0, m1)) (r2 : clockTimeGet host2 id p2 mem2 ptr2 = .val (0, m2)) :
    ∃ v1 v2 : Int, convertTimespec s1 n1 = .val v1 ∧ convertTimespec s2 n2 = .val v2 ∧ v1 ≤ v2 := by
  have e1 : clockNative id p1 = some name := by rw [(clock_id_ignores_precision id p1 0).2.1]; exact hname
  have e2 : clockNative id p2 = some name := by rw [(clock_id_ignores_precision id p2 0).2.1]; exact hname
  unfold clockTimeGet at r1 r2
  simp only [e1, h1] at r1
  simp only [e2, h2] at r2
  cases hc1 : convertTimespec s1 n1 with
  | val v1 =>
    cases hc2 : convertTimespec s2 n2 with
    | val v2 => exact ⟨v1, v2, rfl, rfl, clock_monotonic_partial s1 n1 s2 n2 v1 v2 hc1 hc2 hn1 hn2 hle⟩
    | trap t => rw [hc2] at r2; cases r2
    | ub k => rw [hc2] at r2; cases r2
    | oof => rw [hc2] at r2; cases r2
  | trap t => rw [hc1] at r1; cases r1
  | ub k => rw [hc1] at r1; cases r1
  | oof => rw [hc1] at r1; cases r1

/-- beyond the representable range the conversion is a signed overflow (model fact; year 2262) -/
example : convertTimespec 9223372037 0 = .ub .signedOverflow := by decide
/-- the fallback conversion scales the microseconds -/
example : convertTimeval 5 7 = .val 5000007000 := by decide

/-! ### random_get -/

/-- **random_get_total.**  With a host `getentropy` that behaves as specified (at most 256 bytes
    per call, EIO beyond), for EVERY length `n < 2³²` and every in-bounds buffer: `random_get`
    succeeds and writes exactly the `n` bytes `[ptr, ptr+n)` (entropy bytes in order), nothing
    else.  (Regression of the former finding `random-get-over-256`: the code before commit 28dd14b
    made ONE getentropy call and failed with EIO for n > 256; the check replays n = 257 on the
    real code on every run.) -/
theorem random_get_total (source : Nat → UInt8) (fallback : Fallback) (prng : Nat → UInt8)
    (mem : Mem) (ptr n : Nat) (hn : n < 4294967296) (hb : ptr + n ≤ mem.length) :
    randomGet (getentropySpec source) fallback prng mem ptr n
      = .val (0, put mem ptr ((List.range n).map source)) ∧
    ((List.range n).map source).length = n := by
  constructor
  · unfold randomGet
    simp only [Gen.WasiPath.entropyChunked, if_true, Gen.WasiPath.entropyChunk]
    have h0 : mem = put mem ptr ((List.range 0).map source) := by
      simp [put_nil mem ptr (by omega)]
    conv => lhs; rw [h0]
    rw [chunkLoop_spec source mem ptr n hb hn (n + 1) 0 (by omega) (by omega)]
    rfl
  · simp

/-- a failing entropy source other than ENOSYS is reported (translated), not papered over -/
example : randomGet (fun _ _ => .inl "EIO") (fun m _ _ => .val (0, m)) (fun _ => 7) [1, 2, 3] 0 2 = .val (29, [1, 2, 3]) := by
  decide

/-! ### proc_exit -/

/-- **proc_exit_status.**  `proc_exit(code)` ends the process; its parent observes the low eight
    bits of the code (`exit` + `WEXITSTATUS`), for every `U32` code. -/
theorem proc_exit_status (code : Nat) : procExitStatus code = code % 256 := by
  unfold procExitStatus
  simp only
  split <;> omega

/-! ### thread-spawn -/

/-- **tid_distinct.**  In every state reachable by ANY interleaving of the steps of ANY number of
    thread-spawn calls (below the wrap of the 32-bit counter): the identifiers held or returned by
    different calls are pairwise distinct, and each is positive and smaller than the counter
    (hence `< 2³²`; positive as a signed 32-bit value as long as fewer than 2³¹ ids were allocated). -/
theorem tid_distinct (hasExport : Bool) (s : Sys) (h : Reach hasExport s) :
    (∀ i j a b, i ≠ j → heldAt s i = some a → heldAt s j = some b → a ≠ b) ∧
    (∀ i tid, heldAt s i = some tid → 1 ≤ tid ∧ tid < s.next ∧ s.next < 4294967296) := by
  have ha := (Inv_reach hasExport s h).1
  exact ⟨ha.distinct, fun i tid hi => ⟨(ha.held i tid hi).1, (ha.held i tid hi).2, ha.nextHi⟩⟩

/-- **spawn_id_read_before_start.**  The regenerated event order of `wasi__threadX2Dspawn`: the fetch-and-add
    result goes to a LOCAL, then newChild, the block is filled, the thread is created, and the LOCAL is
    returned — the ThreadStartArg block (which the new thread frees) is never accessed after
    WASM_THREAD_CREATE.  Hence the returned value is the allocated id whether or not the new thread has
    already run to completion. -/
theorem spawn_id_read_before_start :
    Gen.WasiPath.spawnEvents = ["fetchAdd:local", "newChild", "store:id", "create", "return:local"] ∧
    ∀ (finished : Bool) (tid : Nat), spawnReturn finished tid = .val tid := by
  refine ⟨by decide, ?_⟩
  intro f t
  simp [spawnReturn, Gen.WasiPath.spawnReturnsLocalId]

/-- a returned identifier is what the call holds -/
theorem returned_is_held (s : Sys) (i arg tid : Nat) (h : s.calls[i]? = some (.done arg (some tid))) :
    heldAt s i = some tid := by
  unfold heldAt; rw [h]; rfl

/-- **spawn_runs_start_once.**  In every reachable state: every created thread belongs to exactly
    one successfully returned call and carries that call's `(tid, arg)` and a child instance created
    for it; every successfully returned call has its thread; different threads have different ids;
    and `wasi_thread_start` has been invoked at most once per thread (exactly once for each thread
    when all threads have run), never for anything else. -/
theorem spawn_runs_start_once (hasExport : Bool) (s : Sys) (h : Reach hasExport s) :
    (∀ (k : Nat) (t : Start), s.threads[k]? = some t →
      (∃ i : Nat, s.calls[i]? = some (Call.done t.arg (some t.tid))) ∧ t.child < s.children) ∧
    (∀ (i arg tid : Nat), s.calls[i]? = some (Call.done arg (some tid)) →
      ∃ (k c : Nat), s.threads[k]? = some (Start.mk c tid arg)) ∧
    (∀ (k l : Nat) (a b : Start), k ≠ l → s.threads[k]? = some a → s.threads[l]? = some b → a.tid ≠ b.tid) ∧
    s.started.Nodup ∧ (∀ j ∈ s.started, j < s.threads.length) := by
  have hb := (Inv_reach hasExport s h).2
  exact ⟨hb.thrFromCall, hb.callHasThr, hb.thrDistinct, hb.startedOk.1, hb.startedOk.2⟩

/-- **spawn_missing_export.**  If the module does not export `wasi_thread_start`, every call returns
    −1 (negative as `i32`), no child instance and no thread is created, nothing is started and no
    identifier is consumed. -/
theorem spawn_missing_export (s : Sys) (h : Reach false s) :
    (∀ (i : Nat) (c : Call), s.calls[i]? = some c → (∃ a, c = Call.init a) ∨ (∃ a, c = Call.done a none)) ∧
    s.threads = [] ∧ s.started = [] ∧ s.children = 0 ∧ s.next = 1 ∧
    Gen.WasiPath.spawnMissingExportResult < 0 := by
  have hd := InvD_reach s h
  exact ⟨hd.calls, hd.threads, hd.started, hd.children, hd.next, by decide⟩

/-- **spawn_lookup_exact.**  The thread entry is the function of the FIRST export whose name EQUALS
    `wasi_thread_start`; look-alikes (longer names with that prefix, shorter ones, other case) are never
    taken, wherever they stand in the table. -/
theorem spawn_lookup_exact (exports : ExportTable) :
    lookupStart exports = (exports.find? (fun e => e.1 == "wasi_thread_start")).map (·.2) := by
  induction exports with
  | nil => rfl
  | cons e rest ih =>
    obtain ⟨name, f⟩ := e
    simp only [lookupStart, gen_export_match_exact, List.find?_cons]
    by_cases h : (name == "wasi_thread_start") = true
    · simp [h]
    · simp only [h, if_false]
      simp only [Bool.not_eq_true] at h
      simp [h, ih]

/-- **spawn_lookup_per_instance.**  The start function of a thread-spawn call is a function of the CALLING
    instance's export table only: whatever earlier calls of the process (by this or any other instance) found,
    the call looks `wasi_thread_start` up in its own table — the lookup result is an automatic variable and the
    scan is unconditional (both regenerated).  With several `w2c2 -m` modules in one process a module without
    the export therefore always gets the negative result, and a module with its own export runs its own function. -/
theorem spawn_lookup_per_instance (prev : Option Nat) (table : ExportTable) :
    Gen.WasiPath.spawnLookupStorage = "automatic" ∧ Gen.WasiPath.spawnLookupSkippedWhenSet = false ∧
    Gen.WasiPath.threadCounterStorage = "static" ∧
    lookupCall prev table = (table.find? (fun e => e.1 == "wasi_thread_start")).map (·.2) := by
  refine ⟨rfl, rfl, rfl, ?_⟩
  have h : lookupEntryValue prev = none := by
    simp [lookupEntryValue, Gen.WasiPath.spawnLookupStorage]
  rw [← spawn_lookup_exact]
  simp only [lookupCall, h, Option.isSome_none, Bool.and_false]
  cases lookupStart table <;> rfl

/-- no export named exactly `wasi_thread_start` ⇔ the lookup finds nothing -/
theorem spawn_lookup_none_iff (exports : ExportTable) :
    lookupStart exports = none ↔ ∀ e ∈ exports, e.1 ≠ "wasi_thread_start" := by
  rw [spawn_lookup_exact]
  simp only [Option.map_eq_none_iff, List.find?_eq_none, beq_iff_eq]

/-- **spawn_lookalike_rejected.**  A module WITHOUT an export named exactly `wasi_thread_start` — whatever
    else it exports, e.g. `wasi_thread_start_hook`, `wasi_thread_start2`, `wasi_thread`, `WASI_THREAD_START` —
    gets −1 from every thread-spawn call, in every interleaving: no thread, no child instance, no start call. -/
theorem spawn_lookalike_rejected (exports : ExportTable) (hno : ∀ e ∈ exports, e.1 ≠ "wasi_thread_start")
    (s : Sys) (h : Reach (lookupStart exports).isSome s) :
    (∀ (i : Nat) (c : Call), s.calls[i]? = some c → (∃ a, c = Call.init a) ∨ (∃ a, c = Call.done a none)) ∧
    s.threads = [] ∧ s.started = [] ∧ s.children = 0 := by
  have hn : lookupStart exports = none := (spawn_lookup_none_iff exports).2 hno
  rw [hn] at h
  have := spawn_missing_export s h
  exact ⟨this.1, this.2.1, this.2.2.1, this.2.2.2.1⟩

example : lookupStart [("wasi_thread_start_hook", 0), ("wasi_thread", 1), ("WASI_THREAD_START", 2)] = none := by decide
example : lookupStart [("wasi_thread_start2", 0), ("wasi_thread_start", 1), ("wasi_thread_start", 2)] = some 1 := by decide
example : lookupStart [] = none := rfl

/-- every action the executable scheduler performs is a step of the transition system, so every
    state the driver's simulation visits is `Reach`able -/
theorem exec_sound (hasExport : Bool) (s s' : Sys) (a : Action) (h : exec hasExport s a = some s') :
    Step hasExport s s' := by
  cases a with
  | call arg => simp only [exec, Option.some.injEq] at h; subst h; exact Step.call s arg
  | lookup i =>
    simp only [exec] at h
    split at h
    · rename_i arg hc; simp only [Option.some.injEq] at h; subst h; exact Step.lookup s i arg hc
    · cases h
  | allocFail i =>
    simp only [exec] at h
    split at h
    · rename_i arg hc; simp only [Option.some.injEq] at h; subst h; exact Step.allocFail s i arg hc
    · cases h
  | fetchAdd i =>
    simp only [exec] at h
    split at h
    · rename_i arg hc
      split at h
      · rename_i hw; simp only [Option.some.injEq] at h; subst h; exact Step.fetchAdd s i arg hc hw
      · cases h
    · cases h
  | newChild i =>
    simp only [exec] at h
    split at h
    · rename_i arg tid hc; simp only [Option.some.injEq] at h; subst h; exact Step.newChild s i arg tid hc
    · cases h
  | create i =>
    simp only [exec] at h
    split at h
    · rename_i arg tid c hc; simp only [Option.some.injEq] at h; subst h; exact Step.create s i arg tid c hc
    · cases h
  | createFail i =>
    simp only [exec] at h
    split at h
    · rename_i arg tid c hc; simp only [Option.some.injEq] at h; subst h; exact Step.createFail s i arg tid c hc
    · cases h
  | run j =>
    simp only [exec] at h
    split at h
    · rename_i hj; simp only [Option.some.injEq] at h; subst h; exact Step.run s j hj.1 hj.2
    · cases h

/-- the system is not vacuous: two interleaved spawns reach a state with two distinct ids -/
example : ∃ s, Reach true s ∧ s.calls = [.done 7 (some 1), .gotId 9 2] := by
  refine ⟨⟨3, [.done 7 (some 1), .gotId 9 2], [⟨0, 1, 7⟩], [], 1⟩, ?_, rfl⟩
  have s0 := Reach.init (hasExport := true)
  have s1 := Reach.step s0 (Step.call _ 7)
  have s2 := Reach.step s1 (Step.call _ 9)
  have s3 := Reach.step s2 (Step.lookup _ 0 7 rfl)
  have s4 := Reach.step s3 (Step.lookup _ 1 9 rfl)
  have s5 := Reach.step s4 (Step.fetchAdd _ 0 7 rfl (by decide))
  have s6 := Reach.step s5 (Step.fetchAdd _ 1 9 rfl (by decide))
  have s7 := Reach.step s6 (Step.newChild _ 0 7 1 rfl)
  have s8 := Reach.step s7 (Step.create _ 0 7 1 0 rfl)
  exact s8

end W2c2Verif.C15
