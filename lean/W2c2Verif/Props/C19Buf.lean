/-
  Props.C19Buf — the translator itself, running on a big-endian host, reads little-endian float immediates correctly.

  `bufferReadF32` / `bufferReadF64` (buffer.h; shape checked and the big-endian reassignment regenerated on every run,
  `Gen.BufRead`) copy 4 / 8 bytes of the module file into a union and, on a big-endian host, reassign the union's
  integer with the swap macro.  On such a host the memcpy assembles the integer most-significant-byte FIRST
  (`b0 ++ b1 ++ …`, C object representation); the theorems say the reassigned value is the little-endian reading of
  the same bytes (`… ++ b1 ++ b0`) — for all byte values, with the compiler intrinsic and with the portable
  mask/shift fallback of the swap macros (both regenerated from w2c2_base.h).
-/
import W2c2Verif.Gen.BufRead
import W2c2Verif.Gen.Macros
import W2c2Verif.Lemmas.Tactics
set_option linter.unusedSimpArgs false

namespace W2c2Verif.Props.C19
open W2c2Verif

/-- the swap macros of a big-endian build: compiler intrinsics … -/
def beDefs : Defs := defsOfMacros [("swapU32", Gen.m_BE_swapU32), ("swapU64", Gen.m_BE_swapU64)] noDefs
/-- … or the portable fallback -/
def bePlainDefs : Defs := defsOfMacros [("swapU32", Gen.m_BEplain_swapU32), ("swapU64", Gen.m_BEplain_swapU64)] noDefs

theorem bufferReadF32_be (b0 b1 b2 b3 : BitVec 8) :
    (Gen.bufferReadF32BE.call beDefs [.i32 (b0 ++ b1 ++ b2 ++ b3)] >>= CVal.castInt Gen.bufferReadF32Ty) = .val (.i32 (b3 ++ b2 ++ b1 ++ b0)) := by
  simp only [Gen.bufferReadF32BE, Gen.bufferReadF32Ty, beDefs, Gen.m_BE_swapU32]; csem_eval; simp only [CPrim.bswap32]; bv_close

theorem bufferReadF32_be_plain (b0 b1 b2 b3 : BitVec 8) :
    (Gen.bufferReadF32BE.call bePlainDefs [.i32 (b0 ++ b1 ++ b2 ++ b3)] >>= CVal.castInt Gen.bufferReadF32Ty) = .val (.i32 (b3 ++ b2 ++ b1 ++ b0)) := by
  simp only [Gen.bufferReadF32BE, Gen.bufferReadF32Ty, bePlainDefs, Gen.m_BEplain_swapU32]; csem_eval; bv_close

theorem bufferReadF64_be (b0 b1 b2 b3 b4 b5 b6 b7 : BitVec 8) :
    (Gen.bufferReadF64BE.call beDefs [.i64 (b0 ++ b1 ++ b2 ++ b3 ++ b4 ++ b5 ++ b6 ++ b7)] >>= CVal.castInt Gen.bufferReadF64Ty) =
      .val (.i64 (b7 ++ b6 ++ b5 ++ b4 ++ b3 ++ b2 ++ b1 ++ b0)) := by
  simp only [Gen.bufferReadF64BE, Gen.bufferReadF64Ty, beDefs, Gen.m_BE_swapU64]; csem_eval; simp only [CPrim.bswap64]; bv_close

theorem bufferReadF64_be_plain (b0 b1 b2 b3 b4 b5 b6 b7 : BitVec 8) :
    (Gen.bufferReadF64BE.call bePlainDefs [.i64 (b0 ++ b1 ++ b2 ++ b3 ++ b4 ++ b5 ++ b6 ++ b7)] >>= CVal.castInt Gen.bufferReadF64Ty) =
      .val (.i64 (b7 ++ b6 ++ b5 ++ b4 ++ b3 ++ b2 ++ b1 ++ b0)) := by
  simp only [Gen.bufferReadF64BE, Gen.bufferReadF64Ty, bePlainDefs, Gen.m_BEplain_swapU64]; csem_eval; bv_close

/-- non-vacuity: the file bytes `00 00 80 3F` are 1.0f = 0x3F800000 -/
example : (Gen.bufferReadF32BE.call beDefs [.i32 (0x00#8 ++ 0x00#8 ++ 0x80#8 ++ 0x3F#8)] >>= CVal.castInt Gen.bufferReadF32Ty) = .val (.i32 0x3F800000#32) := by
  rw [bufferReadF32_be]; rfl

end W2c2Verif.Props.C19
