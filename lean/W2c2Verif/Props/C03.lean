/-
  Props.C03 — structured control flow, operand stack and locals behave as specified.

  `Model.Emit.compileSeq` is the model of w2c2's single-pass translator (tied to the real translator
  token by token by the `emit-tokens` correspondence on every run).  `Sim.erunSeq` is WebAssembly
  execution of a function body by the specification's rules; `Sim.execSeq` is execution of the
  emitted C (slot variables, `goto L<n>`, `{…} L:;`, `L:; {…}`, `if/else`, `switch`).

  `compile_sim`: for EVERY body the (strict) translator accepts, every translator state satisfying
  the invariant, every operand stack / locals related to the C state, and every amount of fuel
  (= executions of every length and nesting depth), whenever WebAssembly execution finishes
  — normally, by a branch to ANY enclosing label carrying its value from ANY stack height, by
  `return`, or by a trap — the emitted C finishes the same way: normal completion leaves every
  operand in its slot variable `s<t><k>` and the locals equal; a branch is a `goto` to exactly the
  label of the targeted block with the carried value in that label's result slot and nothing below
  the label's height disturbed; a trap is the same trap.  Dead code (after br / br_table / return /
  unreachable up to the enclosing end) emits nothing, so it has no effect by construction.
  `local.get/set/tee` read and write the C local of the same index.

  Covered instructions: nop, unreachable, drop, select, const, every numeric instruction (semantics
  abstract: `NumSem`, constrained only by arity/result type — their own correctness is C01/C02),
  local.get/set/tee, block, loop, if/else, br, br_if, br_table, return.  Globals, memory
  instructions and calls are translated by the model (and tied by emit-tokens) but their source
  semantics is `stuck` here, i.e. the theorem says nothing about executions that reach them: this
  is why the theorem is named `_partial`.
-/
import W2c2Verif.Lemmas.SimInstr

namespace W2c2Verif.Props.C03
open W2c2Verif Model Gen Spec Sim

/-- Simulation for instruction sequences (bodies of functions and blocks). -/
theorem compile_sim_partial (ns : NumSem) (hns : NumOK ns) (ctx : Ctx)
    (body : List EInstr) (st st' : St) (out : List MStmtC) (dead : Bool)
    (stk loc : List Val) (σ : MSt) (fuel : Nat)
    (hc : compileSeq ctx st body = .ok (st', out, dead))
    (hw : WF st) (hr : Rel st.stack stk σ) (hl : σ.locals = loc) (hlt : LocTyped ctx loc) :
    SimRes ctx st stk σ st' dead (erunSeq ns fuel body stk loc) (execSeq ns fuel out σ) :=
  (sim_all ns hns ctx fuel).1 body st st' out dead stk loc σ hc hw hr hl hlt

/-- the static side: translation never touches the type stack below the innermost open label,
    restores the label stack, and keeps the translator state well formed — for ALL instructions -/
theorem compile_static (ctx : Ctx) (body : List EInstr) (st st' : St) (out : List MStmtC) (dead : Bool)
    (hc : compileSeq ctx st body = .ok (st', out, dead)) (hw : WF st) : Static st st' :=
  seq_static ctx body st st' out dead hc hw

end W2c2Verif.Props.C03
