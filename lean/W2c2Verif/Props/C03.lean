/-
  Props.C03 — structured control flow, operand stack and locals behave as specified.

  `Model.Emit.compileSeq` is the model of w2c2's single-pass translator (tied to the real translator
  token by token by the `emit-tokens` correspondence on every run).  `Sim.erunSeq` is WebAssembly
  execution of a function body by the specification's rules; `Sim.execSeq` is execution of the
  emitted C (slot variables, `goto L<n>`, `{…} L:;`, `L:; {…}`, `if/else`, `switch`).

  `compile_sim`: for EVERY body the (strict) translator accepts, every translator state satisfying
  the invariant, every operand stack / locals related to the C state, and every amount of fuel
  (= executions of every length and nesting depth), whenever WebAssembly execution finishes
  — normally, by a branch to ANY enclosing label carrying its value from ANY stack height, by
  `return`, or by a trap — the emitted C finishes the same way: normal completion leaves every
  operand in its slot variable `s<t><k>` and the locals equal; a branch is a `goto` to exactly the
  label of the targeted block with the carried value in that label's result slot and nothing below
  the label's height disturbed; a trap is the same trap.  Dead code (after br / br_table / return /
  unreachable up to the enclosing end) emits nothing, so it has no effect by construction.
  `local.get/set/tee` read and write the C local of the same index.

  Covered instructions: nop, unreachable, drop, select, const, every numeric instruction (semantics
  abstract: `NumSem`, constrained only by arity/result type — their own correctness is C01/C02),
  local.get/set/tee, global.get/set, block, loop, if/else, br, br_if, br_table, return, call,
  call_indirect (callees abstract here, instantiated by C04's module-level theorem), every load and
  store (the access functions abstract: `MemOK`, proved for the regenerated runtime functions in
  C05; out-of-bounds accesses are outside every property and `stuck`), memory.size, memory.grow.
  Still outside (source semantics `stuck`, hence `_partial`): memory.copy/fill/init, data.drop and
  the atomic instructions (C16/C17 cover their runtime functions).
-/
import W2c2Verif.Lemmas.SimFunc

namespace W2c2Verif.Props.C03
open W2c2Verif Model Gen Spec Sim

/-- Simulation for instruction sequences (bodies of functions and blocks). -/
theorem compile_sim_partial (ns : NumSem) (hns : NumOK ns) (hmo : MemOK ns) (ctx : Ctx) (hco : CallOK ns ctx)
    (body : List EInstr) (st st' : St) (out : List MStmtC) (dead : Bool)
    (stk : List Val) (loc : Store) (σ : MSt) (fuel : Nat)
    (hc : compileSeq ctx st body = .ok (st', out, dead))
    (hw : WF st) (hr : Rel st.stack stk σ) (hl : σ.store = loc) (hlt : LocTyped ctx loc) :
    SimRes ctx st stk σ st' dead (erunSeq ns fuel body stk loc) (execSeq ns fuel out σ) :=
  (sim_all ns hns hmo ctx hco fuel).1 body st st' out dead stk loc σ hc hw hr hl hlt

/-- the static side: translation never touches the type stack below the innermost open label,
    restores the label stack, and keeps the translator state well formed — for ALL instructions -/
theorem compile_static (ctx : Ctx) (body : List EInstr) (st st' : St) (out : List MStmtC) (dead : Bool)
    (hc : compileSeq ctx st body = .ok (st', out, dead)) (hw : WF st) : Static st st' :=
  seq_static ctx body st st' out dead hc hw

/-- Whole functions.  `runFuncSrc`: the specification's invocation — parameters hold the passed
    arguments, declared locals start at zero, the body runs under the function label; falling off
    the end, a branch to the function label from any depth, and `return` all return the top of the
    stack.  `runFuncTgt`: the emitted C function — the same initial locals (the translator's
    `= 0` declarations are rendered by `Model.Render` and tied by emit-tokens), the body, `L0:;`
    and `return s<t>0;`, which exists only if some slot variable was declared.
    Whenever the WebAssembly invocation returns (a value or nothing, leaving globals and memory `g'`)
    or traps, within ANY fuel, the C function returns the same value and leaves the same globals and
    memory / takes the same trap; in particular the `return` statement exists whenever a value is
    returned. -/
theorem func_sim_partial (ns : NumSem) (hns : NumOK ns) (hmo : MemOK ns) (ctx : Ctx) (params locals : List VT) (result : Option VT)
    (body : List EInstr) (cf : Model.CFunc) (args : List Val) (g : GS) (fuel : Nat)
    (hco : CallOK ns { ctx with localTypes := params ++ locals })
    (hc : compileFunc ctx params locals result body = .ok cf) (hargs : args.map vtOf = params) (hg : GTyped ctx g) :
    match runFuncSrc ns fuel locals result body args g with
    | .value v g' => runFuncTgt ns fuel cf args g = .value v g' ∧ GTyped ctx g'
    | .trap t => runFuncTgt ns fuel cf args g = .trap t
    | _ => True :=
  func_sim ns hns hmo ctx params locals result body cf args g fuel hco hc hargs hg

/-! ### the hypotheses are satisfiable, the conclusion is not trivial -/

/-- a numeric semantics satisfying `NumOK` (every numeric instruction traps: the weakest instance;
    the instance built from `Spec.numOp` is the subject of C01/C02) -/
def trapNS : NumSem where
  arity := fun opcode => match lookupAssoc Gen.emitTable opcode with
    | some k => (numSlots opcode k .i32 0 .i32 0).2.length
    | none => 0
  sem := fun _ _ => .trap .unreachable

theorem trapNS_ok : NumOK trapNS := by
  refine ⟨fun opcode k h => by simp [trapNS, h], fun opcode k args v h hs => by simp [trapNS] at hs⟩

theorem trapNS_mem : MemOK trapNS := by
  refine ⟨?_, ?_, ?_, ?_, ?_, ?_, ?_, ?_, ?_⟩ <;> intros <;> simp_all [trapNS, vtOf]

/-- in a module without functions to call, the call hypotheses hold trivially -/
theorem trapNS_calls (lt : List VT) : CallOK trapNS { localTypes := lt } := by
  refine ⟨?_, ?_, ?_, ?_, ?_, ?_, ?_, ?_, ?_, ?_⟩ <;> intros <;> simp_all [trapNS]

/-- `(func (param i32) (result i32) (local i32)
       (block (result i32) i32.const 5 (block local.get 0 i32.const 7 br 2) drop i32.const 9) local.set 1 local.get 1)`
    — a value-carrying branch out of two levels to the function label, with two operands below the carried value -/
def demoBody : List EInstr :=
  [.block (some .i32) [.const .i32 5, .block none [.localGet 0, .const .i32 7, .br 2], .drop, .const .i32 9], .localSet 1, .localGet 1]

example : (compileFunc {} [.i32] [.i32] (some .i32) demoBody).toOption.isSome = true := by decide
example : runFuncSrc trapNS 20 [.i32] (some .i32) demoBody [.i32 3] = .value (some (.i32 7)) {} := by rfl
/-- ... hence, by the theorem, the emitted C returns 7 as well -/
example (cf : Model.CFunc) (hc : compileFunc {} [.i32] [.i32] (some .i32) demoBody = .ok cf) :
    runFuncTgt trapNS 20 cf [.i32 3] = .value (some (.i32 7)) {} :=
  (func_sim_partial trapNS trapNS_ok trapNS_mem {} [.i32] [.i32] (some .i32) demoBody cf [.i32 3] {} 20 (trapNS_calls _) hc rfl
    ⟨rfl, fun k h => absurd h (Nat.not_lt_zero _)⟩).1

end W2c2Verif.Props.C03
