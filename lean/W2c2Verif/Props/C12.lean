/-
  Props.C12 — WASI file I/O equals POSIX.

  Covered calls (both ABI name spaces): path_open, fd_write, fd_pwrite, fd_read, fd_pread,
  fd_seek, fd_tell, fd_filestat_get, fd_close, as modelled statement by statement in
  `Model.Wasi`, instantiated with the POSIX file model `Spec.Posix` (`posixHost`).  Everything
  table-like is the regenerated `Gen.Wasi` (whence tables, oflags/fdflags → O_*, rights masks,
  errno switch, filestat rows, iovec stride, and the C parameter TYPES of the imports — e.g. the
  width of the pread/pwrite offset).  The right-hand sides are the POSIX operations themselves
  (`State.write / read / readv / pwrite / pread / lseek / open / fstat`) and the tables of the WASI
  specification written independently in `Lemmas.WasiSpecTables`.

  Theorems marked `_partial` carry the exact hypothesis that excludes a deviation of the
  current source, and a `_counterexample` theorem exhibits the deviation:
    * positional I/O is emulated by lseek, which fails beyond the file system's largest offset.
-/
import W2c2Verif.Lemmas.WasiPositional
import W2c2Verif.Lemmas.WasiIov
import W2c2Verif.Lemmas.WasiSpecTables
import W2c2Verif.Lemmas.WasiEbadf
import W2c2Verif.Lemmas.WasiImage

namespace W2c2Verif.Props.C12
open W2c2Verif W2c2Verif.Model.Wasi W2c2Verif.Spec.Posix

/-! ## scatter / gather -/

/-- fd_write: the iovec array is read as `count` pairs of LE u32 at `iovs + 8k` (k = 0 … count−1,
    in order), each segment denotes the guest bytes `[buf, buf+len)`, and what reaches the file
    is ONE POSIX `write` of their concatenation in array order; the value `write` returned is
    stored LE at the result pointer; an error is translated and nothing is stored.  Zero-length
    segments contribute nothing, a zero count writes the empty string. -/
theorem iov_gather_order (abi : Abi) (s : St State) (n iovs cnt res : Nat) (d : Desc)
    (segs : List (Nat × Nat)) (bufs : List Bytes)
    (hd : getDesc Cfg.ofGen s n = some d) (hfd : 0 ≤ d.fd)
    (hsegs : readIovecs s.mem iovs 8 0 4 cnt = .val segs) (hbufs : gather s.mem segs = .val bufs) :
    segs = (List.range cnt).map (iovecAt s.mem iovs 8 0 4) ∧
    bufs = segs.map (fun sg => memBytes s.mem sg.1 sg.2) ∧
    stepRO Cfg.ofGen posixHost abi s (.fdWrite n iovs cnt res) =
      finishWrite ⟨s.mem, []⟩ res
        (if cnt > IOV_MAX then (s.host, R.err Errno.EINVAL) else s.host.write d.fd bufs.flatten) := by
  refine ⟨readIovecs_spec _ _ _ _ _ _ _ hsegs, gather_spec _ _ _ hbufs, ?_⟩
  have hlen : bufs.length = cnt := by
    rw [gather_length _ _ _ hbufs]; exact readIovecs_length _ _ _ _ _ _ _ hsegs
  have hneg : ¬ d.fd < 0 := by omega
  simp only [stepRO, hd, hneg, ↓reduceIte, doWrite, Gen.Wasi.ciovecSize, Gen.Wasi.ciovecBufOffset,
    Gen.Wasi.ciovecLenOffset, hsegs, hbufs, Out.bind_val, posixHost, hlen]

/-- `finishWrite`: the value `write` returned is stored LE at the result pointer with result 0;
    an error is translated by `wasiErrno` and nothing is stored -/
theorem write_result_stored (w : MW) (res k : Nat) (h' : State) (e : Errno) :
    finishWrite w res (h', R.ok k) = ((w.store res (leBytes 4 k)) >>= fun w' => ret w' h' 0) ∧
    finishWrite w res (h', (R.err e : R Nat)) = ret w h' (wasiErrno e) := ⟨rfl, rfl⟩

/-- fd_read: ONE POSIX `readv` of the segment lengths in array order; the bytes it returns are
    stored into the segments strictly in order (`chunks`: segment k receives the next `len k`
    bytes, nothing after the data is used up), their concatenation is exactly the data read, and
    `nread` = number of bytes read is stored LE at the result pointer. -/
theorem iov_scatter_order (abi : Abi) (s : St State) (n iovs cnt res : Nat) (d : Desc)
    (segs : List (Nat × Nat)) (h' : State) (bs : Bytes) (w1 : MW)
    (hd : getDesc Cfg.ofGen s n = some d) (hfd : 0 ≤ d.fd)
    (hsegs : readIovecs s.mem iovs 8 0 4 cnt = .val segs)
    (hrd : posixHost.readv s.host d.fd (segs.map (·.2)) = (h', .ok bs))
    (hsc : scatter ⟨s.mem, []⟩ segs bs = .val w1) :
    segs = (List.range cnt).map (iovecAt s.mem iovs 8 0 4) ∧
    w1.log = chunks segs bs ∧
    ((chunks segs bs).map (·.2)).flatten = bs.take (segs.map (·.2)).sum ∧
    stepRO Cfg.ofGen posixHost abi s (.fdRead n iovs cnt res) =
      ((w1.store res (leBytes 4 bs.length)) >>= fun w2 => ret w2 h' 0) := by
  refine ⟨readIovecs_spec _ _ _ _ _ _ _ hsegs, ?_, chunks_flatten segs bs, ?_⟩
  · have := scatter_spec segs _ _ _ hsc; simpa using this
  · have hneg : ¬ d.fd < 0 := by omega
    simp only [stepRO, hd, hneg, ↓reduceIte, doRead, Gen.Wasi.iovecSize, Gen.Wasi.iovecBufOffset,
      Gen.Wasi.iovecLenOffset, hsegs, Out.bind_val, hrd, finishRead, hsc]

/-! ## positional I/O -/

/-- The C parameter that receives the guest's 64-bit offset is 64 bits wide in both ABIs (read
    from the source): the `off_t` that reaches `lseek` is the guest's argument as a signed
    64-bit number — no truncation. -/
theorem positional_full_offset (abi : Abi) (off : Nat) (h : off < 2 ^ 64) :
    asOffT (Cfg.ofGen.pwriteOffsetBits abi) off = (BitVec.ofNat 64 off).toInt ∧
    asOffT (Cfg.ofGen.preadOffsetBits abi) off = (BitVec.ofNat 64 off).toInt := by
  have hw : Cfg.ofGen.pwriteOffsetBits abi = 64 := by cases abi <;> rfl
  have hr : Cfg.ofGen.preadOffsetBits abi = 64 := by cases abi <;> rfl
  rw [hw, hr]
  have key : asOffT 64 off = (BitVec.ofNat 64 off).toInt := by
    unfold asOffT
    rw [BitVec.toInt_eq_toNat_cond]
    simp only [BitVec.toNat_ofNat, Nat.mod_eq_of_lt h]
    by_cases hb : off ≥ 2 ^ 63
    · have : 64 ≥ 64 ∧ off ≥ 2 ^ 63 := ⟨Nat.le_refl _, hb⟩
      rw [if_pos this]
      have h2 : ¬ 2 * off < 2 ^ 64 := by omega
      rw [if_neg h2]
      norm_cast
    · have : ¬ (64 ≥ 64 ∧ off ≥ 2 ^ 63) := by omega
      rw [if_neg this]
      have h2 : 2 * off < 2 ^ 64 := by omega
      rw [if_pos h2]
  exact ⟨key, key⟩

/-- with a 32-bit parameter (the pinned source, /repo before a81f3b2) the offset 2^32 + 5 became 5 -/
theorem positional_offset_32bit_counterexample : asOffT 32 (2 ^ 32 + 5) = 5 := by decide

/-- **pread**: the seek-juggling emulation on a regular file transfers at `off` exactly what
    POSIX `pread(fd, total, off)` transfers, and leaves the WHOLE host state — the file position
    included — unchanged, on success and on a transfer error (EBADF for a write-only fd). -/
theorem positional_preserves_pos_read {s : State} {fd : Int} {ino pos : Nat} {acc : Acc} {flags : List OFlag}
    {f : File} (h : IsFile s fd ino pos acc flags f) (off : Nat) (hoff : off ≤ s.maxBytes)
    (hsz : f.size ≤ s.maxBytes) (lens : List Nat) (hcnt : lens.length ≤ IOV_MAX) :
    wrapPositional posixHost s fd off (fun h' => posixHost.readv h' fd lens) = s.pread fd lens.sum off ∧
    (wrapPositional posixHost s fd off (fun h' => posixHost.readv h' fd lens)).1 = s := by
  have key : wrapPositional posixHost s fd off (fun h' => posixHost.readv h' fd lens) = s.pread fd lens.sum off := by
    by_cases hl : lens.sum = 0
    · exact wrapPositional_readv_zero h off hoff lens hl hcnt
    · exact wrapPositional_readv_eq_pread h off hoff lens hl hcnt hsz
  exact ⟨key, by rw [key, pread_state]⟩

/-- **pwrite**: same for writes — the effect on the file and the count are those of POSIX
    `pwrite(fd, data, off)`; the descriptor table of the host (hence every file position) is
    unchanged afterwards. -/
theorem positional_preserves_pos_write {s : State} {fd : Int} {ino pos : Nat} {acc : Acc} {flags : List OFlag}
    {f : File} (h : IsFile s fd ino pos acc flags f) (off : Nat) (hoff : off ≤ s.maxBytes)
    (bufs : List Bytes) (hcnt : bufs.length ≤ IOV_MAX) :
    wrapPositional posixHost s fd off (fun h' => posixHost.writev h' fd bufs) = s.pwrite fd bufs.flatten off ∧
    (wrapPositional posixHost s fd off (fun h' => posixHost.writev h' fd bufs)).1.fds = s.fds := by
  have key := wrapPositional_writev_eq_pwrite h off hoff bufs hcnt
  exact ⟨key, by rw [key, pwrite_fds]⟩

/-- the hypotheses of the two theorems are satisfiable: descriptor 0 of the harness's host -/
example : IsFile (initHost 1000) 0 0 0 .rdonly [] (fileOfBytes (strBytes "0123456789abcdef")) :=
  ⟨by decide, rfl, rfl, by decide⟩

/-- fd_pread as a whole = the same marshalling around POSIX `pread` at the guest's offset -/
theorem fd_pread_refines_pread (abi : Abi) (s : St State) (n iovs cnt off res : Nat) (d : Desc)
    {ino pos : Nat} {acc : Acc} {flags : List OFlag} {f : File}
    (hd : getDesc Cfg.ofGen s n = some d) (hfd : 0 ≤ d.fd)
    (hf : IsFile s.host d.fd ino pos acc flags f) (hoff : off ≤ s.host.maxBytes) (ho63 : off < 2 ^ 63)
    (hsz : f.size ≤ s.host.maxBytes) (hcnt : cnt ≤ IOV_MAX) :
    stepRO Cfg.ofGen posixHost abi s (.fdPread n iovs cnt off res) =
      doRead ⟨s.mem, []⟩ s.host iovs cnt res (fun h lens => h.pread d.fd lens.sum off) := by
  have hneg : ¬ d.fd < 0 := by omega
  have hr : Cfg.ofGen.preadOffsetBits abi = 64 := by cases abi <;> rfl
  simp only [stepRO, hd, hneg, ↓reduceIte, hr, asOffT_64 off ho63]
  apply doRead_congr
  intro lens hl
  exact (positional_preserves_pos_read hf off hoff hsz lens (by omega)).1

/-- fd_pwrite as a whole = the same marshalling around POSIX `pwrite` at the guest's offset -/
theorem fd_pwrite_refines_pwrite (abi : Abi) (s : St State) (n iovs cnt off res : Nat) (d : Desc)
    {ino pos : Nat} {acc : Acc} {flags : List OFlag} {f : File}
    (hd : getDesc Cfg.ofGen s n = some d) (hfd : 0 ≤ d.fd)
    (hf : IsFile s.host d.fd ino pos acc flags f) (hoff : off ≤ s.host.maxBytes) (ho63 : off < 2 ^ 63)
    (hcnt : cnt ≤ IOV_MAX) :
    stepRO Cfg.ofGen posixHost abi s (.fdPwrite n iovs cnt off res) =
      doWrite posixHost ⟨s.mem, []⟩ s.host iovs cnt res (fun h bufs => h.pwrite d.fd bufs.flatten off) := by
  have hneg : ¬ d.fd < 0 := by omega
  have hw : Cfg.ofGen.pwriteOffsetBits abi = 64 := by cases abi <;> rfl
  simp only [stepRO, hd, hneg, ↓reduceIte, hw, asOffT_64 off ho63]
  apply doWrite_congr
  intro bufs hl
  exact (positional_preserves_pos_write hf off hoff bufs (by omega)).1

/-- What the emulation does NOT reproduce: beyond the file system's largest offset `lseek`
    fails with EINVAL, while POSIX `pread` there returns 0 bytes (and `pwrite` EFBIG). -/
theorem positional_beyond_fs_limit_counterexample :
    (wrapPositional posixHost (initHost 1000) 0 2000 (fun h' => posixHost.readv h' 0 [4])).2 = R.err Errno.EINVAL ∧
    ((initHost 1000).pread 0 4 2000).2 = R.ok [] := by
  constructor <;> decide +kernel

/-! ## fd_seek / fd_tell -/

/-- both generations of the whence encoding, as regenerated from the source, are the ones the
    specification defines -/
theorem whence_tables (abi : Abi) (v : Nat) : whenceOf abi v = specWhence abi v := by
  cases abi <;>
  · match v with
    | 0 => rfl
    | 1 => rfl
    | 2 => rfl
    | _ + 3 => rfl

/-- fd_seek on a live descriptor with a native fd: an invalid whence ↦ EINVAL with no state
    change; otherwise the result is POSIX `lseek(fd, (off_t) offset, whence)` with the
    specification's whence and the guest's full 64-bit offset, the new offset stored as LE u64 at
    the result pointer (`finishSeek`; translated errno on failure); a dead descriptor ↦ EBADF
    whatever the whence (as lseek(2)); fd_tell = `lseek(fd, 0, SEEK_CUR)`. -/
theorem seek_tell_correct (abi : Abi) (s : St State) (n off wh res : Nat) :
    (getDesc Cfg.ofGen s n = none →
      stepRO Cfg.ofGen posixHost abi s (.fdSeek n off wh res) = ret ⟨s.mem, []⟩ s.host BADF) ∧
    (∀ d, getDesc Cfg.ofGen s n = some d → 0 ≤ d.fd → specWhence abi wh = none →
      stepRO Cfg.ofGen posixHost abi s (.fdSeek n off wh res) = ret ⟨s.mem, []⟩ s.host INVAL) ∧
    (∀ w d, specWhence abi wh = some w → getDesc Cfg.ofGen s n = some d → 0 ≤ d.fd →
      stepRO Cfg.ofGen posixHost abi s (.fdSeek n off wh res) =
        finishSeek ⟨s.mem, []⟩ res (s.host.lseek d.fd (asOffT 64 off) w)) ∧
    (∀ d, getDesc Cfg.ofGen s n = some d → 0 ≤ d.fd →
      stepRO Cfg.ofGen posixHost abi s (.fdTell n res) =
        finishSeek ⟨s.mem, []⟩ res (s.host.lseek d.fd 0 .cur)) := by
  have hs : Cfg.ofGen.seekOffsetBits abi = 64 := by cases abi <;> rfl
  have hwf : Cfg.ofGen.seekChecksWhenceFirst = false := rfl
  refine ⟨?_, ?_, ?_, ?_⟩
  · intro hd
    simp only [stepRO, hwf, Bool.false_eq_true, ↓reduceIte, hd]
  · intro d hd hfd hw
    have hneg : ¬ d.fd < 0 := by omega
    simp only [stepRO, hwf, Bool.false_eq_true, ↓reduceIte, hd, hneg, whence_tables, hw]
  · intro w d hw hd hfd
    have hneg : ¬ d.fd < 0 := by omega
    simp only [stepRO, hwf, Bool.false_eq_true, ↓reduceIte, whence_tables, hw, doSeek, hd, hneg, hs, posixHost]
  · intro d hd hfd
    have hneg : ¬ d.fd < 0 := by omega
    simp only [stepRO, doSeek, hd, hneg, ↓reduceIte, posixHost]

/-- `finishSeek` stores the 64-bit result little-endian in 8 bytes -/
theorem seek_result_stored (w : MW) (res r : Nat) (h' : State) (e : Errno) :
    finishSeek w res (h', R.ok r) = ((w.store res (leBytes 8 r)) >>= fun w' => ret w' h' 0) ∧
    finishSeek w res (h', (R.err e : R Nat)) = ret w h' (wasiErrno e) := ⟨rfl, rfl⟩

/-! ## path_open -/

/-- the flag word handed to `open`: create / exclusive / truncate / directory / append (and the
    synchronisation flags) are set exactly when the corresponding WASI bit is set, and the
    access mode follows the rights as the specification's convention says -/
theorem open_flags_correct (oflags fdflags rights : Nat) :
    openFlags oflags fdflags = specOpenFlags oflags fdflags ∧ openAcc rights = specAcc rights := by
  constructor
  · simp only [openFlags, specOpenFlags, Gen.Wasi.oflagsMap, Gen.Wasi.fdflagsMap, hasBit, List.filter]
    cases (oflags &&& 1 != 0) <;> cases (oflags &&& 2 != 0) <;> cases (oflags &&& 4 != 0) <;>
      cases (oflags &&& 8 != 0) <;> cases (fdflags &&& 1 != 0) <;> cases (fdflags &&& 2 != 0) <;>
      cases (fdflags &&& 4 != 0) <;> cases (fdflags &&& 16 != 0) <;> rfl
  · simp only [openAcc, specAcc, Gen.Wasi.accessMode, Gen.Wasi.readRightsMask, Gen.Wasi.writeRightsMask, hasBit]
    rfl

/-- … and these flags take effect as POSIX specifies, because path_open performs exactly
    `open(resolved path, access mode | flags, 0644)` on the host: the call's answer is `open`'s -/
theorem path_open_is_posix_open (s : St State) (dirfd df pp pl oflags rights ri fdflags fdPtr : Nat) (p : Bytes)
    (hpro : pathPrologue Cfg.ofGen s ⟨s.mem, []⟩ dirfd pp pl = .val (.ok p)) :
    pathOpen Cfg.ofGen posixHost s dirfd df pp pl oflags rights ri fdflags fdPtr =
      finishOpen posixHost s ⟨s.mem, []⟩ (specOpenFlags oflags fdflags) fdPtr p
        (s.host.open p (specAcc rights) (specOpenFlags oflags fdflags)) := by
  have hf := open_flags_correct oflags fdflags rights
  simp only [pathOpen, hpro, hf.1, hf.2, posixHost]

/-- the Linux/POSIX meaning of the flags in the model the call runs on (non-vacuity of the
    statement above): O_CREAT|O_EXCL on an existing file fails with EEXIST, O_TRUNC empties it -/
example :
    ((initHost 1000).open (strBytes "stdin.txt") .rdwr [.creat, .excl]).2 = R.err Errno.EEXIST := by decide +kernel

/-! ## fd_filestat_get -/

/-- the rows regenerated from `storePreview1Filestat` / `storeUnstableFilestat` put every field at
    the offset and with the width the specification gives, and the zeroed area is exactly the
    struct (64 bytes preview1, 56 bytes unstable), in both ABIs -/
theorem filestat_layout (abi : Abi) :
    (filestatLayout abi).2.map (fun r => (r.1, r.2.1, r.2.2.1)) = (specFilestat abi).2 ∧
    (filestatLayout abi).1 = (specFilestat abi).1 := by
  cases abi <;> exact ⟨rfl, rfl⟩

/-- every field is stored little-endian with its full C width (no truncation of the 64-bit
    fields; `nlink` is 32 bits in the unstable ABI) -/
theorem filestat_field_widths (abi : Abi) :
    ∀ r ∈ (filestatLayout abi).2, r.2.2.2 = 8 * r.2.2.1 := by
  cases abi <;> decide

/-- what fd_filestat_get stores, in program order: `size` zero bytes at `p`, then each field
    little-endian at `p + offset` … -/
theorem filestat_stores (abi : Abi) (w w' : MW) (p : Nat) (st : Stat) (h : storeFilestat abi w p st = .val w') :
    w'.log = w.log ++ (p, List.replicate (specFilestat abi).1 0) ::
      (filestatLayout abi).2.map (fun r => (p + r.2.1, leBytes r.2.2.1 (filestatField st r.1 % 2 ^ r.2.2.2))) := by
  have rows : ∀ (rows : List (String × Nat × Nat × Nat)) (a b : MW), storeRows a p st rows = .val b →
      b.log = a.log ++ rows.map (fun r => (p + r.2.1, leBytes r.2.2.1 (filestatField st r.1 % 2 ^ r.2.2.2))) := by
    intro rows
    induction rows with
    | nil => intro a b hab; simp [storeRows] at hab; simp [hab]
    | cons r rs ih =>
      intro a b hab
      obtain ⟨nm, off, by_, bits⟩ := r
      unfold storeRows at hab
      cases ha : a.store (p + off) (leBytes by_ (filestatField st nm % 2 ^ bits)) with
      | val a1 =>
        rw [ha] at hab
        simp only [Out.bind_val] at hab
        rw [ih a1 b hab, (MW.store_val ha).2]
        simp
      | trap t => rw [ha] at hab; simp at hab
      | ub k => rw [ha] at hab; simp at hab
      | oof => rw [ha] at hab; simp at hab
  unfold storeFilestat at h
  have hsz : (filestatLayout abi).1 = (specFilestat abi).1 := (filestat_layout abi).2
  cases hs : w.store p (List.replicate (filestatLayout abi).1 0) with
  | val w0 =>
    simp only [hs, Out.bind_val] at h
    rw [rows _ w0 w' h, (MW.store_val hs).2, hsz]
    simp
  | trap t => simp [hs] at h
  | ub k => simp [hs] at h
  | oof => simp [hs] at h

/-- … and every one of these stores lies inside the struct `[p, p + size)`: nothing outside the
    filestat is written (before /repo 42e944c the unstable ABI zeroed 64 bytes for its 56-byte
    struct) -/
theorem filestat_writes_within_struct (abi : Abi) (w w' : MW) (p : Nat) (st : Stat)
    (h : storeFilestat abi w p st = .val w') :
    ∃ news, w'.log = w.log ++ news ∧
      ∀ e ∈ news, p ≤ e.1 ∧ e.1 + e.2.length ≤ p + (specFilestat abi).1 := by
  refine ⟨_, filestat_stores abi w w' p st h, ?_⟩
  intro e he
  simp only [List.mem_cons, List.mem_map] at he
  rcases he with he | ⟨r, hr, he⟩
  · subst he; simp
  · subst he
    simp only [leBytes_length]
    have : ∀ r ∈ (filestatLayout abi).2, r.2.1 + r.2.2.1 ≤ (specFilestat abi).1 := by
      cases abi <;> decide
    have := this r hr
    omega

/-! ## errno -/

/-- every host errno that `wasiErrno()` has a row for is translated to the WASI number the
    specification assigns (partial: a host errno without a row comes out as the default, EINVAL) -/
theorem errno_table_correct_partial (e : Errno) (h : (Gen.Wasi.errnoTable.lookup e).isSome = true) :
    wasiErrno e = specErrno e := by
  cases e <;> first | rfl | (exfalso; revert h; decide)

/-- the errors the POSIX model of the C12 calls can produce all have a row
    (ENAMETOOLONG since /repo 1a00b80; on the pinned tree a 256-byte name gave EINVAL) -/
theorem errno_rows_present :
    ∀ e ∈ [Errno.ENOENT, .ENOTDIR, .EISDIR, .EEXIST, .EINVAL, .EBADF, .EFBIG, .ENAMETOOLONG, .EIO],
      (Gen.Wasi.errnoTable.lookup e).isSome = true := by decide

/-- … e.g. a 256-byte name makes `open` fail with ENAMETOOLONG, reported as WASI 37 -/
theorem errno_enametoolong_reachable :
    ((initHost 1000).open (List.replicate 256 120) .rdwr [.creat]).2 = R.err Errno.ENAMETOOLONG ∧
    wasiErrno .ENAMETOOLONG = 37 := by
  constructor
  · decide +kernel
  · decide

/-! ## the calls as a whole -/

/-- **fdio_refines_posix (per call, any state of any history).**  For each of the I/O calls, on a
    descriptor obtained from path_open or stdio (a native descriptor `d.fd ≥ 0`), the model of
    `wasi.c` is: the descriptor lookup, the marshalling characterised above, ONE POSIX operation
    on the host state, the errno translation, the stores.  Since `run` threads exactly this
    host state through a history, the final file contents and positions of any history are
    those the sequence of these POSIX operations produces.  Partial: offsets of positional calls
    below 2^63 and within the file system's limit, regular files (see the counterexamples). -/
theorem fdio_refines_posix_partial (abi : Abi) (s : St State) (n iovs cnt off res : Nat) (d : Desc)
    {ino pos : Nat} {acc : Acc} {flags : List OFlag} {f : File}
    (hd : getDesc Cfg.ofGen s n = some d) (hfd : 0 ≤ d.fd)
    (hf : IsFile s.host d.fd ino pos acc flags f) (hoff : off ≤ s.host.maxBytes) (ho63 : off < 2 ^ 63)
    (hsz : f.size ≤ s.host.maxBytes) (hcnt : cnt ≤ IOV_MAX) :
    stepRO Cfg.ofGen posixHost abi s (.fdWrite n iovs cnt res) =
      doWrite posixHost ⟨s.mem, []⟩ s.host iovs cnt res (fun h bufs => h.write d.fd bufs.flatten) ∧
    stepRO Cfg.ofGen posixHost abi s (.fdPwrite n iovs cnt off res) =
      doWrite posixHost ⟨s.mem, []⟩ s.host iovs cnt res (fun h bufs => h.pwrite d.fd bufs.flatten off) ∧
    stepRO Cfg.ofGen posixHost abi s (.fdRead n iovs cnt res) =
      doRead ⟨s.mem, []⟩ s.host iovs cnt res (fun h lens => h.readv d.fd lens) ∧
    stepRO Cfg.ofGen posixHost abi s (.fdPread n iovs cnt off res) =
      doRead ⟨s.mem, []⟩ s.host iovs cnt res (fun h lens => h.pread d.fd lens.sum off) := by
  have hneg : ¬ d.fd < 0 := by omega
  refine ⟨?_, fd_pwrite_refines_pwrite abi s n iovs cnt off res d hd hfd hf hoff ho63 hcnt, ?_,
    fd_pread_refines_pread abi s n iovs cnt off res d hd hfd hf hoff ho63 hsz hcnt⟩
  · simp only [stepRO, hd, hneg, ↓reduceIte]
    apply doWrite_congr
    intro bufs hl
    have : ¬ bufs.length > IOV_MAX := by omega
    simp only [posixHost, this, ↓reduceIte]
  · simp only [stepRO, hd, hneg, ↓reduceIte]
    apply doRead_congr
    intro lens hl
    have : ¬ lens.length > IOV_MAX := by omega
    simp only [posixHost, this, ↓reduceIte]

/-- **fdio_refines_posix.**  For EVERY finite history of calls of both ABIs, running the model of
    `wasi.c` gives exactly what running the POSIX images of the calls gives (`runImage`: `write`,
    `pwrite`/`pread` at the guest's full 64-bit offset, `readv`, `lseek` with the specification's
    whence, `open` with the specification's flag mapping, `fstat` in the specification's layout,
    `close`): the same answers (errno, every byte stored into guest memory incl. counts and
    64-bit offsets), the same descriptor table and the same final host state — file contents and
    file positions.  Induction over the history.

    `GoodRun` collects the side conditions, checked at each state the history passes through:
    a positional call addresses a regular file with an offset < 2^63 within the file system's
    largest offset and ≤ IOV_MAX segments (and the fd_seek offset argument is a 64-bit value).
    Beyond the file system's largest offset the lseek emulation deviates from pread/pwrite —
    `positional_beyond_fs_limit_counterexample`, recorded as the open finding
    `positional-offset-beyond-s_maxbytes`. -/
theorem fdio_refines_posix (hist : List (Abi × Call)) (s : St State) (hg : GoodRun s hist) :
    run Cfg.ofGen posixHost s hist = runImage s hist :=
  run_eq_runImage hist s hg

/-- the side conditions are satisfiable on a history that writes, seeks, reads back positionally
    and stats (non-vacuity), and there model and image indeed agree -/
example :
    let hist : List (Abi × Call) :=
      [(.preview1, .ro (.fdSeek 0 3 0 64)), (.unstable, .ro (.fdTell 0 72)), (.preview1, .fdClose 0)]
    GoodRun (initState 1000) hist := by
  refine ⟨(by show (3 : Nat) < 2 ^ 64; decide), fun s1 r _ => ⟨trivial, fun s2 r2 _ => ⟨trivial, fun _ _ _ => trivial⟩⟩⟩

private theorem initState_host (m : Nat) : (initState m).host = initHost m := by
  unfold initState addPreopen
  split
  · rename_i s' idx hadd
    exact (tableAdd_spec _ _ _ _ _ hadd).2.2.2.2
  · rfl

/-- … and the side condition of a positional call holds e.g. for fd_pread(0, …, offset 3) in the
    harness's initial state (descriptor 0 = the 16-byte regular file `stdin.txt`) -/
example : Good .preview1 (initState 1000) (.ro (.fdPread 0 200 1 3 300)) := by
  intro d hd _
  have h0 : getDesc Cfg.ofGen (initState 1000) 0 = some ⟨0, none, none⟩ := by decide +kernel
  rw [h0] at hd
  cases hd
  rw [initState_host]
  exact ⟨by decide, by decide, by decide, 0, 0, .rdonly, [], fileOfBytes (strBytes "0123456789abcdef"),
    ⟨by decide, rfl, rfl, by decide⟩, by decide +kernel⟩

/-- fd_close on a live descriptor with a native fd is POSIX `close` of that fd (its failure is
    reported as EBADF and leaves the table alone) -/
theorem fd_close_is_posix_close (s : St State) (d : Desc) (hdir : d.dir = none) (hfd : 0 ≤ d.fd) :
    closeHost posixHost s.host d = s.host.close d.fd := by
  simp [closeHost, hdir, hfd, posixHost]

end W2c2Verif.Props.C12
