/-
  Props.C14 — WASI path operations act on the resolved path; directory listings are complete.

  Part 1: `resolvePath` and the path calls (model: Model/WasiPath.lean, written statement by
  statement after wasi/wasi.c with the guards/characters regenerated into Gen/WasiPath.lean).
  Part 2 (fd_readdir) is in Props/C14Readdir.lean.

  `pm` is PATH_MAX; all theorems hold for every value of it.
-/
import W2c2Verif.Lemmas.WasiPath
import W2c2Verif.Lemmas.WasiPathProc

namespace W2c2Verif.C14
open W2c2Verif W2c2Verif.WasiPath

/-- The generated constants the hand-written model relies on (a change in wasi.c that alters
    one of them regenerates Gen/WasiPath.lean and breaks this obligation). -/
theorem gen_assumptions_path :
    Gen.WasiPath.absChar = 47 ∧ Gen.WasiPath.sepTestChar = 47 ∧ Gen.WasiPath.sepChar = 47 ∧
    Gen.WasiPath.terminator = 0 ∧ Gen.WasiPath.rejectsNul = true ∧ Gen.WasiPath.nulCheckAfterLength = true ∧
    Gen.WasiPath.resolvePathMemcpys =
      ["result, path, pathLength", "result, directory, totalLength", "result + totalLength, path, pathLength"] ∧
    Gen.WasiPath.pathCalls.map (fun c => c.2.2) = [1, 1, 1, 2, 1, 1, 1] ∧
    Gen.WasiPath.renameResolvesAgainst = ("old", "new") := by
  decide

/-- **resolvePath_spec.**  For a descriptor path `dir` (non-empty, NUL-free, NUL-terminated in
    its host object) and the guest path = the first `len` bytes at the guest pointer:
    `len = 0 ↦ false`; a NUL byte among the `len` bytes ↦ false; `path[0] = '/' ↦ (len < PATH_MAX → path)`; otherwise
    `(|dir| + len + 1 < PATH_MAX → dir ++ sep? ++ path)` with `sep? = "/"` iff `dir` does not end
    in `/` (this is `resolveSpec`).  On success the `PATH_MAX` buffer holds exactly that string
    followed by NUL; the remaining bytes of the buffer are untouched. -/
theorem resolvePath_spec (pm : Nat) (dir tl avail : Bytes) (len : Nat) (buf : Bytes)
    (hdir0 : (0 : UInt8) ∉ dir) (hdne : dir ≠ []) (hlen : len ≤ avail.length) (hbuf : buf.length = pm) :
    resolvePath pm (dir ++ 0 :: tl) avail len buf =
      .val ((resolveSpec pm dir (avail.take len)).map
              (fun s => (s ++ [0]) ++ buf.drop (s ++ [0]).length)) :=
  resolvePath_eq_spec pm dir tl avail len buf hdir0 hdne hlen hbuf

/-- `resolveSpec` spelled out as in the property text. -/
theorem resolveSpec_cases (pm : Nat) (dir path : Bytes) :
    (path = [] → resolveSpec pm dir path = none) ∧
    ((0 : UInt8) ∈ path → resolveSpec pm dir path = none) ∧
    ((0 : UInt8) ∉ path → path.head? = some 47 →
      resolveSpec pm dir path = if path.length < pm then some path else none) ∧
    ((0 : UInt8) ∉ path → path ≠ [] → path.head? ≠ some 47 →
      resolveSpec pm dir path =
        if dir.length + path.length + 1 < pm then
          some (dir ++ (if dir.getLast? = some 47 then [] else [47]) ++ path) else none) := by
  refine ⟨?_, ?_, ?_, ?_⟩
  · intro h; subst h; simp [resolveSpec]
  · intro h; unfold resolveSpec; split <;> simp [h]
  · intro h0 h
    have : path ≠ [] := by intro h1; subst h1; simp at h
    have hl : path.length ≠ 0 := by intro h1; exact this (List.eq_nil_of_length_eq_zero h1)
    simp [resolveSpec, hl, h, h0]
  · intro h0 hne h
    have hl : path.length ≠ 0 := by intro h1; exact hne (List.eq_nil_of_length_eq_zero h1)
    simp [resolveSpec, hl, h, h0, sepOf]

/-- a resolved path never contains a NUL byte (so the host sees all of it) -/
theorem resolveSpec_nulfree (pm : Nat) (dir path s : Bytes) (hdir0 : (0 : UInt8) ∉ dir)
    (hs : resolveSpec pm dir path = some s) : (0 : UInt8) ∉ s := by
  unfold resolveSpec at hs
  split at hs
  · simp at hs
  · split at hs
    · simp at hs
    · rename_i hp0
      split at hs
      · split at hs
        · simp at hs; subst hs; exact hp0
        · simp at hs
      · split at hs
        · simp at hs; subst hs
          intro h
          have h3 : (0 : UInt8) ∈ dir ∨ (0 : UInt8) ∈ sepOf dir ∨ (0 : UInt8) ∈ path := by
            simpa [List.mem_append, or_assoc] using h
          rcases h3 with h | h | h
          · exact hdir0 h
          · unfold sepOf at h; split at h <;> simp at h
          · exact hp0 h
        · simp at hs

/-- What a host call that is handed `result` sees (the bytes before the first NUL) is exactly the
    specified string, for every guest path. -/
theorem resolvePath_cstr (pm : Nat) (dir tl avail : Bytes) (len : Nat) (buf : Bytes)
    (hdir0 : (0 : UInt8) ∉ dir) (hdne : dir ≠ []) (hlen : len ≤ avail.length) (hbuf : buf.length = pm) :
    ∃ r, resolvePath pm (dir ++ 0 :: tl) avail len buf = .val r ∧
      r.map cstr = resolveSpec pm dir (avail.take len) := by
  refine ⟨_, resolvePath_spec pm dir tl avail len buf hdir0 hdne hlen hbuf, ?_⟩
  cases hs : resolveSpec pm dir (avail.take len) with
  | none => simp
  | some s =>
    simp only [Option.map_some, Option.some.injEq]
    exact cstr_strcpy s _ (resolveSpec_nulfree pm dir _ s hdir0 hs)

/-- **resolvePath_in_bounds.**  For EVERY non-empty NUL-free descriptor path, every PATH_MAX,
    every guest memory tail `avail`, every length `len` that lies inside the guest memory and every
    initial content of the result buffer: the code has no undefined behaviour (no write at
    index ≥ PATH_MAX, no read before `directory[0]`, no read outside the guest memory); a
    successful result is NUL-terminated inside the buffer (string shorter than PATH_MAX); and the
    outcome does not depend on any guest byte after `path[len−1]` (they are never read: the
    model returns `.ub outOfBounds` for a read beyond `avail`, and the outcome is the same when
    the memory ENDS at `path[len−1]`). -/
theorem resolvePath_in_bounds (pm : Nat) (dir tl avail : Bytes) (len : Nat) (buf : Bytes)
    (hdir0 : (0 : UInt8) ∉ dir) (hdne : dir ≠ []) (hlen : len ≤ avail.length) (hbuf : buf.length = pm) :
    (∃ r, resolvePath pm (dir ++ 0 :: tl) avail len buf = .val r ∧
      ∀ b, r = some b → b.length = pm ∧ (cstr b).length < pm ∧ (0 : UInt8) ∈ b) ∧
    resolvePath pm (dir ++ 0 :: tl) avail len buf
      = resolvePath pm (dir ++ 0 :: tl) (avail.take len) len buf := by
  constructor
  · refine ⟨_, resolvePath_spec pm dir tl avail len buf hdir0 hdne hlen hbuf, ?_⟩
    intro b hb
    cases hs : resolveSpec pm dir (avail.take len) with
    | none => simp [hs] at hb
    | some s =>
      simp only [hs, Option.map_some, Option.some.injEq] at hb
      have htl : (avail.take len).length = len := by simp [Nat.min_eq_left hlen]
      have hslen : s.length < pm := by
        unfold resolveSpec at hs
        rw [htl] at hs
        split at hs
        · simp at hs
        · split at hs
          · simp at hs
          · split at hs
            · split at hs
              · simp at hs; subst hs; rw [htl]; assumption
              · simp at hs
            · split at hs
              · simp at hs; subst hs
                simp only [List.length_append, htl]
                have : (sepOf dir).length ≤ 1 := by unfold sepOf; split <;> simp
                omega
              · simp at hs
      subst hb
      refine ⟨?_, ?_, ?_⟩
      · simp; omega
      · have : cstr (s ++ [0] ++ buf.drop (s ++ [0]).length) = cstr s := by
          rw [List.append_assoc]; exact cstr_append_nul s _
        rw [this]
        exact Nat.lt_of_le_of_lt (cstr_length_le s) hslen
      · simp
  · rw [resolvePath_spec pm dir tl avail len buf hdir0 hdne hlen hbuf,
      resolvePath_spec pm dir tl (avail.take len) len buf hdir0 hdne (by simp [Nat.min_eq_left hlen]) hbuf]
    simp [List.take_take]

/-- **resolvePath_long_rejected_unread.**  The hypothesis `len ≤ avail.length` of
    `resolvePath_in_bounds` is needed only for lengths the length guards accept: when the guard of the
    branch fails (`path[0] = '/'` and `len ≥ PATH_MAX`, or relative and `|dir| + len + 1 ≥ PATH_MAX`)
    the call returns false having read nothing of the guest path beyond `path[0]` — the guest memory
    may end directly after that byte (`rest = []`), for ANY claimed length.  (The NUL scan comes
    after the length guards; before /repo commit f405bde it came first and over-read.) -/
theorem resolvePath_long_rejected_unread (pm : Nat) (dir tl : Bytes) (c0 : UInt8) (rest : Bytes) (len : Nat)
    (buf : Bytes) (hdir0 : (0 : UInt8) ∉ dir) (hlen : 0 < len)
    (hlong : (c0 = 47 ∧ pm ≤ len) ∨ (c0 ≠ 47 ∧ pm ≤ dir.length + len + 1)) :
    resolvePath pm (dir ++ 0 :: tl) (c0 :: rest) len buf = .val none :=
  resolvePath_long_reads_only_first pm dir tl c0 rest len buf hdir0 hlen hlong

/-- a claimed length of 5000 with ONE byte of guest memory left: rejected, no over-read -/
example : resolvePath 4096 [47, 116, 0] [97] 5000 [] = .val none := by decide

/-- the hypotheses of the two theorems are satisfiable, and both separator cases occur
    (`/tmp` = 47 116 109 112, `a/b` = 97 47 98) -/
example : resolvePath 16 [47, 116, 109, 112, 0] [97, 47, 98] 3 (List.replicate 16 0xAA)
    = .val (some ([47, 116, 109, 112, 47, 97, 47, 98, 0] ++ List.replicate 7 0xAA)) := by decide
example : resolvePath 16 [47, 116, 109, 112, 47, 0] [97, 47, 98] 3 (List.replicate 16 0xAA)
    = .val (some ([47, 116, 109, 112, 47, 97, 47, 98, 0] ++ List.replicate 7 0xAA)) := by decide
/-- absolute guest path: used as is -/
example : resolvePath 16 [47, 116, 109, 112, 0] [47, 98] 2 (List.replicate 16 0xAA)
    = .val (some ([47, 98, 0] ++ List.replicate 13 0xAA)) := by decide
/-- the length guard is tight: 4 + 10 + 1 = 15 < 16 succeeds and fills the buffer to its last byte,
    one more byte is rejected -/
example : resolvePath 16 [47, 116, 109, 112, 0] (List.replicate 10 97) 10 (List.replicate 16 0xAA)
    = .val (some ([47, 116, 109, 112, 47] ++ List.replicate 10 97 ++ [0])) := by decide
example : resolvePath 16 [47, 116, 109, 112, 0] (List.replicate 11 97) 11 (List.replicate 16 0xAA)
    = .val none := by decide
/-- a NUL byte anywhere in the guest path is rejected -/
example : resolvePath 16 [47, 116, 109, 112, 0] [97, 0, 98] 3 (List.replicate 16 0xAA) = .val none := by decide
/-- `dir ≠ []` is necessary: an empty descriptor path makes the code read `directory[-1]`
    (wasiFileDescriptorsAdd rejects empty paths, so no descriptor has one) -/
example : resolvePath 16 [0] [97] 1 (List.replicate 16 0) = .ub .outOfBounds := by decide
/-- a guest length reaching past the end of the guest memory is an over-read of the memory object
    (the path calls do not compare `pathPointer + pathLength` with the memory size) -/
example : resolvePath 16 [47, 116, 109, 112, 0] [97, 98] 3 (List.replicate 16 0) = .ub .outOfBounds := by
  decide

/-! ### the path calls -/

/-- **path_op_acts_on_resolved** (create_directory, remove_directory, unlink_file, readlink,
    filestat_get).  With a descriptor whose path is `dir`: the call performs no host operation
    and returns EINVAL when `resolvePath` rejects; otherwise it performs exactly ONE host
    operation, the one belonging to the call, on exactly the resolved path, and returns 0 or the `wasiErrno` translation of the host's errno.  No undefined
    behaviour for any guest input (the `strcpy` into the second `char[PATH_MAX]` fits). -/
theorem path_op_acts_on_resolved (pm : Nat) (host : HostOp → HostRes) (fds : FdTable) (call : PathCall)
    (fd : Nat) (dir tl avail : Bytes) (len : Nat) (s1 s2 : Bytes)
    (hfd : fds[fd]? = some (some (dir ++ 0 :: tl)))
    (hdir0 : (0 : UInt8) ∉ dir) (hdne : dir ≠ []) (hlen : len ≤ avail.length)
    (hs1 : s1.length = pm) (hs2 : s2.length = pm) :
    pathCall pm host fds call fd avail len s1 s2 = .val (
      match resolveSpec pm dir (avail.take len) with
      | none => ⟨Gen.WasiPath.errnoInval, []⟩
      | some p =>
        let op := call.hostOp p
        ⟨match host op with | .ok => Gen.WasiPath.errnoSuccess | .err e => wasiErrno e, [op]⟩) := by
  obtain ⟨⟨r, hr, hb⟩, _⟩ := resolvePath_in_bounds pm dir tl avail len s1 hdir0 hdne hlen hs1
  have hspec := resolvePath_spec pm dir tl avail len s1 hdir0 hdne hlen hs1
  unfold pathCall prologue
  simp only [hfd]
  rw [hspec]
  cases hs : resolveSpec pm dir (avail.take len) with
  | none => simp
  | some s =>
    simp only [Option.map_some, Out.bind_val]
    have hrs : r = some (s ++ [0] ++ s1.drop (s ++ [0]).length) := by
      rw [hspec, hs] at hr
      simp only [Option.map_some, Out.val.injEq] at hr
      exact hr.symm
    obtain ⟨_, hclen, hnul⟩ := hb _ hrs
    rw [strcpy_ok s2 _ hnul (by omega)]
    simp only [Out.bind_val]
    have hc : cstr (s ++ [0] ++ s1.drop (s ++ [0]).length) = cstr s := by
      rw [List.append_assoc]; exact cstr_append_nul s _
    rw [cstr_strcpy _ _ (cstr_nul_free _), hc, cstr_nulfree s (resolveSpec_nulfree pm dir _ s hdir0 hs)]
    cases host (call.hostOp s) <;> rfl

/-- a bad descriptor (out of range, or one without a path such as stdin/stdout/stderr) is
    rejected with EBADF before anything else happens -/
theorem path_op_badf (pm : Nat) (host : HostOp → HostRes) (fds : FdTable) (call : PathCall)
    (fd : Nat) (avail : Bytes) (len : Nat) (s1 s2 : Bytes)
    (hfd : fds[fd]? = none ∨ fds[fd]? = some none) :
    pathCall pm host fds call fd avail len s1 s2 = .val ⟨Gen.WasiPath.errnoBadf, []⟩ := by
  unfold pathCall prologue
  rcases hfd with h | h <;> simp [h]

/-- **path_filestat_follows_symlink.**  path_filestat_get FOLLOWS a symbolic link in the last component (examines
    the resolved path with `stat`; ENOENT on a dangling link) **iff** the SYMLINK_FOLLOW bit (bit 0) of its
    `lookupFlags` argument is set; otherwise it examines the link itself (`lstat`) — what a guest's `lstat()` asks
    for.  The decision is the regenerated one (`Gen.WasiPath.filestatHostCallFor`, read off the preprocessed
    source of this build).  A source that always calls `stat` (the pinned tree before de047f1) or always `lstat`
    regenerates a constant function and this theorem fails. -/
theorem path_filestat_follows_symlink (flags : Nat) (p : Bytes) :
    Gen.WasiPath.lookupSymlinkFollow = 1 ∧
    (PathCall.filestatGet flags).hostOp p = (if flags % 2 = 1 then HostOp.stat p else HostOp.lstat p) := by
  refine ⟨rfl, ?_⟩
  have h : flags &&& 1 = flags % 2 := Nat.and_one_is_mod flags
  simp only [PathCall.hostOp, Gen.WasiPath.filestatHostCallFor, h]
  rcases Nat.mod_two_eq_zero_or_one flags with h0 | h1
  · simp [h0]
  · simp [h1]

/-- the two cases spelt out: with SYMLINK_FOLLOW the target is examined, without it the link -/
theorem path_filestat_flag_cases (p : Bytes) :
    (PathCall.filestatGet 1).hostOp p = .stat p ∧ (PathCall.filestatGet 0).hostOp p = .lstat p ∧
    Gen.WasiPath.filestatUsesLookupFlags = true := ⟨rfl, rfl, rfl⟩

/-- each call's host operation is the one the property names -/
theorem path_op_kinds (p : Bytes) (n : Nat) :
    PathCall.createDirectory.hostOp p = .mkdir p 0o755 ∧
    PathCall.removeDirectory.hostOp p = .rmdir p ∧
    PathCall.unlinkFile.hostOp p = .unlink p ∧
    (PathCall.readlink n).hostOp p = .readlink p n ∧
    (PathCall.filestatGet 1).hostOp p = .stat p := by
  refine ⟨rfl, rfl, rfl, rfl, rfl⟩


/-- resolve + the `strcpy` into the second `char[PATH_MAX]`: never undefined, and the copy denotes
    the same C string -/
theorem resolved_strcpy (pm : Nat) (dir tl avail : Bytes) (len : Nat) (s1 s2 : Bytes)
    (hdir0 : (0 : UInt8) ∉ dir) (hdne : dir ≠ []) (hlen : len ≤ avail.length)
    (hs1 : s1.length = pm) (hs2 : s2.length = pm) :
    match resolveSpec pm dir (avail.take len) with
    | none => resolvePath pm (dir ++ 0 :: tl) avail len s1 = .val none
    | some p => ∃ b native, resolvePath pm (dir ++ 0 :: tl) avail len s1 = .val (some b) ∧
        strcpy s2 b = .val native ∧ cstr native = p := by
  obtain ⟨⟨r, hr, hb⟩, _⟩ := resolvePath_in_bounds pm dir tl avail len s1 hdir0 hdne hlen hs1
  have hspec := resolvePath_spec pm dir tl avail len s1 hdir0 hdne hlen hs1
  cases hs : resolveSpec pm dir (avail.take len) with
  | none => simp only; rw [hspec, hs]; rfl
  | some s =>
    simp only
    have hrs : r = some (s ++ [0] ++ s1.drop (s ++ [0]).length) := by
      rw [hspec, hs] at hr
      simp only [Option.map_some, Out.val.injEq] at hr
      exact hr.symm
    obtain ⟨_, hclen, hnul⟩ := hb _ hrs
    refine ⟨_, _, by rw [hspec, hs]; rfl, strcpy_ok s2 _ hnul (by omega), ?_⟩
    have hc : cstr (s ++ [0] ++ s1.drop (s ++ [0]).length) = cstr s := by
      rw [List.append_assoc]; exact cstr_append_nul s _
    rw [cstr_strcpy _ _ (cstr_nul_free _), hc, cstr_nulfree s (resolveSpec_nulfree pm dir _ s hdir0 hs)]

/-- **path_rename acts on the two resolved paths**: both descriptors are looked up, both guest
    paths resolved (old first); then exactly one `rename(old, new)` on the resolved strings. -/
theorem path_rename_acts_on_resolved (pm : Nat) (host : HostOp → HostRes) (fds : FdTable)
    (fd1 fd2 : Nat) (d1 t1 d2 t2 a1 a2 : Bytes) (l1 l2 : Nat) (s1 s2 s3 s4 : Bytes)
    (hfd1 : fds[fd1]? = some (some (d1 ++ 0 :: t1))) (hfd2 : fds[fd2]? = some (some (d2 ++ 0 :: t2)))
    (h10 : (0 : UInt8) ∉ d1) (h1ne : d1 ≠ []) (h20 : (0 : UInt8) ∉ d2) (h2ne : d2 ≠ [])
    (hl1 : l1 ≤ a1.length) (hl2 : l2 ≤ a2.length)
    (hs1 : s1.length = pm) (hs2 : s2.length = pm) (hs3 : s3.length = pm) (hs4 : s4.length = pm) :
    pathRename pm host fds fd1 a1 l1 fd2 a2 l2 s1 s2 s3 s4 = .val (
      match resolveSpec pm d1 (a1.take l1), resolveSpec pm d2 (a2.take l2) with
      | some p1, some p2 =>
        let op := HostOp.rename p1 p2
        ⟨match host op with | .ok => Gen.WasiPath.errnoSuccess | .err e => wasiErrno e, [op]⟩
      | _, _ => ⟨Gen.WasiPath.errnoInval, []⟩) := by
  have r1 := resolved_strcpy pm d1 t1 a1 l1 s1 s3 h10 h1ne hl1 hs1 hs3
  have r2 := resolved_strcpy pm d2 t2 a2 l2 s2 s4 h20 h2ne hl2 hs2 hs4
  unfold pathRename
  simp only [hfd1, hfd2]
  cases h1 : resolveSpec pm d1 (a1.take l1) with
  | none => rw [h1] at r1; simp only at r1; rw [r1]; rfl
  | some p1 =>
    rw [h1] at r1
    obtain ⟨b1, n1, e1, c1, k1⟩ := r1
    rw [e1]
    simp only [Out.bind_val]
    cases h2 : resolveSpec pm d2 (a2.take l2) with
    | none => rw [h2] at r2; simp only at r2; rw [r2]; rfl
    | some p2 =>
      rw [h2] at r2
      obtain ⟨b2, n2, e2, c2, k2⟩ := r2
      rw [e2]
      simp only [Out.bind_val, c1, c2, k1, k2]
      cases host (HostOp.rename p1 p2) <;> rfl

/-- **path_symlink**: the link target is taken verbatim up to its first NUL (rejected iff
    `oldPathLength ≥ PATH_MAX`; it is link *content*, not resolved), the link path is resolved;
    exactly one `symlink(target, resolved)`. -/
theorem path_symlink_acts_on_resolved (pm : Nat) (host : HostOp → HostRes) (fds : FdTable)
    (fd : Nat) (d t ta a : Bytes) (tl l : Nat) (s1 s2 s3 s4 : Bytes)
    (hfd : fds[fd]? = some (some (d ++ 0 :: t)))
    (h0 : (0 : UInt8) ∉ d) (hne : d ≠ []) (htl : tl ≤ ta.length) (hl : l ≤ a.length)
    (hs1 : s1.length = pm) (hs2 : s2.length = pm) (hs3 : s3.length = pm) (hs4 : s4.length = pm) :
    pathSymlink pm host fds ta tl fd a l s1 s2 s3 s4 = .val (
      if pm ≤ tl then ⟨Gen.WasiPath.errnoInval, []⟩ else
      match resolveSpec pm d (a.take l) with
      | some p =>
        let op := HostOp.symlink (cstr (ta.take tl)) p
        ⟨match host op with | .ok => Gen.WasiPath.errnoSuccess | .err e => wasiErrno e, [op]⟩
      | none => ⟨Gen.WasiPath.errnoInval, []⟩) := by
  have r2 := resolved_strcpy pm d t a l s2 s4 h0 hne hl hs2 hs4
  unfold pathSymlink
  simp only [hfd, Gen.WasiPath.symlinkTargetTooLong, Gen.WasiPath.symlinkTargetErrno, ge_iff_le, decide_eq_true_eq]
  by_cases hlong : pm ≤ tl
  · simp [hlong, Gen.WasiPath.errnoInval]
  · simp only [hlong, if_false]
    rw [memcpy_first s1 ta tl htl (by omega)]
    simp only [Out.bind_val]
    have hlt : (ta.take tl).length = tl := by simp [Nat.min_eq_left htl]
    rw [write_step' s1 (ta.take tl) 0 _ _ hlt.symm hlt.symm (by rw [hlt]; omega)]
    simp only [Out.bind_val]
    cases h2 : resolveSpec pm d (a.take l) with
    | none => rw [h2] at r2; simp only at r2; rw [r2]; rfl
    | some p =>
      rw [h2] at r2
      obtain ⟨b2, n2, e2, c2, k2⟩ := r2
      rw [e2]
      simp only [Out.bind_val]
      have hnul : (0 : UInt8) ∈ ta.take tl ++ [0] ++ s1.drop (ta.take tl ++ [0]).length := by simp
      have hc : cstr (ta.take tl ++ [0] ++ s1.drop (ta.take tl ++ [0]).length) = cstr (ta.take tl) := by
        rw [List.append_assoc]; exact cstr_append_nul _ _
      have hfit : (cstr (ta.take tl ++ [0] ++ s1.drop (ta.take tl ++ [0]).length)).length < s3.length := by
        rw [hc]; have := cstr_length_le (ta.take tl); omega
      rw [strcpy_ok s3 _ hnul hfit]
      simp only [Out.bind_val, c2, k2]
      rw [cstr_strcpy _ _ (cstr_nul_free _), hc]
      cases host (HostOp.symlink (cstr (ta.take tl)) p) <;> rfl

/-- **readlink_writes_only_buffer.**  path_readlink writes the first `min(|target|, bufferLength)` bytes of
    the link target at the buffer and the 4-byte length at `lengthPointer` — and NOTHING else: every other
    byte of guest memory is unchanged, in particular the byte just past the buffer when the target fills it
    exactly or is truncated (no terminator is stored in guest memory).  The regenerated list of stores of
    wasiPathReadlink (besides the host's readlink into the buffer) is exactly the store of the length. -/
theorem readlink_writes_only_buffer (target : Bytes) (mem : Mem) (bufPtr bufLen lenPtr : Nat)
    (hb : bufPtr + min target.length bufLen ≤ mem.length) (hl : lenPtr + 4 ≤ mem.length) :
    Gen.WasiPath.readlinkStores = ["length"] ∧
    (∃ mem', pathReadlinkMem (.inr target) mem bufPtr bufLen lenPtr = .val (0, mem') ∧ mem'.length = mem.length ∧
      ∀ k, ¬ (bufPtr ≤ k ∧ k < bufPtr + min target.length bufLen) → ¬ (lenPtr ≤ k ∧ k < lenPtr + 4) →
        mem'[k]? = mem[k]?) := by
  refine ⟨rfl, ?_⟩
  have htl : (target.take (min target.length bufLen)).length = min target.length bufLen := by
    simp only [List.length_take]; omega
  have h1 : bufPtr + (target.take (min target.length bufLen)).length ≤ mem.length := by rw [htl]; exact hb
  have hl1 := WasiProc.put_length mem bufPtr _ h1
  have h4 : (leBytes 4 (min target.length bufLen)).length = 4 := leBytes_length _ _
  have h2 : lenPtr + (leBytes 4 (min target.length bufLen)).length ≤
      (WasiProc.put mem bufPtr (target.take (min target.length bufLen))).length := by rw [h4, hl1]; exact hl
  refine ⟨WasiProc.put (WasiProc.put mem bufPtr (target.take (min target.length bufLen))) lenPtr
      (leBytes 4 (min target.length bufLen)), ?_, ?_, ?_⟩
  · unfold pathReadlinkMem
    simp only [Gen.WasiPath.readlinkTerminatesInGuest, i32Store]
    rw [WasiProc.storeBytes_put mem bufPtr _ h1]
    simp only [Out.bind_val, Bool.false_eq_true, if_false]
    rw [WasiProc.storeBytes_put _ lenPtr _ h2]
    rfl
  · rw [WasiProc.put_length _ _ _ h2, hl1]
  · intro k hk1 hk2
    rw [WasiProc.put_getElem? _ _ _ h2, WasiProc.put_getElem? _ _ _ h1, h4, htl]
    simp only [hk1, hk2, if_false]

/-- **path_embedded_nul_rejected** (regression of the former finding `path-embedded-nul-truncated`):
    `path_create_directory("a\0b")` performs NO host operation and returns EINVAL. -/
theorem path_embedded_nul_rejected :
    pathCall 32 (fun _ => .ok) [some [47, 100, 0]] .createDirectory 0 [97, 0, 98] 3
        (List.replicate 32 0xAA) (List.replicate 32 0xAA)
      = .val ⟨Gen.WasiPath.errnoInval, []⟩ := by
  decide

end W2c2Verif.C14
