/-
  Props.C14 — WASI path operations act on the resolved path; directory listings are complete.

  Part 1: `resolvePath` and the path calls (model: Model/WasiPath.lean, written statement by
  statement after wasi/wasi.c with the guards/characters regenerated into Gen/WasiPath.lean).
  Part 2 (fd_readdir) is in Props/C14Readdir.lean.

  `pm` is PATH_MAX; all theorems hold for every value of it.
-/
import W2c2Verif.Lemmas.WasiPath

namespace W2c2Verif.C14
open W2c2Verif W2c2Verif.WasiPath

/-- The generated constants the hand-written model relies on (a change in wasi.c that alters
    one of them regenerates Gen/WasiPath.lean and breaks this obligation). -/
theorem gen_assumptions_path :
    Gen.WasiPath.absChar = 47 ∧ Gen.WasiPath.sepTestChar = 47 ∧ Gen.WasiPath.sepChar = 47 ∧
    Gen.WasiPath.terminator = 0 ∧
    Gen.WasiPath.resolvePathMemcpys =
      ["result, path, pathLength", "result, directory, totalLength", "result + totalLength, path, pathLength"] ∧
    Gen.WasiPath.pathCalls.map (fun c => c.2.2) = [1, 1, 1, 2, 1, 1, 1] := by
  decide

/-- **resolvePath_spec.**  For a descriptor path `dir` (non-empty, NUL-free, NUL-terminated in
    its host object) and the guest path = the first `len` bytes at the guest pointer:
    `len = 0 ↦ false`; `path[0] = '/' ↦ (len < PATH_MAX → path)`; otherwise
    `(|dir| + len + 1 < PATH_MAX → dir ++ sep? ++ path)` with `sep? = "/"` iff `dir` does not end
    in `/` (this is `resolveSpec`).  On success the `PATH_MAX` buffer holds exactly that string
    followed by NUL; the remaining bytes of the buffer are untouched. -/
theorem resolvePath_spec (pm : Nat) (dir tl avail : Bytes) (len : Nat) (buf : Bytes)
    (hdir0 : (0 : UInt8) ∉ dir) (hdne : dir ≠ []) (hlen : len ≤ avail.length) (hbuf : buf.length = pm) :
    resolvePath pm (dir ++ 0 :: tl) avail len buf =
      .val ((resolveSpec pm dir (avail.take len)).map
              (fun s => (s ++ [0]) ++ buf.drop (s ++ [0]).length)) :=
  resolvePath_eq_spec pm dir tl avail len buf hdir0 hdne hlen hbuf

/-- `resolveSpec` spelled out as in the property text. -/
theorem resolveSpec_cases (pm : Nat) (dir path : Bytes) :
    (path = [] → resolveSpec pm dir path = none) ∧
    (path.head? = some 47 → resolveSpec pm dir path = if path.length < pm then some path else none) ∧
    (path ≠ [] → path.head? ≠ some 47 →
      resolveSpec pm dir path =
        if dir.length + path.length + 1 < pm then
          some (dir ++ (if dir.getLast? = some 47 then [] else [47]) ++ path) else none) := by
  refine ⟨?_, ?_, ?_⟩
  · intro h; subst h; simp [resolveSpec]
  · intro h
    have : path ≠ [] := by intro h0; subst h0; simp at h
    have hl : path.length ≠ 0 := by intro h0; exact this (List.eq_nil_of_length_eq_zero h0)
    simp [resolveSpec, hl, h]
  · intro hne h
    have hl : path.length ≠ 0 := by intro h0; exact hne (List.eq_nil_of_length_eq_zero h0)
    simp [resolveSpec, hl, h, sepOf]

/-- What a host call that is handed `result` sees (the bytes before the first NUL) is the
    specified string whenever the guest path contains no NUL byte. -/
theorem resolvePath_cstr (pm : Nat) (dir tl avail : Bytes) (len : Nat) (buf : Bytes)
    (hdir0 : (0 : UInt8) ∉ dir) (hdne : dir ≠ []) (hlen : len ≤ avail.length) (hbuf : buf.length = pm)
    (hp0 : (0 : UInt8) ∉ avail.take len) :
    ∃ r, resolvePath pm (dir ++ 0 :: tl) avail len buf = .val r ∧
      r.map cstr = resolveSpec pm dir (avail.take len) := by
  refine ⟨_, resolvePath_spec pm dir tl avail len buf hdir0 hdne hlen hbuf, ?_⟩
  cases hs : resolveSpec pm dir (avail.take len) with
  | none => simp
  | some s =>
    have hs0 : (0 : UInt8) ∉ s := by
      unfold resolveSpec at hs
      split at hs
      · simp at hs
      · split at hs
        · split at hs
          · simp at hs; subst hs; exact hp0
          · simp at hs
        · split at hs
          · simp at hs; subst hs
            intro h
            have h3 : (0 : UInt8) ∈ dir ∨ (0 : UInt8) ∈ sepOf dir ∨ (0 : UInt8) ∈ avail.take len := by
              simpa [List.mem_append, or_assoc] using h
            rcases h3 with h | h | h
            · exact hdir0 h
            · unfold sepOf at h; split at h <;> simp at h
            · exact hp0 h
          · simp at hs
    simp only [Option.map_some, Option.some.injEq]
    exact cstr_strcpy s _ hs0

/-- **resolvePath_in_bounds.**  For EVERY non-empty NUL-free descriptor path, every PATH_MAX,
    every guest memory tail `avail`, every length `len` that lies inside the guest memory and every
    initial content of the result buffer: the code has no undefined behaviour (no write at
    index ≥ PATH_MAX, no read before `directory[0]`, no read outside the guest memory); a
    successful result is NUL-terminated inside the buffer (string shorter than PATH_MAX); and the
    outcome does not depend on any guest byte after `path[len−1]` (they are never read: the
    model returns `.ub outOfBounds` for a read beyond `avail`, and the outcome is the same when
    the memory ENDS at `path[len−1]`). -/
theorem resolvePath_in_bounds (pm : Nat) (dir tl avail : Bytes) (len : Nat) (buf : Bytes)
    (hdir0 : (0 : UInt8) ∉ dir) (hdne : dir ≠ []) (hlen : len ≤ avail.length) (hbuf : buf.length = pm) :
    (∃ r, resolvePath pm (dir ++ 0 :: tl) avail len buf = .val r ∧
      ∀ b, r = some b → b.length = pm ∧ (cstr b).length < pm ∧ (0 : UInt8) ∈ b) ∧
    resolvePath pm (dir ++ 0 :: tl) avail len buf
      = resolvePath pm (dir ++ 0 :: tl) (avail.take len) len buf := by
  constructor
  · refine ⟨_, resolvePath_spec pm dir tl avail len buf hdir0 hdne hlen hbuf, ?_⟩
    intro b hb
    cases hs : resolveSpec pm dir (avail.take len) with
    | none => simp [hs] at hb
    | some s =>
      simp only [hs, Option.map_some, Option.some.injEq] at hb
      have htl : (avail.take len).length = len := by simp [Nat.min_eq_left hlen]
      have hslen : s.length < pm := by
        unfold resolveSpec at hs
        rw [htl] at hs
        split at hs
        · simp at hs
        · split at hs
          · split at hs
            · simp at hs; subst hs; rw [htl]; assumption
            · simp at hs
          · split at hs
            · simp at hs; subst hs
              simp only [List.length_append, htl]
              have : (sepOf dir).length ≤ 1 := by unfold sepOf; split <;> simp
              omega
            · simp at hs
      subst hb
      refine ⟨?_, ?_, ?_⟩
      · simp; omega
      · have : cstr (s ++ [0] ++ buf.drop (s ++ [0]).length) = cstr s := by
          rw [List.append_assoc]; exact cstr_append_nul s _
        rw [this]
        exact Nat.lt_of_le_of_lt (cstr_length_le s) hslen
      · simp
  · rw [resolvePath_spec pm dir tl avail len buf hdir0 hdne hlen hbuf,
      resolvePath_spec pm dir tl (avail.take len) len buf hdir0 hdne (by simp [Nat.min_eq_left hlen]) hbuf]
    simp [List.take_take]

/-- the hypotheses of the two theorems are satisfiable, and both separator cases occur
    (`/tmp` = 47 116 109 112, `a/b` = 97 47 98) -/
example : resolvePath 16 [47, 116, 109, 112, 0] [97, 47, 98] 3 (List.replicate 16 0xAA)
    = .val (some ([47, 116, 109, 112, 47, 97, 47, 98, 0] ++ List.replicate 7 0xAA)) := by decide
example : resolvePath 16 [47, 116, 109, 112, 47, 0] [97, 47, 98] 3 (List.replicate 16 0xAA)
    = .val (some ([47, 116, 109, 112, 47, 97, 47, 98, 0] ++ List.replicate 7 0xAA)) := by decide
/-- absolute guest path: used as is -/
example : resolvePath 16 [47, 116, 109, 112, 0] [47, 98] 2 (List.replicate 16 0xAA)
    = .val (some ([47, 98, 0] ++ List.replicate 13 0xAA)) := by decide
/-- the length guard is tight: 4 + 10 + 1 = 15 < 16 succeeds and fills the buffer to its last byte,
    one more byte is rejected -/
example : resolvePath 16 [47, 116, 109, 112, 0] (List.replicate 10 97) 10 (List.replicate 16 0xAA)
    = .val (some ([47, 116, 109, 112, 47] ++ List.replicate 10 97 ++ [0])) := by decide
example : resolvePath 16 [47, 116, 109, 112, 0] (List.replicate 11 97) 11 (List.replicate 16 0xAA)
    = .val none := by decide
/-- `dir ≠ []` is necessary: an empty descriptor path makes the code read `directory[-1]`
    (wasiFileDescriptorsAdd rejects empty paths, so no descriptor has one) -/
example : resolvePath 16 [0] [97] 1 (List.replicate 16 0) = .ub .outOfBounds := by decide
/-- a guest length reaching past the end of the guest memory is an over-read of the memory object
    (the path calls do not compare `pathPointer + pathLength` with the memory size) -/
example : resolvePath 16 [47, 116, 109, 112, 0] [97, 98] 3 (List.replicate 16 0) = .ub .outOfBounds := by
  decide

/-! ### the path calls -/

/-- **path_op_acts_on_resolved** (create_directory, remove_directory, unlink_file, readlink,
    filestat_get).  With a descriptor whose path is `dir`: the call performs no host operation
    and returns EINVAL when `resolvePath` rejects; otherwise it performs exactly ONE host
    operation, the one belonging to the call, on exactly the resolved string (up to its first
    NUL), and returns 0 or the `wasiErrno` translation of the host's errno.  No undefined
    behaviour for any guest input (the `strcpy` into the second `char[PATH_MAX]` fits). -/
theorem path_op_acts_on_resolved (pm : Nat) (host : HostOp → HostRes) (fds : FdTable) (call : PathCall)
    (fd : Nat) (dir tl avail : Bytes) (len : Nat) (s1 s2 : Bytes)
    (hfd : fds[fd]? = some (some (dir ++ 0 :: tl)))
    (hdir0 : (0 : UInt8) ∉ dir) (hdne : dir ≠ []) (hlen : len ≤ avail.length)
    (hs1 : s1.length = pm) (hs2 : s2.length = pm) :
    pathCall pm host fds call fd avail len s1 s2 = .val (
      match resolveSpec pm dir (avail.take len) with
      | none => ⟨Gen.WasiPath.errnoInval, []⟩
      | some p =>
        let op := call.hostOp (cstr p)
        ⟨match host op with | .ok => Gen.WasiPath.errnoSuccess | .err e => wasiErrno e, [op]⟩) := by
  obtain ⟨⟨r, hr, hb⟩, _⟩ := resolvePath_in_bounds pm dir tl avail len s1 hdir0 hdne hlen hs1
  have hspec := resolvePath_spec pm dir tl avail len s1 hdir0 hdne hlen hs1
  unfold pathCall prologue
  simp only [hfd]
  rw [hspec]
  cases hs : resolveSpec pm dir (avail.take len) with
  | none => simp
  | some s =>
    simp only [Option.map_some, Out.bind_val]
    have hrs : r = some (s ++ [0] ++ s1.drop (s ++ [0]).length) := by
      rw [hspec, hs] at hr
      simp only [Option.map_some, Out.val.injEq] at hr
      exact hr.symm
    obtain ⟨_, hclen, hnul⟩ := hb _ hrs
    rw [strcpy_ok s2 _ hnul (by omega)]
    simp only [Out.bind_val]
    have hc : cstr (s ++ [0] ++ s1.drop (s ++ [0]).length) = cstr s := by
      rw [List.append_assoc]; exact cstr_append_nul s _
    rw [cstr_strcpy _ _ (cstr_nul_free _), hc]
    cases host (call.hostOp (cstr s)) <;> rfl

/-- a bad descriptor (out of range, or one without a path such as stdin/stdout/stderr) is
    rejected with EBADF before anything else happens -/
theorem path_op_badf (pm : Nat) (host : HostOp → HostRes) (fds : FdTable) (call : PathCall)
    (fd : Nat) (avail : Bytes) (len : Nat) (s1 s2 : Bytes)
    (hfd : fds[fd]? = none ∨ fds[fd]? = some none) :
    pathCall pm host fds call fd avail len s1 s2 = .val ⟨Gen.WasiPath.errnoBadf, []⟩ := by
  unfold pathCall prologue
  rcases hfd with h | h <;> simp [h]

/-- each call's host operation is the one the property names -/
theorem path_op_kinds (p : Bytes) (n : Nat) :
    PathCall.createDirectory.hostOp p = .mkdir p 0o755 ∧
    PathCall.removeDirectory.hostOp p = .rmdir p ∧
    PathCall.unlinkFile.hostOp p = .unlink p ∧
    (PathCall.readlink n).hostOp p = .readlink p n ∧
    PathCall.filestatGet.hostOp p = .stat p := by
  refine ⟨rfl, rfl, rfl, rfl, rfl⟩

end W2c2Verif.C14
