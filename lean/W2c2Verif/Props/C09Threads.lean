/-
  Props.C09Threads — the worker threads of the translator share no mutable static state (C09: "repeated runs with any
  thread count produce byte-identical files").

  `Model.Pool` (Props/C09Pool) treats one execution of `wasmCWriteImplementationFile` as a step `w9` that depends on the
  worker's LOCAL copies of the task fields only.  That is justified when the code run in that step communicates with
  the other threads through nothing but its arguments (read-only module, its own FILE) — in particular through no
  object with static storage duration.  `Gen.Threads` is regenerated on every run from all translation units as the
  real preprocessor sees them (tools/extract/gen_threads.py → srcscan.py): every non-const object with static storage
  duration (file scope and `static` locals), every mention of one of them inside the CONCURRENT REGION (= functions
  reachable, through calls or address-taken functions, from the worker entry and from the producer loop), classified
  read / write / addr, the statics written anywhere at run time, and the external functions the region calls.

  * `workers_share_no_mutable_static_state` — finite-table theorem: inside the concurrent region no mutable static is
    written or has its address taken, and the ones that are read are written nowhere in the program;
  * `worker_library_calls_mt_safe`          — finite-table theorem: every external function called from the region is
    MT-safe per POSIX / the glibc manual, or lies on a path that ends the process with a diagnostic;
  * `write_free_threads_schedule_independent` — for ANY number of threads and ANY interleaving of their accesses to
    the statics: if no thread writes, the environment never changes and each thread computes what it computes alone;
  * `workers_schedule_independent`          — the two combined: programs whose writes lie within the regenerated
    `workerWrites` (= []) are schedule independent.
  The run-time counterpart is the ThreadSanitizer run of the real w2c2 (tools/harness/tsan_w2c2.py, part of C09).
-/
import W2c2Verif.Gen.Threads

namespace W2c2Verif.Props.C09
open W2c2Verif.Gen.Threads

/-! ## the regenerated tables -/

/-- statics written (assigned, incremented, address taken, array handed out) inside the concurrent region -/
def workerWrites : List String := (workerAccesses.filter (fun a => a.kind != "read")).map (·.obj)

/-- **Workers share no mutable static state**: every access to a non-const static from the concurrent region is a
    read, and of an object that no function of the translator ever writes (so it is constant after static
    initialisation although not declared `const`, e.g. `static const char* wasmImportNameSeparator`). -/
theorem workers_share_no_mutable_static_state :
    workerWrites = [] ∧
    ∀ a, a ∈ workerAccesses → a.kind = "read" ∧ (a.obj, a.objFunc) ∉ writtenAnywhere := by
  decide

/-- MT-Safe in the glibc manual / required thread-safe by POSIX.1-2008 2.9.1 (stdio functions lock the FILE;
    `sprintf` reads the locale, which the translator never changes: Props/C07Env `no_locale_change`) -/
def mtSafe : List String :=
  ["calloc", "malloc", "realloc", "free", "memcpy", "memmove", "memset", "memcmp", "strlen", "strcmp", "strncmp", "strncpy", "strcpy",
   "strchr", "strrchr", "fopen", "fclose", "fprintf", "fputc", "fputs", "fwrite", "fflush", "sprintf", "snprintf",
   "pthread_create", "pthread_join", "pthread_mutex_init", "pthread_mutex_destroy", "pthread_mutex_lock", "pthread_mutex_unlock",
   "pthread_cond_init", "pthread_cond_destroy", "pthread_cond_wait", "pthread_cond_signal", "pthread_cond_broadcast",
   "__errno_location", "__ctype_b_loc"]

/-- called only where the run ends with a diagnostic and a non-zero status (fopen/fclose failure, failed assertion) -/
def failurePathOnly : List String := ["strerror", "exit", "abort", "__assert_fail"]

theorem worker_library_calls_mt_safe : ∀ f, f ∈ workerExternCalls → f ∈ mtSafe ∨ f ∈ failurePathOnly := by
  decide

/-! ## write-free threads are schedule independent -/

/-- values of the objects with static storage duration -/
abbrev Env := String → Nat

/-- a thread, as far as the statics are concerned: it reads them, writes them, and finally returns its result
    (everything else it does — locals, its own heap blocks, its own file — is inside the continuations) -/
inductive Prog (α : Type) where
  | ret : α → Prog α
  | rd : String → (Nat → Prog α) → Prog α
  | wr : String → Nat → Prog α → Prog α

def upd (env : Env) (x : String) (v : Nat) : Env := fun y => if y = x then v else env y

/-- the thread run alone -/
def Prog.result {α : Type} (env : Env) : Prog α → α
  | .ret a => a
  | .rd x k => (k (env x)).result env
  | .wr x v p => p.result (upd env x v)

inductive WritesWithin {α : Type} (W : List String) : Prog α → Prop
  | ret (a : α) : WritesWithin W (.ret a)
  | rd (x : String) (k : Nat → Prog α) : (∀ v, WritesWithin W (k v)) → WritesWithin W (.rd x k)
  | wr (x : String) (v : Nat) (p : Prog α) : x ∈ W → WritesWithin W p → WritesWithin W (.wr x v p)

/-- shared environment + the remaining program of every thread -/
structure St (α : Type) where
  env : Env
  ths : List (Prog α)

/-- one access of one thread (the scheduler picks `i`) -/
inductive Step {α : Type} : St α → St α → Prop
  | rd (s : St α) (i : Nat) (x : String) (k : Nat → Prog α) (h : s.ths[i]? = some (.rd x k)) :
      Step s ⟨s.env, s.ths.set i (k (s.env x))⟩
  | wr (s : St α) (i : Nat) (x : String) (v : Nat) (p : Prog α) (h : s.ths[i]? = some (.wr x v p)) :
      Step s ⟨upd s.env x v, s.ths.set i p⟩

inductive Steps {α : Type} : St α → St α → Prop
  | refl (s : St α) : Steps s s
  | tail {s t u : St α} : Steps s t → Step t u → Steps s u

/-- invariant carried along every schedule -/
private def Inv {α : Type} (s0 s : St α) : Prop :=
  s.env = s0.env ∧ s.ths.length = s0.ths.length ∧
  ∀ (i : Nat) (p0 p : Prog α), s0.ths[i]? = some p0 → s.ths[i]? = some p → p.result s0.env = p0.result s0.env ∧ WritesWithin [] p

private theorem inv_step {α : Type} {s0 t u : St α} (hI : Inv s0 t) (hs : Step t u) : Inv s0 u := by
  obtain ⟨henv, hlen, hth⟩ := hI
  cases hs with
  | rd i x k h =>
    refine ⟨henv, by simpa using hlen, ?_⟩
    intro j p0 p hp0 hp
    by_cases hji : i = j
    · subst hji
      have hlt : i < t.ths.length := by
        rcases Nat.lt_or_ge i t.ths.length with hl | hl
        · exact hl
        · simp [List.getElem?_eq_none hl] at h
      simp only [List.getElem?_set_self hlt, Option.some.injEq] at hp
      obtain ⟨hres, hw⟩ := hth i p0 _ hp0 h
      subst hp
      refine ⟨?_, ?_⟩
      · rw [← hres, henv]; rfl
      · cases hw with
        | rd _ _ hk => exact hk _
    · rw [List.getElem?_set_ne hji] at hp
      exact hth j p0 p hp0 hp
  | wr i x v p' h =>
    -- impossible: thread i would have to be a writer
    exfalso
    have hlt : i < s0.ths.length := by
      rcases Nat.lt_or_ge i t.ths.length with hl | hl
      · omega
      · simp [List.getElem?_eq_none hl] at h
    obtain ⟨_, hw⟩ := hth i (s0.ths[i]) _ (List.getElem?_eq_getElem hlt) h
    cases hw with
    | wr _ _ _ hx _ => simp at hx

/-- **Write-free threads are schedule independent.**  From a state in which no thread contains a write, along ANY
    interleaving of the threads' accesses (any number of threads, any scheduler): the statics keep their values, and
    whatever remains of thread `i` still computes, run alone on the initial statics, exactly what thread `i` computes
    alone — so when all threads have returned, each returned the result of its solo run. -/
theorem write_free_threads_schedule_independent {α : Type} (s0 s : St α)
    (h0 : ∀ p, p ∈ s0.ths → WritesWithin [] p) (hs : Steps s0 s) :
    s.env = s0.env ∧ s.ths.length = s0.ths.length ∧
    ∀ (i : Nat) (p0 p : Prog α), s0.ths[i]? = some p0 → s.ths[i]? = some p → p.result s0.env = p0.result s0.env := by
  have hI : Inv s0 s := by
    induction hs with
    | refl =>
      refine ⟨rfl, rfl, ?_⟩
      intro i p0 p hp0 hp
      rw [hp0] at hp
      cases hp
      exact ⟨rfl, h0 p0 (List.mem_of_getElem? hp0)⟩
    | tail _ hstep ih => exact inv_step ih hstep
  exact ⟨hI.1, hI.2.1, fun i p0 p a b => (hI.2.2 i p0 p a b).1⟩

/-- The translator's workers: their writes to statics lie within the regenerated `workerWrites`, which is empty. -/
theorem workers_schedule_independent {α : Type} (s0 s : St α)
    (h0 : ∀ p, p ∈ s0.ths → WritesWithin workerWrites p) (hs : Steps s0 s) :
    s.env = s0.env ∧ ∀ (i : Nat) (p0 : Prog α) (a : α), s0.ths[i]? = some p0 → s.ths[i]? = some (Prog.ret a) → a = p0.result s0.env := by
  rw [workers_share_no_mutable_static_state.1] at h0
  obtain ⟨he, _, hr⟩ := write_free_threads_schedule_independent s0 s h0 hs
  exact ⟨he, fun i p0 a hp0 hp => hr i p0 _ hp0 hp⟩

/-- not vacuous, and the hypothesis matters: two threads sharing a static scratch cell (the shape of seeded change
    C09/5: write the digits, read them back) return each other's value under the schedule w0 w1 r0 r1. -/
example :
    Steps (α := Nat) ⟨fun _ => 0, [.wr "buffer" 1 (.rd "buffer" .ret), .wr "buffer" 2 (.rd "buffer" .ret)]⟩
      ⟨upd (upd (fun _ => 0) "buffer" 1) "buffer" 2, [.ret 2, .ret 2]⟩ ∧
    (Prog.wr "buffer" 1 (.rd "buffer" .ret) : Prog Nat).result (fun _ => 0) = 1 := by
  refine ⟨?_, rfl⟩
  exact Steps.tail (Steps.tail (Steps.tail (Steps.tail (Steps.refl _) (Step.wr _ 0 "buffer" 1 _ rfl))
    (Step.wr _ 1 "buffer" 2 _ rfl)) (Step.rd _ 0 "buffer" _ rfl)) (Step.rd _ 1 "buffer" _ rfl)

end W2c2Verif.Props.C09
