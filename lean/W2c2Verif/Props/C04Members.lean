/-
  C04 / C11, "imported globals, memories and tables resolve to the designated host object; the generated C compiles": the members of
  the instance struct for the imports of one kind are the C symbols of the imported OBJECTS, each exactly once — also when a module
  imports the same object several times (every import ENTRY owns an index; all entries with one (module, field) are one host object
  and one C symbol).  Over the REGENERATED member writers (`Gen.Members`) and the REGENERATED mangling rule (`Gen.Mangle`):

  * `*_members_cover`: every import entry's C symbol is a declared member (its uses `i-><symbol>` and its InitImports assignment compile);
  * `*_members_sound`: every declared member is the C symbol of some import entry;
  * `*_members_nodup`: no member is declared twice, PROVIDED the module names satisfy `ModOK` (no underscore at the module/field
    boundary: the OPEN finding `mangle_underscore_boundary_counterexample` — two DIFFERENT imports with one C symbol — is exactly what
    this hypothesis excludes; equal symbols ACROSS kinds are not excluded either: the three lists are separate).
  With one member per import ENTRY (w2c2 before 994dbb2: `Skip.never`) `*_members_nodup` is false for [env.g, env.g]
  (`duplicate member` — the generated header does not compile) and no longer builds.
  Tied to the real output: tools/corpus/C04|C11/duplicate-{global,memory,table}-import.json compile, run and agree with V8 (one host
  cell per C symbol; a mutable global written through one index is read through the others).
-/
import W2c2Verif.Model.Members
import W2c2Verif.Props.C04Mangle

namespace W2c2Verif.Props.C04Members
open W2c2Verif Gen.Members Model.Members Model.Mangle

abbrev both : Skip := .earlierSame [.module, .name]

theorem skipped_both (earlier : List Imp) (e : Imp) : skipped both earlier e = true ↔ e ∈ earlier := by
  simp only [skipped, List.any_eq_true, List.all_cons, List.all_nil, agree, Bool.and_true, Bool.and_eq_true, beq_iff_eq]
  constructor
  · rintro ⟨p, hp, h1, h2⟩
    have : p = e := Prod.ext h1 h2
    exact this ▸ hp
  · intro h
    exact ⟨e, h, rfl, rfl⟩

theorem go_sound (earlier rest : List Imp) (x : List Nat) (hx : x ∈ go both earlier rest) :
    ∃ e ∈ rest, x = mangleL e.1 e.2 ∧ e ∉ earlier := by
  induction rest generalizing earlier with
  | nil => simp [go] at hx
  | cons e r ih =>
    simp only [go, List.mem_append] at hx
    rcases hx with hx | hx
    · by_cases hs : skipped both earlier e = true
      · simp [hs] at hx
      · simp only [hs, Bool.false_eq_true, ↓reduceIte, List.mem_singleton] at hx
        exact ⟨e, by simp, hx, fun h => hs ((skipped_both earlier e).2 h)⟩
    · obtain ⟨e', he', hx', hn⟩ := ih (earlier ++ [e]) hx
      exact ⟨e', by simp [he'], hx', fun h => hn (by simp [h])⟩

theorem go_cover (earlier rest : List Imp) (e : Imp) (he : e ∈ rest) :
    mangleL e.1 e.2 ∈ go both earlier rest ∨ e ∈ earlier := by
  induction rest generalizing earlier with
  | nil => simp at he
  | cons a r ih =>
    have first : ∀ earlier : List Imp, mangleL a.1 a.2 ∈ go both earlier (a :: r) ∨ a ∈ earlier := by
      intro earlier
      by_cases hs : skipped both earlier a = true
      · exact Or.inr ((skipped_both earlier a).1 hs)
      · left
        simp [go, hs]
    simp only [List.mem_cons] at he
    rcases he with rfl | he
    · exact first earlier
    · rcases ih (earlier ++ [a]) he with h | h
      · left
        simp only [go, List.mem_append]
        exact Or.inr h
      · simp only [List.mem_append, List.mem_singleton] at h
        rcases h with h | rfl
        · exact Or.inr h
        · exact first earlier

theorem go_nodup (earlier rest : List Imp) (hok : ∀ e ∈ rest, ModOK e.1) : (go both earlier rest).Nodup := by
  induction rest generalizing earlier with
  | nil => simp [go]
  | cons a r ih =>
    have hr := ih (earlier ++ [a]) (fun e he => hok e (by simp [he]))
    by_cases hs : skipped both earlier a = true
    · simpa [go, hs] using hr
    · simp only [go, hs, Bool.false_eq_true, ↓reduceIte, List.singleton_append, List.nodup_cons]
      refine ⟨fun hin => ?_, hr⟩
      obtain ⟨e', he', hx, hn⟩ := go_sound (earlier ++ [a]) r _ hin
      have := Props.C04Mangle.mangle_injective a.1 a.2 e'.1 e'.2 (hok a (by simp)) (hok e' (by simp [he'])) hx
      exact hn (by simp [Prod.ext this.1 this.2])

/-! ### the three member lists, over the regenerated skip rules -/

theorem members_cover_of (s : Skip) (hs : s = both) (imports : List Imp) (e : Imp) (he : e ∈ imports) :
    mangleL e.1 e.2 ∈ members s imports := by
  subst hs
  rcases go_cover [] imports e he with h | h
  · exact h
  · simp at h

theorem members_sound_of (s : Skip) (hs : s = both) (imports : List Imp) (x : List Nat) (hx : x ∈ members s imports) :
    ∃ e ∈ imports, x = mangleL e.1 e.2 := by
  subst hs
  obtain ⟨e, he, h, _⟩ := go_sound [] imports x hx
  exact ⟨e, he, h⟩

theorem members_nodup_of (s : Skip) (hs : s = both) (imports : List Imp) (hok : ∀ e ∈ imports, ModOK e.1) :
    (members s imports).Nodup := by
  subst hs
  exact go_nodup [] imports hok

theorem global_members_cover (imports : List Imp) (e : Imp) (he : e ∈ imports) : mangleL e.1 e.2 ∈ members globalSkip imports :=
  members_cover_of globalSkip (by decide) imports e he
theorem global_members_sound (imports : List Imp) (x : List Nat) (hx : x ∈ members globalSkip imports) : ∃ e ∈ imports, x = mangleL e.1 e.2 :=
  members_sound_of globalSkip (by decide) imports x hx
theorem global_members_nodup (imports : List Imp) (hok : ∀ e ∈ imports, ModOK e.1) : (members globalSkip imports).Nodup :=
  members_nodup_of globalSkip (by decide) imports hok

theorem memory_members_cover (imports : List Imp) (e : Imp) (he : e ∈ imports) : mangleL e.1 e.2 ∈ members memorySkip imports :=
  members_cover_of memorySkip (by decide) imports e he
theorem memory_members_sound (imports : List Imp) (x : List Nat) (hx : x ∈ members memorySkip imports) : ∃ e ∈ imports, x = mangleL e.1 e.2 :=
  members_sound_of memorySkip (by decide) imports x hx
theorem memory_members_nodup (imports : List Imp) (hok : ∀ e ∈ imports, ModOK e.1) : (members memorySkip imports).Nodup :=
  members_nodup_of memorySkip (by decide) imports hok

theorem table_members_cover (imports : List Imp) (e : Imp) (he : e ∈ imports) : mangleL e.1 e.2 ∈ members tableSkip imports :=
  members_cover_of tableSkip (by decide) imports e he
theorem table_members_sound (imports : List Imp) (x : List Nat) (hx : x ∈ members tableSkip imports) : ∃ e ∈ imports, x = mangleL e.1 e.2 :=
  members_sound_of tableSkip (by decide) imports x hx
theorem table_members_nodup (imports : List Imp) (hok : ∀ e ∈ imports, ModOK e.1) : (members tableSkip imports).Nodup :=
  members_nodup_of tableSkip (by decide) imports hok

/-! ### non-vacuity -/

/-- [env.g, env.g, host.g, env.g]: two members, `env__g` and `host__g` -/
example : members globalSkip [([101, 110, 118], [103]), ([101, 110, 118], [103]), ([104, 111, 115, 116], [103]), ([101, 110, 118], [103])]
    = [[101, 110, 118, 95, 95, 103], [104, 111, 115, 116, 95, 95, 103]] := by decide

/-- one member per import ENTRY declares `env__g` twice -/
example : ¬ (members .never [([101, 110, 118], [103]), ([101, 110, 118], [103])]).Nodup := by decide

/-- the hypothesis on the module names is needed: the open finding gives two DIFFERENT imports one member name -/
example : ¬ (members both [([97, 95], [98]), ([97], [95, 98])]).Nodup := by decide

end W2c2Verif.Props.C04Members
