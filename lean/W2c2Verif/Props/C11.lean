/-
  Props.C11 — the generated C is well defined.

  Compiles:
  * `decls_cover_uses`: for every function the translator model accepts, every slot variable
    `s<t><k>` mentioned anywhere in the emitted body — as a destination, an operand, a call argument, the
    value copied by a branch — and the `return s<t>0;` operand is among the variables the function
    declares.  (False on the pinned tree: the result slot of a dead-ended block was never declared;
    found by the C11 compile matrix, repaired by 4e40ddf, now proved.)
  * `labels_well_formed`: the labels `L<n>:` the body defines are pairwise distinct, none of them is the
    function's own `L0`, and every `goto` targets `L0` or a label defined in the body.
  Never undefined:
  * `Props/C11Ops.lean` (imported): for every numeric opcode whose evaluation C01Ops/C02Ops determine
    (120 of 136) the emitted statement evaluates, in the UB-tracking C semantics and for ALL operand
    values, to a value or the specified trap — never to signed overflow, an oversized shift, a division
    overflow or a builtin outside its domain.  The 16 float-to-int truncations are listed in
    `pendingOpcodes` (their guards are proved to reject NaN; exactness of the range guard is tested at
    every boundary neighbour under UBSan, not yet proved).
  * loads and stores: `Props/C05` shows the regenerated `memcpy`-based bodies evaluate without UB for
    every in-bounds address of any alignment.
  Same result with every compiler / -O level: a consequence of the absence of UB plus the
  implementation-defined choices fixed in `CSem` (two's complement conversion, arithmetic `>>`); the
  compile matrix gcc/clang × -O0..-O3 × gnu89/default × sanitizers checks it on every run.
-/
import W2c2Verif.Lemmas.SimLabels
import W2c2Verif.Lemmas.SimFunc
import W2c2Verif.Props.C11Ops

namespace W2c2Verif.Props.C11
open W2c2Verif Model Gen Spec Sim

theorem declCover_s0 (result : Option VT) : DeclCover (s0Func result) := by
  intro k h; simp [s0Func] at h

theorem decls_cover_uses (ctx : Ctx) (params locals : List VT) (result : Option VT) (body : List EInstr) (cf : Model.CFunc)
    (hc : compileFunc ctx params locals result body = .ok cf) :
    (∀ sl ∈ slotsSeq cf.body, sl ∈ cf.decls) ∧
    (cf.returnsSlot = true → ∃ rt, cf.result = some rt ∧ (⟨rt, 0⟩ : Slot) ∈ cf.decls) := by
  unfold compileFunc at hc
  simp only [bind, Except.bind] at hc
  split at hc
  · cases hc
  · rename_i res hcb
    obtain ⟨s1, out, dead⟩ := res
    simp only [] at hc
    split at hc
    · cases hc
    · have hD := seq_decls _ body (s0Func result) s1 out dead hcb (wf_s0Func result) (declCover_s0 result)
      cases result with
      | none =>
        simp only [] at hc; injection hc with hc; subst hc
        exact ⟨hD.uses, fun h => by cases h⟩
      | some rt =>
        simp only [] at hc
        split at hc
        · injection hc with hc; subst hc
          exact ⟨fun sl hsl => mem_declare_of_mem _ (hD.uses sl hsl), fun _ => ⟨rt, rfl, mem_declare_self _ _⟩⟩
        · injection hc with hc; subst hc
          exact ⟨hD.uses, fun h => by cases h⟩

theorem labels_well_formed (ctx : Ctx) (params locals : List VT) (result : Option VT) (body : List EInstr) (cf : Model.CFunc)
    (hc : compileFunc ctx params locals result body = .ok cf) :
    (labelsSeq cf.body).Nodup ∧ (0 ∉ labelsSeq cf.body) ∧ (∀ L ∈ gotosSeq cf.body, L = 0 ∨ L ∈ labelsSeq cf.body) := by
  unfold compileFunc at hc
  simp only [bind, Except.bind] at hc
  split at hc
  · cases hc
  · rename_i res hcb
    obtain ⟨s1, out, dead⟩ := res
    simp only [] at hc
    split at hc
    · cases hc
    · have hL := seq_labels _ body (s0Func result) s1 out dead hcb (wf_s0Func result)
      have hbody : cf.body = out := by
        cases result with
        | none => simp only [] at hc; injection hc with hc; subst hc; rfl
        | some rt => simp only [] at hc; split at hc <;> (injection hc with hc; subst hc; rfl)
      rw [hbody]
      refine ⟨hL.nodup, fun h0 => ?_, fun L hL' => ?_⟩
      · have := (hL.fresh 0 h0).1; simp [s0Func] at this
      · rcases hL.target L hL' with ⟨lab, hm, rfl⟩ | h
        · simp [s0Func] at hm; subst hm; exact Or.inl rfl
        · exact Or.inr h

/-! non-vacuity: the function that exposed the defect (`f32.const 1 (block (result f32) unreachable) f32.add`) -/
def deadBlockBody : List EInstr := [.const .f32 0x3f800000, .block (some .f32) [.unreachable], .numeric "wasmOpcodeF32Add"]

example : ∃ cf, compileFunc {} [] [] (some .f32) deadBlockBody = .ok cf ∧ (⟨.f32, 1⟩ : Slot) ∈ cf.decls := by
  refine ⟨_, rfl, ?_⟩
  decide

end W2c2Verif.Props.C11
