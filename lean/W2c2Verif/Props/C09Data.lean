/-
  C09 (data-segment embedding mode, `-d arrays | gnu-ld | sectcreate1 | sectcreate2`) — the emitted `<module>InitMemories` and the
  data it reads differ between the modes (arrays `d<k>` vs offsets into the `datasegments` blob); what instantiation does with them
  does not.  Everything is over `Gen.InitMem`, regenerated from c.c on every run (see Props/C06Init.lean, Model/InitMem.lean).
-/
import W2c2Verif.Props.C06Init

namespace W2c2Verif.Props.C09Data
open W2c2Verif Model Model.Inst Model.InitMem

/-- the state `Instantiate` hands to the start function is the same in every data segment mode -/
theorem instantiate_data_mode_independent (m1 m2 : Mode) (d : ModDesc) (r : Resolver) (w : World) :
    initAllE m1 d r w = initAllE m2 d r w := by
  rw [initAllE_eq, initAllE_eq]

/-- … because the emitted InitMemories of any two modes do the same to a fresh instance -/
theorem initmemories_data_mode_independent (m1 m2 : Mode) (d : ModDesc) (s : St) (hs : s.2.mems = []) :
    initMemoriesE m1 d s = initMemoriesE m2 d s := by
  rw [initMemoriesE_eq m1 d s hs, initMemoriesE_eq m2 d s hs]

/-- what `memory.init` reads through `d<k>` is the same in every mode: the k-th array (arrays mode) and the bytes at the pointer
    InitMemories stores in `d<k>` (external modes: `ds + Σ` of the lengths of ALL earlier segments) are both segment k's bytes -/
theorem segment_bytes_mode_independent (m1 m2 : Mode) (d : ModDesc) (pre : List DataSeg) (seg : DataSeg) (post : List DataSeg)
    (hd : d.datas = pre ++ seg :: post) :
    ptrTarget (sourcesOf m1 d) (bytesLen pre) seg.bytes.length = ((sourcesOf m2 d).arrays[pre.length]?).join := by
  rw [(C06Init.segment_pointer_is_segment m1 d pre seg post hd).1, (C06Init.segment_pointer_is_segment m2 d pre seg post hd).2.1]

end W2c2Verif.Props.C09Data
