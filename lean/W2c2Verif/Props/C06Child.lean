/-
  C06, further instances derived from a live one — `<module>NewChild(self)` (emitted by `wasmCWriteNewChildFunction`, reached
  through `common.newChild`; the WASI thread-spawn implementation uses it): "mutable state persists across calls within an
  instance, two instances of one module share no defined state" must also hold between a parent and the children made from it.

  Model: `Model.NewChild` — the calloc'd child and the Init* calls of `Gen.newChildSteps`, each applied to the instance that
  `Gen.newChildTarget` names and (InitMemories) with the parent `Gen.newChildMemParent` names; all three are regenerated from
  c.c on every run together with the argument lists of `wasmCWriteInstantiateFunction` (every call on `i`, parent NULL).

  * `newChild_runs_on_child`: NewChild = InitImports, InitMemories (iff the module defines a memory), InitTables, InitGlobals on the
    CHILD, in this order, then the start function on the child (iff the module has one), nothing after it.
  * `newChild_parent_unchanged`: the instance struct of the parent (its defined globals, its pointers) comes back exactly as it was.
  * `newChild_unshared_is_instantiate`: for a module without shared defined memory whose data segments (if any) go with a defined
    memory, NewChild IS `<module>Instantiate` of a new struct in the current world with the parent's resolver — hence
    (`newChild_child_initialised`) the child is in the specified initial state of Props/C06 (`Initialised`: defined globals = values of
    their initialisers incl. imported globals, fresh zeroed memories/tables with the segments applied, imports bound by the resolver),
    its own memories and tables are new objects (`child_objects_fresh`: no object the parent can name), and `instances_disjoint`
    applies to parent and child.
  * sharing as the code does it: a SHARED defined memory of the child is the parent's object (`allocOrShare`), and the data segments
    are applied to it again; a module that only IMPORTS its memory gets no InitMemories call in NewChild, so its data segments are
    not applied again (differs from a first instantiation; the examples below pin both).  Tied to the real output by the
    `child-state` correspondence of tools/checks/c06.py (pointer identity, memory image, globals, table of parent and child).
-/
import W2c2Verif.Lemmas.NewChild
import W2c2Verif.Props.C06

namespace W2c2Verif.Props.C06Child
open W2c2Verif Model Model.Inst Spec.Inst

theorem newChild_runs_on_child (d : ModDesc) (r : Resolver) (start : St → Out St) (w : World) (self : Instance) :
    newChild d r start w self =
      ((childInit d r w self >>= fun s => if d.hasStart then start s else .val s) >>= fun s =>
        .val { w := s.1, self := self, child := s.2 }) :=
  newChild_eq d r start w self

/-- creating a child leaves the parent's struct — all its defined globals — as it was, whatever the start function does to the child -/
theorem newChild_parent_unchanged (d : ModDesc) (r : Resolver) (start : St → Out St) (w : World) (self : Instance) (x : Fam)
    (h : newChild d r start w self = .val x) : x.self = self := by
  rw [newChild_eq] at h
  cases hc : (childInit d r w self >>= fun s => if d.hasStart then start s else .val s) with
  | val s => rw [hc] at h; simp at h; rw [← h]
  | trap t => rw [hc] at h; simp at h
  | ub k => rw [hc] at h; simp at h
  | oof => rw [hc] at h; simp at h

/-- no shared defined memory, data segments only together with a defined memory: NewChild is a first instantiation of a new struct -/
theorem newChild_unshared_is_instantiate (d : ModDesc) (r : Resolver) (start : St → Out St) (w : World) (self : Instance)
    (hns : ∀ k, d.memShared.getD k false = false) (hdata : d.mems.length > 0 ∨ d.datas = []) :
    newChild d r start w self = (instantiate d r start w >>= fun s => .val { w := s.1, self := self, child := s.2 }) := by
  rw [newChild_eq, instantiate_eq]
  congr 2
  unfold childInit initAll
  congr 2
  have h0 : initImports d r (w, {}) = .val (w, imp0 d r) := rfl
  rw [h0]
  simp only [Out.bind_val]
  by_cases hm : d.mems.length > 0
  · simp only [hm, if_true]
    exact initMemoriesFrom_unshared d self _ hns
  · simp only [hm, if_false]
    have hd : d.datas = [] := by rcases hdata with h | h; exact absurd h hm; exact h
    have hnil : d.mems = [] := eq_nil_of_length_not_pos _ hm
    have hg : guardHolds d [.memDefined, .hasData] = false := by simp [guardHolds, atomHolds, hnil, hd]
    have := step_memories d (w, imp0 d r) rfl
    rw [hg] at this
    simpa using this

/-- … so the child starts in the state the specification defines for a new instance (globals = their initialisers, …) -/
theorem newChild_child_initialised (d : ModDesc) (r : Resolver) (start : St → Out St) (w : World) (self : Instance)
    (hns : ∀ k, d.memShared.getD k false = false) (hdata : d.mems.length > 0 ∨ d.datas = []) (hf : Fits d w r) :
    ∃ s, Initialised d w r s ∧
      newChild d r start w self = ((if d.hasStart then start s else .val s) >>= fun s => .val { w := s.1, self := self, child := s.2 }) := by
  obtain ⟨s, hi, he⟩ := Props.C06.instantiate_refines_spec d r w start hf
  exact ⟨s, hi, by rw [newChild_unshared_is_instantiate d r start w self hns hdata, he]⟩

/-- the memories and tables such a child allocates are new objects: none that existed before, in particular none of the parent's -/
theorem child_objects_fresh (d : ModDesc) (r : Resolver) (w : World) (s : St) (hi : Initialised d w r s) :
    (∀ p ∈ s.2.mems, w.mems.length ≤ p) ∧ (∀ p ∈ s.2.tables, w.tables.length ≤ p) :=
  ⟨fun p hp => ownMems_fresh d w r s hi p hp, fun p hp => ownTables_fresh d w r s hi p hp⟩

/-! ## non-vacuity, and the sharing the code performs -/

/-- one defined (unshared) memory with a data segment, two globals (a constant, the value of an imported global), a start function -/
def demoD : ModDesc :=
  { globalImports := 1, mems := [(1, 1)], memShared := [false], globals := [.const 100, .globalGet 0],
    datas := [⟨false, 0, .const 8, [105, 110]⟩], hasStart := true }
def demoR : Resolver := { mem := fun _ => none, table := fun _ => none, global := fun _ => some 0 }
/-- the parent: memory object 0 (already modified: byte 8 is 1), defined globals 103 and 4242 (a counter that moved on from 100) -/
def demoW : World := { mems := [(Array.replicate 65536 0).set! 8 1], globals := [4242] }
def demoSelf : Instance := { globImp := [some 0], mems := [0], globals := [103, 4242] }

set_option maxRecDepth 400000 in
/-- the child gets its own memory (object 1) with the segment, globals 100 and 4242; the start function ran on the CHILD (it appends
    7 to the child's globals here); the parent's struct and memory are untouched -/
example : (newChild demoD demoR (fun s => .val (s.1, { s.2 with globals := s.2.globals ++ [7] })) demoW demoSelf).map'
      (fun x => (x.child.mems, x.child.globals, x.self.globals, cell x.w.mems 1 8, cell x.w.mems 1 9, cell x.w.mems 0 8, x.w.mems.length)) =
    .val ([1], [100, 4242, 7], [103, 4242], some 105, some 110, some 1, 2) := by rfl

/-- a SHARED defined memory (the parent's object 0, 16 bytes here, byte 8 already overwritten with 1): the child's memory IS that
    object — nothing is allocated — and the data segment is applied to it again -/
example : (newChild { demoD with memShared := [true] } demoR .val { mems := [(Array.replicate 16 0).set! 8 1], globals := [4242] } demoSelf).map'
      (fun x => (x.child.mems, x.child.globals, x.self.globals, cell x.w.mems 0 8, cell x.w.mems 0 9, x.w.mems.length)) =
    .val ([0], [100, 4242], [103, 4242], some 105, some 110, 1) := by rfl

/-- a module that only imports its memory (a 16-byte object here, byte 8 already overwritten with 1): NewChild makes no InitMemories
    call, the segment is NOT applied again -/
example : (newChild { demoD with memImports := 1, mems := [], memShared := [] } { demoR with mem := fun _ => some 0 } .val
        { mems := [(Array.replicate 16 0).set! 8 1], globals := [4242] } { demoSelf with memImp := [some 0], mems := [] }).map'
      (fun x => (x.child.memImp, x.child.globals, cell x.w.mems 0 8)) = .val ([some 0], [100, 4242], some 1) := by rfl

example : Fits demoD demoW demoR := by
  refine ⟨?_, ?_, ?_⟩
  · intro seg hs _
    simp [demoD] at hs
    subst hs
    exact ⟨1, 8, 65536, rfl, rfl, rfl, by decide⟩
  · intro seg hs; simp [demoD] at hs
  · intro e he
    simp [demoD] at he
    rcases he with rfl | rfl
    · exact ⟨100, rfl⟩
    · exact ⟨4242, rfl⟩

end W2c2Verif.Props.C06Child
