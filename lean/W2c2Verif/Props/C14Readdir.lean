/-
  Props.C14Readdir — fd_readdir: directory listings are complete (C14, part 2).
-/
import W2c2Verif.Model.WasiReaddir

namespace W2c2Verif.C14
open W2c2Verif W2c2Verif.WasiPath W2c2Verif.Dir W2c2Verif.WasiReaddir

/-- the generated constants and code shapes the hand-written readdir model relies on -/
theorem gen_assumptions_readdir :
    Gen.WasiPath.direntSize = 24 ∧
    Gen.WasiPath.direntStores = [("next", 0, 8), ("inode", 8, 8), ("nameLength", 16, 4), ("fileType", 20, 1)] ∧
    Gen.WasiPath.dirCookieStart = 0 ∧ Gen.WasiPath.readdirCallsRewind = false ∧
    Gen.WasiPath.fileTypeTests = [("S_ISCHR", 2), ("S_ISDIR", 3), ("S_ISREG", 4), ("S_ISLNK", 7), ("S_ISBLK", 1)] ∧
    Gen.WasiPath.fileTypeUnknown = 0 := by
  decide

end W2c2Verif.C14
