/-
  Props.C14Readdir — fd_readdir: directory listings are complete (C14, part 2).

  Model: Model/WasiReaddir.lean (the C function statement by statement) over Spec/Dir.lean
  (POSIX directory streams).  `Rec`/`decode`/`clientView`/`client` (Lemmas/WasiPathReaddir.lean)
  are the WASI client: it reads `bufferUsed`, parses the complete 24-byte-header entries in the
  first `bufferUsed` bytes and, while the buffer came back full, calls again with the `d_next`
  of the last complete entry.
-/
import W2c2Verif.Lemmas.WasiPathReaddir

namespace W2c2Verif.C14
open W2c2Verif W2c2Verif.WasiPath W2c2Verif.Dir W2c2Verif.WasiReaddir

/-- the generated constants and code shapes the hand-written readdir model relies on
    (in particular: `seekdir` is guarded by `cookie != WASI_DIRCOOKIE_START` and its `else` branch
    calls `rewinddir`) -/
theorem gen_assumptions_readdir :
    Gen.WasiPath.direntSize = 24 ∧
    Gen.WasiPath.direntStores = [("next", 0, 8), ("inode", 8, 8), ("nameLength", 16, 4), ("fileType", 20, 1)] ∧
    Gen.WasiPath.dirCookieStart = 0 ∧ Gen.WasiPath.readdirCallsRewind = true ∧ Gen.WasiPath.readdirResetsErrno = true ∧
    Gen.WasiPath.fileTypeTests = [("S_ISCHR", 2), ("S_ISDIR", 3), ("S_ISREG", 4), ("S_ISLNK", 7), ("S_ISBLK", 1)] ∧
    Gen.WasiPath.fileTypeUnknown = 0 := by
  decide

/-- **dirent_layout.**  The five statements that write an entry header (memset + four stores at
    the generated offsets) produce, for any values, exactly: `d_next` as 8 little-endian bytes at
    offset 0, `d_ino` (8, LE) at 8, `d_namlen` (4, LE) at 16, `d_type` (1) at 20, three zero
    bytes of padding — 24 bytes — and change nothing else in memory. -/
theorem dirent_layout (mem : Mem) (p next ino namlen ft : Nat)
    (hp : p + 24 ≤ mem.length) (h32 : mem.length ≤ 4294967296) :
    writeHeader mem p next ino namlen ft =
      .val (mem.take p ++ (leBytes 8 next ++ leBytes 8 ino ++ leBytes 4 namlen ++ leBytes 1 ft ++ [0, 0, 0])
            ++ mem.drop (p + 24)) ∧
    (leBytes 8 next ++ leBytes 8 ino ++ leBytes 4 namlen ++ leBytes 1 ft ++ [0, 0, 0] : Bytes).length = 24 := by
  constructor
  · have hs := split_at_slice mem p 24 hp
    conv => lhs; rw [hs]
    exact writeHeader_seg (mem.take p) (slice mem p 24) (mem.drop (p + 24)) p next ino namlen ft
      (by simp; omega) (slice_length mem p 24 hp) (by rw [← hs]; exact h32)
  · exact header_length next ino namlen ft

/-- the name follows the header unterminated, and a client that decodes header + name gets the
    entry back (little-endian round trip of every field) -/
theorem dirent_roundtrip (next ino ft : Nat) (name tail : Bytes)
    (hn : next < 2 ^ 64) (hi : ino < 2 ^ 64) (hl : name.length < 2 ^ 32) (hf : ft < 256) :
    decode (header next ino name.length ft ++ (name ++ tail)) = ⟨next, ino, name.length, ft, name⟩ :: decode tail :=
  decode_complete next ino ft name tail (by simpa using hn) (by simpa using hi) (by simpa using hl) (by simpa using hf)

/-- One call, wherever the stream gets positioned (`p`): no undefined behaviour, success, memory
    size unchanged, and the client sees `bufferUsed` = what `emit` says and exactly the next
    `emitCount` entries of the stream, complete and in order. -/
theorem readdir_call (pm : Nat) (d : Dir) (path : Bytes) (hd : DirOK pm path d) (st : Option Pos) (cookie p : Nat)
    (mem : Mem) (bufPtr bufLen usedPtr : Nat) (hp : p ≤ d.entries.length)
    (hl : Layout mem.length bufPtr bufLen usedPtr)
    (hpos : positionStream pm d path st mem cookie = .val (.inr (.at p))) :
    ∃ mem' i', fdReaddir pm d path none st mem bufPtr bufLen cookie usedPtr
        = .val (.done ⟨Gen.WasiPath.errnoSuccess, some (.at i'), mem'⟩) ∧
      mem'.length = mem.length ∧
      clientView mem' bufPtr bufLen usedPtr =
        ((emit d bufLen (d.entries.drop p) p 0).2.1,
         recsFrom d p ((d.entries.drop p).take (emitCount bufLen (d.entries.drop p) 0))) := by
  rw [fdReaddir_positioned pm d path st mem bufPtr bufLen cookie usedPtr _ hpos]
  exact readFrom_at pm d path hd p hp mem bufPtr bufLen usedPtr hl

theorem rdLoop_ignores_stale_errno (pm : Nat) (d : Dir) (path : Bytes) (stale : Option String) (bufPtr bufLen : Nat) :
    ∀ (rest : List Entry) (i used : Nat) (mem : Mem),
      rdLoop pm d path stale bufPtr bufLen rest i used mem = rdLoop pm d path none bufPtr bufLen rest i used mem := by
  intro rest
  induction rest with
  | nil => intro i used mem; unfold rdLoop; simp [Gen.WasiPath.readdirResetsErrno]
  | cons e rest ih =>
    intro i used mem
    unfold rdLoop
    simp only [ih]

/-- **readdir_end_is_success_whatever_errno_was.**  Whatever value `errno` has when fd_readdir is entered
    (any earlier failed host call of the process leaves one behind — `stale`), the call behaves exactly as
    with `errno = 0`: in particular reaching the end of the directory is SUCCESS with the entries delivered
    so far, never the stale error.  (`errno = 0;` is the statement directly before `readdir()`, which
    reports end-of-directory by NULL without touching errno.)  All other theorems of this file are stated
    for `stale = none` and hold for every `stale` by this one. -/
theorem readdir_end_is_success_whatever_errno_was (pm : Nat) (d : Dir) (path : Bytes) (stale : Option String)
    (st : Option Pos) (mem : Mem) (bufPtr bufLen cookie usedPtr : Nat) :
    fdReaddir pm d path stale st mem bufPtr bufLen cookie usedPtr
      = fdReaddir pm d path none st mem bufPtr bufLen cookie usedPtr := by
  unfold fdReaddir readFrom
  simp only [rdLoop_ignores_stale_errno pm d path stale]

/-- …e.g. an empty remainder with a stale ENOENT: success, bufferUsed = 0 -/
example : fdReaddir 64 ⟨[], fun i => i⟩ [47] (some "ENOENT") none (List.replicate 40 0xAA) 8 32 0 0
    = fdReaddir 64 ⟨[], fun i => i⟩ [47] none none (List.replicate 40 0xAA) 8 32 0 0 :=
  readdir_end_is_success_whatever_errno_was _ _ _ _ _ _ _ _ _ _

/-- **readdir_exactly_once.**  For every directory (any number of entries, any names), every
    buffer that can hold one entry of that directory (`24 + name length ≤ bufLen` for every
    entry) and every placement of the buffers in guest memory: the client protocol started at
    cookie 0 on a fresh descriptor terminates and yields every entry exactly once, in stream
    order, with its `d_next`, inode, name length, type and name. -/
theorem readdir_exactly_once (pm : Nat) (d : Dir) (path : Bytes) (hd : DirOK pm path d) (hpath : path.length < pm)
    (mem : Mem) (bufPtr bufLen usedPtr : Nat)
    (hmax : ∀ e ∈ d.entries, 24 + e.name.length ≤ bufLen) (h24 : 24 ≤ bufLen)
    (hl : Layout mem.length bufPtr bufLen usedPtr) :
    client pm d path bufPtr bufLen usedPtr (d.entries.length + 1) 0 none mem = some (recsFrom d 0 d.entries) := by
  have := client_from pm d path hd bufPtr bufLen usedPtr hmax h24 (d.entries.length + 1) 0 0 none mem
    (by omega) (by omega) hl (position_fresh pm d path mem hpath)
  simpa using this

/-- **readdir_resume_any_cookie.**  On an opened descriptor, wherever its stream stands, calling
    with the `d_next` cookie of ANY entry (`loc p`, `1 ≤ p ≤ n`) resumes exactly after that entry:
    the client protocol from there yields the entries `p, p+1, …` exactly once, in order. -/
theorem readdir_resume_any_cookie (pm : Nat) (d : Dir) (path : Bytes) (hd : DirOK pm path d)
    (mem : Mem) (bufPtr bufLen usedPtr : Nat)
    (hmax : ∀ e ∈ d.entries, 24 + e.name.length ≤ bufLen) (h24 : 24 ≤ bufLen)
    (hl : Layout mem.length bufPtr bufLen usedPtr) (s : Pos) (p : Nat) (h1 : 1 ≤ p) (hp : p ≤ d.entries.length) :
    client pm d path bufPtr bufLen usedPtr (d.entries.length - p + 1) (d.loc p).toNat (some s) mem
      = some (recsFrom d p (d.entries.drop p)) :=
  client_from pm d path hd bufPtr bufLen usedPtr hmax h24 _ p _ (some s) mem hp (by omega) hl
    (position_cookie pm d path hd.loc s mem p h1 hp)

/-- **readdir_cookie0_restarts.**  Cookie 0 restarts the listing at the first entry on ANY
    descriptor: one whose stream has not been opened yet, and an opened one wherever its stream
    stands (after a partial or complete listing, or in an unspecified position).  The client
    protocol from cookie 0 again yields every entry exactly once.
    (Regression of the former finding `readdir-cookie0-no-rewind`: before the `rewinddir` was
    added the stream simply continued, and a second listing of a directory came back empty; the
    check replays that history on the real code on every run.) -/
theorem readdir_cookie0_restarts (pm : Nat) (d : Dir) (path : Bytes) (hd : DirOK pm path d)
    (hpath : path.length < pm) (mem : Mem) (bufPtr bufLen usedPtr : Nat)
    (hmax : ∀ e ∈ d.entries, 24 + e.name.length ≤ bufLen) (h24 : 24 ≤ bufLen)
    (hl : Layout mem.length bufPtr bufLen usedPtr) (st : Option Pos) :
    client pm d path bufPtr bufLen usedPtr (d.entries.length + 1) 0 st mem = some (recsFrom d 0 d.entries) := by
  cases st with
  | none => exact readdir_exactly_once pm d path hd hpath mem bufPtr bufLen usedPtr hmax h24 hl
  | some s =>
    have := client_from pm d path hd bufPtr bufLen usedPtr hmax h24 (d.entries.length + 1) 0 0 (some s) mem
      (by omega) (by omega) hl (position_zero_open pm d path s mem)
    simpa using this

/-! ### non-vacuity: a concrete directory satisfying every hypothesis -/

/-- `.`, `..` and a file `ab`; tmpfs-like small positive locations -/
def exampleDir : Dir :=
  { entries := [⟨[46], 11, 4, none⟩, ⟨[46, 46], 2, 4, none⟩, ⟨[97, 98], 12, 8, none⟩],
    loc := fun i => (i : Int) + (if i = 0 then 0 else 1) }

theorem exampleDir_ok : DirOK 4096 [47, 116] exampleDir := by
  constructor
  · constructor
    · intro i j hi hj h
      simp only [exampleDir, List.length_cons, List.length_nil] at hi hj h
      split at h <;> split at h <;> omega
    · intro i h1 _; simp only [exampleDir]; split <;> omega
    · intro i hi; simp only [exampleDir, List.length_cons, List.length_nil] at hi ⊢; split <;> omega
  · intro e he
    simp only [exampleDir, List.mem_cons, List.not_mem_nil, or_false] at he
    rcases he with h | h | h <;> subst h <;> exact ⟨⟨by decide, by decide, by decide⟩, by intro h; exact absurd h (by decide)⟩

example : Layout (List.replicate 64 (0 : UInt8)).length 8 56 0 := ⟨by decide, by decide, by decide, by decide⟩

/-- the theorem instantiated: a 56-byte buffer lists the example directory completely -/
example : client 4096 exampleDir [47, 116] 8 56 0 4 0 none (List.replicate 64 0)
    = some (recsFrom exampleDir 0 exampleDir.entries) :=
  readdir_exactly_once 4096 exampleDir [47, 116] exampleDir_ok (by decide) _ 8 56 0
    (by intro e he; simp only [exampleDir, List.mem_cons, List.not_mem_nil, or_false] at he
        rcases he with h | h | h <;> subst h <;> decide) (by decide) ⟨by decide, by decide, by decide, by decide⟩

/-! ### the `lstat` fallback (entries whose `d_type` does not determine the file type) -/

/-- **readdir_lstat_in_bounds_partial.**  Under `TypeOK` (which for an entry of unknown `d_type`
    demands `|descriptor path| + 1 + |name| < PATH_MAX`) a call has no undefined behaviour — this
    is `readdir_call`.  The code does not check that bound: without it the `strcpy`/`strcat` into
    `char nativePath[PATH_MAX]` overflows.  Witness: PATH_MAX 16, descriptor path of 10 bytes,
    one `DT_UNKNOWN` entry with a 6-byte name.  (No file system in this sandbox returns
    DT_UNKNOWN, so this cannot be replayed on the real code.) -/
theorem readdir_lstat_overflow_counterexample :
    fdReaddir 16 ⟨[⟨[97, 98, 99, 100, 101, 102], 5, 0, some 4⟩], fun i => i⟩ (List.replicate 10 47) none none
      (List.replicate 64 0) 8 56 0 0 = .ub .bufferOverflow := by
  decide

end W2c2Verif.C14
