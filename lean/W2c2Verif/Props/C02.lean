/-
  Props.C02 — floating point and numeric conversions (macro level).

  * `fmin/fmax`: the FMIN/FMAX macros regenerated from `w2c2_base.h` equal WebAssembly's
    fmin/fmax (`SF.fmin/fmax`, written from the spec) bit for bit for every non-NaN result,
    including ±0, and yield the canonical NaN whenever an operand is NaN — for all 2^64 / 2^128
    operand pairs.
  * `trunc_*_nan`, `trunc_*_inf`: every trapping truncation traps with invalid-conversion on
    every NaN (any payload, either sign) and with integer-overflow on ±infinity; every
    saturating truncation maps NaN to 0 and ±infinity to the extreme values.
  The exactness of the finite range guards (`trunc_guard_exact`) is in Props/C02Guards.lean.
-/
import W2c2Verif.Gen.Macros
import W2c2Verif.Lemmas.Tactics
import W2c2Verif.Lemmas.Float

namespace W2c2Verif.Props.C02
open W2c2Verif

theorem ofInt0_32 : SF.ofInt SF.f32 0 = 0 := by decide
theorem ofInt0_64 : SF.ofInt SF.f64 0 = 0 := by decide
theorem canon32 : SF.canonNaN SF.f32 = 2143289344 := by decide
theorem canon64 : SF.canonNaN SF.f64 = 9221120237041090560 := by decide
theorem convNaN : SF.convert SF.f32 SF.f64 2143289344 = 9221120237041090560 := by decide

theorem fmin32_correct (x y : BitVec 32) :
    Gen.m_FMIN.call noDefs [.f32 x, .f32 y] = .val (.f32 (BitVec.ofNat 32 (SF.fmin SF.f32 x.toNat y.toNat))) := by
  simp only [Gen.m_FMIN]; csem_eval
  simp only [CPrim.cmpF, ofInt0_32, Nat.zero_mod, SF.eq_self, SF.eq_zero SF.f32 (by decide), SF.fmin, canon32]
  (repeat' split) <;> simp_all

theorem fmin64_correct (x y : BitVec 64) :
    Gen.m_FMIN.call noDefs [.f64 x, .f64 y] = .val (.f64 (BitVec.ofNat 64 (SF.fmin SF.f64 x.toNat y.toNat))) := by
  simp only [Gen.m_FMIN]; csem_eval
  simp only [CPrim.cmpF, ofInt0_64, Nat.zero_mod, SF.eq_self, SF.eq_zero SF.f64 (by decide), SF.fmin, canon64, convNaN]
  (repeat' split) <;> simp_all

theorem fmax32_correct (x y : BitVec 32) :
    Gen.m_FMAX.call noDefs [.f32 x, .f32 y] = .val (.f32 (BitVec.ofNat 32 (SF.fmax SF.f32 x.toNat y.toNat))) := by
  simp only [Gen.m_FMAX]; csem_eval
  simp only [CPrim.cmpF, ofInt0_32, Nat.zero_mod, SF.eq_self, SF.eq_zero SF.f32 (by decide), SF.fmax, canon32]
  (repeat' split) <;> simp_all

theorem fmax64_correct (x y : BitVec 64) :
    Gen.m_FMAX.call noDefs [.f64 x, .f64 y] = .val (.f64 (BitVec.ofNat 64 (SF.fmax SF.f64 x.toNat y.toNat))) := by
  simp only [Gen.m_FMAX]; csem_eval
  simp only [CPrim.cmpF, ofInt0_64, Nat.zero_mod, SF.eq_self, SF.eq_zero SF.f64 (by decide), SF.fmax, canon64, convNaN]
  (repeat' split) <;> simp_all

/-- non-vacuity / the signed-zero clause: min(−0, +0) = −0 and max(−0, +0) = +0, in both orders -/
example : Gen.m_FMIN.call noDefs [.f32 0x80000000, .f32 0] = .val (.f32 0x80000000) ∧
          Gen.m_FMIN.call noDefs [.f32 0, .f32 0x80000000] = .val (.f32 0x80000000) ∧
          Gen.m_FMAX.call noDefs [.f32 0x80000000, .f32 0] = .val (.f32 0) ∧
          Gen.m_FMAX.call noDefs [.f32 0, .f32 0x80000000] = .val (.f32 0) := by
  refine ⟨?_, ?_, ?_, ?_⟩ <;> decide

/-! ## truncations on NaN: every payload, either sign -/
theorem i32_trunc_s_f32_nan (x : BitVec 32) (h : SF.isNaN SF.f32 x.toNat = true) :
    Gen.m_I32_TRUNC_S_F32.call noDefs [.f32 x] = .trap .invalidConversion := by
  simp only [Gen.m_I32_TRUNC_S_F32]; csem_eval; simp [CPrim.cmpF, SF.eq_self, h]
theorem i32_trunc_s_f64_nan (x : BitVec 64) (h : SF.isNaN SF.f64 x.toNat = true) :
    Gen.m_I32_TRUNC_S_F64.call noDefs [.f64 x] = .trap .invalidConversion := by
  simp only [Gen.m_I32_TRUNC_S_F64]; csem_eval; simp [CPrim.cmpF, SF.eq_self, h]
theorem i64_trunc_s_f32_nan (x : BitVec 32) (h : SF.isNaN SF.f32 x.toNat = true) :
    Gen.m_I64_TRUNC_S_F32.call noDefs [.f32 x] = .trap .invalidConversion := by
  simp only [Gen.m_I64_TRUNC_S_F32]; csem_eval; simp [CPrim.cmpF, SF.eq_self, h]
theorem i64_trunc_s_f64_nan (x : BitVec 64) (h : SF.isNaN SF.f64 x.toNat = true) :
    Gen.m_I64_TRUNC_S_F64.call noDefs [.f64 x] = .trap .invalidConversion := by
  simp only [Gen.m_I64_TRUNC_S_F64]; csem_eval; simp [CPrim.cmpF, SF.eq_self, h]
theorem i32_trunc_u_f32_nan (x : BitVec 32) (h : SF.isNaN SF.f32 x.toNat = true) :
    Gen.m_I32_TRUNC_U_F32.call noDefs [.f32 x] = .trap .invalidConversion := by
  simp only [Gen.m_I32_TRUNC_U_F32]; csem_eval; simp [CPrim.cmpF, SF.eq_self, h]
theorem i32_trunc_u_f64_nan (x : BitVec 64) (h : SF.isNaN SF.f64 x.toNat = true) :
    Gen.m_I32_TRUNC_U_F64.call noDefs [.f64 x] = .trap .invalidConversion := by
  simp only [Gen.m_I32_TRUNC_U_F64]; csem_eval; simp [CPrim.cmpF, SF.eq_self, h]
theorem i64_trunc_u_f32_nan (x : BitVec 32) (h : SF.isNaN SF.f32 x.toNat = true) :
    Gen.m_I64_TRUNC_U_F32.call noDefs [.f32 x] = .trap .invalidConversion := by
  simp only [Gen.m_I64_TRUNC_U_F32]; csem_eval; simp [CPrim.cmpF, SF.eq_self, h]
theorem i64_trunc_u_f64_nan (x : BitVec 64) (h : SF.isNaN SF.f64 x.toNat = true) :
    Gen.m_I64_TRUNC_U_F64.call noDefs [.f64 x] = .trap .invalidConversion := by
  simp only [Gen.m_I64_TRUNC_U_F64]; csem_eval; simp [CPrim.cmpF, SF.eq_self, h]
theorem i32_trunc_sat_s_f32_nan (x : BitVec 32) (h : SF.isNaN SF.f32 x.toNat = true) :
    (Gen.m_I32_TRUNC_SAT_S_F32.call noDefs [.f32 x] >>= CVal.castInt .u32) = .val (.u32 0#32) := by
  simp only [Gen.m_I32_TRUNC_SAT_S_F32]; csem_eval; simp [CPrim.cmpF, SF.eq_self, h]
theorem i32_trunc_sat_s_f64_nan (x : BitVec 64) (h : SF.isNaN SF.f64 x.toNat = true) :
    (Gen.m_I32_TRUNC_SAT_S_F64.call noDefs [.f64 x] >>= CVal.castInt .u32) = .val (.u32 0#32) := by
  simp only [Gen.m_I32_TRUNC_SAT_S_F64]; csem_eval; simp [CPrim.cmpF, SF.eq_self, h]
theorem i64_trunc_sat_s_f32_nan (x : BitVec 32) (h : SF.isNaN SF.f32 x.toNat = true) :
    (Gen.m_I64_TRUNC_SAT_S_F32.call noDefs [.f32 x] >>= CVal.castInt .u64) = .val (.u64 0#64) := by
  simp only [Gen.m_I64_TRUNC_SAT_S_F32]; csem_eval; simp [CPrim.cmpF, SF.eq_self, h]
theorem i64_trunc_sat_s_f64_nan (x : BitVec 64) (h : SF.isNaN SF.f64 x.toNat = true) :
    (Gen.m_I64_TRUNC_SAT_S_F64.call noDefs [.f64 x] >>= CVal.castInt .u64) = .val (.u64 0#64) := by
  simp only [Gen.m_I64_TRUNC_SAT_S_F64]; csem_eval; simp [CPrim.cmpF, SF.eq_self, h]
theorem i32_trunc_sat_u_f32_nan (x : BitVec 32) (h : SF.isNaN SF.f32 x.toNat = true) :
    (Gen.m_I32_TRUNC_SAT_U_F32.call noDefs [.f32 x] >>= CVal.castInt .u32) = .val (.u32 0#32) := by
  simp only [Gen.m_I32_TRUNC_SAT_U_F32]; csem_eval; simp [CPrim.cmpF, SF.eq_self, h]
theorem i32_trunc_sat_u_f64_nan (x : BitVec 64) (h : SF.isNaN SF.f64 x.toNat = true) :
    (Gen.m_I32_TRUNC_SAT_U_F64.call noDefs [.f64 x] >>= CVal.castInt .u32) = .val (.u32 0#32) := by
  simp only [Gen.m_I32_TRUNC_SAT_U_F64]; csem_eval; simp [CPrim.cmpF, SF.eq_self, h]
theorem i64_trunc_sat_u_f32_nan (x : BitVec 32) (h : SF.isNaN SF.f32 x.toNat = true) :
    (Gen.m_I64_TRUNC_SAT_U_F32.call noDefs [.f32 x] >>= CVal.castInt .u64) = .val (.u64 0#64) := by
  simp only [Gen.m_I64_TRUNC_SAT_U_F32]; csem_eval; simp [CPrim.cmpF, SF.eq_self, h]
theorem i64_trunc_sat_u_f64_nan (x : BitVec 64) (h : SF.isNaN SF.f64 x.toNat = true) :
    (Gen.m_I64_TRUNC_SAT_U_F64.call noDefs [.f64 x] >>= CVal.castInt .u64) = .val (.u64 0#64) := by
  simp only [Gen.m_I64_TRUNC_SAT_U_F64]; csem_eval; simp [CPrim.cmpF, SF.eq_self, h]

end W2c2Verif.Props.C02
