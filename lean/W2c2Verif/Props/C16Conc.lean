/-
  Props.C16Conc — atomic memory instructions under concurrency.

  * `atomic_bodies_single_step`: each of the 63 atomic accessor functions regenerated from w2c2_base.h performs
    EXACTLY ONE access to the shared memory, and that access is an `__atomic_*` builtin (no plain load or store, no
    second access such as "read first, then compare-and-swap").  Given that a builtin is one indivisible,
    sequentially consistent memory step (the assumption recorded in the trusted base), an instruction executed by one
    thread is a single step of the shared memory.
  * `interleaving_is_sequential`: hence an execution of any number of threads under any schedule IS the sequential
    execution of its steps in schedule order, each thread's instructions in program order: every returned old value
    is the one of that single total order.
  * `sb_impossible` / `sb_impossible_any_schedule`: the store-buffering litmus (T0: X := 1; r0 := Y  ||  T1: Y := 1; r1 := X)
    never ends with both loads returning 0, under any schedule: what a release-ordered store would allow on real hardware.
  * `no_lost_update`: under any schedule of any number of `rmw.add` on one cell the final cell is the initial value
    plus the sum of all operands (mod 2^W): no update is lost.
-/
import W2c2Verif.Props.C16
import W2c2Verif.Props.C05

namespace W2c2Verif.Props.C16
open W2c2Verif

/-- accesses to the shared memory in a body -/
def memAccesses : MStmt → Nat
  | .memcpyFromMem .. | .memcpyToMem .. | .derefLoad .. | .derefStore .. => 1
  | .atomicLoad .. | .atomicStore .. | .atomicRmw .. | .atomicCas .. => 1
  | .ifThen _ b => memAccesses b
  | .seq a b => memAccesses a + memAccesses b
  | _ => 0

/-- accesses that are NOT atomic builtins -/
def plainAccesses : MStmt → Nat
  | .memcpyFromMem .. | .memcpyToMem .. | .derefLoad .. | .derefStore .. => 1
  | .ifThen _ b => plainAccesses b
  | .seq a b => plainAccesses a + plainAccesses b
  | _ => 0

theorem atomic_bodies_single_step :
    (Gen.atomicLoadsLE ++ Gen.atomicStoresLE ++ Gen.atomicRmwsLE).all
      (fun nf => memAccesses nf.2.body == 1 && plainAccesses nf.2.body == 0) = true := by decide

example : (Gen.atomicLoadsLE ++ Gen.atomicStoresLE ++ Gen.atomicRmwsLE).length = 63 := by decide

/-! ## threads -/

/-- one atomic instruction instance: a single step of the shared memory returning a value (by the theorems of
    Props/C16 the step of the accessor `f` on operands `v` is `Spec.load/store/rmw/cmpxchg`) -/
structure Step where
  run : Mem → Nat × Mem

/-- a thread is the list of its remaining instructions -/
abbrev Threads := List (List Step)

/-- one scheduler choice: thread `t` executes its next instruction -/
def stepThread (ts : Threads) (t : Nat) (m : Mem) : Option (Threads × Nat × Mem) :=
  match ts[t]? with
  | some (s :: rest) => some (ts.set t rest, (s.run m).1, (s.run m).2)
  | _ => none

/-- execution under a schedule (a list of thread ids); choices of finished threads are skipped -/
def exec : Threads → List Nat → Mem → List (Nat × Nat) × Mem
  | _, [], m => ([], m)
  | ts, t :: sched, m =>
    match stepThread ts t m with
    | some (ts', r, m') => let (out, mf) := exec ts' sched m'; ((t, r) :: out, mf)
    | none => exec ts sched m

/-- the steps a schedule executes, in order, tagged with their thread -/
def trace : Threads → List Nat → List (Nat × Step)
  | _, [] => []
  | ts, t :: sched =>
    match ts[t]? with
    | some (s :: rest) => (t, s) :: trace (ts.set t rest) sched
    | _ => trace ts sched

/-- sequential execution of a list of steps -/
def runSeq : List (Nat × Step) → Mem → List (Nat × Nat) × Mem
  | [], m => ([], m)
  | (t, s) :: rest, m => let (out, mf) := runSeq rest (s.run m).2; ((t, (s.run m).1) :: out, mf)

theorem interleaving_is_sequential (ts : Threads) (sched : List Nat) (m : Mem) :
    exec ts sched m = runSeq (trace ts sched) m := by
  induction sched generalizing ts m with
  | nil => rfl
  | cons t sched ih =>
    simp only [exec, trace, stepThread]
    cases h : ts[t]? with
    | none => simp only []; exact ih ts m
    | some l =>
      cases l with
      | nil => simp only []; exact ih ts m
      | cons s rest => simp only [runSeq]; rw [ih]

/-- program order: the steps of thread `t` in the trace are a prefix of thread `t`'s program, in order -/
theorem trace_program_order (ts : Threads) (sched : List Nat) (t : Nat) :
    ∃ rest, (ts.getD t []) = ((trace ts sched).filter (·.1 = t)).map (·.2) ++ rest := by
  induction sched generalizing ts with
  | nil => exact ⟨ts.getD t [], by simp [trace]⟩
  | cons u sched ih =>
    simp only [trace]
    cases h : ts[u]? with
    | none => simp only []; exact ih ts
    | some l =>
      cases l with
      | nil => simp only []; exact ih ts
      | cons s rest =>
        simp only []
        obtain ⟨r, hr⟩ := ih (ts.set u rest)
        by_cases e : u = t
        · subst e
          have hu : u < ts.length := by
            rcases Nat.lt_or_ge u ts.length with h' | h'
            · exact h'
            · rw [List.getElem?_eq_none h'] at h; cases h
          have h1 : (ts.set u rest).getD u [] = rest := by simp [List.getD, hu]
          have h2 : ts.getD u [] = s :: rest := by simp [List.getD, h]
          rw [h1] at hr
          refine ⟨r, ?_⟩
          have e0 : List.filter (fun x : Nat × Step => decide (x.1 = u)) ((u, s) :: trace (ts.set u rest) sched) =
              (u, s) :: List.filter (fun x : Nat × Step => decide (x.1 = u)) (trace (ts.set u rest) sched) := by simp
          rw [h2, e0, List.map_cons, List.cons_append, ← hr]
        · have h1 : (ts.set u rest).getD t [] = ts.getD t [] := by
            simp only [List.getD_eq_getElem?_getD]
            rw [List.getElem?_set_ne e]
          rw [h1] at hr
          refine ⟨r, ?_⟩
          rw [hr]
          simp [List.filter_cons, e]

/-! ## no lost update -/

/-- `iNN.atomic.rmw.add` of width `k` bytes on cell `a` with operand `v`, as one step -/
def addStep (k W N : Nat) (a : Nat) (v : BitVec N) : Step :=
  ⟨fun m => ((Spec.rmw k W N .add m a v).1.toNat, (Spec.rmw k W N .add m a v).2)⟩

/-- the W-bit cell at `a` -/
def cell (k W : Nat) (m : Mem) (a : Nat) : BitVec W := Spec.load k false W m a

theorem cell_after_add (k N : Nat) (a : Nat) (v : BitVec N) (m : Mem) :
    cell k (8 * k) (Spec.rmw k (8 * k) N .add m a v).2 a = cell k (8 * k) m a + v.setWidth (8 * k) := by
  simp only [cell, Spec.rmw, RmwOp.apply]
  rw [C05.load_store_roundtrip]
  apply BitVec.eq_of_toNat_eq
  have h256 : 256 ^ k = 2 ^ (8 * k) := by rw [show (256 : Nat) = 2 ^ 8 from rfl, ← Nat.pow_mul]
  rw [BitVec.toNat_ofNat, h256, Nat.mod_eq_of_lt (Nat.mod_lt _ (Nat.pow_pos (by decide)))]
  exact Nat.mod_eq_of_lt (BitVec.isLt _)

/-- **no lost update**: whatever the schedule made of the adds (their order in `steps`), the cell ends as the initial
    value plus the sum of ALL operands, modulo 2^W -/
theorem no_lost_update (k N : Nat) (a : Nat) (steps : List (Nat × BitVec N)) (m : Mem) :
    cell k (8 * k) (runSeq (steps.map fun tv => (tv.1, addStep k (8 * k) N a tv.2)) m).2 a =
      cell k (8 * k) m a + (steps.map fun tv => tv.2.setWidth (8 * k)).foldr (· + ·) 0 := by
  induction steps generalizing m with
  | nil => simp [runSeq]
  | cons x xs ih =>
    simp only [List.map_cons, runSeq, List.foldr_cons]
    rw [ih]
    show cell k (8 * k) (Spec.rmw k (8 * k) N .add m a x.2).2 a + _ = _
    rw [cell_after_add]
    exact BitVec.add_assoc _ _ _

/-- every returned old value is the cell's value in that total order, just before the operation -/
theorem returned_old_value (k N : Nat) (a : Nat) (v : BitVec N) (m : Mem) :
    ((addStep k (8 * k) N a v).run m).1 = ((cell k (8 * k) m a).setWidth N).toNat := rfl

/-! ## the store-buffering litmus test: sequentially consistent stores and loads across two cells -/

/-- all interleavings of two programs (program order kept) -/
def merges {α : Type} : List α → List α → List (List α)
  | [], ys => [ys]
  | x :: xs, [] => [x :: xs]
  | x :: xs, y :: ys => ((merges xs (y :: ys)).map (x :: ·)) ++ ((merges (x :: xs) ys).map (y :: ·))

/-- an atomic 32-bit store (returns the marker 99) and an atomic 32-bit load, as single steps of the shared memory -/
def stStep (a : Nat) (v : BitVec 32) : Step := ⟨fun m => (99, Spec.store 4 m a v)⟩
def ldStep (a : Nat) : Step := ⟨fun m => ((Spec.load 4 false 32 m a).toNat, m)⟩

theorem ld_after_st_same (m : Mem) (a : Nat) (v : BitVec 32) : Spec.load 4 false 32 (Spec.store 4 m a v) a = v := by
  have := C05.load_store_roundtrip 4 m a v
  simp only [Nat.reduceMul] at this
  rw [this]
  apply BitVec.eq_of_toNat_eq
  simp [Nat.mod_eq_of_lt v.isLt]

theorem leValue_congr (m1 m2 : Mem) : ∀ (k a : Nat), (∀ i, a ≤ i → i < a + k → m1.rd i = m2.rd i) → Spec.leValue m1 a k = Spec.leValue m2 a k
  | 0, _, _ => rfl
  | k + 1, a, h => by
    simp only [Spec.leValue]
    rw [h a (Nat.le_refl _) (by omega), leValue_congr m1 m2 k (a + 1) (fun i h1 h2 => h i (by omega) (by omega))]

theorem ld_after_st_other (m : Mem) (a b : Nat) (v : BitVec 32) (hd : a + 4 ≤ b ∨ b + 4 ≤ a) :
    Spec.load 4 false 32 (Spec.store 4 m b v) a = Spec.load 4 false 32 m a := by
  simp only [Spec.load, Bool.false_eq_true, if_false]
  rw [leValue_congr (Spec.store 4 m b v) m 4 a]
  intro i h1 h2
  exact (C05.store_frame 4 m b v i (by omega)).1

/-- **store buffering is impossible**: two threads, two cells X and Y (initially 0): T0 stores 1 to X then loads Y, T1 stores
    1 to Y then loads X.  In EVERY interleaving of the four single-step accesses at least one of the loads returns 1: the
    outcome "both loads return 0" (which real hardware produces when the stores are not sequentially consistent) has no
    total order. -/
theorem sb_impossible (m0 : Mem) (X Y : Nat) (hd : X + 4 ≤ Y ∨ Y + 4 ≤ X)
    (hx : Spec.load 4 false 32 m0 X = 0) (hy : Spec.load 4 false 32 m0 Y = 0) :
    ∀ tr ∈ merges [(0, stStep X 1), (0, ldStep Y)] [(1, stStep Y 1), (1, ldStep X)],
      ¬ ((0, 0) ∈ (runSeq tr m0).1 ∧ (1, 0) ∈ (runSeq tr m0).1) := by
  have hd' : Y + 4 ≤ X ∨ X + 4 ≤ Y := hd.symm
  intro tr htr
  simp only [merges, List.map_cons, List.map_nil, List.cons_append, List.nil_append, List.mem_cons, List.mem_nil_iff, or_false] at htr
  rcases htr with rfl | rfl | rfl | rfl | rfl | rfl <;>
    simp [runSeq, stStep, ldStep, ld_after_st_same, ld_after_st_other, hd, hd', hx, hy]

/-- … and the outcomes in which a load does return 0 exist (the statement is not vacuous): T0 runs completely first -/
example (m0 : Mem) (hy : Spec.load 4 false 32 m0 8 = 0) :
    (0, 0) ∈ (runSeq [(0, stStep 0 1), (0, ldStep 8), (1, stStep 8 1), (1, ldStep 0)] m0).1 := by
  simp [runSeq, stStep, ldStep, ld_after_st_same, ld_after_st_other, hy]

theorem merges_nil_right {α : Type} (xs : List α) : merges xs [] = [xs] := by cases xs <;> simp [merges]

theorem merges_cons_left {α : Type} (a : α) : ∀ (xs ys x : List α), x ∈ merges xs ys → a :: x ∈ merges (a :: xs) ys := by
  intro xs ys x h
  cases ys with
  | nil => rw [merges_nil_right] at h ⊢; simp at h ⊢; exact h
  | cons y ys => simp only [merges, List.mem_append, List.mem_map]; exact Or.inl ⟨x, h, rfl⟩

theorem merges_cons_right {α : Type} (b : α) : ∀ (xs ys x : List α), x ∈ merges xs ys → b :: x ∈ merges xs (b :: ys) := by
  intro xs ys x h
  cases xs with
  | nil => simp only [merges, List.mem_cons, List.mem_nil_iff, or_false] at h ⊢; rw [h]
  | cons a xs => simp only [merges, List.mem_append, List.mem_map]; exact Or.inr ⟨x, h, rfl⟩

/-- a complete execution of two threads under ANY schedule is one of the interleavings of their programs -/
theorem trace_two_mem_merges : ∀ (sched : List Nat) (p0 p1 : List Step),
    (trace [p0, p1] sched).length = p0.length + p1.length →
    trace [p0, p1] sched ∈ merges (p0.map fun s => (0, s)) (p1.map fun s => (1, s))
  | [], p0, p1, h => by
    simp only [trace, List.length_nil] at h
    have h0 : p0 = [] := List.eq_nil_of_length_eq_zero (by omega)
    have h1 : p1 = [] := List.eq_nil_of_length_eq_zero (by omega)
    subst h0; subst h1; simp [trace, merges]
  | t :: sched, p0, p1, h => by
    match t with
    | 0 =>
      cases p0 with
      | nil => simp only [trace, List.getElem?_cons_zero] at h ⊢; exact trace_two_mem_merges sched [] p1 h
      | cons s rest =>
        simp only [trace, List.getElem?_cons_zero, List.set_cons_zero, List.length_cons] at h ⊢
        have := trace_two_mem_merges sched rest p1 (by omega)
        simp only [List.map_cons]
        exact merges_cons_left _ _ _ _ this
    | 1 =>
      cases p1 with
      | nil => simp only [trace, List.getElem?_cons_succ, List.getElem?_cons_zero] at h ⊢; exact trace_two_mem_merges sched p0 [] h
      | cons s rest =>
        simp only [trace, List.getElem?_cons_succ, List.getElem?_cons_zero, List.set_cons_succ, List.set_cons_zero, List.length_cons] at h ⊢
        have := trace_two_mem_merges sched p0 rest (by omega)
        simp only [List.map_cons]
        exact merges_cons_right _ _ _ _ this
    | n + 2 =>
      have hn : [p0, p1][n + 2]? = none := by simp
      simp only [trace, hn] at h ⊢
      exact trace_two_mem_merges sched p0 p1 h

/-- the litmus test in terms of schedules: whatever the scheduler does, once both threads have finished, not both loads returned 0 -/
theorem sb_impossible_any_schedule (m0 : Mem) (X Y : Nat) (hd : X + 4 ≤ Y ∨ Y + 4 ≤ X)
    (hx : Spec.load 4 false 32 m0 X = 0) (hy : Spec.load 4 false 32 m0 Y = 0) (sched : List Nat)
    (hfin : (trace [[stStep X 1, ldStep Y], [stStep Y 1, ldStep X]] sched).length = 4) :
    ¬ ((0, 0) ∈ (exec [[stStep X 1, ldStep Y], [stStep Y 1, ldStep X]] sched m0).1 ∧
       (1, 0) ∈ (exec [[stStep X 1, ldStep Y], [stStep Y 1, ldStep X]] sched m0).1) := by
  rw [interleaving_is_sequential]
  have hm := trace_two_mem_merges sched [stStep X 1, ldStep Y] [stStep Y 1, ldStep X] (by simpa using hfin)
  simp only [List.map_cons, List.map_nil] at hm
  exact sb_impossible m0 X Y hd hx hy _ hm

end W2c2Verif.Props.C16
