/-
  Props.C16Emit — the translator dispatches every atomic access instruction to the runtime function that implements
  exactly that instruction.

  `Gen.atomicEmit` is regenerated on every run from the four emitters of c.c (wasmCWriteAtomicLoadExpr / StoreExpr /
  RMWExpr / RMWCmpxchgExpr: per `case`, the function whose call is printed, the alignment insisted on, the result
  type) and the opcode bytes of opcode.h.  `specAtomic` is the opcode layout of the threads proposal: the seven
  access shapes, in order, for load (0xFE 0x10…), store (0x17…), rmw add/sub/and/or/xor/xchg (0x1E…) and cmpxchg
  (0x48…); the function for an instruction is the one named after its mnemonic (`i64.atomic.rmw16.xor_u` ->
  `i64_atomic_rmw16_xor_u`), whose body Props/C16 proves to be that instruction (`<name>_correct`), the natural
  alignment is log2 of the storage width and the result type is the instruction's type.
-/
import W2c2Verif.Gen.AtomicEmit

namespace W2c2Verif.Props.C16
open W2c2Verif

/-- the seven access shapes in opcode order: value type, storage-width suffix, log2 of the width in bytes -/
def shapes : List (String × String × Nat) :=
  [("i32", "", 2), ("i64", "", 3), ("i32", "8", 0), ("i32", "16", 1), ("i64", "8", 0), ("i64", "16", 1), ("i64", "32", 2)]

def sfx (w : String) : String := if w = "" then "" else "_u"

def zipIdx {α : Type} : List α → Nat → List (Nat × α)
  | [], _ => []
  | a :: r, i => (i, a) :: zipIdx r (i + 1)

/-- (opcode byte, emitter, function, log2 alignment, result type) per the threads proposal -/
def specAtomic : List (Nat × String × String × Nat × String) :=
  (zipIdx shapes 0).map (fun (i, t, w, a) => (0x10 + i, "load", t ++ "_atomic_load" ++ w ++ sfx w, a, t)) ++
  (zipIdx shapes 0).map (fun (i, t, w, a) => (0x17 + i, "store", t ++ "_atomic_store" ++ w, a, "")) ++
  (zipIdx ["add", "sub", "and", "or", "xor", "xchg"] 0).flatMap (fun (j, op) =>
    (zipIdx shapes 0).map (fun (i, t, w, a) => (0x1E + 7 * j + i, "rmw", t ++ "_atomic_rmw" ++ w ++ "_" ++ op ++ sfx w, a, t))) ++
  (zipIdx shapes 0).map (fun (i, t, w, a) => (0x48 + i, "cmpxchg", t ++ "_atomic_rmw" ++ w ++ "_cmpxchg" ++ sfx w, a, t))

set_option maxRecDepth 100000 in
/-- every atomic access instruction — all 63 — is translated into a call of the function of ITS mnemonic, insisting on
    ITS natural alignment, with ITS result type; no instruction is missing and none is dispatched twice -/
theorem atomic_dispatch_spec :
    Gen.atomicEmit.map (fun r => (r.1, r.2.1, r.2.2.2.1, r.2.2.2.2.1, r.2.2.2.2.2)) = specAtomic := by decide

set_option maxRecDepth 100000 in
example : specAtomic.length = 63 ∧ (specAtomic.map (·.1)).Nodup := by decide

example : (0x3F, "rmw", "i64_atomic_rmw16_xor_u", 1, "i64") ∈ specAtomic := by decide

end W2c2Verif.Props.C16
