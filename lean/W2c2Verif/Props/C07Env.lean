/-
  Props.C07Env — the constants' C text does not depend on the environment the translator runs in.

  `float_literal_denotes*_partial` (Props/C07) assumes `DecRoundTrips`: what `sprintf("%.9g" / "%.17g")` prints is read back
  by the C compiler as the same value.  That is a property of the "C" locale only: under a locale whose decimal point is a
  comma `1.5` is printed `1,5`, and `sd0=1,5;` still compiles (comma operator) to the wrong constant.  A C program starts
  in the "C" locale (C99 7.11.1.1p4) and stays there unless it calls `setlocale` / `uselocale`; LC_ALL, LC_NUMERIC, LANG are
  read by `setlocale(…, "")` only.  `Gen.EnvCalls` is regenerated on every run from ALL translation units of the translator
  as the real preprocessor sees them (tools/extract/gen_envcalls.py): every call site of a locale- or environment-
  reading libc function, and every printf-family format with a floating conversion.

  These are finite-table theorems: they hold by evaluation of the regenerated tables, and break (naming the new call
  site) when the source gains such a call.  The run-time counterpart is the `environment` part of tools/checks/c07.py:
  the real w2c2 is run on the constants module under a synthesised comma-decimal locale and other environments.
-/
import W2c2Verif.Gen.EnvCalls

namespace W2c2Verif.Props.C07
open W2c2Verif.Gen.EnvCalls

/-- the numeric locale of the process: the "C" locale, or whatever the environment (LC_ALL / LC_NUMERIC / LANG) names -/
inductive NumLocale
  | c
  | fromEnvironment
  deriving DecidableEq, Repr

/-- Program start-up is `setlocale(LC_ALL, "C")`; each call of a watched locale function MAY install another locale
    (over-approximation: also `localeconv`, which only reads it, is watched). -/
def localeAfter (calls : List String) : NumLocale :=
  if calls.any (fun c => watchedLocaleFunctions.contains c) then .fromEnvironment else .c

/-- **The translator never changes (or inspects) its locale.** -/
theorem no_locale_change : localeCalls = [] := by decide

/-- The translator never reads or writes environment variables (LC_*, LANG, TZ, …) itself. -/
theorem no_environment_access : envCalls = [] := by decide

/-- Whatever sequence of the translator's own locale calls is executed — there are none — the literal printer runs
    in the "C" locale: its decimal point is '.', for every environment. -/
theorem literal_printer_runs_in_C_locale (trace : List String) (h : ∀ c, c ∈ trace → c ∈ localeCalls.map (·.1)) :
    localeAfter trace = .c := by
  have hnil : trace = [] := by
    cases trace with
    | nil => rfl
    | cons c cs =>
      have := h c (List.mem_cons_self ..)
      rw [no_locale_change] at this
      simp at this
  subst hnil
  decide

/-- Every floating conversion the translator prints is one of: the two literal printers (`%.9g`, `%.17g` — 9 / 17
    significant digits round-trip binary32 / binary64) and a percentage in a diagnostic on stderr. -/
theorem float_conversion_sites :
    floatFormats.map (fun s => (s.1, s.2.1)) =
      [("w2c2: %lu of %lu functions are dynamic (%.2f%%)\\n", "main"),
       ("%.9g", "stringBuilderAppendF32"), ("%.17g", "stringBuilderAppendF64")] := by
  decide

/-- the model of the alternative: one `setlocale` call and the locale is the environment's (seeded change C07/5) -/
example : localeAfter ["setlocale"] = .fromEnvironment := by decide

end W2c2Verif.Props.C07
