/-
  Props.C05 — linear-memory instructions read and write the specified bytes.

  For every one of the 14 load and 9 store functions of w2c2_base.h — bodies REGENERATED from
  the current header (`Gen.LoadStore`, little-endian host configuration) — and for every
  memory, every in-bounds address (ANY alignment) and every stored value: the load returns the
  specification's value (little-endian byte interpretation, zero/sign extension to the result
  width), the store writes exactly the specification's bytes; stores change nothing outside
  [ea, ea+width) and never the size; a stored value reads back (little-endian round trip).
  The effective address `(U64)base + offsetU` emitted by w2c2 is the 33-bit sum (no 32-bit wrap).
  Out-of-bounds accesses are outside the property (w2c2 performs no bounds checks): each
  theorem carries the in-bounds hypothesis, and the examples instantiate it.
-/
import W2c2Verif.Gen.LoadStore
import W2c2Verif.Lemmas.Mem
import W2c2Verif.Lemmas.Tactics
set_option linter.unusedSimpArgs false
set_option linter.unusedVariables false

namespace W2c2Verif.Props.C05
open W2c2Verif

/-- evaluate a memory accessor body on symbolic memory/operands -/
macro "mem_eval" : tactic => `(tactic|
  simp +decide [MFunc.call, bindParams, MStmt.exec, addrOf, CExpr.eval, CExpr.typeOf, Env.get, Env.set, CVal.ty, CTy.bytes, inBounds,
    CVal.ofBits, Mem.hostRead, Mem.hostWrite, CVal.fromNat, CVal.fromInt, Out.ite_bind, CVal.reinterpret, CVal.bits, builtin1,
    RmwOp.apply, CVal.binop, CTy.common, CTy.promote, BinOp.isCmp, CPrim.arithU, CPrim.cmpU, CVal.truthy, *])

theorem i32_load_correct (m : Mem) (ea : BitVec 64) (h : ea.toNat + 4 ≤ m.size) :
    Gen.le_i32_load.call noDefs .le m [.u64 ea] = .val (some (.u32 (Spec.load 4 false 32 m ea.toNat)), m) := by
  have h' : ¬ m.size < ea.toNat + 4 := by omega
  simp only [Gen.le_i32_load]; mem_eval
  all_goals simp [Spec.load, Mem.readLE8_eq, Mem.readLE16_eq, Mem.readLE32_eq, Mem.readLE64_eq, BitVec.signExtend, Spec.zext8, Spec.zext16, Spec.zext32]

theorem i64_load_correct (m : Mem) (ea : BitVec 64) (h : ea.toNat + 8 ≤ m.size) :
    Gen.le_i64_load.call noDefs .le m [.u64 ea] = .val (some (.u64 (Spec.load 8 false 64 m ea.toNat)), m) := by
  have h' : ¬ m.size < ea.toNat + 8 := by omega
  simp only [Gen.le_i64_load]; mem_eval
  all_goals simp [Spec.load, Mem.readLE8_eq, Mem.readLE16_eq, Mem.readLE32_eq, Mem.readLE64_eq, BitVec.signExtend, Spec.zext8, Spec.zext16, Spec.zext32]

theorem f32_load_correct (m : Mem) (ea : BitVec 64) (h : ea.toNat + 4 ≤ m.size) :
    Gen.le_f32_load.call noDefs .le m [.u64 ea] = .val (some (.f32 (Spec.load 4 false 32 m ea.toNat)), m) := by
  have h' : ¬ m.size < ea.toNat + 4 := by omega
  simp only [Gen.le_f32_load]; mem_eval
  all_goals simp [Spec.load, Mem.readLE8_eq, Mem.readLE16_eq, Mem.readLE32_eq, Mem.readLE64_eq, BitVec.signExtend, Spec.zext8, Spec.zext16, Spec.zext32]

theorem f64_load_correct (m : Mem) (ea : BitVec 64) (h : ea.toNat + 8 ≤ m.size) :
    Gen.le_f64_load.call noDefs .le m [.u64 ea] = .val (some (.f64 (Spec.load 8 false 64 m ea.toNat)), m) := by
  have h' : ¬ m.size < ea.toNat + 8 := by omega
  simp only [Gen.le_f64_load]; mem_eval
  all_goals simp [Spec.load, Mem.readLE8_eq, Mem.readLE16_eq, Mem.readLE32_eq, Mem.readLE64_eq, BitVec.signExtend, Spec.zext8, Spec.zext16, Spec.zext32]

theorem i32_load8_s_correct (m : Mem) (ea : BitVec 64) (h : ea.toNat + 1 ≤ m.size) :
    Gen.le_i32_load8_s.call noDefs .le m [.u64 ea] = .val (some (.u32 (Spec.load 1 true 32 m ea.toNat)), m) := by
  have h' : ¬ m.size < ea.toNat + 1 := by omega
  simp only [Gen.le_i32_load8_s]; mem_eval
  all_goals simp [Spec.load, Mem.readLE8_eq, Mem.readLE16_eq, Mem.readLE32_eq, Mem.readLE64_eq, BitVec.signExtend, Spec.zext8, Spec.zext16, Spec.zext32]

theorem i64_load8_s_correct (m : Mem) (ea : BitVec 64) (h : ea.toNat + 1 ≤ m.size) :
    Gen.le_i64_load8_s.call noDefs .le m [.u64 ea] = .val (some (.u64 (Spec.load 1 true 64 m ea.toNat)), m) := by
  have h' : ¬ m.size < ea.toNat + 1 := by omega
  simp only [Gen.le_i64_load8_s]; mem_eval
  all_goals simp [Spec.load, Mem.readLE8_eq, Mem.readLE16_eq, Mem.readLE32_eq, Mem.readLE64_eq, BitVec.signExtend, Spec.zext8, Spec.zext16, Spec.zext32]

theorem i32_load8_u_correct (m : Mem) (ea : BitVec 64) (h : ea.toNat + 1 ≤ m.size) :
    Gen.le_i32_load8_u.call noDefs .le m [.u64 ea] = .val (some (.u32 (Spec.load 1 false 32 m ea.toNat)), m) := by
  have h' : ¬ m.size < ea.toNat + 1 := by omega
  simp only [Gen.le_i32_load8_u]; mem_eval
  all_goals simp [Spec.load, Mem.readLE8_eq, Mem.readLE16_eq, Mem.readLE32_eq, Mem.readLE64_eq, BitVec.signExtend, Spec.zext8, Spec.zext16, Spec.zext32]

theorem i64_load8_u_correct (m : Mem) (ea : BitVec 64) (h : ea.toNat + 1 ≤ m.size) :
    Gen.le_i64_load8_u.call noDefs .le m [.u64 ea] = .val (some (.u64 (Spec.load 1 false 64 m ea.toNat)), m) := by
  have h' : ¬ m.size < ea.toNat + 1 := by omega
  simp only [Gen.le_i64_load8_u]; mem_eval
  all_goals simp [Spec.load, Mem.readLE8_eq, Mem.readLE16_eq, Mem.readLE32_eq, Mem.readLE64_eq, BitVec.signExtend, Spec.zext8, Spec.zext16, Spec.zext32]

theorem i32_load16_s_correct (m : Mem) (ea : BitVec 64) (h : ea.toNat + 2 ≤ m.size) :
    Gen.le_i32_load16_s.call noDefs .le m [.u64 ea] = .val (some (.u32 (Spec.load 2 true 32 m ea.toNat)), m) := by
  have h' : ¬ m.size < ea.toNat + 2 := by omega
  simp only [Gen.le_i32_load16_s]; mem_eval
  all_goals simp [Spec.load, Mem.readLE8_eq, Mem.readLE16_eq, Mem.readLE32_eq, Mem.readLE64_eq, BitVec.signExtend, Spec.zext8, Spec.zext16, Spec.zext32]

theorem i64_load16_s_correct (m : Mem) (ea : BitVec 64) (h : ea.toNat + 2 ≤ m.size) :
    Gen.le_i64_load16_s.call noDefs .le m [.u64 ea] = .val (some (.u64 (Spec.load 2 true 64 m ea.toNat)), m) := by
  have h' : ¬ m.size < ea.toNat + 2 := by omega
  simp only [Gen.le_i64_load16_s]; mem_eval
  all_goals simp [Spec.load, Mem.readLE8_eq, Mem.readLE16_eq, Mem.readLE32_eq, Mem.readLE64_eq, BitVec.signExtend, Spec.zext8, Spec.zext16, Spec.zext32]

theorem i32_load16_u_correct (m : Mem) (ea : BitVec 64) (h : ea.toNat + 2 ≤ m.size) :
    Gen.le_i32_load16_u.call noDefs .le m [.u64 ea] = .val (some (.u32 (Spec.load 2 false 32 m ea.toNat)), m) := by
  have h' : ¬ m.size < ea.toNat + 2 := by omega
  simp only [Gen.le_i32_load16_u]; mem_eval
  all_goals simp [Spec.load, Mem.readLE8_eq, Mem.readLE16_eq, Mem.readLE32_eq, Mem.readLE64_eq, BitVec.signExtend, Spec.zext8, Spec.zext16, Spec.zext32]

theorem i64_load16_u_correct (m : Mem) (ea : BitVec 64) (h : ea.toNat + 2 ≤ m.size) :
    Gen.le_i64_load16_u.call noDefs .le m [.u64 ea] = .val (some (.u64 (Spec.load 2 false 64 m ea.toNat)), m) := by
  have h' : ¬ m.size < ea.toNat + 2 := by omega
  simp only [Gen.le_i64_load16_u]; mem_eval
  all_goals simp [Spec.load, Mem.readLE8_eq, Mem.readLE16_eq, Mem.readLE32_eq, Mem.readLE64_eq, BitVec.signExtend, Spec.zext8, Spec.zext16, Spec.zext32]

theorem i64_load32_s_correct (m : Mem) (ea : BitVec 64) (h : ea.toNat + 4 ≤ m.size) :
    Gen.le_i64_load32_s.call noDefs .le m [.u64 ea] = .val (some (.u64 (Spec.load 4 true 64 m ea.toNat)), m) := by
  have h' : ¬ m.size < ea.toNat + 4 := by omega
  simp only [Gen.le_i64_load32_s]; mem_eval
  all_goals simp [Spec.load, Mem.readLE8_eq, Mem.readLE16_eq, Mem.readLE32_eq, Mem.readLE64_eq, BitVec.signExtend, Spec.zext8, Spec.zext16, Spec.zext32]

theorem i64_load32_u_correct (m : Mem) (ea : BitVec 64) (h : ea.toNat + 4 ≤ m.size) :
    Gen.le_i64_load32_u.call noDefs .le m [.u64 ea] = .val (some (.u64 (Spec.load 4 false 64 m ea.toNat)), m) := by
  have h' : ¬ m.size < ea.toNat + 4 := by omega
  simp only [Gen.le_i64_load32_u]; mem_eval
  all_goals simp [Spec.load, Mem.readLE8_eq, Mem.readLE16_eq, Mem.readLE32_eq, Mem.readLE64_eq, BitVec.signExtend, Spec.zext8, Spec.zext16, Spec.zext32]

theorem i32_store_correct (m : Mem) (ea : BitVec 64) (v : BitVec 32) (h : ea.toNat + 4 ≤ m.size) :
    Gen.le_i32_store.call noDefs .le m [.u64 ea, .u32 v] = .val (none, Spec.store 4 m ea.toNat v) := by
  have h' : ¬ m.size < ea.toNat + 4 := by omega
  simp only [Gen.le_i32_store]; mem_eval
  all_goals simp [Mem.writeLE8_eq, Mem.writeLE16_eq, Mem.writeLE32_eq, Mem.writeLE64_eq, Spec.store_setWidth32, Spec.store_setWidth16, Spec.store_setWidth8]

theorem i64_store_correct (m : Mem) (ea : BitVec 64) (v : BitVec 64) (h : ea.toNat + 8 ≤ m.size) :
    Gen.le_i64_store.call noDefs .le m [.u64 ea, .u64 v] = .val (none, Spec.store 8 m ea.toNat v) := by
  have h' : ¬ m.size < ea.toNat + 8 := by omega
  simp only [Gen.le_i64_store]; mem_eval
  all_goals simp [Mem.writeLE8_eq, Mem.writeLE16_eq, Mem.writeLE32_eq, Mem.writeLE64_eq, Spec.store_setWidth32, Spec.store_setWidth16, Spec.store_setWidth8]

theorem f32_store_correct (m : Mem) (ea : BitVec 64) (v : BitVec 32) (h : ea.toNat + 4 ≤ m.size) :
    Gen.le_f32_store.call noDefs .le m [.u64 ea, .f32 v] = .val (none, Spec.store 4 m ea.toNat v) := by
  have h' : ¬ m.size < ea.toNat + 4 := by omega
  simp only [Gen.le_f32_store]; mem_eval
  all_goals simp [Mem.writeLE8_eq, Mem.writeLE16_eq, Mem.writeLE32_eq, Mem.writeLE64_eq, Spec.store_setWidth32, Spec.store_setWidth16, Spec.store_setWidth8]

theorem f64_store_correct (m : Mem) (ea : BitVec 64) (v : BitVec 64) (h : ea.toNat + 8 ≤ m.size) :
    Gen.le_f64_store.call noDefs .le m [.u64 ea, .f64 v] = .val (none, Spec.store 8 m ea.toNat v) := by
  have h' : ¬ m.size < ea.toNat + 8 := by omega
  simp only [Gen.le_f64_store]; mem_eval
  all_goals simp [Mem.writeLE8_eq, Mem.writeLE16_eq, Mem.writeLE32_eq, Mem.writeLE64_eq, Spec.store_setWidth32, Spec.store_setWidth16, Spec.store_setWidth8]

theorem i32_store8_correct (m : Mem) (ea : BitVec 64) (v : BitVec 32) (h : ea.toNat + 1 ≤ m.size) :
    Gen.le_i32_store8.call noDefs .le m [.u64 ea, .u32 v] = .val (none, Spec.store 1 m ea.toNat v) := by
  have h' : ¬ m.size < ea.toNat + 1 := by omega
  simp only [Gen.le_i32_store8]; mem_eval
  all_goals simp [Mem.writeLE8_eq, Mem.writeLE16_eq, Mem.writeLE32_eq, Mem.writeLE64_eq, Spec.store_setWidth32, Spec.store_setWidth16, Spec.store_setWidth8]

theorem i32_store16_correct (m : Mem) (ea : BitVec 64) (v : BitVec 32) (h : ea.toNat + 2 ≤ m.size) :
    Gen.le_i32_store16.call noDefs .le m [.u64 ea, .u32 v] = .val (none, Spec.store 2 m ea.toNat v) := by
  have h' : ¬ m.size < ea.toNat + 2 := by omega
  simp only [Gen.le_i32_store16]; mem_eval
  all_goals simp [Mem.writeLE8_eq, Mem.writeLE16_eq, Mem.writeLE32_eq, Mem.writeLE64_eq, Spec.store_setWidth32, Spec.store_setWidth16, Spec.store_setWidth8]

theorem i64_store8_correct (m : Mem) (ea : BitVec 64) (v : BitVec 64) (h : ea.toNat + 1 ≤ m.size) :
    Gen.le_i64_store8.call noDefs .le m [.u64 ea, .u64 v] = .val (none, Spec.store 1 m ea.toNat v) := by
  have h' : ¬ m.size < ea.toNat + 1 := by omega
  simp only [Gen.le_i64_store8]; mem_eval
  all_goals simp [Mem.writeLE8_eq, Mem.writeLE16_eq, Mem.writeLE32_eq, Mem.writeLE64_eq, Spec.store_setWidth32, Spec.store_setWidth16, Spec.store_setWidth8]

theorem i64_store16_correct (m : Mem) (ea : BitVec 64) (v : BitVec 64) (h : ea.toNat + 2 ≤ m.size) :
    Gen.le_i64_store16.call noDefs .le m [.u64 ea, .u64 v] = .val (none, Spec.store 2 m ea.toNat v) := by
  have h' : ¬ m.size < ea.toNat + 2 := by omega
  simp only [Gen.le_i64_store16]; mem_eval
  all_goals simp [Mem.writeLE8_eq, Mem.writeLE16_eq, Mem.writeLE32_eq, Mem.writeLE64_eq, Spec.store_setWidth32, Spec.store_setWidth16, Spec.store_setWidth8]

theorem i64_store32_correct (m : Mem) (ea : BitVec 64) (v : BitVec 64) (h : ea.toNat + 4 ≤ m.size) :
    Gen.le_i64_store32.call noDefs .le m [.u64 ea, .u64 v] = .val (none, Spec.store 4 m ea.toNat v) := by
  have h' : ¬ m.size < ea.toNat + 4 := by omega
  simp only [Gen.le_i64_store32]; mem_eval
  all_goals simp [Mem.writeLE8_eq, Mem.writeLE16_eq, Mem.writeLE32_eq, Mem.writeLE64_eq, Spec.store_setWidth32, Spec.store_setWidth16, Spec.store_setWidth8]

/-- a store changes exactly the bytes of its range and never the memory size -/
theorem store_frame (k : Nat) {N : Nat} (m : Mem) (a : Nat) (v : BitVec N) (i : Nat) (h : i < a ∨ a + k ≤ i) :
    (Spec.store k m a v).rd i = m.rd i ∧ (Spec.store k m a v).size = m.size :=
  Spec.storeBytes_frame k m a v.toNat i h

/-- little-endian round trip: loading what was stored yields the low bytes of the value -/
theorem load_store_roundtrip (k : Nat) {N : Nat} (m : Mem) (a : Nat) (v : BitVec N) :
    Spec.load k false (8 * k) (Spec.store k m a v) a = BitVec.ofNat (8 * k) (v.toNat % 256 ^ k) := by
  simp only [Spec.load, Spec.store, Spec.leValue_storeBytes]; rfl

/-- the address expression `(U64)s + offU` w2c2 emits: the 33-bit sum, never wrapped to 32 bits -/
theorem effective_addr_no_wrap (base off : BitVec 32) :
    (CExpr.bin .add (.cast .u64 (.var "si0")) (.lit (.u32 off))).eval noDefs [("si0", .u32 base)]
      = .val (.u64 (BitVec.ofNat 64 (base.toNat + off.toNat))) := by
  simp [CExpr.eval, Env.get, CVal.fromNat, CVal.binop, CTy.common, CTy.promote, CVal.ty, BinOp.isCmp, CPrim.arithU]
  apply BitVec.eq_of_toNat_eq
  have := base.isLt; have := off.isLt
  simp [BitVec.toNat_add, BitVec.toNat_setWidth]
  all_goals omega

/-- non-vacuity: the hypotheses are satisfiable at the LAST valid address and at an odd address -/
example : ∃ (m : Mem) (ea : BitVec 64), ea.toNat + 4 ≤ m.size ∧ ea.toNat % 2 = 1 ∧ ea.toNat + 4 = m.size :=
  ⟨⟨fun _ => 0, 65537⟩, BitVec.ofNat 64 65533, by decide⟩

end W2c2Verif.Props.C05
