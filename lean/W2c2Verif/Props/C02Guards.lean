/-
  Props.C02Guards — `trunc_guard_exact`: for ALL operand bit patterns each trapping truncation macro of
  w2c2_base.h (regenerated) equals the specification's trunc: NaN → invalid-conversion trap; a value whose
  truncation toward zero is not representable (incl. ±∞) → integer-overflow trap; otherwise the truncated
  integer — in particular the C cast is only ever evaluated on operands for which it is defined (no UB).
  The guards compare with the constants the macros name ((F32)INT32_MIN, 2147483648.f, -2147483649., …);
  the proof uses that these are integers (`Lemmas/Trunc.lean`) and, where the lower guard is `>=`, that the
  format has no value strictly between −2^k−1 and −2^k (mantissa shorter than k bits).
-/
import W2c2Verif.Props.C02
import W2c2Verif.Lemmas.TruncGuard
import W2c2Verif.Spec.Num

namespace W2c2Verif.Props.C02
open W2c2Verif


theorem cmin_i32_trunc_s_f32 : SF.decode SF.f32 (SF.ofInt SF.f32 (-2147483648) % 4294967296) = .fin true (1 <<< 23) (31 - 23) := by decide
theorem cmax_i32_trunc_s_f32 : SF.decode SF.f32 1325400064 = .fin false (1 <<< 23) (31 - 23) := by decide

theorem i32_trunc_s_f32_exact (x : BitVec 32) :
    Gen.m_I32_TRUNC_S_F32.call noDefs [.f32 x] = (Spec.truncTrap SF.f32 32 true x.toNat).map' CVal.u32 := by
  by_cases hnan : SF.isNaN SF.f32 x.toNat = true
  · rw [i32_trunc_s_f32_nan x hnan]; simp [Spec.truncTrap, hnan, Out.map']
  · have hnan' : SF.isNaN SF.f32 x.toNat = false := by simpa using hnan
    simp only [Gen.m_I32_TRUNC_S_F32]; csem_eval
    simp only [CPrim.cmpF, SF.eq_self, hnan', Spec.truncTrap]
    cases hd : SF.decode SF.f32 x.toNat with
    | nan => exact absurd ((SF.isNaN_iff_decode _ _).mpr hd) hnan
    | inf s =>
      have h1 := SF.ge_inf hd cmin_i32_trunc_s_f32
      have h2 := SF.lt_inf hd cmax_i32_trunc_s_f32
      simp [h1, h2, SF.truncToInt, hd, Out.map']
      cases s <;> simp
    | fin s m e =>
      have h1 := SF.ge_negconst' hd cmin_i32_trunc_s_f32 (by decide) (by decide) (by decide)
      have h2 := SF.lt_posconst' hd cmax_i32_trunc_s_f32 (by decide) (by decide)
      have ht := SF.truncToInt_fin hd
      simp only [ht]
      have hN1 : ((1 <<< Int.toNat 31 : Nat) : Int) = 2147483648 := by decide
      have hN2 : ((1 <<< Int.toNat 31 : Nat) : Int) = 2147483648 := by decide
      rw [hN1] at h1
      rw [hN2] at h2
      generalize SF.tval s (SF.truncMag m e) = t at *
      by_cases hlo : SF.ge SF.f32 x.toNat (SF.ofInt SF.f32 (-2147483648) % 4294967296) = true
      · by_cases hlt : SF.lt SF.f32 x.toNat 1325400064 = true
        · have b1 := h1.mp hlo
          have b2 := h2.mp hlt
          have hr : (-2147483648 : Int) ≤ t ∧ t ≤ 2147483647 := by omega
          simp [hlo, hlt, CVal.fromFloat, ht, CVal.tyRange, hr, CVal.ofIntTy, Out.map', CVal.fromInt, CVal.fromNat]
        · have b2 : ¬ t < 2147483648 := fun h => hlt (h2.mpr h)
          simp only [hlo, hlt, if_true, if_false, Out.map', Bool.false_eq_true, Bool.not_false, Bool.not_true]
          split <;> first | rfl | (exfalso; omega)
      · have b1 : ¬ (-2147483648 ≤ t) := fun h => hlo (h1.mpr h)
        simp only [hlo, if_false, if_true, Out.map', Bool.false_eq_true, Bool.not_false, Bool.not_true]
        split <;> first | rfl | (exfalso; omega)

theorem cmin_i64_trunc_s_f32 : SF.decode SF.f32 (SF.ofInt SF.f32 (-9223372036854775808) % 4294967296) = .fin true (1 <<< 23) (63 - 23) := by decide
theorem cmax_i64_trunc_s_f32 : SF.decode SF.f32 (SF.ofInt SF.f32 9223372036854775807 % 4294967296) = .fin false (1 <<< 23) (63 - 23) := by decide

theorem i64_trunc_s_f32_exact (x : BitVec 32) :
    Gen.m_I64_TRUNC_S_F32.call noDefs [.f32 x] = (Spec.truncTrap SF.f32 64 true x.toNat).map' CVal.u64 := by
  by_cases hnan : SF.isNaN SF.f32 x.toNat = true
  · rw [i64_trunc_s_f32_nan x hnan]; simp [Spec.truncTrap, hnan, Out.map']
  · have hnan' : SF.isNaN SF.f32 x.toNat = false := by simpa using hnan
    simp only [Gen.m_I64_TRUNC_S_F32]; csem_eval
    simp only [CPrim.cmpF, SF.eq_self, hnan', Spec.truncTrap]
    cases hd : SF.decode SF.f32 x.toNat with
    | nan => exact absurd ((SF.isNaN_iff_decode _ _).mpr hd) hnan
    | inf s =>
      have h1 := SF.ge_inf hd cmin_i64_trunc_s_f32
      have h2 := SF.lt_inf hd cmax_i64_trunc_s_f32
      simp [h1, h2, SF.truncToInt, hd, Out.map']
      cases s <;> simp
    | fin s m e =>
      have h1 := SF.ge_negconst' hd cmin_i64_trunc_s_f32 (by decide) (by decide) (by decide)
      have h2 := SF.lt_posconst' hd cmax_i64_trunc_s_f32 (by decide) (by decide)
      have ht := SF.truncToInt_fin hd
      simp only [ht]
      have hN1 : ((1 <<< Int.toNat 63 : Nat) : Int) = 9223372036854775808 := by decide
      have hN2 : ((1 <<< Int.toNat 63 : Nat) : Int) = 9223372036854775808 := by decide
      rw [hN1] at h1
      rw [hN2] at h2
      generalize SF.tval s (SF.truncMag m e) = t at *
      by_cases hlo : SF.ge SF.f32 x.toNat (SF.ofInt SF.f32 (-9223372036854775808) % 4294967296) = true
      · by_cases hlt : SF.lt SF.f32 x.toNat (SF.ofInt SF.f32 9223372036854775807 % 4294967296) = true
        · have b1 := h1.mp hlo
          have b2 := h2.mp hlt
          have hr : (-9223372036854775808 : Int) ≤ t ∧ t ≤ 9223372036854775807 := by omega
          simp [hlo, hlt, CVal.fromFloat, ht, CVal.tyRange, hr, CVal.ofIntTy, Out.map', CVal.fromInt, CVal.fromNat]
        · have b2 : ¬ t < 9223372036854775808 := fun h => hlt (h2.mpr h)
          simp only [hlo, hlt, if_true, if_false, Out.map', Bool.false_eq_true, Bool.not_false, Bool.not_true]
          split <;> first | rfl | (exfalso; omega)
      · have b1 : ¬ (-9223372036854775808 ≤ t) := fun h => hlo (h1.mpr h)
        simp only [hlo, if_false, if_true, Out.map', Bool.false_eq_true, Bool.not_false, Bool.not_true]
        split <;> first | rfl | (exfalso; omega)

theorem cmin_i32_trunc_s_f64 : SF.decode SF.f64 (SF.neg SF.f64 4746794007250599936 % 18446744073709551616) = .fin true (2147483649 <<< 21) (0 - 21) := by decide
theorem cmax_i32_trunc_s_f64 : SF.decode SF.f64 4746794007248502784 = .fin false (1 <<< 52) (31 - 52) := by decide

theorem i32_trunc_s_f64_exact (x : BitVec 64) :
    Gen.m_I32_TRUNC_S_F64.call noDefs [.f64 x] = (Spec.truncTrap SF.f64 32 true x.toNat).map' CVal.u32 := by
  by_cases hnan : SF.isNaN SF.f64 x.toNat = true
  · rw [i32_trunc_s_f64_nan x hnan]; simp [Spec.truncTrap, hnan, Out.map']
  · have hnan' : SF.isNaN SF.f64 x.toNat = false := by simpa using hnan
    simp only [Gen.m_I32_TRUNC_S_F64]; csem_eval
    simp only [CPrim.cmpF, SF.eq_self, hnan', Spec.truncTrap]
    cases hd : SF.decode SF.f64 x.toNat with
    | nan => exact absurd ((SF.isNaN_iff_decode _ _).mpr hd) hnan
    | inf s =>
      have h1 := SF.gt_inf hd cmin_i32_trunc_s_f64
      have h2 := SF.lt_inf hd cmax_i32_trunc_s_f64
      simp [h1, h2, SF.truncToInt, hd, Out.map']
      cases s <;> simp
    | fin s m e =>
      have h1 := SF.gt_negconst' hd cmin_i32_trunc_s_f64 (by decide) (by decide)
      have h2 := SF.lt_posconst' hd cmax_i32_trunc_s_f64 (by decide) (by decide)
      have ht := SF.truncToInt_fin hd
      simp only [ht]
      have hN1 : ((2147483649 <<< Int.toNat 0 : Nat) : Int) = 2147483649 := by decide
      have hN2 : ((1 <<< Int.toNat 31 : Nat) : Int) = 2147483648 := by decide
      rw [hN1] at h1
      rw [hN2] at h2
      generalize SF.tval s (SF.truncMag m e) = t at *
      by_cases hlo : SF.gt SF.f64 x.toNat (SF.neg SF.f64 4746794007250599936 % 18446744073709551616) = true
      · by_cases hlt : SF.lt SF.f64 x.toNat 4746794007248502784 = true
        · have b1 := h1.mp hlo
          have b2 := h2.mp hlt
          have hr : (-2147483648 : Int) ≤ t ∧ t ≤ 2147483647 := by omega
          simp [hlo, hlt, CVal.fromFloat, ht, CVal.tyRange, hr, CVal.ofIntTy, Out.map', CVal.fromInt, CVal.fromNat]
        · have b2 : ¬ t < 2147483648 := fun h => hlt (h2.mpr h)
          simp only [hlo, hlt, if_true, if_false, Out.map', Bool.false_eq_true, Bool.not_false, Bool.not_true]
          split <;> first | rfl | (exfalso; omega)
      · have b1 : ¬ (-2147483649 < t) := fun h => hlo (h1.mpr h)
        simp only [hlo, if_false, if_true, Out.map', Bool.false_eq_true, Bool.not_false, Bool.not_true]
        split <;> first | rfl | (exfalso; omega)

theorem cmin_i64_trunc_s_f64 : SF.decode SF.f64 (SF.ofInt SF.f64 (-9223372036854775808) % 18446744073709551616) = .fin true (1 <<< 52) (63 - 52) := by decide
theorem cmax_i64_trunc_s_f64 : SF.decode SF.f64 (SF.ofInt SF.f64 9223372036854775807 % 18446744073709551616) = .fin false (1 <<< 52) (63 - 52) := by decide

theorem i64_trunc_s_f64_exact (x : BitVec 64) :
    Gen.m_I64_TRUNC_S_F64.call noDefs [.f64 x] = (Spec.truncTrap SF.f64 64 true x.toNat).map' CVal.u64 := by
  by_cases hnan : SF.isNaN SF.f64 x.toNat = true
  · rw [i64_trunc_s_f64_nan x hnan]; simp [Spec.truncTrap, hnan, Out.map']
  · have hnan' : SF.isNaN SF.f64 x.toNat = false := by simpa using hnan
    simp only [Gen.m_I64_TRUNC_S_F64]; csem_eval
    simp only [CPrim.cmpF, SF.eq_self, hnan', Spec.truncTrap]
    cases hd : SF.decode SF.f64 x.toNat with
    | nan => exact absurd ((SF.isNaN_iff_decode _ _).mpr hd) hnan
    | inf s =>
      have h1 := SF.ge_inf hd cmin_i64_trunc_s_f64
      have h2 := SF.lt_inf hd cmax_i64_trunc_s_f64
      simp [h1, h2, SF.truncToInt, hd, Out.map']
      cases s <;> simp
    | fin s m e =>
      have h1 := SF.ge_negconst' hd cmin_i64_trunc_s_f64 (by decide) (by decide) (by decide)
      have h2 := SF.lt_posconst' hd cmax_i64_trunc_s_f64 (by decide) (by decide)
      have ht := SF.truncToInt_fin hd
      simp only [ht]
      have hN1 : ((1 <<< Int.toNat 63 : Nat) : Int) = 9223372036854775808 := by decide
      have hN2 : ((1 <<< Int.toNat 63 : Nat) : Int) = 9223372036854775808 := by decide
      rw [hN1] at h1
      rw [hN2] at h2
      generalize SF.tval s (SF.truncMag m e) = t at *
      by_cases hlo : SF.ge SF.f64 x.toNat (SF.ofInt SF.f64 (-9223372036854775808) % 18446744073709551616) = true
      · by_cases hlt : SF.lt SF.f64 x.toNat (SF.ofInt SF.f64 9223372036854775807 % 18446744073709551616) = true
        · have b1 := h1.mp hlo
          have b2 := h2.mp hlt
          have hr : (-9223372036854775808 : Int) ≤ t ∧ t ≤ 9223372036854775807 := by omega
          simp [hlo, hlt, CVal.fromFloat, ht, CVal.tyRange, hr, CVal.ofIntTy, Out.map', CVal.fromInt, CVal.fromNat]
        · have b2 : ¬ t < 9223372036854775808 := fun h => hlt (h2.mpr h)
          simp only [hlo, hlt, if_true, if_false, Out.map', Bool.false_eq_true, Bool.not_false, Bool.not_true]
          split <;> first | rfl | (exfalso; omega)
      · have b1 : ¬ (-9223372036854775808 ≤ t) := fun h => hlo (h1.mpr h)
        simp only [hlo, if_false, if_true, Out.map', Bool.false_eq_true, Bool.not_false, Bool.not_true]
        split <;> first | rfl | (exfalso; omega)

theorem cmin_i32_trunc_u_f32 : SF.decode SF.f32 (SF.ofInt SF.f32 (-1) % 4294967296) = .fin true (1 <<< 23) (0 - 23) := by decide
theorem cmax_i32_trunc_u_f32 : SF.decode SF.f32 1333788672 = .fin false (1 <<< 23) (32 - 23) := by decide

theorem i32_trunc_u_f32_exact (x : BitVec 32) :
    Gen.m_I32_TRUNC_U_F32.call noDefs [.f32 x] = (Spec.truncTrap SF.f32 32 false x.toNat).map' CVal.u32 := by
  by_cases hnan : SF.isNaN SF.f32 x.toNat = true
  · rw [i32_trunc_u_f32_nan x hnan]; simp [Spec.truncTrap, hnan, Out.map']
  · have hnan' : SF.isNaN SF.f32 x.toNat = false := by simpa using hnan
    simp only [Gen.m_I32_TRUNC_U_F32]; csem_eval
    simp only [CPrim.cmpF, SF.eq_self, hnan', Spec.truncTrap]
    cases hd : SF.decode SF.f32 x.toNat with
    | nan => exact absurd ((SF.isNaN_iff_decode _ _).mpr hd) hnan
    | inf s =>
      have h1 := SF.gt_inf hd cmin_i32_trunc_u_f32
      have h2 := SF.lt_inf hd cmax_i32_trunc_u_f32
      simp [h1, h2, SF.truncToInt, hd, Out.map']
      cases s <;> simp
    | fin s m e =>
      have h1 := SF.gt_negconst' hd cmin_i32_trunc_u_f32 (by decide) (by decide)
      have h2 := SF.lt_posconst' hd cmax_i32_trunc_u_f32 (by decide) (by decide)
      have ht := SF.truncToInt_fin hd
      simp only [ht]
      have hN1 : ((1 <<< Int.toNat 0 : Nat) : Int) = 1 := by decide
      have hN2 : ((1 <<< Int.toNat 32 : Nat) : Int) = 4294967296 := by decide
      rw [hN1] at h1
      rw [hN2] at h2
      generalize SF.tval s (SF.truncMag m e) = t at *
      by_cases hlo : SF.gt SF.f32 x.toNat (SF.ofInt SF.f32 (-1) % 4294967296) = true
      · by_cases hlt : SF.lt SF.f32 x.toNat 1333788672 = true
        · have b1 := h1.mp hlo
          have b2 := h2.mp hlt
          have hr : (0 : Int) ≤ t ∧ t ≤ 4294967295 := by omega
          simp [hlo, hlt, CVal.fromFloat, ht, CVal.tyRange, hr, CVal.ofIntTy, Out.map', CVal.fromInt, CVal.fromNat]
        · have b2 : ¬ t < 4294967296 := fun h => hlt (h2.mpr h)
          simp only [hlo, hlt, if_true, if_false, Out.map', Bool.false_eq_true, Bool.not_false, Bool.not_true]
          split <;> first | rfl | (exfalso; omega)
      · have b1 : ¬ (-1 < t) := fun h => hlo (h1.mpr h)
        simp only [hlo, if_false, if_true, Out.map', Bool.false_eq_true, Bool.not_false, Bool.not_true]
        split <;> first | rfl | (exfalso; omega)

theorem cmin_i64_trunc_u_f32 : SF.decode SF.f32 (SF.ofInt SF.f32 (-1) % 4294967296) = .fin true (1 <<< 23) (0 - 23) := by decide
theorem cmax_i64_trunc_u_f32 : SF.decode SF.f32 (SF.ofInt SF.f32 18446744073709551615 % 4294967296) = .fin false (1 <<< 23) (64 - 23) := by decide

theorem i64_trunc_u_f32_exact (x : BitVec 32) :
    Gen.m_I64_TRUNC_U_F32.call noDefs [.f32 x] = (Spec.truncTrap SF.f32 64 false x.toNat).map' CVal.u64 := by
  by_cases hnan : SF.isNaN SF.f32 x.toNat = true
  · rw [i64_trunc_u_f32_nan x hnan]; simp [Spec.truncTrap, hnan, Out.map']
  · have hnan' : SF.isNaN SF.f32 x.toNat = false := by simpa using hnan
    simp only [Gen.m_I64_TRUNC_U_F32]; csem_eval
    simp only [CPrim.cmpF, SF.eq_self, hnan', Spec.truncTrap]
    cases hd : SF.decode SF.f32 x.toNat with
    | nan => exact absurd ((SF.isNaN_iff_decode _ _).mpr hd) hnan
    | inf s =>
      have h1 := SF.gt_inf hd cmin_i64_trunc_u_f32
      have h2 := SF.lt_inf hd cmax_i64_trunc_u_f32
      simp [h1, h2, SF.truncToInt, hd, Out.map']
      cases s <;> simp
    | fin s m e =>
      have h1 := SF.gt_negconst' hd cmin_i64_trunc_u_f32 (by decide) (by decide)
      have h2 := SF.lt_posconst' hd cmax_i64_trunc_u_f32 (by decide) (by decide)
      have ht := SF.truncToInt_fin hd
      simp only [ht]
      have hN1 : ((1 <<< Int.toNat 0 : Nat) : Int) = 1 := by decide
      have hN2 : ((1 <<< Int.toNat 64 : Nat) : Int) = 18446744073709551616 := by decide
      rw [hN1] at h1
      rw [hN2] at h2
      generalize SF.tval s (SF.truncMag m e) = t at *
      by_cases hlo : SF.gt SF.f32 x.toNat (SF.ofInt SF.f32 (-1) % 4294967296) = true
      · by_cases hlt : SF.lt SF.f32 x.toNat (SF.ofInt SF.f32 18446744073709551615 % 4294967296) = true
        · have b1 := h1.mp hlo
          have b2 := h2.mp hlt
          have hr : (0 : Int) ≤ t ∧ t ≤ 18446744073709551615 := by omega
          simp [hlo, hlt, CVal.fromFloat, ht, CVal.tyRange, hr, CVal.ofIntTy, Out.map', CVal.fromInt, CVal.fromNat]
        · have b2 : ¬ t < 18446744073709551616 := fun h => hlt (h2.mpr h)
          simp only [hlo, hlt, if_true, if_false, Out.map', Bool.false_eq_true, Bool.not_false, Bool.not_true]
          split <;> first | rfl | (exfalso; omega)
      · have b1 : ¬ (-1 < t) := fun h => hlo (h1.mpr h)
        simp only [hlo, if_false, if_true, Out.map', Bool.false_eq_true, Bool.not_false, Bool.not_true]
        split <;> first | rfl | (exfalso; omega)

theorem cmin_i32_trunc_u_f64 : SF.decode SF.f64 (SF.ofInt SF.f64 (-1) % 18446744073709551616) = .fin true (1 <<< 52) (0 - 52) := by decide
theorem cmax_i32_trunc_u_f64 : SF.decode SF.f64 4751297606875873280 = .fin false (1 <<< 52) (32 - 52) := by decide

theorem i32_trunc_u_f64_exact (x : BitVec 64) :
    Gen.m_I32_TRUNC_U_F64.call noDefs [.f64 x] = (Spec.truncTrap SF.f64 32 false x.toNat).map' CVal.u32 := by
  by_cases hnan : SF.isNaN SF.f64 x.toNat = true
  · rw [i32_trunc_u_f64_nan x hnan]; simp [Spec.truncTrap, hnan, Out.map']
  · have hnan' : SF.isNaN SF.f64 x.toNat = false := by simpa using hnan
    simp only [Gen.m_I32_TRUNC_U_F64]; csem_eval
    simp only [CPrim.cmpF, SF.eq_self, hnan', Spec.truncTrap]
    cases hd : SF.decode SF.f64 x.toNat with
    | nan => exact absurd ((SF.isNaN_iff_decode _ _).mpr hd) hnan
    | inf s =>
      have h1 := SF.gt_inf hd cmin_i32_trunc_u_f64
      have h2 := SF.lt_inf hd cmax_i32_trunc_u_f64
      simp [h1, h2, SF.truncToInt, hd, Out.map']
      cases s <;> simp
    | fin s m e =>
      have h1 := SF.gt_negconst' hd cmin_i32_trunc_u_f64 (by decide) (by decide)
      have h2 := SF.lt_posconst' hd cmax_i32_trunc_u_f64 (by decide) (by decide)
      have ht := SF.truncToInt_fin hd
      simp only [ht]
      have hN1 : ((1 <<< Int.toNat 0 : Nat) : Int) = 1 := by decide
      have hN2 : ((1 <<< Int.toNat 32 : Nat) : Int) = 4294967296 := by decide
      rw [hN1] at h1
      rw [hN2] at h2
      generalize SF.tval s (SF.truncMag m e) = t at *
      by_cases hlo : SF.gt SF.f64 x.toNat (SF.ofInt SF.f64 (-1) % 18446744073709551616) = true
      · by_cases hlt : SF.lt SF.f64 x.toNat 4751297606875873280 = true
        · have b1 := h1.mp hlo
          have b2 := h2.mp hlt
          have hr : (0 : Int) ≤ t ∧ t ≤ 4294967295 := by omega
          simp [hlo, hlt, CVal.fromFloat, ht, CVal.tyRange, hr, CVal.ofIntTy, Out.map', CVal.fromInt, CVal.fromNat]
        · have b2 : ¬ t < 4294967296 := fun h => hlt (h2.mpr h)
          simp only [hlo, hlt, if_true, if_false, Out.map', Bool.false_eq_true, Bool.not_false, Bool.not_true]
          split <;> first | rfl | (exfalso; omega)
      · have b1 : ¬ (-1 < t) := fun h => hlo (h1.mpr h)
        simp only [hlo, if_false, if_true, Out.map', Bool.false_eq_true, Bool.not_false, Bool.not_true]
        split <;> first | rfl | (exfalso; omega)

theorem cmin_i64_trunc_u_f64 : SF.decode SF.f64 (SF.ofInt SF.f64 (-1) % 18446744073709551616) = .fin true (1 <<< 52) (0 - 52) := by decide
theorem cmax_i64_trunc_u_f64 : SF.decode SF.f64 (SF.ofInt SF.f64 18446744073709551615 % 18446744073709551616) = .fin false (1 <<< 52) (64 - 52) := by decide

theorem i64_trunc_u_f64_exact (x : BitVec 64) :
    Gen.m_I64_TRUNC_U_F64.call noDefs [.f64 x] = (Spec.truncTrap SF.f64 64 false x.toNat).map' CVal.u64 := by
  by_cases hnan : SF.isNaN SF.f64 x.toNat = true
  · rw [i64_trunc_u_f64_nan x hnan]; simp [Spec.truncTrap, hnan, Out.map']
  · have hnan' : SF.isNaN SF.f64 x.toNat = false := by simpa using hnan
    simp only [Gen.m_I64_TRUNC_U_F64]; csem_eval
    simp only [CPrim.cmpF, SF.eq_self, hnan', Spec.truncTrap]
    cases hd : SF.decode SF.f64 x.toNat with
    | nan => exact absurd ((SF.isNaN_iff_decode _ _).mpr hd) hnan
    | inf s =>
      have h1 := SF.gt_inf hd cmin_i64_trunc_u_f64
      have h2 := SF.lt_inf hd cmax_i64_trunc_u_f64
      simp [h1, h2, SF.truncToInt, hd, Out.map']
      cases s <;> simp
    | fin s m e =>
      have h1 := SF.gt_negconst' hd cmin_i64_trunc_u_f64 (by decide) (by decide)
      have h2 := SF.lt_posconst' hd cmax_i64_trunc_u_f64 (by decide) (by decide)
      have ht := SF.truncToInt_fin hd
      simp only [ht]
      have hN1 : ((1 <<< Int.toNat 0 : Nat) : Int) = 1 := by decide
      have hN2 : ((1 <<< Int.toNat 64 : Nat) : Int) = 18446744073709551616 := by decide
      rw [hN1] at h1
      rw [hN2] at h2
      generalize SF.tval s (SF.truncMag m e) = t at *
      by_cases hlo : SF.gt SF.f64 x.toNat (SF.ofInt SF.f64 (-1) % 18446744073709551616) = true
      · by_cases hlt : SF.lt SF.f64 x.toNat (SF.ofInt SF.f64 18446744073709551615 % 18446744073709551616) = true
        · have b1 := h1.mp hlo
          have b2 := h2.mp hlt
          have hr : (0 : Int) ≤ t ∧ t ≤ 18446744073709551615 := by omega
          simp [hlo, hlt, CVal.fromFloat, ht, CVal.tyRange, hr, CVal.ofIntTy, Out.map', CVal.fromInt, CVal.fromNat]
        · have b2 : ¬ t < 18446744073709551616 := fun h => hlt (h2.mpr h)
          simp only [hlo, hlt, if_true, if_false, Out.map', Bool.false_eq_true, Bool.not_false, Bool.not_true]
          split <;> first | rfl | (exfalso; omega)
      · have b1 : ¬ (-1 < t) := fun h => hlo (h1.mpr h)
        simp only [hlo, if_false, if_true, Out.map', Bool.false_eq_true, Bool.not_false, Bool.not_true]
        split <;> first | rfl | (exfalso; omega)

theorem i32_trunc_sat_s_f32_exact (x : BitVec 32) :
    (Gen.m_I32_TRUNC_SAT_S_F32.call noDefs [.f32 x] >>= CVal.castInt .u32) = .val (.u32 (Spec.truncSat SF.f32 32 true x.toNat)) := by
  by_cases hnan : SF.isNaN SF.f32 x.toNat = true
  · rw [i32_trunc_sat_s_f32_nan x hnan]; simp [Spec.truncSat, hnan]
  · have hnan' : SF.isNaN SF.f32 x.toNat = false := by simpa using hnan
    simp only [Gen.m_I32_TRUNC_SAT_S_F32]; csem_eval
    simp only [CPrim.cmpF, SF.eq_self, hnan', Spec.truncSat]
    cases hd : SF.decode SF.f32 x.toNat with
    | nan => exact absurd ((SF.isNaN_iff_decode _ _).mpr hd) hnan
    | inf s =>
      have h1 := SF.ge_inf hd cmin_i32_trunc_s_f32
      have h2 := SF.lt_inf hd cmax_i32_trunc_s_f32
      cases s <;> simp [h1, h2] <;> decide
    | fin s m e =>
      have h1 := SF.ge_negconst' hd cmin_i32_trunc_s_f32 (by decide) (by decide) (by decide)
      have h2 := SF.lt_posconst' hd cmax_i32_trunc_s_f32 (by decide) (by decide)
      have ht := SF.truncToInt_fin hd
      simp only [ht]
      have hN1 : ((1 <<< Int.toNat 31 : Nat) : Int) = 2147483648 := by decide
      have hN2 : ((1 <<< Int.toNat 31 : Nat) : Int) = 2147483648 := by decide
      rw [hN1] at h1
      rw [hN2] at h2
      generalize SF.tval s (SF.truncMag m e) = t at *
      by_cases hlo : SF.ge SF.f32 x.toNat (SF.ofInt SF.f32 (-2147483648) % 4294967296) = true
      · by_cases hlt : SF.lt SF.f32 x.toNat 1325400064 = true
        · have b1 := h1.mp hlo
          have b2 := h2.mp hlt
          have hr : (-2147483648 : Int) ≤ t ∧ t ≤ 2147483647 := by omega
          have c1 : ¬ t < -2147483648 := by omega
          have c2 : ¬ t > 2147483647 := by omega
          simp [hlo, hlt, CVal.fromFloat, ht, CVal.tyRange, hr, CVal.ofIntTy, CVal.fromInt, CVal.fromNat, c1, c2]
        · have b1 := h1.mp hlo
          have b2 : ¬ t < 2147483648 := fun h => hlt (h2.mpr h)
          have c1 : ¬ t < -2147483648 := by omega
          have c2 : t > 2147483647 := by omega
          simp [hlo, hlt, c1, c2]
          try decide
      · have b1 : ¬ (-2147483648 ≤ t) := fun h => hlo (h1.mpr h)
        have c1 : t < -2147483648 := by omega
        simp [hlo, c1]
        try decide

theorem i64_trunc_sat_s_f32_exact (x : BitVec 32) :
    (Gen.m_I64_TRUNC_SAT_S_F32.call noDefs [.f32 x] >>= CVal.castInt .u64) = .val (.u64 (Spec.truncSat SF.f32 64 true x.toNat)) := by
  by_cases hnan : SF.isNaN SF.f32 x.toNat = true
  · rw [i64_trunc_sat_s_f32_nan x hnan]; simp [Spec.truncSat, hnan]
  · have hnan' : SF.isNaN SF.f32 x.toNat = false := by simpa using hnan
    simp only [Gen.m_I64_TRUNC_SAT_S_F32]; csem_eval
    simp only [CPrim.cmpF, SF.eq_self, hnan', Spec.truncSat]
    cases hd : SF.decode SF.f32 x.toNat with
    | nan => exact absurd ((SF.isNaN_iff_decode _ _).mpr hd) hnan
    | inf s =>
      have h1 := SF.ge_inf hd cmin_i64_trunc_s_f32
      have h2 := SF.lt_inf hd cmax_i64_trunc_s_f32
      cases s <;> simp [h1, h2] <;> decide
    | fin s m e =>
      have h1 := SF.ge_negconst' hd cmin_i64_trunc_s_f32 (by decide) (by decide) (by decide)
      have h2 := SF.lt_posconst' hd cmax_i64_trunc_s_f32 (by decide) (by decide)
      have ht := SF.truncToInt_fin hd
      simp only [ht]
      have hN1 : ((1 <<< Int.toNat 63 : Nat) : Int) = 9223372036854775808 := by decide
      have hN2 : ((1 <<< Int.toNat 63 : Nat) : Int) = 9223372036854775808 := by decide
      rw [hN1] at h1
      rw [hN2] at h2
      generalize SF.tval s (SF.truncMag m e) = t at *
      by_cases hlo : SF.ge SF.f32 x.toNat (SF.ofInt SF.f32 (-9223372036854775808) % 4294967296) = true
      · by_cases hlt : SF.lt SF.f32 x.toNat (SF.ofInt SF.f32 9223372036854775807 % 4294967296) = true
        · have b1 := h1.mp hlo
          have b2 := h2.mp hlt
          have hr : (-9223372036854775808 : Int) ≤ t ∧ t ≤ 9223372036854775807 := by omega
          have c1 : ¬ t < -9223372036854775808 := by omega
          have c2 : ¬ t > 9223372036854775807 := by omega
          simp [hlo, hlt, CVal.fromFloat, ht, CVal.tyRange, hr, CVal.ofIntTy, CVal.fromInt, CVal.fromNat, c1, c2]
        · have b1 := h1.mp hlo
          have b2 : ¬ t < 9223372036854775808 := fun h => hlt (h2.mpr h)
          have c1 : ¬ t < -9223372036854775808 := by omega
          have c2 : t > 9223372036854775807 := by omega
          simp [hlo, hlt, c1, c2]
          try decide
      · have b1 : ¬ (-9223372036854775808 ≤ t) := fun h => hlo (h1.mpr h)
        have c1 : t < -9223372036854775808 := by omega
        simp [hlo, c1]
        try decide

theorem i32_trunc_sat_s_f64_exact (x : BitVec 64) :
    (Gen.m_I32_TRUNC_SAT_S_F64.call noDefs [.f64 x] >>= CVal.castInt .u32) = .val (.u32 (Spec.truncSat SF.f64 32 true x.toNat)) := by
  by_cases hnan : SF.isNaN SF.f64 x.toNat = true
  · rw [i32_trunc_sat_s_f64_nan x hnan]; simp [Spec.truncSat, hnan]
  · have hnan' : SF.isNaN SF.f64 x.toNat = false := by simpa using hnan
    simp only [Gen.m_I32_TRUNC_SAT_S_F64]; csem_eval
    simp only [CPrim.cmpF, SF.eq_self, hnan', Spec.truncSat]
    cases hd : SF.decode SF.f64 x.toNat with
    | nan => exact absurd ((SF.isNaN_iff_decode _ _).mpr hd) hnan
    | inf s =>
      have h1 := SF.gt_inf hd cmin_i32_trunc_s_f64
      have h2 := SF.lt_inf hd cmax_i32_trunc_s_f64
      cases s <;> simp [h1, h2] <;> decide
    | fin s m e =>
      have h1 := SF.gt_negconst' hd cmin_i32_trunc_s_f64 (by decide) (by decide)
      have h2 := SF.lt_posconst' hd cmax_i32_trunc_s_f64 (by decide) (by decide)
      have ht := SF.truncToInt_fin hd
      simp only [ht]
      have hN1 : ((2147483649 <<< Int.toNat 0 : Nat) : Int) = 2147483649 := by decide
      have hN2 : ((1 <<< Int.toNat 31 : Nat) : Int) = 2147483648 := by decide
      rw [hN1] at h1
      rw [hN2] at h2
      generalize SF.tval s (SF.truncMag m e) = t at *
      by_cases hlo : SF.gt SF.f64 x.toNat (SF.neg SF.f64 4746794007250599936 % 18446744073709551616) = true
      · by_cases hlt : SF.lt SF.f64 x.toNat 4746794007248502784 = true
        · have b1 := h1.mp hlo
          have b2 := h2.mp hlt
          have hr : (-2147483648 : Int) ≤ t ∧ t ≤ 2147483647 := by omega
          have c1 : ¬ t < -2147483648 := by omega
          have c2 : ¬ t > 2147483647 := by omega
          simp [hlo, hlt, CVal.fromFloat, ht, CVal.tyRange, hr, CVal.ofIntTy, CVal.fromInt, CVal.fromNat, c1, c2]
        · have b1 := h1.mp hlo
          have b2 : ¬ t < 2147483648 := fun h => hlt (h2.mpr h)
          have c1 : ¬ t < -2147483648 := by omega
          have c2 : t > 2147483647 := by omega
          simp [hlo, hlt, c1, c2]
          try decide
      · have b1 : ¬ (-2147483649 < t) := fun h => hlo (h1.mpr h)
        have c1 : t < -2147483648 := by omega
        simp [hlo, c1]
        try decide

theorem i64_trunc_sat_s_f64_exact (x : BitVec 64) :
    (Gen.m_I64_TRUNC_SAT_S_F64.call noDefs [.f64 x] >>= CVal.castInt .u64) = .val (.u64 (Spec.truncSat SF.f64 64 true x.toNat)) := by
  by_cases hnan : SF.isNaN SF.f64 x.toNat = true
  · rw [i64_trunc_sat_s_f64_nan x hnan]; simp [Spec.truncSat, hnan]
  · have hnan' : SF.isNaN SF.f64 x.toNat = false := by simpa using hnan
    simp only [Gen.m_I64_TRUNC_SAT_S_F64]; csem_eval
    simp only [CPrim.cmpF, SF.eq_self, hnan', Spec.truncSat]
    cases hd : SF.decode SF.f64 x.toNat with
    | nan => exact absurd ((SF.isNaN_iff_decode _ _).mpr hd) hnan
    | inf s =>
      have h1 := SF.ge_inf hd cmin_i64_trunc_s_f64
      have h2 := SF.lt_inf hd cmax_i64_trunc_s_f64
      cases s <;> simp [h1, h2] <;> decide
    | fin s m e =>
      have h1 := SF.ge_negconst' hd cmin_i64_trunc_s_f64 (by decide) (by decide) (by decide)
      have h2 := SF.lt_posconst' hd cmax_i64_trunc_s_f64 (by decide) (by decide)
      have ht := SF.truncToInt_fin hd
      simp only [ht]
      have hN1 : ((1 <<< Int.toNat 63 : Nat) : Int) = 9223372036854775808 := by decide
      have hN2 : ((1 <<< Int.toNat 63 : Nat) : Int) = 9223372036854775808 := by decide
      rw [hN1] at h1
      rw [hN2] at h2
      generalize SF.tval s (SF.truncMag m e) = t at *
      by_cases hlo : SF.ge SF.f64 x.toNat (SF.ofInt SF.f64 (-9223372036854775808) % 18446744073709551616) = true
      · by_cases hlt : SF.lt SF.f64 x.toNat (SF.ofInt SF.f64 9223372036854775807 % 18446744073709551616) = true
        · have b1 := h1.mp hlo
          have b2 := h2.mp hlt
          have hr : (-9223372036854775808 : Int) ≤ t ∧ t ≤ 9223372036854775807 := by omega
          have c1 : ¬ t < -9223372036854775808 := by omega
          have c2 : ¬ t > 9223372036854775807 := by omega
          simp [hlo, hlt, CVal.fromFloat, ht, CVal.tyRange, hr, CVal.ofIntTy, CVal.fromInt, CVal.fromNat, c1, c2]
        · have b1 := h1.mp hlo
          have b2 : ¬ t < 9223372036854775808 := fun h => hlt (h2.mpr h)
          have c1 : ¬ t < -9223372036854775808 := by omega
          have c2 : t > 9223372036854775807 := by omega
          simp [hlo, hlt, c1, c2]
          try decide
      · have b1 : ¬ (-9223372036854775808 ≤ t) := fun h => hlo (h1.mpr h)
        have c1 : t < -9223372036854775808 := by omega
        simp [hlo, c1]
        try decide

theorem i32_trunc_sat_u_f32_exact (x : BitVec 32) :
    (Gen.m_I32_TRUNC_SAT_U_F32.call noDefs [.f32 x] >>= CVal.castInt .u32) = .val (.u32 (Spec.truncSat SF.f32 32 false x.toNat)) := by
  by_cases hnan : SF.isNaN SF.f32 x.toNat = true
  · rw [i32_trunc_sat_u_f32_nan x hnan]; simp [Spec.truncSat, hnan]
  · have hnan' : SF.isNaN SF.f32 x.toNat = false := by simpa using hnan
    simp only [Gen.m_I32_TRUNC_SAT_U_F32]; csem_eval
    simp only [CPrim.cmpF, SF.eq_self, hnan', Spec.truncSat]
    cases hd : SF.decode SF.f32 x.toNat with
    | nan => exact absurd ((SF.isNaN_iff_decode _ _).mpr hd) hnan
    | inf s =>
      have h1 := SF.gt_inf hd cmin_i32_trunc_u_f32
      have h2 := SF.lt_inf hd cmax_i32_trunc_u_f32
      cases s <;> simp [h1, h2] <;> decide
    | fin s m e =>
      have h1 := SF.gt_negconst' hd cmin_i32_trunc_u_f32 (by decide) (by decide)
      have h2 := SF.lt_posconst' hd cmax_i32_trunc_u_f32 (by decide) (by decide)
      have ht := SF.truncToInt_fin hd
      simp only [ht]
      have hN1 : ((1 <<< Int.toNat 0 : Nat) : Int) = 1 := by decide
      have hN2 : ((1 <<< Int.toNat 32 : Nat) : Int) = 4294967296 := by decide
      rw [hN1] at h1
      rw [hN2] at h2
      generalize SF.tval s (SF.truncMag m e) = t at *
      by_cases hlo : SF.gt SF.f32 x.toNat (SF.ofInt SF.f32 (-1) % 4294967296) = true
      · by_cases hlt : SF.lt SF.f32 x.toNat 1333788672 = true
        · have b1 := h1.mp hlo
          have b2 := h2.mp hlt
          have hr : (0 : Int) ≤ t ∧ t ≤ 4294967295 := by omega
          have c1 : ¬ t < 0 := by omega
          have c2 : ¬ t > 4294967295 := by omega
          simp [hlo, hlt, CVal.fromFloat, ht, CVal.tyRange, hr, CVal.ofIntTy, CVal.fromInt, CVal.fromNat, c1, c2]
        · have b1 := h1.mp hlo
          have b2 : ¬ t < 4294967296 := fun h => hlt (h2.mpr h)
          have c1 : ¬ t < 0 := by omega
          have c2 : t > 4294967295 := by omega
          simp [hlo, hlt, c1, c2]
          try decide
      · have b1 : ¬ (-1 < t) := fun h => hlo (h1.mpr h)
        have c1 : t < 0 := by omega
        simp [hlo, c1]
        try decide

theorem i64_trunc_sat_u_f32_exact (x : BitVec 32) :
    (Gen.m_I64_TRUNC_SAT_U_F32.call noDefs [.f32 x] >>= CVal.castInt .u64) = .val (.u64 (Spec.truncSat SF.f32 64 false x.toNat)) := by
  by_cases hnan : SF.isNaN SF.f32 x.toNat = true
  · rw [i64_trunc_sat_u_f32_nan x hnan]; simp [Spec.truncSat, hnan]
  · have hnan' : SF.isNaN SF.f32 x.toNat = false := by simpa using hnan
    simp only [Gen.m_I64_TRUNC_SAT_U_F32]; csem_eval
    simp only [CPrim.cmpF, SF.eq_self, hnan', Spec.truncSat]
    cases hd : SF.decode SF.f32 x.toNat with
    | nan => exact absurd ((SF.isNaN_iff_decode _ _).mpr hd) hnan
    | inf s =>
      have h1 := SF.gt_inf hd cmin_i64_trunc_u_f32
      have h2 := SF.lt_inf hd cmax_i64_trunc_u_f32
      cases s <;> simp [h1, h2] <;> decide
    | fin s m e =>
      have h1 := SF.gt_negconst' hd cmin_i64_trunc_u_f32 (by decide) (by decide)
      have h2 := SF.lt_posconst' hd cmax_i64_trunc_u_f32 (by decide) (by decide)
      have ht := SF.truncToInt_fin hd
      simp only [ht]
      have hN1 : ((1 <<< Int.toNat 0 : Nat) : Int) = 1 := by decide
      have hN2 : ((1 <<< Int.toNat 64 : Nat) : Int) = 18446744073709551616 := by decide
      rw [hN1] at h1
      rw [hN2] at h2
      generalize SF.tval s (SF.truncMag m e) = t at *
      by_cases hlo : SF.gt SF.f32 x.toNat (SF.ofInt SF.f32 (-1) % 4294967296) = true
      · by_cases hlt : SF.lt SF.f32 x.toNat (SF.ofInt SF.f32 18446744073709551615 % 4294967296) = true
        · have b1 := h1.mp hlo
          have b2 := h2.mp hlt
          have hr : (0 : Int) ≤ t ∧ t ≤ 18446744073709551615 := by omega
          have c1 : ¬ t < 0 := by omega
          have c2 : ¬ t > 18446744073709551615 := by omega
          simp [hlo, hlt, CVal.fromFloat, ht, CVal.tyRange, hr, CVal.ofIntTy, CVal.fromInt, CVal.fromNat, c1, c2]
        · have b1 := h1.mp hlo
          have b2 : ¬ t < 18446744073709551616 := fun h => hlt (h2.mpr h)
          have c1 : ¬ t < 0 := by omega
          have c2 : t > 18446744073709551615 := by omega
          simp [hlo, hlt, c1, c2]
          try decide
      · have b1 : ¬ (-1 < t) := fun h => hlo (h1.mpr h)
        have c1 : t < 0 := by omega
        simp [hlo, c1]
        try decide

theorem i32_trunc_sat_u_f64_exact (x : BitVec 64) :
    (Gen.m_I32_TRUNC_SAT_U_F64.call noDefs [.f64 x] >>= CVal.castInt .u32) = .val (.u32 (Spec.truncSat SF.f64 32 false x.toNat)) := by
  by_cases hnan : SF.isNaN SF.f64 x.toNat = true
  · rw [i32_trunc_sat_u_f64_nan x hnan]; simp [Spec.truncSat, hnan]
  · have hnan' : SF.isNaN SF.f64 x.toNat = false := by simpa using hnan
    simp only [Gen.m_I32_TRUNC_SAT_U_F64]; csem_eval
    simp only [CPrim.cmpF, SF.eq_self, hnan', Spec.truncSat]
    cases hd : SF.decode SF.f64 x.toNat with
    | nan => exact absurd ((SF.isNaN_iff_decode _ _).mpr hd) hnan
    | inf s =>
      have h1 := SF.gt_inf hd cmin_i32_trunc_u_f64
      have h2 := SF.lt_inf hd cmax_i32_trunc_u_f64
      cases s <;> simp [h1, h2] <;> decide
    | fin s m e =>
      have h1 := SF.gt_negconst' hd cmin_i32_trunc_u_f64 (by decide) (by decide)
      have h2 := SF.lt_posconst' hd cmax_i32_trunc_u_f64 (by decide) (by decide)
      have ht := SF.truncToInt_fin hd
      simp only [ht]
      have hN1 : ((1 <<< Int.toNat 0 : Nat) : Int) = 1 := by decide
      have hN2 : ((1 <<< Int.toNat 32 : Nat) : Int) = 4294967296 := by decide
      rw [hN1] at h1
      rw [hN2] at h2
      generalize SF.tval s (SF.truncMag m e) = t at *
      by_cases hlo : SF.gt SF.f64 x.toNat (SF.ofInt SF.f64 (-1) % 18446744073709551616) = true
      · by_cases hlt : SF.lt SF.f64 x.toNat 4751297606875873280 = true
        · have b1 := h1.mp hlo
          have b2 := h2.mp hlt
          have hr : (0 : Int) ≤ t ∧ t ≤ 4294967295 := by omega
          have c1 : ¬ t < 0 := by omega
          have c2 : ¬ t > 4294967295 := by omega
          simp [hlo, hlt, CVal.fromFloat, ht, CVal.tyRange, hr, CVal.ofIntTy, CVal.fromInt, CVal.fromNat, c1, c2]
        · have b1 := h1.mp hlo
          have b2 : ¬ t < 4294967296 := fun h => hlt (h2.mpr h)
          have c1 : ¬ t < 0 := by omega
          have c2 : t > 4294967295 := by omega
          simp [hlo, hlt, c1, c2]
          try decide
      · have b1 : ¬ (-1 < t) := fun h => hlo (h1.mpr h)
        have c1 : t < 0 := by omega
        simp [hlo, c1]
        try decide

theorem i64_trunc_sat_u_f64_exact (x : BitVec 64) :
    (Gen.m_I64_TRUNC_SAT_U_F64.call noDefs [.f64 x] >>= CVal.castInt .u64) = .val (.u64 (Spec.truncSat SF.f64 64 false x.toNat)) := by
  by_cases hnan : SF.isNaN SF.f64 x.toNat = true
  · rw [i64_trunc_sat_u_f64_nan x hnan]; simp [Spec.truncSat, hnan]
  · have hnan' : SF.isNaN SF.f64 x.toNat = false := by simpa using hnan
    simp only [Gen.m_I64_TRUNC_SAT_U_F64]; csem_eval
    simp only [CPrim.cmpF, SF.eq_self, hnan', Spec.truncSat]
    cases hd : SF.decode SF.f64 x.toNat with
    | nan => exact absurd ((SF.isNaN_iff_decode _ _).mpr hd) hnan
    | inf s =>
      have h1 := SF.gt_inf hd cmin_i64_trunc_u_f64
      have h2 := SF.lt_inf hd cmax_i64_trunc_u_f64
      cases s <;> simp [h1, h2] <;> decide
    | fin s m e =>
      have h1 := SF.gt_negconst' hd cmin_i64_trunc_u_f64 (by decide) (by decide)
      have h2 := SF.lt_posconst' hd cmax_i64_trunc_u_f64 (by decide) (by decide)
      have ht := SF.truncToInt_fin hd
      simp only [ht]
      have hN1 : ((1 <<< Int.toNat 0 : Nat) : Int) = 1 := by decide
      have hN2 : ((1 <<< Int.toNat 64 : Nat) : Int) = 18446744073709551616 := by decide
      rw [hN1] at h1
      rw [hN2] at h2
      generalize SF.tval s (SF.truncMag m e) = t at *
      by_cases hlo : SF.gt SF.f64 x.toNat (SF.ofInt SF.f64 (-1) % 18446744073709551616) = true
      · by_cases hlt : SF.lt SF.f64 x.toNat (SF.ofInt SF.f64 18446744073709551615 % 18446744073709551616) = true
        · have b1 := h1.mp hlo
          have b2 := h2.mp hlt
          have hr : (0 : Int) ≤ t ∧ t ≤ 18446744073709551615 := by omega
          have c1 : ¬ t < 0 := by omega
          have c2 : ¬ t > 18446744073709551615 := by omega
          simp [hlo, hlt, CVal.fromFloat, ht, CVal.tyRange, hr, CVal.ofIntTy, CVal.fromInt, CVal.fromNat, c1, c2]
        · have b1 := h1.mp hlo
          have b2 : ¬ t < 18446744073709551616 := fun h => hlt (h2.mpr h)
          have c1 : ¬ t < 0 := by omega
          have c2 : t > 18446744073709551615 := by omega
          simp [hlo, hlt, c1, c2]
          try decide
      · have b1 : ¬ (-1 < t) := fun h => hlo (h1.mpr h)
        have c1 : t < 0 := by omega
        simp [hlo, c1]
        try decide

/-- non-vacuity: both sides of every boundary -/
example : Gen.m_I32_TRUNC_S_F32.call noDefs [.f32 0xcf000000] = .val (.u32 0x80000000) ∧      -- −2^31 → INT_MIN
          Gen.m_I32_TRUNC_S_F32.call noDefs [.f32 0x4f000000] = .trap .intOverflow ∧          -- 2^31 traps
          Gen.m_I32_TRUNC_U_F32.call noDefs [.f32 0xbf7fffff] = .val (.u32 0) ∧               -- −0.99999994 → 0
          Gen.m_I32_TRUNC_U_F32.call noDefs [.f32 0xbf800000] = .trap .intOverflow := by      -- −1 traps
  refine ⟨?_, ?_, ?_, ?_⟩
  · rw [i32_trunc_s_f32_exact]; decide
  · rw [i32_trunc_s_f32_exact]; decide
  · rw [i32_trunc_u_f32_exact]; decide
  · rw [i32_trunc_u_f32_exact]; decide

end W2c2Verif.Props.C02
