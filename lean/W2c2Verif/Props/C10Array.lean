/-
  Props.C10Array — the contract of the growable arrays every caller in w2c2 relies on (C10: no out-of-bounds
  store), proved about the capacity computation REGENERATED from array.c / array.h / stringbuilder.c
  (`Gen.Array`, given meaning by `Model.Array`):

    after a successful `EnsureCapacity(array, length)` the capacity field is ≥ `length`, it never shrinks, the
    block really has `capacity` element slots, and the existing elements are where they were
    (`realloc` contract assumed: the common prefix of old and new block is preserved).

  `size_t` is modelled modulo `M`; the C code has NO overflow guard on `length + capacity/2` nor on
  `newCapacity * itemSize`, so the contract is stated under the explicit no-wrap hypothesis `NoWrap`, which is
  then shown to hold for everything reachable on an LP64 host (`no_wrap_lp64`).  `realloc_size_wraps_ilp32`
  records that on a 32-bit `size_t` the multiplication can wrap (for a module with 2^30 functions — more than a
  32-bit address space can hold, hence not reachable; reported, not hidden).

  A growth policy that ignores `length` (e.g. `capacity + capacity/2`, floor 8) regenerates a different
  `Gen.Array.slowPathGrowth` for which `growth_eq` — and with it the whole file — no longer checks.
-/
import W2c2Verif.Model.Array

namespace W2c2Verif.Props.C10Array
open W2c2Verif.Model.Array W2c2Verif.Gen.Array

/-- the arithmetic of the slow path does not wrap: neither the capacity nor the byte count -/
def NoWrap (M length capacity itemSize : Nat) : Prop :=
  1 < M ∧ length + capacity / 2 < M ∧ (length + capacity / 2) * itemSize < M

/-- **growth_eq**: what the regenerated statements of `arrayEnsureCapacitySlowPath` compute. -/
theorem growth_eq (M length capacity itemSize : Nat) (hM : 1 < M) (hl : length < M) (hc : capacity < M) :
    newCapacity M length capacity itemSize = (length + capacity / 2) % M := by
  have h1 : 1 % M = 1 := Nat.mod_eq_of_lt hM
  simp [newCapacity, runGrowth, slowPathGrowth, step, eval, h1, Nat.shiftRight_eq_div_pow]

/-- **growth_ge_length**: the new capacity covers the requested length (this is the line a "geometric growth
    only" rewrite breaks). -/
theorem growth_ge_length (M length capacity itemSize : Nat) (h : NoWrap M length capacity itemSize)
    (hl : length < M) (hc : capacity < M) :
    length ≤ newCapacity M length capacity itemSize ∧ capacity / 2 ≤ newCapacity M length capacity itemSize ∧
    newCapacity M length capacity itemSize = length + capacity / 2 := by
  rw [growth_eq M length capacity itemSize h.1 hl hc, Nat.mod_eq_of_lt h.2.1]
  omega

theorem realloc_bytes_eq (M nc itemSize : Nat) (h : nc * itemSize < M) : reallocBytes M nc itemSize = nc * itemSize := by
  simp [reallocBytes, slowPathReallocBytes, eval, Nat.mod_eq_of_lt h]

theorem resize_length {α : Type} (l : List (Option α)) (n : Nat) : (resize l n).length = n := by
  unfold resize
  rw [List.length_take, List.length_append, List.length_replicate]; omega

theorem resize_prefix {α : Type} (l : List (Option α)) (n : Nat) (h : l.length ≤ n) : l <+: resize l n := by
  unfold resize
  rw [List.take_append, List.take_of_length_le h]
  exact List.prefix_append _ _

/-- **ensure_capacity_contract** — for every capacity, requested length and element size (no wrap-around, see
    `no_wrap_lp64`): a successful `arrayEnsureCapacity` leaves a block whose capacity field is ≥ the requested
    length and ≥ the old capacity, which really has that many slots, and which starts with the old block
    (every existing element is preserved at its index). -/
theorem ensure_capacity_contract {α : Type} (M itemSize : Nat) (allocOk : Bool) (b b' : Block α) (length : Nat)
    (hwf : b.WF) (hl : length < M) (hc : b.capacity < M) (hi : 0 < itemSize)
    (hnw : b.capacity < length → NoWrap M length b.capacity itemSize)
    (h : ensureCapacity M itemSize allocOk b length = some b') :
    length ≤ b'.capacity ∧ b.capacity ≤ b'.capacity ∧ b'.WF ∧ b.slots <+: b'.slots ∧
    (∀ i, i < b.capacity → b'.slots[i]? = b.slots[i]?) := by
  have key : length ≤ b'.capacity ∧ b.capacity ≤ b'.capacity ∧ b'.WF ∧ b.slots <+: b'.slots := by
    unfold ensureCapacity at h
    by_cases hfast : length ≤ b.capacity
    · rw [if_pos hfast] at h
      cases h
      exact ⟨hfast, Nat.le_refl _, hwf, List.prefix_refl _⟩
    · rw [if_neg hfast] at h
      have hnw' := hnw (by omega)
      obtain ⟨g1, g2, g3⟩ := growth_ge_length M length b.capacity itemSize hnw' hl hc
      have hge : b.capacity ≤ newCapacity M length b.capacity itemSize := by omega
      have hbytes : newCapacity M length b.capacity itemSize * itemSize < M := by rw [g3]; exact hnw'.2.2
      dsimp only at h
      by_cases hn : b.isNull = true
      · rw [if_pos hn] at h
        split at h
        · cases h
          refine ⟨g1, hge, ⟨resize_length _ _, by simp⟩, resize_prefix _ _ (by rw [hwf.1]; exact hge)⟩
        · cases h
      · rw [if_neg hn] at h
        split at h
        · cases h
          rw [realloc_bytes_eq M _ itemSize hbytes, Nat.mul_div_cancel _ hi]
          refine ⟨g1, hge, ⟨resize_length _ _, by simp⟩, resize_prefix _ _ (by rw [hwf.1]; exact hge)⟩
        · cases h
  obtain ⟨k1, k2, k3, k4⟩ := key
  refine ⟨k1, k2, k3, k4, fun i hi' => ?_⟩
  obtain ⟨t, ht⟩ := k4
  rw [← ht, List.getElem?_append_left (by rw [hwf.1]; exact hi')]

/-- the consequence callers use: after reserving `length` slots, every index below `length` is inside the block
    (`functionNames.names[functionIndex]`, `typeStack->valueTypes[newIndex]`, …). -/
theorem reserve_then_index_in_bounds {α : Type} (M itemSize : Nat) (allocOk : Bool) (b b' : Block α) (length : Nat)
    (hwf : b.WF) (hl : length < M) (hc : b.capacity < M) (hi : 0 < itemSize)
    (hnw : b.capacity < length → NoWrap M length b.capacity itemSize)
    (h : ensureCapacity M itemSize allocOk b length = some b') :
    ∀ i, i < length → i < b'.slots.length := by
  obtain ⟨k1, _, k3, _, _⟩ := ensure_capacity_contract M itemSize allocOk b b' length hwf hl hc hi hnw h
  intro i hi'
  rw [k3.1]; omega

/-- **append_in_bounds**: `Append` never stores outside the block (the `.error` outcome of the model is
    unreachable) and keeps the earlier elements. -/
theorem append_in_bounds {α : Type} (M itemSize : Nat) (allocOk : Bool) (b : Block α) (length : Nat) (x : α)
    (hwf : b.WF) (hlen : length ≤ b.capacity) (hl : length + 1 < M) (hc : b.capacity < M) (hi : 0 < itemSize)
    (hnw : b.capacity < length + 1 → NoWrap M (length + 1) b.capacity itemSize) :
    append M itemSize allocOk b length x = .ok none ∨
    ∃ b', append M itemSize allocOk b length x = .ok (some (b', length + 1)) ∧ b'.WF ∧ length + 1 ≤ b'.capacity ∧
      b'.slots[length]? = some (some x) ∧ ∀ i, i < length → b'.slots[i]? = b.slots[i]? := by
  unfold append
  rw [Nat.mod_eq_of_lt hl]
  cases he : ensureCapacity M itemSize allocOk b (length + 1) with
  | none => exact Or.inl rfl
  | some b1 =>
    right
    obtain ⟨k1, k2, k3, k4, k5⟩ := ensure_capacity_contract M itemSize allocOk b b1 (length + 1) hwf hl hc hi hnw he
    have hin : length < b1.slots.length := by rw [k3.1]; omega
    dsimp only
    rw [if_pos hin]
    refine ⟨_, rfl, ⟨by simpa using k3.1, by simpa using k3.2⟩, k1, by simp [hin], fun i hi' => ?_⟩
    show (b1.slots.set length (some x))[i]? = b.slots[i]?
    rw [List.getElem?_set_ne (by omega)]
    exact k5 i (by omega)

/-- **no_wrap_lp64**: on a host with a 64-bit `size_t` nothing reachable wraps — lengths are bounded by 2^32
    (U32 counts / indices + 1, and buffers that fit in memory), capacities by what earlier calls produced
    (< 2^33), element sizes by `sizeof` of the largest element type (far below 2^16). -/
theorem no_wrap_lp64 (length capacity itemSize : Nat) (hl : length ≤ 2 ^ 32) (hc : capacity ≤ 2 ^ 33)
    (hi : itemSize ≤ 2 ^ 16) : NoWrap (2 ^ 64) length capacity itemSize := by
  refine ⟨by decide, by omega, ?_⟩
  have h1 : length + capacity / 2 ≤ 2 ^ 33 := by omega
  calc (length + capacity / 2) * itemSize ≤ 2 ^ 33 * 2 ^ 16 := Nat.mul_le_mul h1 hi
    _ < 2 ^ 64 := by decide

/-- and the capacities stay below 2^33 under those bounds (so the hypothesis of `no_wrap_lp64` is an invariant) -/
theorem capacity_bound_lp64 (length capacity itemSize : Nat) (hl : length ≤ 2 ^ 32) (hc : capacity ≤ 2 ^ 33) :
    newCapacity (2 ^ 64) length capacity itemSize ≤ 2 ^ 33 := by
  rw [growth_eq _ _ _ _ (by decide) (by omega) (by omega), Nat.mod_eq_of_lt (by omega)]
  omega

/-- NOT guarded in the C code: with a 32-bit `size_t` the byte count `newCapacity * itemSize` handed to `realloc`
    wraps, e.g. 2^30 four-byte slots become 0 bytes while `capacity` is set to 2^30.  (Needs a module with 2^30
    functions, i.e. a file of more than 1 GiB inside a 32-bit address space: not reachable.) -/
theorem realloc_size_wraps_ilp32 : reallocBytes (2 ^ 32) (2 ^ 30) 4 = 0 := by decide

/-- **stringBuilder_capacity_contract**: `stringBuilderEnsureCapacity(sb, length)` grows to at least `length + 1`
    (room for the terminating NUL) and never shrinks. -/
theorem stringBuilder_capacity_contract (M length capacity : Nat) (hM : 1 < M) (hc : capacity < M)
    (hnw : length + 1 + capacity / 2 < M) :
    length + 1 ≤ stringBuilderNewCapacity M length capacity ∧
    (capacity < length + 1 → capacity ≤ stringBuilderNewCapacity M length capacity) := by
  have h1 : 1 % M = 1 := Nat.mod_eq_of_lt hM
  have e : stringBuilderNewCapacity M length capacity = length + 1 + capacity / 2 := by
    simp [stringBuilderNewCapacity, runGrowth, stringBuilderGrowth, stringBuilderLengthWithNull, step, eval, h1,
      Nat.shiftRight_eq_div_pow]
    exact Nat.mod_eq_of_lt hnw
  rw [e]
  constructor <;> omega

/-! Non-vacuity: the name table of a module with 12 functions (the first reservation on an empty array), then
    growing it; and the hypotheses of the contract are satisfiable. -/
example : ensureCapacity (α := Nat) (2 ^ 64) 8 true Block.empty 12 =
    some { slots := List.replicate 12 none, capacity := 12, isNull := false } := by decide

example : ensureCapacity (α := Nat) (2 ^ 64) 8 true { slots := List.replicate 12 none, capacity := 12, isNull := false } 13 =
    some { slots := List.replicate 19 none, capacity := 19, isNull := false } := by decide

example : (Block.empty : Block Nat).WF ∧ NoWrap (2 ^ 64) 12 0 8 := ⟨⟨rfl, fun _ => rfl⟩, no_wrap_lp64 12 0 8 (by decide) (by decide) (by decide)⟩

end W2c2Verif.Props.C10Array
