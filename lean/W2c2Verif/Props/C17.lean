import W2c2Verif.Lemmas.FutexLive
import W2c2Verif.Spec.Futex

/-!
  Props.C17 — memory.atomic.wait / notify: no lost wake-ups, exact counts, exact return codes.

  All theorems are about `Model.Futex` (futex.c / map.c / list.c / the pthread branch of the
  WASM_MUTEX/COND macros, statement by statement) and hold in EVERY configuration reachable from an
  initial one (`Reach (sys B) Init c`): any number of threads, each running an arbitrary program of
  wait32/wait64/notify/store operations on arbitrary addresses (bucket collisions included — `B`, the
  bucket count, is arbitrary), finite and infinite timeouts, under every interleaving of their
  statements including spurious condition-variable wake-ups and timeouts.  They are consequences of
  the inductive invariant `Inv` (`Lemmas/FutexInv*.lean`), proved by induction on `Reach`.
-/
namespace W2c2Verif.C17
open W2c2Verif W2c2Verif.Threads W2c2Verif.Futex

variable {B : Nat} {c : Cfg G L}

/-! ### futex_inv -/

/-- **futex_inv.**  In every reachable configuration:
 (1) every wait in a wait list is live, belongs to a thread that is blocked inside `wait` on exactly
     that node (program counter between the prepend and the removal, remembered slot = that node),
     is that thread's current wait, is registered under the node's address, and is listed exactly
     once (in this list, and in no other live node's list);
 (2) every remembered slot pointer (`waitList` / `value`) points into a live node keyed by the
     thread's address, and live nodes are exactly the nodes of the bucket chains, one per key;
 (3) status Notified is set only by a logged Waiting→Notified transition of a notify call, at most
     once per wait;
 (4) the mutex is held exactly by the thread inside the critical section — never by a thread parked
     in `pthread_cond_(timed)wait`. -/
theorem futex_inv (hr : Reach (sys B) Init c) :
    (∀ n w, (c.g.nodes n).live = true → w ∈ (c.g.nodes n).waits →
        (c.g.waits w).live = true ∧ (c.locals w.1).pc.enq = true ∧ (c.locals w.1).wait = w ∧
        (c.locals w.1).slot = some n ∧ (c.g.waits w).addr = (c.g.nodes n).key ∧
        (c.g.nodes n).waits.count w = 1 ∧
        ∀ n', (c.g.nodes n').live = true → w ∈ (c.g.nodes n').waits → n' = n) ∧
    ((∀ t, (c.locals t).pc.hasSlot = true →
        ∃ n, (c.locals t).slot = some n ∧ (c.g.nodes n).live = true ∧ (c.g.nodes n).key = (c.locals t).addr) ∧
     (∀ n, (c.g.nodes n).live = true ↔ n ∈ c.g.buckets ((c.g.nodes n).key % B)) ∧
     (∀ n m, (c.g.nodes n).live = true → (c.g.nodes m).live = true → (c.g.nodes n).key = (c.g.nodes m).key → n = m)) ∧
    ((∀ w, (c.g.waits w).status = .notified ↔ w ∈ c.g.marks.map (·.wait)) ∧ (c.g.marks.map (·.wait)).Nodup) ∧
    (∀ t, c.g.mutex = some t ↔ (c.locals t).pc.holds = true) ∧
    (∀ t, (c.locals t).pc = .wParked → c.g.mutex ≠ some t) := by
  have hi := Inv.reach hr
  have ha := hi.a
  have hb := hi.b
  refine ⟨?_, ⟨ha.slot_ok, ?_, fun n m hn hm hk => ha.node_unique hn hm hk⟩, ⟨hb.notified_iff, hb.marks_nodup⟩,
    ha.mutex_iff, ?_⟩
  · intro n w hn hw
    obtain ⟨hl, he, hs⟩ := ha.list_ok n w hn hw
    have hlw := ha.live_wait w hl
    have hwl := ha.wait_live w.1 hlw.1
    obtain ⟨m, hsm, hml, hmk⟩ := ha.slot_ok w.1 (PC.hasSlot_of_enq he)
    rw [hs] at hsm
    cases hsm
    refine ⟨hl, he, hlw.2, hs, ?_, ?_, ?_⟩
    · have := hwl.2.2
      rw [hlw.2] at this
      rw [this, hmk]
    · rw [(ha.list_nodup n hn).count, if_pos hw]
    · intro n' hn' hw'
      have := (ha.list_ok n' w hn' hw').2.2
      rw [hs] at this
      exact (Option.some.inj this).symm
  · intro n
    exact ⟨ha.live_chain n, fun h => (ha.chain_ok _ n h).1⟩
  · intro t hpc hm
    have := (ha.mutex_iff t).mp hm
    simp [hpc] at this

/-- a map node is freed only when its wait list is empty (step-level companion of `futex_inv` (2)) -/
theorem node_freed_only_when_empty (hr : Reach (sys B) Init c) {t : Tid} {g' : G} {l' : L}
    (hs : (g', l') ∈ (sys B).step c.g (c.locals t)) (n : Id)
    (hlive : (c.g.nodes n).live = true) (hdead : (g'.nodes n).live = false) : (c.g.nodes n).waits = [] := by
  have ha := (Inv.reach hr).a
  have hst := step_inv hs
  clear hs
  cases hst <;> no_crash_case ha
  case wMapRemoveFree n' m hpc hsl hn he hf hall hme =>
    simp only [upd_apply] at hdead
    split at hdead
    · subst_vars; exact hme
    · rw [hlive] at hdead; cases hdead
  case wMapInsert hpc hl =>
    simp only [upd_apply] at hdead
    split at hdead
    · cases hdead
    · rw [hlive] at hdead; cases hdead
  case wPrepend n' hpc hsl hn hw hh =>
    simp only [upd_apply] at hdead
    split at hdead
    · subst_vars; simp only at hdead; rw [hlive] at hdead; cases hdead
    · rw [hlive] at hdead; cases hdead
  case wRemove n' hpc hsl hn hw hh =>
    simp only [upd_apply] at hdead
    split at hdead
    · subst_vars; simp only at hdead; rw [hlive] at hdead; cases hdead
    · rw [hlive] at hdead; cases hdead
  all_goals (have hd2 : (c.g.nodes n).live = false := hdead; rw [hlive] at hd2; cases hd2)

/-! ### futex_no_uaf -/

/-- **futex_no_uaf.**  No reachable configuration has a crashed thread: no statement of futex.c /
    map.c / list.c ever dereferences a freed wait record or map node (`useAfterFree`), a NULL slot
    pointer, unlocks a mutex it does not own or destroys a condition variable with a parked waiter,
    and `assert(removedWaitList == NULL)` never fails. -/
theorem futex_no_uaf (hr : Reach (sys B) Init c) : ∀ t k, (c.locals t).pc ≠ .crashed k :=
  (Inv.reach hr).a.no_crash

/-- … equivalently: from a reachable configuration no step crashes -/
theorem futex_no_uaf_step (hr : Reach (sys B) Init c) {t : Tid} {g' : G} {l' : L}
    (hs : (g', l') ∈ (sys B).step c.g (c.locals t)) : ∀ k, l'.pc ≠ .crashed k := by
  intro k
  have := futex_no_uaf (Reach.step hr hs) t k
  simpa using this

/-! ### wait_returns -/

/-- the load of `wait` happens under the mutex and reads the cell at the address it was given:
    after the statement at `wLoad`, `loaded` is the little-endian value of the 4 (wait32) or 8
    (wait64) bytes at `addr` in the memory of that moment, and the thread holds the mutex. -/
theorem wait_load_locked (hr : Reach (sys B) Init c) {t : Tid} {g' : G} {l' : L}
    (hpc : (c.locals t).pc = .wLoad) (hs : (g', l') ∈ (sys B).step c.g (c.locals t)) :
    c.g.mutex = some t ∧ g' = c.g ∧
    l'.loaded = loadLE c.g.mem (c.locals t).addr (loadWidth (c.locals t).w64) := by
  have ha := (Inv.reach hr).a
  have hm := (ha.mutex_iff t).mpr (by simp [hpc])
  have hst := step_inv hs
  cases hst <;> simp_all [CrashCond]

/-- **wait_returns.**  For every completed `wait` (the `k`-th operation of thread `t`):
    it returned 1 iff the value read by the locked load differed from the expected value
    (`(U32)expect` for wait32); 0 iff it was equal and the status read after the wait loop was
    Notified — and then some notify call ON THE SAME ADDRESS performed that Waiting→Notified
    transition; 2 iff it was equal and the status was still Waiting — and then the last timed wait had
    timed out, the timeout was finite, and no notify ever counted this waiter. -/
theorem wait_returns (hr : Reach (sys B) Init c) (t : Tid) (k : Nat) (d : Done)
    (hd : (c.locals t).done[k]? = some d) (w64 : Bool) (a e : Nat) (to : Int) (hop : d.op = .wait w64 a e to) :
    (d.ret = 0 ∨ d.ret = 1 ∨ d.ret = 2) ∧
    (d.ret = 1 ↔ d.loaded ≠ expected w64 e) ∧
    (d.ret = 0 ↔ d.loaded = expected w64 e ∧ d.sawWaiting = false) ∧
    (d.ret = 2 ↔ d.loaded = expected w64 e ∧ d.sawWaiting = true) ∧
    (d.ret = 0 → ∃ m ∈ c.g.marks, m.wait = (t, k) ∧ m.addr = a) ∧
    (d.ret = 2 → d.timedOut = true ∧ 0 ≤ to ∧ (t, k) ∉ c.g.marks.map (·.wait)) := by
  have hb := (Inv.reach hr).b
  have h := hb.done_wait t k d hd w64 a e to hop
  have hni := hb.notified_iff (t, k)
  rcases h with ⟨h1, h2⟩ | ⟨h1, h2, h3, h4⟩ | ⟨h1, h2, h3, h4, h5, h6⟩
  · refine ⟨by omega, ?_, ?_, ?_, ?_, ?_⟩ <;> simp_all
  · refine ⟨by omega, ?_, ?_, ?_, ?_, ?_⟩ <;> simp_all
  · refine ⟨by omega, ?_, ?_, ?_, ?_, ?_⟩
    · simp_all
    · simp_all
    · simp_all
    · simp_all
    · intro _
      refine ⟨h4, h5, fun hmem => ?_⟩
      have := hni.mpr hmem
      rw [h6] at this
      cases this

/-! ### no_lost_wakeup -/

/-- a waiter that has started blocking is visible to any notify on its address: its wait record is in
    the wait list of the unique live map node keyed by that address (the list a notify walks). -/
theorem blocked_waiter_visible (hr : Reach (sys B) Init c) (t : Tid) (he : (c.locals t).pc.enq = true) :
    ∃ n, (c.g.nodes n).live = true ∧ (c.g.nodes n).key = (c.locals t).addr ∧
      n ∈ c.g.buckets ((c.locals t).addr % B) ∧ (c.locals t).wait ∈ (c.g.nodes n).waits := by
  have ha := (Inv.reach hr).a
  obtain ⟨n, hs, hl, hk⟩ := ha.slot_ok t (PC.hasSlot_of_enq he)
  refine ⟨n, hl, hk, ?_, ha.enq_mem t n he hs⟩
  have := ha.live_chain n hl
  rwa [hk] at this

/-- **no_lost_wakeup.**  When a notify call `notify(a, n)` of thread `u` has finished its walk and is
    about to release the mutex (so nothing changed since it took the mutex except its own marks),
    every waiter `t` that is blocked on address `a` (enqueued, not yet dequeued — in particular every
    waiter that was enqueued when the notify took the mutex) is Notified, or the call has notified
    exactly `n` waiters. -/
theorem no_lost_wakeup (hr : Reach (sys B) Init c) (u t : Tid) (hu : (c.locals u).pc = .nUnlock)
    (he : (c.locals t).pc.enq = true) (ha : (c.locals t).addr = (c.locals u).addr) :
    (c.g.waits (c.locals t).wait).status = .notified ∨ (c.locals u).notified = (c.locals u).count :=
  (Inv.reach hr).b.unlock_ok u hu t he ha

/-- … and a Notified waiter is never left parked on its condition variable: if it is (still) parked,
    its notifier is between `wait->status = Notified` and `WASM_COND_SIGNAL(&wait->cond)` on exactly
    this wait, so the signal is the notifier's next statement. -/
theorem notified_waiter_signalled (hr : Reach (sys B) Init c) (t : Tid) (hpc : (c.locals t).pc = .wParked)
    (hn : (c.g.waits (c.locals t).wait).status = .notified) (hp : (t, (c.locals t).wait) ∈ c.g.parked) :
    ∃ u, (c.locals u).pc = .nSignal ∧ (c.locals u).cursor.head? = some (c.locals t).wait :=
  (Inv.reach hr).b.notified_unparked t hpc hn hp

/-! ### notify_count_exact -/

/-- **notify_count_exact.**  For every completed `notify(a, n)` (the `k`-th operation of thread `t`):
    the return value is exactly the number of Waiting→Notified transitions performed by this call, it
    is at most `n`, every wait it marked was registered under address `a` (by a `wait` on `a`), and —
    over the whole execution — no wait is marked twice (each waiter is counted by at most one notify). -/
theorem notify_count_exact (hr : Reach (sys B) Init c) (t : Tid) (k : Nat) (d : Done)
    (hd : (c.locals t).done[k]? = some d) (a n : Nat) (hop : d.op = .notify a n) :
    d.ret = (marksOf c.g t k).length ∧ d.ret ≤ n ∧
    (∀ m ∈ marksOf c.g t k, m.addr = a ∧ (c.g.waits m.wait).addr = a) ∧
    (c.g.marks.map (·.wait)).Nodup := by
  have hb := (Inv.reach hr).b
  obtain ⟨h1, h2, h3⟩ := hb.done_notify t k d hd a n hop
  refine ⟨h1, h2, fun m hm => ⟨h3 m hm, ?_⟩, hb.marks_nodup⟩
  have hmem : m ∈ c.g.marks := (List.mem_filter.mp hm).1
  rw [hb.mark_addr m hmem]
  exact h3 m hm

/-- while a notify call runs, `notifiedCount` is the number of marks it has made (one behind between
    marking and signalling) and never exceeds `count` -/
theorem notify_count_running (hr : Reach (sys B) Init c) (t : Tid) (h : (c.locals t).pc.inNotify = true) :
    (marksOf c.g t (c.locals t).serial).length =
      (c.locals t).notified + (if (c.locals t).pc = .nSignal then 1 else 0) ∧
    (c.locals t).notified + (if (c.locals t).pc = .nSignal then 1 else 0) ≤ (c.locals t).count :=
  ⟨(Inv.reach hr).b.count_notify t h, (Inv.reach hr).b.count_le t h⟩

/-- The two previous theorems in the vocabulary of `Spec.Futex.NotifyOk`: when a notify call is about
    to unlock, the waits it woke (`woken`) relative to the wait list of its address (`queue`, unchanged
    since the call took the mutex) satisfy the specification of notify with return value
    `notifiedCount`. -/
theorem notify_meets_spec (hr : Reach (sys B) Init c) (u : Tid) (hu : (c.locals u).pc = .nUnlock)
    (queue : List Id)
    (hq : ∀ w, w ∈ queue ↔ ∃ t, (c.locals t).pc.enq = true ∧ (c.locals t).addr = (c.locals u).addr ∧
      (c.locals t).wait = w ∧ ((c.g.waits w).status = .waiting ∨ w ∈ (marksOf c.g u (c.locals u).serial).map (·.wait))) :
    Spec.Futex.NotifyOk queue ((marksOf c.g u (c.locals u).serial).map (·.wait))
      (c.locals u).count (c.locals u).notified := by
  have hi := Inv.reach hr
  have hcn := hi.b.count_notify u (by simp [hu])
  have hcl := hi.b.count_le u (by simp [hu])
  simp only [hu, reduceCtorEq, ↓reduceIte, Nat.add_zero] at hcn hcl
  refine ⟨?_, ?_, by simp [hcn], hcl, ?_⟩
  · -- only queued waiters: the waits marked by the running call are still in the list it walked
    intro w hw
    simp only [List.mem_map] at hw
    obtain ⟨m, hm, rfl⟩ := hw
    obtain ⟨n, -, hnl, hmem⟩ := hi.b.marks_listed u (by simp [hu]) m hm
    obtain ⟨hl, he, hsl⟩ := hi.a.list_ok n m.wait hnl hmem
    have hlw := hi.a.live_wait m.wait hl
    have hwl := hi.a.wait_live m.wait.1 hlw.1
    have hmm : m ∈ c.g.marks := (List.mem_filter.mp hm).1
    have hmb := hi.b.mark_by m hmm
    have hmf := (List.mem_filter.mp hm).2
    simp only [decide_eq_true_eq] at hmf
    refine (hq m.wait).mpr ⟨m.wait.1, he, ?_, hlw.2, Or.inr (List.mem_map.mpr ⟨m, hm, rfl⟩)⟩
    have h1 := hi.b.mark_addr m hmm
    have h2 := hwl.2.2
    rw [hlw.2] at h2
    rw [← h2, h1]
    rcases hmb with hlt | ⟨-, -, hadr⟩
    · rw [hmf.1, hmf.2] at hlt; omega
    · rw [hmf.1] at hadr; exact hadr
  · have := hi.b.marks_nodup
    unfold marksOf
    exact (this.sublist (List.Sublist.map _ List.filter_sublist))
  · intro hlt w hw
    obtain ⟨t, he, hadr, hwt, hst⟩ := (hq w).mp hw
    rcases hst with hst | hst
    · have := hi.b.unlock_ok u hu t he hadr
      rw [hwt] at this
      rcases this with h | h
      · rw [hst] at h; cases h
      · omega
    · exact hst

/-! ### futex_deadlock_free -/

/-- thread `t` can make progress: it has a `run` step or (a parked timed waiter) a `timeout` step -/
def CanProgress (B : Nat) (c : Cfg G L) (t : Tid) : Prop :=
  ∃ lab g' l', (lab, g', l') ∈ stepL B c.g (c.locals t) ∧ lab ≠ Label.spurious

/-- finished: between operations with nothing left to do -/
def Finished (l : L) : Prop := l.pc = .idle ∧ l.prog = []

/-- legitimately waiting: parked with an infinite timeout on a wait that nobody has notified -/
def LegitWaiter (c : Cfg G L) (t : Tid) : Prop :=
  (c.locals t).pc = .wParked ∧ (t, (c.locals t).wait) ∈ c.g.parked ∧ (c.locals t).timeout < 0 ∧
  (c.g.waits (c.locals t).wait).status = .waiting

/-- **futex_deadlock_free.**  In every reachable configuration some thread can make progress (other
    than by a spurious wake-up), or every thread is finished or is a waiter with an infinite timeout
    whose status is still Waiting (legitimately waiting for a notify that no thread is going to send). -/
theorem futex_deadlock_free (hr : Reach (sys B) Init c) :
    (∃ t, CanProgress B c t) ∨ ∀ t, Finished (c.locals t) ∨ LegitWaiter c t := by
  have hi := Inv.reach hr
  have ha := hi.a
  by_cases hp : ∃ t, CanProgress B c t
  · exact Or.inl hp
  · right
    have hnp : ∀ t, ¬ CanRun B c.g (c.locals t) := by
      intro t ⟨g', l', h⟩
      exact hp ⟨t, .run, g', l', h, by simp⟩
    -- the mutex is free: its holder could run
    have hfree : c.g.mutex = none := by
      cases hm : c.g.mutex with
      | none => rfl
      | some u =>
        exfalso
        have hh := (ha.mutex_iff u).mp hm
        exact hnp u (canRun_of_alwaysEnabled B _ _ (PC.alwaysEnabled_of_holds hh))
    intro t
    have htid := ha.tid_eq t
    by_cases hen : (c.locals t).pc.alwaysEnabled = true
    · exact absurd (canRun_of_alwaysEnabled B _ _ hen) (hnp t)
    · cases hpc : (c.locals t).pc <;> simp [hpc, PC.alwaysEnabled] at hen
      · -- idle
        left
        refine ⟨hpc, ?_⟩
        cases hprog : (c.locals t).prog with
        | nil => rfl
        | cons op rest => exact absurd (canRun_idle B _ _ hpc (by simp [hprog])) (hnp t)
      · exact absurd (canRun_lock B _ _ (Or.inl hpc) hfree) (hnp t)
      · -- wParked
        right
        by_cases hpk : (t, (c.locals t).wait) ∈ c.g.parked
        · have hto : (c.locals t).timeout < 0 := by
            by_cases hlt : (c.locals t).timeout < 0
            · exact hlt
            · exfalso
              have hge' : 0 ≤ (c.locals t).timeout := by omega
              obtain ⟨g', l', h⟩ := timeout_enabled B c.g (c.locals t) hpc (by rw [htid]; exact hpk) hge'
              exact hp ⟨t, .timeout, g', l', h, by simp⟩
          refine ⟨hpc, hpk, hto, ?_⟩
          cases hst : (c.g.waits (c.locals t).wait).status with
          | waiting => rfl
          | notified =>
            exfalso
            obtain ⟨u, hu, -⟩ := hi.b.notified_unparked t hpc hst hpk
            exact hnp u (canRun_of_alwaysEnabled B _ _ (by simp [hu, PC.alwaysEnabled]))
        · exact absurd (canRun_reacquire B _ _ hpc (by rw [htid]; exact hpk) hfree) (hnp t)
      · exact absurd (canRun_lock B _ _ (Or.inr hpc) hfree) (hnp t)
      · exact absurd hpc (ha.no_crash t _)

/-! ### wait_effective_address -/

/-- **wait_effective_address.**  The C expression w2c2 emits for the `U32 address` parameter of
    `wasmMemoryAtomicWait` / `wasmMemoryAtomicNotify` (`Futex.Emit.addrExpr`: the address operand's
    stack variable plus the memarg's static offset) evaluates, in the C semantics `CSem`, to the
    operand plus the static offset in `U32` arithmetic; whenever the specification's effective
    address (`Spec.Futex.effectiveAddress`, computed without wrap) fits in 32 bits — in particular
    for every in-bounds access, a memory being at most 2^32 bytes — it is exactly that address. -/
theorem wait_effective_address (defs : Defs) (ρ : Env) (k off : Nat) (x : BitVec 32)
    (hx : ρ.get (Emit.stackName "i" k) = some (.u32 x)) :
    (do let v ← (Emit.addrExpr k off).eval defs ρ; v.castInt .u32) = .val (.u32 (x + BitVec.ofNat 32 off)) ∧
    (Spec.Futex.effectiveAddress x off < 2 ^ 32 →
      (x + BitVec.ofNat 32 off).toNat = Spec.Futex.effectiveAddress x off) := by
  constructor
  · unfold Emit.addrExpr
    split
    · rename_i h0
      subst h0
      simp [CExpr.eval, hx, CVal.castInt, CVal.fromNat]
    · simp [CExpr.eval, hx, CVal.binop, CTy.common, CTy.promote, CVal.ty, CVal.castInt, CVal.fromNat,
        CPrim.arithU, BinOp.isCmp]
  · intro h
    unfold Spec.Futex.effectiveAddress at *
    rw [BitVec.toNat_add, BitVec.toNat_ofNat]
    omega

/-! ### non-vacuity: the hypotheses are satisfiable and the interesting states are reachable -/

/-- follow an explicit schedule (thread, kind of step, index among the successors of that kind) -/
def runSched (B : Nat) : List (Tid × Label × Nat) → Cfg G L → Option (Cfg G L)
  | [], c => some c
  | (t, lab, i) :: rest, c =>
    match ((stepL B c.g (c.locals t)).filter (fun x => x.1 = lab))[i]? with
    | some (_, g', l') => runSched B rest (c.set t g' l')
    | none => none

theorem runSched_reach {B : Nat} (s : List (Tid × Label × Nat)) (c0 c : Cfg G L)
    (h0 : Reach (sys B) Init c0) (h : runSched B s c0 = some c) : Reach (sys B) Init c := by
  induction s generalizing c0 with
  | nil => simp [runSched] at h; subst h; exact h0
  | cons x rest ih =>
    obtain ⟨t, lab, i⟩ := x
    unfold runSched at h
    split at h
    · rename_i lab' g' l' hget
      refine ih _ (Reach.step h0 ?_) h
      have hmem := List.mem_of_getElem? hget
      have := (List.mem_filter.mp hmem).1
      exact List.mem_map.mpr ⟨_, this, rfl⟩
    · cases h

theorem reach_of_runSched {B : Nat} (s : List (Tid × Label × Nat)) (c0 : Cfg G L) (p : Cfg G L → Bool)
    (h0 : Reach (sys B) Init c0) (h : (runSched B s c0).any p = true) :
    ∃ c, Reach (sys B) Init c ∧ p c = true := by
  cases hc : runSched B s c0 with
  | none => simp [hc] at h
  | some c => exact ⟨c, runSched_reach s c0 c h0 hc, by simpa [hc] using h⟩

/-- an initial configuration: thread 1 waits on address 16 (infinite timeout), thread 2 notifies it,
    thread 3 waits on the colliding address 16 + 1024·4 with a finite timeout -/
def exInit : Cfg G L :=
  ⟨G.init true (fun _ => 0), fun t =>
    L.init t (if t = 1 then [.wait false 16 0 (-1)] else if t = 2 then [.notify 16 1]
              else if t = 3 then [.wait true 4112 0 5] else [])⟩

theorem exInit_init : Init exInit := ⟨⟨true, _, rfl⟩, fun _ => ⟨_, rfl⟩⟩

private def r (n : Nat) (t : Tid) : List (Tid × Label × Nat) := List.replicate n (t, .run, 0)

/-- thread 1 parked and Waiting while thread 2 is inside notify (hypotheses of `no_lost_wakeup`'s
    setting are reachable: an enqueued waiter and a notifier on the same address) -/
example : ∃ c, Reach (sys 1024) Init c ∧
    ((c.locals 1).pc == .wParked && (c.locals 1).pc.enq && (c.locals 2).pc == .nLoop &&
      (c.locals 2).addr == (c.locals 1).addr) = true :=
  reach_of_runSched
    (r 9 1 ++ r 6 2) exInit _
    (Reach.init exInit_init) (by decide)

/-- … the notifier reaches `nUnlock` having notified one waiter (`no_lost_wakeup`, `notify_count_running`) -/
example : ∃ c, Reach (sys 1024) Init c ∧
    ((c.locals 2).pc == .nUnlock && (c.locals 2).notified == 1 && c.g.marks.length == 1) = true :=
  reach_of_runSched
    (r 9 1 ++ r 9 2) exInit _
    (Reach.init exInit_init) (by decide)

/-- … both calls complete: wait returned 0, notify returned 1 (`wait_returns`, `notify_count_exact`) -/
example : ∃ c, Reach (sys 1024) Init c ∧
    (((c.locals 1).done.map (·.ret)) == [0] && ((c.locals 2).done.map (·.ret)) == [1]) = true :=
  reach_of_runSched
    (r 9 1 ++ r 10 2 ++ r 7 1) exInit _
    (Reach.init exInit_init) (by decide)

/-- … a timed waiter on a colliding address times out and returns 2 while thread 1 stays a
    legitimately blocked waiter (`futex_deadlock_free`'s second disjunct is inhabited) -/
example : ∃ c, Reach (sys 1024) Init c ∧
    (((c.locals 3).done.map (·.ret)) == [2] && (c.locals 1).pc == .wParked) = true :=
  reach_of_runSched
    (r 9 1 ++ r 9 3 ++ [(3, .timeout, 0)] ++ r 7 3) exInit _
    (Reach.init exInit_init) (by decide)

/-- `wait_effective_address` with a non-zero offset: `si3+8U` with `si3 = 0xFFFFFFFC` wraps (the
    specification's address 2^32+4 is out of bounds for every memory), with `si3 = 16` it is 24 -/
example : (do let v ← (Emit.addrExpr 3 8).eval noDefs [("si3", .u32 16)]; v.castInt .u32) = .val (.u32 24) :=
  (wait_effective_address noDefs [("si3", .u32 16)] 3 8 16 (by decide)).1

end W2c2Verif.C17
