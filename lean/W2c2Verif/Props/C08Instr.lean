/-
  Props.C08Instr — Part 5 of C08: inside function bodies.

  `Model.Reader` keeps bodies verbatim (Part 4); they are decoded a second time, by the C writer, through the immediate
  readers of instruction.c / instruction.h / valuetype.h and the locals lookup of locals.h (`Model.Instr`, rows
  regenerated into `Gen.Instr` from the C source on every run, tied to the real functions by the `imm` correspondence).

  * `instr_table_matches_grammar`: for EVERY opcode, 0xFC sub-opcode and 0xFE sub-opcode the dispatch switch of
    wasmCWriteFunctionCode handles, the primitives read after it are exactly the ones the binary grammar
    (`Spec.BinaryInstr`) prescribes for its immediates: every `u32` (labels, function / type / TABLE / local / global /
    data / element / memory indices, memarg align and offset, br_table vector and default, sub-opcodes) by
    `leb128ReadU32`, `i32.const` by `leb128ReadI32`, `i64.const` by `leb128ReadI64`, block types by `leb128ReadI32`,
    floats by the fixed-width readers, the `0x00` of atomic.fence as a byte.
  * `instr_immediates_leb`: hence every grammar encoding of the immediates of such an instruction — any redundant LEB
    padding of every field — is decoded to the denoted values and consumed exactly, whatever follows (corollary of
    `leb_u_decode` / `leb_s_decode`).
  * `locals_type_lookup`: for every locals vector — zero-count groups at the beginning, in the middle, at the end
    included — `wasmLocalsDeclarationsGetType` returns for index `i` the `i`-th type of the sequence the vector denotes
    (`Spec.Binary.expandLocals`), `false` beyond it; no unsigned wrap-around.  Hence the grouping does not matter
    (`locals_grouping_irrelevant`).
-/
import W2c2Verif.Props.C08
import W2c2Verif.Spec.BinaryInstr
import W2c2Verif.Model.Instr

namespace W2c2Verif.Props.C08
open W2c2Verif.Model W2c2Verif.Model.Reader W2c2Verif.Model.Instr W2c2Verif.Spec.Binary W2c2Verif.Lemmas.Reader
open W2c2Verif.Gen.Instr (Prim Step)

/-! ### the primitives on grammar encodings -/

theorem u32V_uleb {n : Nat} {b : List UInt8} (h : ULeb 32 n b) (rest : Bytes) :
    u32V (b ++ rest) = .ok (.num n, rest) := by
  unfold u32V
  rw [bind_eq_of_ok (u32_uleb _ h rest)]; rfl

theorem i32V_sleb {v : Int} {b : List UInt8} (h : SLeb 32 v b) (rest : Bytes) :
    i32V (b ++ rest) = .ok (.num v, rest) := by
  unfold i32V
  have hr := leb_s_decode_32 v b rest h
  have hi : i32 immError (b ++ rest) = .ok (v, rest) := by
    rw [i32_run, hr]
    have : b.length ≠ 0 := by have := h.length_pos; omega
    exact if_neg this
  rw [bind_eq_of_ok hi]; rfl

theorem i64V_sleb {v : Int} {b : List UInt8} (h : SLeb 64 v b) (rest : Bytes) :
    i64V (b ++ rest) = .ok (.num v, rest) := by
  unfold i64V
  have hr := leb_s_decode_64 v b rest h
  have hi : i64 false immError (b ++ rest) = .ok (v, rest) := by
    rw [i64_run, hr]
    have : b.length ≠ 0 := by have := h.length_pos; omega
    simp [this]
  rw [bind_eq_of_ok hi]; rfl

theorem fixedV (n : Nat) {b : List UInt8} (h : b.length = n) (rest : Bytes) :
    fixed n immError (b ++ rest) = .ok (b, rest) := by
  have hrun : fixed n immError (b ++ rest) =
      if (b ++ rest).length < n then .err immError else .ok ((b ++ rest).take n, (b ++ rest).drop n) := rfl
  rw [hrun, if_neg (by rw [List.length_append]; omega), List.take_left' h, List.drop_left' h]

/-! ### grammar type → the primitives that must read it -/

def stepsOfTy : ImmTy → List Step
  | .u32 => [.one .lebU32]
  | .s32 => [.one .lebI32]
  | .s64 => [.one .lebI64]
  | .f32 => [.one .f32]
  | .f64 => [.one .f64]
  | .vecU32 => [.one .lebU32, .counted .lebU32]
  | .blocktype => [.one .lebI32]
  | .zero => [.one .byte]
  | .subop => [.subop .lebU32]

/-- the values the C reader stores for an immediate, in the order it reads them -/
def flattenImm : ImmVal → List Val
  | .nat n => [.num n]
  | .int i => [.num i]
  | .bytes b => [.raw b]
  | .nats ns => .num ns.length :: ns.map fun (n : Nat) => Val.num (n : Int)

theorem readSteps_one (p : Prim) (ss : List Step) (prev : Nat) (bs : Bytes) :
    readSteps (.one p :: ss) prev bs = (readPrim p >>= fun v => readSteps ss v.toNat >>= fun vs => pure (v :: vs)) bs := rfl

theorem readSteps_subop (p : Prim) (ss : List Step) (prev : Nat) (bs : Bytes) :
    readSteps (.subop p :: ss) prev bs = (readPrim p >>= fun v => readSteps ss v.toNat >>= fun vs => pure (v :: vs)) bs := rfl

theorem readSteps_counted (p : Prim) (ss : List Step) (prev : Nat) (bs : Bytes) :
    readSteps (.counted p :: ss) prev bs =
      (vec (readPrim p) prev >>= fun xs => readSteps ss prev >>= fun vs => pure (xs ++ vs)) bs := rfl

/-- a row that is the image of a list of grammar types reads every grammar encoding of such immediates -/
theorem readSteps_enc {tys : List ImmTy} {vals : List ImmVal} {enc : List UInt8} (h : EncImms tys vals enc) :
    ∀ (prev : Nat) (rest : Bytes),
      readSteps (tys.flatMap stepsOfTy) prev (enc ++ rest) = .ok (vals.flatMap flattenImm, rest) := by
  induction h with
  | nil => intro prev rest; rfl
  | @cons ty tys v vs b bs hb _ ih =>
    intro prev rest
    rw [List.flatMap_cons, List.flatMap_cons, List.append_assoc]
    have one : ∀ (p : Prim) (x : Val), readPrim p (b ++ (bs ++ rest)) = .ok (x, bs ++ rest) →
        readSteps (.one p :: tys.flatMap stepsOfTy) prev (b ++ (bs ++ rest)) = .ok (x :: vs.flatMap flattenImm, rest) := by
      intro p x hp
      rw [readSteps_one, bind_eq_of_ok hp, bind_eq_of_ok (ih _ rest)]; rfl
    cases hb with
    | u32 h => exact one .lebU32 _ (u32V_uleb h _)
    | subop h =>
      show readSteps (.subop .lebU32 :: tys.flatMap stepsOfTy) prev _ = _
      rw [readSteps_subop, bind_eq_of_ok (show readPrim .lebU32 _ = _ from u32V_uleb h _), bind_eq_of_ok (ih _ rest)]; rfl
    | s32 h => exact one .lebI32 _ (i32V_sleb h _)
    | s64 h => exact one .lebI64 _ (i64V_sleb h _)
    | f32 h =>
      refine one .f32 _ ?_
      show (fixed 4 immError >>= fun b => pure (Val.raw b)) _ = _
      rw [bind_eq_of_ok (fixedV 4 h _)]; rfl
    | f64 h =>
      refine one .f64 _ ?_
      show (fixed 8 immError >>= fun b => pure (Val.raw b)) _ = _
      rw [bind_eq_of_ok (fixedV 8 h _)]; rfl
    | @vecU32 ns _ h =>
      cases h with
      | @mk c body hc hbody =>
        show readSteps (.one .lebU32 :: .counted .lebU32 :: tys.flatMap stepsOfTy) prev _ = _
        rw [List.append_assoc, readSteps_one, bind_eq_of_ok (show readPrim .lebU32 _ = _ from u32V_uleb hc _)]
        show (readSteps (.counted .lebU32 :: tys.flatMap stepsOfTy) ns.length >>= _) _ = _
        have hv := vec_enc (p := readPrim .lebU32) (f := fun (n : Nat) => Val.num (n : Int))
          (fun a b rest h => u32V_uleb h rest) hbody (bs ++ rest)
        have hc2 : readSteps (.counted .lebU32 :: tys.flatMap stepsOfTy) ns.length (body ++ (bs ++ rest)) =
            .ok (ns.map (fun (n : Nat) => Val.num (n : Int)) ++ vs.flatMap flattenImm, rest) := by
          rw [readSteps_counted, bind_eq_of_ok hv, bind_eq_of_ok (ih _ rest)]; rfl
        rw [bind_eq_of_ok hc2]; rfl
    | blockEmpty =>
      exact one .lebI32 _ (i32V_sleb (SLeb.neg (N := 32) 0x40 (by decide) (by decide) (by decide) (by decide)) _)
    | blockVal t =>
      refine one .lebI32 _ ?_
      cases t
      · exact i32V_sleb (SLeb.neg (N := 32) 0x7F (by decide) (by decide) (by decide) (by decide)) _
      · exact i32V_sleb (SLeb.neg (N := 32) 0x7E (by decide) (by decide) (by decide) (by decide)) _
      · exact i32V_sleb (SLeb.neg (N := 32) 0x7D (by decide) (by decide) (by decide) (by decide)) _
      · exact i32V_sleb (SLeb.neg (N := 32) 0x7C (by decide) (by decide) (by decide) (by decide)) _
    | zero =>
      refine one .byte _ ?_
      rfl

/-! ### the regenerated dispatch tables against the grammar -/

/-- a row `(enumerator, code, steps)` reads exactly what the grammar `g` prescribes for `code` -/
def rowOK (g : Nat → Option (List ImmTy)) (r : String × Nat × List Step) : Bool :=
  match g r.2.1 with
  | some tys => r.2.2 == tys.flatMap stepsOfTy
  | none => false

set_option maxRecDepth 1000000 in
/-- **instr_table_matches_grammar**: every `case` of the instruction dispatch of c.c — plain opcodes, 0xFC and 0xFE
    sub-opcodes — reads after the opcode exactly the primitives that the grammar type of each immediate requires
    (`stepsOfTy`): in particular every `u32` by `leb128ReadU32` (never `bufferReadByte`), `s32` / `s64` by
    `leb128ReadI32` / `leb128ReadI64`.  A reader that takes one byte where the grammar has a `u32` (the call_indirect
    table index, say) changes its regenerated row and this no longer checks. -/
theorem instr_table_matches_grammar :
    W2c2Verif.Gen.Instr.opcodeImm.all (rowOK immOfOpcode) = true ∧
    W2c2Verif.Gen.Instr.miscOpcodeImm.all (rowOK immOfMisc) = true ∧
    W2c2Verif.Gen.Instr.threadsOpcodeImm.all (rowOK immOfThreads) = true := by
  refine ⟨?_, ?_, ?_⟩ <;> decide

theorem rowOK_reads {g : Nat → Option (List ImmTy)} {r : String × Nat × List Step} (h : rowOK g r = true) :
    ∃ tys, g r.2.1 = some tys ∧ ∀ (vals : List ImmVal) (enc rest : List UInt8) (prev : Nat), EncImms tys vals enc →
      readSteps r.2.2 prev (enc ++ rest) = .ok (vals.flatMap flattenImm, rest) := by
  unfold rowOK at h
  split at h
  · rename_i tys hg
    refine ⟨tys, hg, fun vals enc rest prev he => ?_⟩
    rw [eq_of_beq h]
    exact readSteps_enc he prev rest
  · cases h

/-- **instr_immediates_leb**: for every instruction the C writer handles (by opcode, or prefix and sub-opcode), the
    grammar gives its immediates, and EVERY encoding of them — each `u32` / `s32` / `s64` field with any redundant
    padding up to ⌈N/7⌉ bytes — is read back as the denoted values, consuming exactly the encoding, whatever follows. -/
theorem instr_immediates_leb :
    (∀ r ∈ W2c2Verif.Gen.Instr.opcodeImm, ∃ tys, immOfOpcode r.2.1 = some tys ∧
      ∀ (vals : List ImmVal) (enc rest : List UInt8) (prev : Nat), EncImms tys vals enc →
        readSteps r.2.2 prev (enc ++ rest) = .ok (vals.flatMap flattenImm, rest)) ∧
    (∀ r ∈ W2c2Verif.Gen.Instr.miscOpcodeImm, ∃ tys, immOfMisc r.2.1 = some tys ∧
      ∀ (vals : List ImmVal) (enc rest : List UInt8) (prev : Nat), EncImms tys vals enc →
        readSteps r.2.2 prev (enc ++ rest) = .ok (vals.flatMap flattenImm, rest)) ∧
    (∀ r ∈ W2c2Verif.Gen.Instr.threadsOpcodeImm, ∃ tys, immOfThreads r.2.1 = some tys ∧
      ∀ (vals : List ImmVal) (enc rest : List UInt8) (prev : Nat), EncImms tys vals enc →
        readSteps r.2.2 prev (enc ++ rest) = .ok (vals.flatMap flattenImm, rest)) :=
  ⟨fun r hr => rowOK_reads (List.all_eq_true.1 instr_table_matches_grammar.1 r hr),
   fun r hr => rowOK_reads (List.all_eq_true.1 instr_table_matches_grammar.2.1 r hr),
   fun r hr => rowOK_reads (List.all_eq_true.1 instr_table_matches_grammar.2.2 r hr)⟩

/-- the block-type reader on the three kinds of single-byte block types -/
theorem blockType_enc (rest : Bytes) :
    blockType ([0x40] ++ rest) = .ok (none, rest) ∧
    ∀ t : VT, blockType ([t.byte] ++ rest) = .ok (some (absVT t), rest) := by
  constructor
  · unfold blockType
    have h : i32 immError ([0x40] ++ rest) = .ok (((0x40 : UInt8).toNat : Int) - 128, rest) := by
      have hr := leb_s_decode_32 _ [0x40] rest (SLeb.neg (N := 32) 0x40 (by decide) (by decide) (by decide) (by decide))
      rw [i32_run, hr]; exact if_neg (by simp)
    rw [bind_eq_of_ok h, if_pos (by decide)]; rfl
  · intro t
    obtain ⟨c, hc, hd⟩ := i32_valtype_byte immError t rest
    unfold blockType
    rw [bind_eq_of_ok hc]
    have hne : c ≠ W2c2Verif.Gen.Reader.emptyBlockTypeCode := by
      intro he
      have hn : decodeValueType W2c2Verif.Gen.Reader.emptyBlockTypeCode = none := by decide
      rw [he, hn] at hd; cases hd
    rw [if_neg hne, hd]; rfl

/-! ### locals -/

theorem lookupShape_current : LookupShape.ofString W2c2Verif.Gen.Instr.localsLookupShape = some .indexBelowTotalPlusCount ∨
    LookupShape.ofString W2c2Verif.Gen.Instr.localsLookupShape = some .accumulateThenIndexBelowTotal := by decide

def groupsOf (ds : List LocalsDecl) : List (Nat × ValType) := ds.map fun d => (d.count, d.valueType)

def totalLocals (ds : List LocalsDecl) : Nat := (ds.map (·.count)).sum

theorem getTypeLoop_spec (shape : LookupShape)
    (hs : shape = .indexBelowTotalPlusCount ∨ shape = .accumulateThenIndexBelowTotal) :
    ∀ (ds : List LocalsDecl) (acc idx : Nat), acc + totalLocals ds < u32Mod → acc ≤ idx →
      getTypeLoop shape ds acc idx = (expandLocals (groupsOf ds))[idx - acc]? := by
  intro ds
  induction ds with
  | nil => intro acc idx _ _; simp [getTypeLoop, expandLocals, groupsOf]
  | cons d ds ih =>
    intro acc idx htot hle
    have ht : totalLocals (d :: ds) = d.count + totalLocals ds := by simp [totalLocals]
    rw [ht] at htot
    have hmod : (acc + d.count) % u32Mod = acc + d.count := Nat.mod_eq_of_lt (by omega)
    have hexp : expandLocals (groupsOf (d :: ds)) = List.replicate d.count d.valueType ++ expandLocals (groupsOf ds) := by
      simp [expandLocals, groupsOf]
    rw [hexp]
    have step : (if idx < (acc + d.count) % u32Mod then some d.valueType
        else getTypeLoop shape ds ((acc + d.count) % u32Mod) idx) =
        (List.replicate d.count d.valueType ++ expandLocals (groupsOf ds))[idx - acc]? := by
      rw [hmod]
      by_cases hlt : idx < acc + d.count
      · rw [if_pos hlt, List.getElem?_append_left (by simp; omega), List.getElem?_replicate, if_pos (by omega)]
      · rw [if_neg hlt, ih (acc + d.count) idx (by omega) (by omega),
          List.getElem?_append_right (by simp; omega)]
        simp only [List.length_replicate]
        congr 1
        omega
    rcases hs with rfl | rfl
    · exact step
    · exact step

/-- **locals_type_lookup**: `wasmLocalsDeclarationsGetType` on ANY locals vector of a valid body (the spec bounds the
    number of locals by 2^32 − 1) — groups of count 0 anywhere — returns for every index the type of the group that
    contains the `idx`-th local, i.e. the `idx`-th element of the concatenation `t₁^n₁ … t_k^n_k`, and `false` (`none`)
    for indices beyond.  No unsigned wrap-around occurs. -/
theorem locals_type_lookup (ds : List LocalsDecl) (idx : Nat) (htot : totalLocals ds < u32Mod) :
    getType ds idx = (expandLocals (groupsOf ds))[idx]? := by
  unfold getType
  rcases lookupShape_current with h | h
  · rw [h]; exact getTypeLoop_spec _ (Or.inl rfl) ds 0 idx (by omega) (Nat.zero_le _)
  · rw [h]; exact getTypeLoop_spec _ (Or.inr rfl) ds 0 idx (by omega) (Nat.zero_le _)

/-- Two groupings of the same sequence of locals (zero-count groups inserted, groups split or merged) give the same
    answer for every index. -/
theorem locals_grouping_irrelevant (ds₁ ds₂ : List LocalsDecl) (h₁ : totalLocals ds₁ < u32Mod) (h₂ : totalLocals ds₂ < u32Mod)
    (hsame : expandLocals (groupsOf ds₁) = expandLocals (groupsOf ds₂)) (idx : Nat) :
    getType ds₁ idx = getType ds₂ idx := by
  rw [locals_type_lookup ds₁ idx h₁, locals_type_lookup ds₂ idx h₂, hsame]

/-! ### non-vacuity and regression witnesses -/

set_option maxRecDepth 100000

/-- `call_indirect (type 3) (table 0)` with the table index padded to two and to five bytes (what LLVM emits for a
    relocatable table index) -/
example : EncImms [.u32, .u32] [.nat 3, .nat 0] ([0x03] ++ ([0x80, 0x00] ++ [])) :=
  EncImms.cons (EncImm.u32 (ULeb.last 0x03 (by decide) (by decide) (by decide)))
    (EncImms.cons (EncImm.u32 (ULeb.more (m := 0) 0x80 (by decide) (by decide) (ULeb.last 0x00 (by decide) (by decide) (by decide))))
      EncImms.nil)

example (prev : Nat) (rest : Bytes) :
    readSteps [.one .lebU32, .one .lebU32] prev ([0x03, 0x80, 0x80, 0x80, 0x80, 0x00] ++ rest) = .ok ([.num 3, .num 0], rest) := by
  have e : EncImms [.u32, .u32] [.nat 3, .nat 0] ([0x03] ++ ([0x80, 0x80, 0x80, 0x80, 0x00] ++ [])) :=
    EncImms.cons (EncImm.u32 (ULeb.last 0x03 (by decide) (by decide) (by decide)))
      (EncImms.cons (EncImm.u32 (ULeb.more (m := 0) 0x80 (by decide) (by decide)
        (ULeb.more (m := 0) 0x80 (by decide) (by decide) (ULeb.more (m := 0) 0x80 (by decide) (by decide)
          (ULeb.more (m := 0) 0x80 (by decide) (by decide) (ULeb.last 0x00 (by decide) (by decide) (by decide)))))))
        EncImms.nil)
  exact readSteps_enc e prev rest

/-- the row of call_indirect is in the table and is the LEB one -/
example : ("wasmOpcodeCallIndirect", 17, [Step.one .lebU32, Step.one .lebU32]) ∈ W2c2Verif.Gen.Instr.opcodeImm := by decide

/-- Regression witness for a byte-sized table index: a row `[lebU32, byte]` reads `11 03 80 00` as type 3, "table 128"
    and leaves the `00` behind (to be decoded as `unreachable`). -/
example (prev : Nat) (rest : Bytes) :
    readSteps [.one .lebU32, .one .byte] prev ([0x03, 0x80, 0x00] ++ rest) = .ok ([.num 3, .num 128], 0x00 :: rest) := rfl

/-- `(0 x i64)(1 x i32)`, `(1 x i32)` and `(0 x f32)(1 x i32)(0 x f64)` denote the same locals; all are within the bound -/
example : expandLocals (groupsOf [⟨0, .i64⟩, ⟨1, .i32⟩]) = expandLocals (groupsOf [⟨1, .i32⟩]) ∧
    expandLocals (groupsOf [⟨0, .f32⟩, ⟨1, .i32⟩, ⟨0, .f64⟩]) = expandLocals (groupsOf [⟨1, .i32⟩]) ∧
    totalLocals [⟨0, .i64⟩, ⟨1, .i32⟩] < u32Mod := by decide

example : getType [⟨0, .i64⟩, ⟨1, .i32⟩] 0 = some .i32 ∧ getType [⟨0, .i64⟩, ⟨1, .i32⟩] 1 = none := by
  constructor <;> rfl

/-- Regression witness for the loop `localsCount += count; if (localIndex <= localsCount - 1)`: on a leading zero-count
    group `0 - 1` wraps to 2^32 − 1 and the empty group's type is returned for every index. -/
theorem locals_lookup_wrap_regression :
    getTypeLoop .accumulateThenIndexAtMostTotalMinusOne [⟨0, .i64⟩, ⟨1, .i32⟩] 0 0 = some .i64 ∧
    getTypeLoop .accumulateThenIndexAtMostTotalMinusOne [⟨0, .i64⟩, ⟨1, .i32⟩] 0 7 = some .i64 ∧
    (expandLocals (groupsOf [⟨0, .i64⟩, ⟨1, .i32⟩]))[0]? = some ValType.i32 := by
  refine ⟨rfl, rfl, rfl⟩

end W2c2Verif.Props.C08
