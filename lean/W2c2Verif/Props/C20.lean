import W2c2Verif.Model.Files
namespace W2c2Verif.Props.C20
open W2c2Verif W2c2Verif.Model.Files W2c2Verif.Gen.Files

theorem near_miss_placeholder : cleanAccept true (nm "s000000000.c") = false := by decide

end W2c2Verif.Props.C20
