/-
  C20 — the translator touches only its own output files.

  All statements are about Model.Files, which *interprets* Gen.Files (regenerated from c.h, c.c,
  main.c, file.c on every run): a loosened length test, a dropped first-character test, a wider
  digit loop, another glob pattern or format string, cleaning before chdir, a new fopen/remove
  site or another fopen mode all change Gen.Files and these theorems are re-checked against it.
  Quantification: ALL byte strings as names, ALL 2^32 file indices, ALL directory contents
  (`FS` is an arbitrary function), ALL listings glob may return (any order, duplicates), ALL
  option values, ALL partitions of the functions into files (`plan` is arbitrary), both
  signednesses of `char`.
-/
import W2c2Verif.Lemmas.FilesRun
import W2c2Verif.Lemmas.FilesTotal

namespace W2c2Verif.Props.C20
open W2c2Verif W2c2Verif.Model.Files W2c2Verif.Gen.Files W2c2Verif.Lemmas.Files

/-! ## names the writer produces -/

/-- `sprintf(filename, "%c%010u.c", prefix, index)` for every prefix character and every U32 index:
    exactly W2C2_IMPL_FILENAME_LENGTH bytes — the prefix, ten decimal digits, `.c` -/
theorem impl_name_format (c : UInt8) (i : BitVec 32) :
    (implName c i).length = implLen ∧
    ∃ ds : List UInt8, ds.length = 10 ∧ (∀ d ∈ ds, isDigit d = true) ∧ implName c i = c :: ds ++ [46, 99] := by
  rw [implName_eq]
  have hl := padLeft_length 10 48 _ (decimal_length_u32 i.toNat i.isLt)
  refine ⟨by simp [hl, implLen], padLeft 10 48 (decimal i.toNat), hl, padLeft_digits 10 _ (decimal_digits _), rfl⟩

/-- … so it fits `char filename[W2C2_IMPL_FILENAME_LENGTH+1]` including the terminator -/
theorem impl_name_fits_buffer (c : UInt8) (i : BitVec 32) : (implName c i).length + 1 ≤ implBufSize := by
  rw [(impl_name_format c i).1]; decide

/-- the two call sites pass `'s'` and `'d'` -/
theorem impl_prefixes : prefixChars = [115, 100] := prefixChars_eq

theorem impl_names_are_impl_names (c : UInt8) (hc : c ∈ prefixChars) (i : BitVec 32) : IsImplName (implName c i) := by
  rw [prefixChars_eq] at hc
  simp at hc
  exact implName_isImpl c hc i

/-! ## the clean predicate -/

/-- the predicate `cleanImplementationFiles` applies (glob `*.c` without GLOB_PERIOD, then the three
    extracted tests) accepts exactly `[sd][0-9]{10}\.c` — for every byte string and either `char` signedness -/
theorem impl_name_pred_iff (sg : Bool) (name : Name) : cleanAccept sg name = true ↔ IsImplName name :=
  cleanAccept_iff sg name

/-- evaluating the tests never reads outside the NUL-terminated name (no UB), whatever its length -/
theorem clean_pred_no_ub (sg : Bool) (name : Name) : ∃ b, cleanDecision sg name = .val b :=
  ⟨_, cleanDecision_val sg name⟩

/-- every name the writer can produce is matched by the cleaner (stale files of an earlier, larger
    run are always cleaned) -/
theorem impl_names_satisfy_pred (sg : Bool) (c : UInt8) (hc : c ∈ prefixChars) (i : BitVec 32) :
    cleanAccept sg (implName c i) = true :=
  (impl_name_pred_iff sg _).mpr (impl_names_are_impl_names c hc i)

/-- `cleanImplementationFiles` on ANY directory state and ANY listing returned by glob: it is total,
    calls `remove` on exactly `listing.filter cleanPred` (in listing order), every other name of every
    directory keeps its state, and every matching listed name that is removable is gone afterwards -/
theorem clean_deletes_only_matching (w : World) (st : St) :
    ∃ st', cleanDir w st = .val st' ∧
      removeNames st'.events = removeNames st.events ++ (w.listing st.inOut).filter (cleanAccept w.charSigned) ∧
      (∀ l : Loc, ¬ (l.inOut = st.inOut ∧ l.name ∈ w.listing st.inOut ∧ cleanAccept w.charSigned l.name = true) →
        st'.fs l = st.fs l) ∧
      (∀ n ∈ w.listing st.inOut, cleanAccept w.charSigned n = true →
        st.fs ⟨st.inOut, n⟩ ≠ some .dirNonEmpty → st'.fs ⟨st.inOut, n⟩ = none) := by
  obtain ⟨st', h1, h2, _, _, h5, h6, h7⟩ := cleanLoop_spec w.charSigned
    ((w.listing st.inOut).filter (globMatch globPattern)) (st.emit (.glob st.inOut globPatternString))
  have hf : ((w.listing st.inOut).filter (globMatch globPattern)).filter stepsB
      = (w.listing st.inOut).filter (cleanAccept w.charSigned) := by
    rw [List.filter_filter]
    congr 1
    funext n
    rw [cleanAccept_split, Bool.and_comm]
  refine ⟨st', by rw [cleanDir_eq]; exact h1, ?_, ?_, ?_⟩
  · rw [h5, hf]
    simp [St.emit, removeNames_append, removeNames]
  · intro l hl
    have := h6 l (by
      rw [hf]
      intro hh
      apply hl
      have hm := List.mem_filter.mp hh.2
      exact ⟨hh.1, hm.1, hm.2⟩)
    simpa [St.emit] using this
  · intro n hn ha hne
    have := h7 n (by rw [hf]; exact List.mem_filter.mpr ⟨hn, ha⟩) (by simpa [St.emit] using hne)
    simpa [St.emit] using this

/-- the match loop is a fold over the directory entries whose only carried state, the flag through which the digit scan
    reports, is re-initialised by the loop body for EVERY entry (regenerated fact; the model's fold `cleanLoopF` threads the
    flag, `Lemmas.cleanLoopF_eq` reduces it to the stateless loop because of this) -/
theorem clean_flag_reset_per_entry : cleanScanFlagCarried = none ∧ ∀ f, entryFlag f = true :=
  ⟨rfl, entryFlag_true⟩

/-- the SET of names `cleanImplementationFiles` calls `remove` on = { listed names matching `[sd][0-9]{10}\.c` }: a statement
    about membership, hence independent of the order (and multiplicity) in which glob / readdir return the entries -/
theorem clean_removes_exactly_matching (w : World) (st : St) :
    ∃ st', cleanDir w st = .val st' ∧
      ∀ n, n ∈ removeNames st'.events ↔ (n ∈ removeNames st.events ∨ (n ∈ w.listing st.inOut ∧ IsImplName n)) := by
  obtain ⟨st', h1, h2, _⟩ := clean_deletes_only_matching w st
  refine ⟨st', h1, fun n => ?_⟩
  rw [h2, List.mem_append, List.mem_filter, impl_name_pred_iff]

/-- two runs of the clean step from the same state whose listings hold the same entries in ANY order (and with either `char`
    signedness) call `remove` on the same set of names and leave the same directory state: no stale implementation file
    survives because of where readdir happened to put it -/
theorem clean_order_independent (w₁ w₂ : World) (st : St)
    (hsame : ∀ n, n ∈ w₁.listing st.inOut ↔ n ∈ w₂.listing st.inOut) :
    ∃ s₁ s₂, cleanDir w₁ st = .val s₁ ∧ cleanDir w₂ st = .val s₂ ∧
      (∀ n, n ∈ removeNames s₁.events ↔ n ∈ removeNames s₂.events) ∧ (∀ l, s₁.fs l = s₂.fs l) := by
  obtain ⟨s₁, a1, a2, a3, a4⟩ := clean_deletes_only_matching w₁ st
  obtain ⟨s₂, b1, b2, b3, b4⟩ := clean_deletes_only_matching w₂ st
  refine ⟨s₁, s₂, a1, b1, fun n => ?_, fun l => ?_⟩
  · rw [a2, b2, List.mem_append, List.mem_append, List.mem_filter, List.mem_filter, impl_name_pred_iff, impl_name_pred_iff, hsame]
  · by_cases hA : l.inOut = st.inOut ∧ l.name ∈ w₁.listing st.inOut ∧ cleanAccept w₁.charSigned l.name = true
    · have hB : l.inOut = st.inOut ∧ l.name ∈ w₂.listing st.inOut ∧ cleanAccept w₂.charSigned l.name = true :=
        ⟨hA.1, (hsame _).mp hA.2.1, (impl_name_pred_iff _ _).mpr ((impl_name_pred_iff _ _).mp hA.2.2)⟩
      have hl : l = ⟨st.inOut, l.name⟩ := by
        cases l
        simp only [Loc.mk.injEq, and_true]
        exact hA.1
      by_cases hne : st.fs l = some .dirNonEmpty
      · rw [cleanDir_fs_nonEmpty w₁ st s₁ l hne a1, cleanDir_fs_nonEmpty w₂ st s₂ l hne b1]
      · rw [hl] at hne ⊢
        rw [a4 l.name hA.2.1 hA.2.2 hne, b4 l.name hB.2.1 hB.2.2 hne]
    · have hB : ¬ (l.inOut = st.inOut ∧ l.name ∈ w₂.listing st.inOut ∧ cleanAccept w₂.charSigned l.name = true) := by
        intro hh
        exact hA ⟨hh.1, (hsame _).mpr hh.2.1, (impl_name_pred_iff _ _).mpr ((impl_name_pred_iff _ _).mp hh.2.2)⟩
      rw [a3 l hA, b3 l hB]

/-! ## a whole run -/

/-- every path opened for writing is, in `dirname(outputPath)` (after the chdir), the output's basename, its
    header, `datasegments` (external modes only) or an implementation-file name; opened with a mode
    extracted from the source -/
theorem written_files_subset (o : Opts) (w : World) (plan : BitVec 32 → List (BitVec 32) × List (BitVec 32))
    (fs : FS) (st : St) (h : run o w plan fs = .val st) :
    ∀ io n m ok, Ev.openWrite io n m ok ∈ st.events →
      io = true ∧
      (n = basenameC o.outputPath ∨ n = headerName (basenameC o.outputPath) ∨
        (external o.mode = true ∧ n = dsName) ∨ IsImplName n) ∧
      m ∈ [headerMode, outputMode, implMode, dataSegmentsMode] := by
  intro io n m ok he
  exact (run_inv h).evs _ he

/-- every `remove` happens in `dirname(outputPath)`, only with the clean option, only on `[sd][0-9]{10}\.c` -/
theorem removed_files_subset (o : Opts) (w : World) (plan : BitVec 32 → List (BitVec 32) × List (BitVec 32))
    (fs : FS) (st : St) (h : run o w plan fs = .val st) :
    ∀ io n ok, Ev.remove io n ok ∈ st.events → io = true ∧ o.clean = true ∧ IsImplName n := by
  intro io n ok he
  exact (run_inv h).evs _ he

/-- "never any other file, whatever other names are present": the state of every name of both directories
    that is not one of the run's own names in the output directory is unchanged (ALL initial contents `fs`) -/
theorem nothing_else_changes (o : Opts) (w : World) (plan : BitVec 32 → List (BitVec 32) × List (BitVec 32))
    (fs : FS) (st : St) (h : run o w plan fs = .val st) (l : Loc)
    (hl : ¬ (l.inOut = true ∧ (l.name = basenameC o.outputPath ∨ l.name = headerName (basenameC o.outputPath) ∨
        (external o.mode = true ∧ l.name = dsName) ∨ IsImplName l.name))) :
    st.fs l = fs l := by
  apply Decidable.byContradiction
  intro hne
  exact hl ((run_inv h).frame l hne)

/-- a name disappears only with the clean option, only in the output directory, only if it matches the pattern -/
theorem deleted_only_matching (o : Opts) (w : World) (plan : BitVec 32 → List (BitVec 32) × List (BitVec 32))
    (fs : FS) (st : St) (h : run o w plan fs = .val st) (l : Loc) (hgone : st.fs l = none) (hwas : fs l ≠ none) :
    l.inOut = true ∧ o.clean = true ∧ IsImplName l.name :=
  (run_inv h).gone l hgone hwas

/-- without the clean option nothing is ever deleted -/
theorem no_clean_no_delete (o : Opts) (w : World) (plan : BitVec 32 → List (BitVec 32) × List (BitVec 32))
    (fs : FS) (st : St) (h : run o w plan fs = .val st) (hc : o.clean = false) (l : Loc) (hwas : fs l ≠ none) :
    st.fs l ≠ none := by
  intro hgone
  have := (deleted_only_matching o w plan fs st h l hgone hwas).2.1
  rw [hc] at this; cases this

/-- the module and the reference module are only ever opened with the extracted read mode, which has no
    write/append/update flag; by `nothing_else_changes` their state is unchanged unless the user named an
    output like them -/
theorem inputs_readonly (o : Opts) (w : World) (plan : BitVec 32 → List (BitVec 32) × List (BitVec 32))
    (fs : FS) (st : St) (h : run o w plan fs = .val st) :
    (∀ p m, Ev.openRead p m ∈ st.events → m = readMode ∧ (p = o.modulePath ∨ some p = o.refPath)) ∧
    (∀ c ∈ readMode.toList, c ≠ 'w' ∧ c ≠ 'a' ∧ c ≠ '+') := by
  refine ⟨fun p m he => (run_inv h).evs _ he, by decide⟩

/-- every write mode truncates/creates (`"w"`/`"wb"`): nothing is appended to or updated in place -/
theorem write_modes_truncate : ∀ m ∈ [headerMode, outputMode, implMode, dataSegmentsMode], m = "w" ∨ m = "wb" := by
  decide

/-- the theorems above are not vacuous: a run has a defined outcome whenever the output path leaves room
    for the header suffix in the PATH_MAX buffers (for ALL directory contents, listings, options, partitions);
    longer paths overflow `outputDir`/`outputName`/`headerName` (modelled as `.ub`; memory safety is C10) -/
theorem run_defined (o : Opts) (w : World) (plan : BitVec 32 → List (BitVec 32) × List (BitVec 32)) (fs : FS)
    (h : o.outputPath.length + 4 ≤ w.pathMax) : ∃ st, run o w plan fs = .val st :=
  run_total o w plan fs h

/-- the only directory change is to `dirname(outputPath)` -/
theorem chdir_only_to_output_dir (o : Opts) (w : World) (plan : BitVec 32 → List (BitVec 32) × List (BitVec 32))
    (fs : FS) (st : St) (h : run o w plan fs = .val st) :
    ∀ p ok, Ev.chdir p ok ∈ st.events → p = dirnameC o.outputPath := by
  intro p ok he
  exact (run_inv h).evs _ he

/-- the names files are created under contain no path separator (so they denote entries of the current
    directory = `dirname(outputPath)`), except for an output path made of slashes only -/
theorem outputs_in_dir (o : Opts) (n : Name)
    (hn : n = basenameC o.outputPath ∨ n = headerName (basenameC o.outputPath) ∨ n = dsName ∨ IsImplName n) :
    slash ∉ n ∨ basenameC o.outputPath = [slash] := by
  rcases basename_no_slash o.outputPath with hb | hb
  · right; exact hb
  · left
    rcases hn with rfl | rfl | rfl | ⟨c, ds, hc, _, hd, rfl⟩
    · exact hb
    · exact headerName_no_slash _ hb
    · decide
    · intro hm
      simp only [List.cons_append, List.mem_cons, List.mem_append] at hm
      rcases hm with hm | hm | hm
      · rcases hc with rfl | rfl <;> cases hm
      · have := hd _ hm; revert this; decide
      · revert hm; decide

/-- `datasegments` is not written in the `arrays` mode (unless the user named the output so) -/
theorem no_datasegments_in_arrays_mode (o : Opts) (w : World) (plan : BitVec 32 → List (BitVec 32) × List (BitVec 32))
    (fs : FS) (st : St) (h : run o w plan fs = .val st) (hm : external o.mode = false)
    (h1 : dsName ≠ basenameC o.outputPath) (h2 : dsName ≠ headerName (basenameC o.outputPath)) :
    ∀ io m ok, Ev.openWrite io dsName m ok ∉ st.events := by
  intro io m ok he
  rcases (written_files_subset o w plan fs st h io dsName m ok he).2.1 with e | e | e | ⟨c, ds, _, hl, _, e⟩
  · exact h1 e
  · exact h2 e
  · rw [hm] at e; cases e.1
  · have := congrArg List.length e
    simp [hl] at this
    revert this; decide

/-- the modes that write `datasegments` are exactly the non-`arrays` modes main() accepts -/
theorem external_modes : ∀ m ∈ allModes, external m = (m != "arrays") := by decide

/-- header name = basename with its last extension replaced by `.h`, or `.h` appended when there is no period
    (names without extension, dot files, several periods) -/
theorem header_name_spec (b : Name) :
    (∀ stem ext : Name, b = stem ++ 46 :: ext → (46 : UInt8) ∉ ext → headerName b = stem ++ [46, 104]) ∧
    ((46 : UInt8) ∉ b → headerName b = b ++ [46, 104]) := by
  constructor
  · intro stem ext hb hext
    rw [hb]
    exact headerName_of_dot stem ext hext
  · intro h
    exact headerName_no_dot b h

/-- every file-system call of the translator's sources is one the model accounts for -/
theorem sites_modelled :
    sites.map (fun s => (s.func, s.call, s.mode)) =
      [("wasmCWriteDataSegmentsFromSection", "fopen", dataSegmentsMode),
       ("wasmCWriteModuleHeader", "fopen", headerMode),
       ("wasmCWriteImplementationFile", "fopen", implMode),
       ("wasmCWriteModuleImplementation", "fopen", outputMode),
       ("readFile", "fopen", readMode),
       ("cleanImplementationFiles", "glob", ""),
       ("cleanImplementationFiles", "remove", ""),
       ("changeToOutputDirectory", "chdir", "")] := by decide

/-- main() changes to the output directory before it cleans or writes, and reads its inputs first -/
theorem main_order : orderOk false mainSteps = true ∧ mainSteps.head? = some .readModule := by decide

/-! ## non-vacuity -/

-- near-miss names are kept …
example : cleanAccept true (nm "s000000000.c") = false := by decide      -- nine digits
example : cleanAccept true (nm "s00000000000.c") = false := by decide    -- eleven digits
example : cleanAccept true (nm "x0000000000.c") = false := by decide     -- wrong prefix
example : cleanAccept true (nm "s00000000a0.c") = false := by decide     -- non-digit
example : cleanAccept true (nm "s0000000000.h") = false := by decide     -- other extension
example : cleanAccept true (nm "S0000000000.c") = false := by decide     -- upper case
example : cleanAccept true (nm ".s0000000000.c") = false := by decide    -- hidden
example : cleanAccept true (nm "s000000000..c") = false := by decide
example : cleanAccept false [115, 48, 48, 48, 48, 48, 48, 48, 48, 0xc3, 0xa9, 46, 99] = false := by decide  -- 13 bytes, UTF-8
example : cleanAccept true [115, 48, 48, 48, 48, 48, 48, 48, 48, 0xc3, 0xa9, 46, 99] = false := by decide
-- … real ones (also beyond 2^32 - 1, also empty directories or links of that name) are removed
example : cleanAccept true (nm "s0000000000.c") = true := by decide
example : cleanAccept false (nm "d4294967295.c") = true := by decide
example : cleanAccept true (nm "d9999999999.c") = true := by decide
example : IsImplName (nm "s0000000000.c") := (impl_name_pred_iff true _).mp (by decide)
example : implName 115 0 = nm "s0000000000.c" := by decide
example : implName 100 4294967295#32 = nm "d4294967295.c" := by decide
example : implName 115 1234567#32 = nm "s0001234567.c" := by decide
-- paths
example : dirnameC (nm "./x/../y/out.c") = nm "./x/../y" ∧ basenameC (nm "./x/../y/out.c") = nm "out.c" := by decide
example : dirnameC (nm "out.c") = nm "." ∧ dirnameC (nm "/abs/out.c") = nm "/abs" ∧ basenameC (nm "sub/dir/") = nm "dir" := by decide
example : headerName (nm "out.c") = nm "out.h" ∧ headerName (nm "out") = nm "out.h" ∧ headerName (nm ".hidden") = nm ".h"
    ∧ headerName (nm "a.b.c") = nm "a.b.h" ∧ headerName (nm "out.") = nm "out.h" := by decide

/-- a concrete run: `w2c2 -c -f 2 -d gnu-ld m.wasm sub/out.c` on a module with 3 functions in a directory
    holding a stale file, a near miss and a non-empty directory named like an implementation file -/
def exFs : FS := fun l =>
  if l = ⟨true, nm "s0000000005.c"⟩ then some (.file false)
  else if l = ⟨true, nm "s000000000.c"⟩ then some (.file false)
  else if l = ⟨true, nm "d0000000000.c"⟩ then some .dirNonEmpty
  else if l = ⟨false, nm "s0000000005.c"⟩ then some (.file false)
  else none

def exOpts : Opts := { modulePath := nm "m.wasm", refPath := none, outputPath := nm "sub/out.c", fpf := 2, threads := 1,
                       pretty := false, debug := false, multi := false, clean := true, mode := "gnu-ld" }

def exWorld : World := { moduleOk := true, refOk := true, funcCount := 3, nStatic := 3, nDynamic := 0, chdirOk := true,
                         listing := fun io => if io then [nm "s000000000.c", nm "d0000000000.c", nm "s0000000005.c"] else [nm "s0000000005.c"],
                         pathMax := 4096, charSigned := true }

example : (match runC exOpts exWorld exFs with | .val st => st.events | _ => []) =
    [.openRead (nm "m.wasm") "rb", .chdir (nm "sub") true, .glob true "*.c",
     .remove true (nm "d0000000000.c") false, .remove true (nm "s0000000005.c") true,
     .openWrite true (nm "out.h") "w" true, .openWrite true (nm "out.c") "w" true,
     .openWrite true (nm "datasegments") "wb" true,
     .openWrite true (nm "s0000000000.c") "w" true, .openWrite true (nm "s0000000001.c") "w" true, .exit 0] := by
  decide

-- name-level reading of the property: a pre-existing symbolic link AT an output name is followed by fopen (its
-- target is created / overwritten), `remove` of a matching link removes the link itself; a matching EMPTY
-- directory is removed, a non-empty one is not (the later fopen of that name then fails and the run exits 1)
example : writeEntry (some .linkDangling) = some (.linkFile true) ∧ writeEntry (some (.linkFile false)) = some (.linkFile true)
    ∧ removeEntry (some (.linkFile false)) = some none ∧ removeEntry (some .dirEmpty) = some none
    ∧ removeEntry (some .dirNonEmpty) = none ∧ writeEntry (some .dirNonEmpty) = none := by decide

-- an output path that does not fit PATH_MAX is undefined behaviour of the C code, and the model says so
example : (match runC exOpts { exWorld with pathMax := 9 } exFs with | .ub .bufferOverflow => true | _ => false) = true := by
  decide

end W2c2Verif.Props.C20
