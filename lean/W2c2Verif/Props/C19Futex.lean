import W2c2Verif.Gen.FutexLoads

/-!
  Props.C19Futex — C19 for the futex runtime: `memory.atomic.wait32/64` must compare the guest cell as the
  little-endian value every other load sees, on both host byte orders.

  `Gen.FutexLoads` is REGENERATED on every run (tools/extract/gen_futex_loads.py): `accesses` lists every place where
  futex.c hands the `wasmMemory` to a callee or touches `mem->data`; `accessors` lists the load functions of
  w2c2_base.h instantiated by DEFINE_LOAD*/DEFINE_ATOMIC_LOAD, with the width of the cell they read.  For exactly
  those functions Props/C19.lean proves that the big-endian body (one byte reversal of that width) equals the
  little-endian one.  The statements below are about these two FINITE tables of the current source and are decided by
  evaluation (`decide`); what they establish is that the futex runtime has no other way to read guest memory.
-/
namespace W2c2Verif.C19Futex
open W2c2Verif.Gen.FutexLoads

/-- the access goes through an endian-aware accessor, of the width the `wait64 ? … : …` selection demands at that place -/
def okAccess (a : Access) : Bool :=
  !a.raw && accessors.any (fun x => x.name == a.callee && (a.needBits == 0 || x.bits == a.needBits))

/-- **futex_reads_endian_aware.**  Every guest-memory read of the futex runtime goes through an endian-aware
    accessor of its width; `mem->data` is never touched directly. -/
theorem futex_reads_endian_aware : accesses.all okAccess = true := by decide

/-- the table is not empty: the wait path reads a 64-bit cell for wait64 and a 32-bit cell for wait32, atomically -/
theorem futex_wait_reads_both_widths :
    (accesses.any fun a => a.func == "wasmMemoryAtomicWait" && a.needBits == 64 &&
        accessors.any (fun x => x.name == a.callee && x.bits == 64 && x.atomic)) = true ∧
    (accesses.any fun a => a.func == "wasmMemoryAtomicWait" && a.needBits == 32 &&
        accessors.any (fun x => x.name == a.callee && x.bits == 32 && x.atomic)) = true := by decide

/-- notify reads no guest memory at all -/
theorem futex_notify_reads_nothing : (accesses.all fun a => a.func != "wasmMemoryAtomicNotify") = true := by decide

end W2c2Verif.C19Futex
