/-
  Props.C02TruncOps — for each of the 16 float-to-int truncation opcodes and EVERY operand bit pattern, the
  statement w2c2 emits computes exactly the specification's `trunc` (trapping with the specified code on NaN /
  out-of-range) resp. `trunc_sat`, and is never undefined (the C cast is reached only when it is defined).
-/
import W2c2Verif.Props.C02Ops
import W2c2Verif.Props.C02Guards

namespace W2c2Verif.Props.C02
open W2c2Verif

theorem bind_castInt_u32 (o : Out (BitVec 32)) : (o.map' CVal.u32 >>= CVal.castInt .u32) = o.map' CVal.u32 := by
  cases o <;> simp [Out.map', CVal.fromNat]
theorem bind_castInt_u64 (o : Out (BitVec 64)) : (o.map' CVal.u64 >>= CVal.castInt .u64) = o.map' CVal.u64 := by
  cases o <;> simp [Out.map', CVal.fromNat]

theorem truncTrap_no_ub (fmt : SF.Fmt) (N : Nat) (sg : Bool) (b : Nat) (k : UBKind) : Spec.truncTrap fmt N sg b ≠ .ub k := by
  unfold Spec.truncTrap
  split
  · intro h; cases h
  · split
    · intro h; cases h
    · rename_i t _
      simp only []
      by_cases hr : (if sg = true then -(2 ^ (N - 1) : Int) else 0) ≤ t ∧ t ≤ (if sg = true then (2 ^ (N - 1) : Int) - 1 else (2 ^ N : Int) - 1)
      · rw [if_pos hr]; intro h; cases h
      · rw [if_neg hr]; intro h; cases h


theorem opspec_i32_trunc_f32_s (x : BitVec 32) :
    Model.runNumeric C01.macroDefs "wasmOpcodeI32TruncF32S" [(.f32, .f32 x)] = (Spec.truncTrap SF.f32 32 true x.toNat).map' CVal.u32 := by
  rw [op_i32_trunc_f32_s, i32_trunc_s_f32_exact, bind_castInt_u32]

theorem no_ub_i32_trunc_f32_s (x : BitVec 32) (k : UBKind) :
    Model.runNumeric C01.macroDefs "wasmOpcodeI32TruncF32S" [(.f32, .f32 x)] ≠ .ub k := by
  rw [opspec_i32_trunc_f32_s]
  have := truncTrap_no_ub SF.f32 32 true x.toNat k
  cases h : Spec.truncTrap SF.f32 32 true x.toNat <;> simp_all [Out.map']

theorem opspec_i32_trunc_sat_f32_s (x : BitVec 32) :
    Model.runNumeric C01.macroDefs "wasmMiscOpcodeI32TruncSatF32S" [(.f32, .f32 x)] = .val (.u32 (Spec.truncSat SF.f32 32 true x.toNat)) := by
  rw [op_i32_trunc_sat_f32_s, i32_trunc_sat_s_f32_exact]

theorem no_ub_i32_trunc_sat_f32_s (x : BitVec 32) (k : UBKind) :
    Model.runNumeric C01.macroDefs "wasmMiscOpcodeI32TruncSatF32S" [(.f32, .f32 x)] ≠ .ub k := by
  rw [opspec_i32_trunc_sat_f32_s]; intro h; cases h

theorem opspec_i32_trunc_f32_u (x : BitVec 32) :
    Model.runNumeric C01.macroDefs "wasmOpcodeI32TruncF32U" [(.f32, .f32 x)] = (Spec.truncTrap SF.f32 32 false x.toNat).map' CVal.u32 := by
  rw [op_i32_trunc_f32_u, i32_trunc_u_f32_exact, bind_castInt_u32]

theorem no_ub_i32_trunc_f32_u (x : BitVec 32) (k : UBKind) :
    Model.runNumeric C01.macroDefs "wasmOpcodeI32TruncF32U" [(.f32, .f32 x)] ≠ .ub k := by
  rw [opspec_i32_trunc_f32_u]
  have := truncTrap_no_ub SF.f32 32 false x.toNat k
  cases h : Spec.truncTrap SF.f32 32 false x.toNat <;> simp_all [Out.map']

theorem opspec_i32_trunc_sat_f32_u (x : BitVec 32) :
    Model.runNumeric C01.macroDefs "wasmMiscOpcodeI32TruncSatF32U" [(.f32, .f32 x)] = .val (.u32 (Spec.truncSat SF.f32 32 false x.toNat)) := by
  rw [op_i32_trunc_sat_f32_u, i32_trunc_sat_u_f32_exact]

theorem no_ub_i32_trunc_sat_f32_u (x : BitVec 32) (k : UBKind) :
    Model.runNumeric C01.macroDefs "wasmMiscOpcodeI32TruncSatF32U" [(.f32, .f32 x)] ≠ .ub k := by
  rw [opspec_i32_trunc_sat_f32_u]; intro h; cases h

theorem opspec_i32_trunc_f64_s (x : BitVec 64) :
    Model.runNumeric C01.macroDefs "wasmOpcodeI32TruncF64S" [(.f64, .f64 x)] = (Spec.truncTrap SF.f64 32 true x.toNat).map' CVal.u32 := by
  rw [op_i32_trunc_f64_s, i32_trunc_s_f64_exact, bind_castInt_u32]

theorem no_ub_i32_trunc_f64_s (x : BitVec 64) (k : UBKind) :
    Model.runNumeric C01.macroDefs "wasmOpcodeI32TruncF64S" [(.f64, .f64 x)] ≠ .ub k := by
  rw [opspec_i32_trunc_f64_s]
  have := truncTrap_no_ub SF.f64 32 true x.toNat k
  cases h : Spec.truncTrap SF.f64 32 true x.toNat <;> simp_all [Out.map']

theorem opspec_i32_trunc_sat_f64_s (x : BitVec 64) :
    Model.runNumeric C01.macroDefs "wasmMiscOpcodeI32TruncSatF64S" [(.f64, .f64 x)] = .val (.u32 (Spec.truncSat SF.f64 32 true x.toNat)) := by
  rw [op_i32_trunc_sat_f64_s, i32_trunc_sat_s_f64_exact]

theorem no_ub_i32_trunc_sat_f64_s (x : BitVec 64) (k : UBKind) :
    Model.runNumeric C01.macroDefs "wasmMiscOpcodeI32TruncSatF64S" [(.f64, .f64 x)] ≠ .ub k := by
  rw [opspec_i32_trunc_sat_f64_s]; intro h; cases h

theorem opspec_i32_trunc_f64_u (x : BitVec 64) :
    Model.runNumeric C01.macroDefs "wasmOpcodeI32TruncF64U" [(.f64, .f64 x)] = (Spec.truncTrap SF.f64 32 false x.toNat).map' CVal.u32 := by
  rw [op_i32_trunc_f64_u, i32_trunc_u_f64_exact, bind_castInt_u32]

theorem no_ub_i32_trunc_f64_u (x : BitVec 64) (k : UBKind) :
    Model.runNumeric C01.macroDefs "wasmOpcodeI32TruncF64U" [(.f64, .f64 x)] ≠ .ub k := by
  rw [opspec_i32_trunc_f64_u]
  have := truncTrap_no_ub SF.f64 32 false x.toNat k
  cases h : Spec.truncTrap SF.f64 32 false x.toNat <;> simp_all [Out.map']

theorem opspec_i32_trunc_sat_f64_u (x : BitVec 64) :
    Model.runNumeric C01.macroDefs "wasmMiscOpcodeI32TruncSatF64U" [(.f64, .f64 x)] = .val (.u32 (Spec.truncSat SF.f64 32 false x.toNat)) := by
  rw [op_i32_trunc_sat_f64_u, i32_trunc_sat_u_f64_exact]

theorem no_ub_i32_trunc_sat_f64_u (x : BitVec 64) (k : UBKind) :
    Model.runNumeric C01.macroDefs "wasmMiscOpcodeI32TruncSatF64U" [(.f64, .f64 x)] ≠ .ub k := by
  rw [opspec_i32_trunc_sat_f64_u]; intro h; cases h

theorem opspec_i64_trunc_f32_s (x : BitVec 32) :
    Model.runNumeric C01.macroDefs "wasmOpcodeI64TruncF32S" [(.f32, .f32 x)] = (Spec.truncTrap SF.f32 64 true x.toNat).map' CVal.u64 := by
  rw [op_i64_trunc_f32_s, i64_trunc_s_f32_exact, bind_castInt_u64]

theorem no_ub_i64_trunc_f32_s (x : BitVec 32) (k : UBKind) :
    Model.runNumeric C01.macroDefs "wasmOpcodeI64TruncF32S" [(.f32, .f32 x)] ≠ .ub k := by
  rw [opspec_i64_trunc_f32_s]
  have := truncTrap_no_ub SF.f32 64 true x.toNat k
  cases h : Spec.truncTrap SF.f32 64 true x.toNat <;> simp_all [Out.map']

theorem opspec_i64_trunc_sat_f32_s (x : BitVec 32) :
    Model.runNumeric C01.macroDefs "wasmMiscOpcodeI64TruncSatF32S" [(.f32, .f32 x)] = .val (.u64 (Spec.truncSat SF.f32 64 true x.toNat)) := by
  rw [op_i64_trunc_sat_f32_s, i64_trunc_sat_s_f32_exact]

theorem no_ub_i64_trunc_sat_f32_s (x : BitVec 32) (k : UBKind) :
    Model.runNumeric C01.macroDefs "wasmMiscOpcodeI64TruncSatF32S" [(.f32, .f32 x)] ≠ .ub k := by
  rw [opspec_i64_trunc_sat_f32_s]; intro h; cases h

theorem opspec_i64_trunc_f32_u (x : BitVec 32) :
    Model.runNumeric C01.macroDefs "wasmOpcodeI64TruncF32U" [(.f32, .f32 x)] = (Spec.truncTrap SF.f32 64 false x.toNat).map' CVal.u64 := by
  rw [op_i64_trunc_f32_u, i64_trunc_u_f32_exact, bind_castInt_u64]

theorem no_ub_i64_trunc_f32_u (x : BitVec 32) (k : UBKind) :
    Model.runNumeric C01.macroDefs "wasmOpcodeI64TruncF32U" [(.f32, .f32 x)] ≠ .ub k := by
  rw [opspec_i64_trunc_f32_u]
  have := truncTrap_no_ub SF.f32 64 false x.toNat k
  cases h : Spec.truncTrap SF.f32 64 false x.toNat <;> simp_all [Out.map']

theorem opspec_i64_trunc_sat_f32_u (x : BitVec 32) :
    Model.runNumeric C01.macroDefs "wasmMiscOpcodeI64TruncSatF32U" [(.f32, .f32 x)] = .val (.u64 (Spec.truncSat SF.f32 64 false x.toNat)) := by
  rw [op_i64_trunc_sat_f32_u, i64_trunc_sat_u_f32_exact]

theorem no_ub_i64_trunc_sat_f32_u (x : BitVec 32) (k : UBKind) :
    Model.runNumeric C01.macroDefs "wasmMiscOpcodeI64TruncSatF32U" [(.f32, .f32 x)] ≠ .ub k := by
  rw [opspec_i64_trunc_sat_f32_u]; intro h; cases h

theorem opspec_i64_trunc_f64_s (x : BitVec 64) :
    Model.runNumeric C01.macroDefs "wasmOpcodeI64TruncF64S" [(.f64, .f64 x)] = (Spec.truncTrap SF.f64 64 true x.toNat).map' CVal.u64 := by
  rw [op_i64_trunc_f64_s, i64_trunc_s_f64_exact, bind_castInt_u64]

theorem no_ub_i64_trunc_f64_s (x : BitVec 64) (k : UBKind) :
    Model.runNumeric C01.macroDefs "wasmOpcodeI64TruncF64S" [(.f64, .f64 x)] ≠ .ub k := by
  rw [opspec_i64_trunc_f64_s]
  have := truncTrap_no_ub SF.f64 64 true x.toNat k
  cases h : Spec.truncTrap SF.f64 64 true x.toNat <;> simp_all [Out.map']

theorem opspec_i64_trunc_sat_f64_s (x : BitVec 64) :
    Model.runNumeric C01.macroDefs "wasmMiscOpcodeI64TruncSatF64S" [(.f64, .f64 x)] = .val (.u64 (Spec.truncSat SF.f64 64 true x.toNat)) := by
  rw [op_i64_trunc_sat_f64_s, i64_trunc_sat_s_f64_exact]

theorem no_ub_i64_trunc_sat_f64_s (x : BitVec 64) (k : UBKind) :
    Model.runNumeric C01.macroDefs "wasmMiscOpcodeI64TruncSatF64S" [(.f64, .f64 x)] ≠ .ub k := by
  rw [opspec_i64_trunc_sat_f64_s]; intro h; cases h

theorem opspec_i64_trunc_f64_u (x : BitVec 64) :
    Model.runNumeric C01.macroDefs "wasmOpcodeI64TruncF64U" [(.f64, .f64 x)] = (Spec.truncTrap SF.f64 64 false x.toNat).map' CVal.u64 := by
  rw [op_i64_trunc_f64_u, i64_trunc_u_f64_exact, bind_castInt_u64]

theorem no_ub_i64_trunc_f64_u (x : BitVec 64) (k : UBKind) :
    Model.runNumeric C01.macroDefs "wasmOpcodeI64TruncF64U" [(.f64, .f64 x)] ≠ .ub k := by
  rw [opspec_i64_trunc_f64_u]
  have := truncTrap_no_ub SF.f64 64 false x.toNat k
  cases h : Spec.truncTrap SF.f64 64 false x.toNat <;> simp_all [Out.map']

theorem opspec_i64_trunc_sat_f64_u (x : BitVec 64) :
    Model.runNumeric C01.macroDefs "wasmMiscOpcodeI64TruncSatF64U" [(.f64, .f64 x)] = .val (.u64 (Spec.truncSat SF.f64 64 false x.toNat)) := by
  rw [op_i64_trunc_sat_f64_u, i64_trunc_sat_u_f64_exact]

theorem no_ub_i64_trunc_sat_f64_u (x : BitVec 64) (k : UBKind) :
    Model.runNumeric C01.macroDefs "wasmMiscOpcodeI64TruncSatF64U" [(.f64, .f64 x)] ≠ .ub k := by
  rw [opspec_i64_trunc_sat_f64_u]; intro h; cases h

end W2c2Verif.Props.C02
