/-
  Props.C09Pool — the concurrency / partition part of C09 (output options and worker scheduling do not change
  what is emitted): file partition, static/dynamic split, worker pool.  (Props/C09.lean, the output-options part,
  imports this file.)
-/
import W2c2Verif.Lemmas.PoolPartition
import W2c2Verif.Lemmas.PoolSplit
import W2c2Verif.Lemmas.PoolFinal

namespace W2c2Verif.Props.C09
open W2c2Verif.Model

/-! ## file partition (c.c: wasmCWriteModuleImplementationFiles / wasmCWriteImplementationFile) -/

open Partition in
/-- `fileIndex * functionsPerFile` (U32) never wraps for any 32-bit function count and any `-f` value. -/
theorem partition_overflow_free (n fpf i : Nat) (hn : n < 4294967296) (hi : i < fileCount n fpf) :
    i * effFpf fpf < 4294967296 :=
  start_no_wrap hn hi

open Partition in
/-- **Each function is emitted in exactly one file.**  For up to 2^31 function IDs and every `-f` value: the
    files written are exactly `i ↦ [i·f, min((i+1)·f, n))` for `i < fileCount` — every file non-empty, the ranges
    in order and adjacent (hence pairwise disjoint), starting at 0 and ending at `n` — and every ID index `k < n`
    lies in the range of exactly one file. -/
theorem partition_exact (n fpf : Nat) (hn : n ≤ 2147483648) (hf : fpf < 4294967296) :
    files n fpf = (List.range (fileCount n fpf)).map (fun i => (i, i * effFpf fpf, min ((i + 1) * effFpf fpf) n)) ∧
    (∀ e, e ∈ files n fpf → e.2.1 < e.2.2 ∧ e.2.2 ≤ n) ∧
    (∀ i, i + 1 < fileCount n fpf → min ((i + 1) * effFpf fpf) n = (i + 1) * effFpf fpf) ∧
    (0 < n → min (fileCount n fpf * effFpf fpf) n = n) ∧
    (∀ k, k < n → ∃ e, e ∈ files n fpf ∧ e.2.1 ≤ k ∧ k < e.2.2 ∧
      ∀ e', e' ∈ files n fpf → e'.2.1 ≤ k → k < e'.2.2 → e' = e) := by
  have hfiles := files_eq hn hf
  refine ⟨hfiles, ?_, ?_, ?_, ?_⟩
  · intro e he
    rw [hfiles] at he
    obtain ⟨i, hi, rfl⟩ := List.mem_map.mp he
    have := (fileRange_eq hn hf (List.mem_range.mp hi)).2
    exact ⟨this, Nat.min_le_right _ _⟩
  · intro i hi
    have hpos : 0 < n := (fileCount_pos_iff (fpf := fpf)).mp (by omega)
    have := (lt_fileCount_iff hpos).mp hi
    omega
  · intro hpos
    -- the last file ends at n: (fileCount) * f > n - 1
    have hfp := effFpf_pos fpf
    have hnot : ¬ (fileCount n fpf < fileCount n fpf) := Nat.lt_irrefl _
    rw [lt_fileCount_iff hpos] at hnot
    omega
  · intro k hk
    obtain ⟨⟨h1, h2, h3⟩, huniq⟩ := unique_file (fpf := fpf) hk
    refine ⟨(k / effFpf fpf, (k / effFpf fpf) * effFpf fpf, min ((k / effFpf fpf + 1) * effFpf fpf) n), ?_, h2, h3, ?_⟩
    · rw [hfiles]; exact List.mem_map.mpr ⟨_, List.mem_range.mpr h1, rfl⟩
    · intro e' he' ha hb
      rw [hfiles] at he'
      obtain ⟨j, _, rfl⟩ := List.mem_map.mp he'
      have := huniq j ha hb
      rw [this]

open Partition in
/-- Beyond 2^31 functions the U32 sum `start + functionsPerFile` can wrap: with 3·2^30+1 IDs and `-f 2^31`, file 1
    is skipped as "empty" and the IDs from 2^31 on are written nowhere.  (Model-level only: no module with more
    than 2^31 functions fits the reader's 32-bit buffer length; `partition_exact` covers everything reachable.) -/
theorem partition_end_wrap_counterexample :
    fileCount 3221225473 2147483648 = 2 ∧ fileRange 3221225473 2147483648 1 = none ∧
    files 3221225473 2147483648 = [(0, 0, 2147483648)] := by
  decide

open Partition in
/-- the functions go into the main file iff `-f` (0 = all) covers the module and nothing is dynamic -/
theorem plan_single_file_iff (fOpt count nStatic nDynamic : Nat) :
    plan fOpt count nStatic nDynamic = none ↔ ((fOpt = 0 ∨ fOpt ≥ count) ∧ nDynamic = 0) := by
  unfold plan singleFile mainFpf
  by_cases h0 : fOpt = 0 <;> by_cases hd : nDynamic = 0 <;> by_cases hc : fOpt ≥ count <;> simp [h0, hd, hc]
  all_goals omega

/-! ## static / dynamic split (main.c: wasmSplitStaticAndDynamicFunctions) -/

open Split in
/-- **A function is static only if the reference module contains the same body hash**, for ANY two ID lists:
    static ++ dynamic is a permutation of the module's IDs; the hashes of the static functions form a
    subsequence of the reference hashes (so every static hash occurs in the reference and each reference entry
    justifies at most one static function); both outputs keep the sorted order of the input. -/
theorem split_static_sound (ids ref : List FnId) :
    ((split ids ref).1 ++ (split ids ref).2).Perm ids ∧
    ((split ids ref).1.map (·.hash)).Sublist (ref.map (·.hash)) ∧
    (∀ x, x ∈ (split ids ref).1 → x.hash ∈ ref.map (·.hash)) ∧
    (split ids ref).1.Sublist ids ∧ (split ids ref).2.Sublist ids := by
  refine ⟨split_perm ids ref, split_static_sublist_ref ids ref, ?_, (split_sublists ids ref).1,
    (split_sublists ids ref).2⟩
  intro x hx
  exact (split_static_sublist_ref ids ref).subset (List.mem_map.mpr ⟨x, hx, rfl⟩)

open Split in
/-- without a reference module (or an empty one) nothing is static -/
theorem split_empty_ref (ids : List FnId) : split ids [] = ([], ids) := split_nil_ref ids

open Split in
example : split [⟨1, 0⟩, ⟨5, 2⟩, ⟨5, 3⟩, ⟨9, 1⟩] [⟨2, 0⟩, ⟨5, 1⟩, ⟨9, 2⟩, ⟨9, 3⟩] =
    ([⟨5, 2⟩, ⟨9, 1⟩], [⟨1, 0⟩, ⟨5, 3⟩]) := by simp [split]

/-! ## worker pool (c.c: wasmCImplementationWriterThread / wasmCWriteModuleImplementationFiles)

  `Pool.Reachable cfg s`: `s` is reachable under SOME interleaving of the producer and the `cfg.N` workers,
  including spurious returns of `pthread_cond_wait`; the theorems hold for every reachable state, i.e. for
  every interleaving, every `N ≥ 1`, every number of tasks `cfg.K` and every `startOf`. -/

open Pool in
/-- **Every task is executed exactly once, with the field values the producer set for it.**
    In every reachable state: no file index has been written twice; every file written was written by one of
    the workers, for an index `i < K`, with exactly the start index the producer computed for `i`
    (`startOf i` stands for all fields stored next to `fileIndex`).  When the producer has returned: the file
    indices written are a permutation of `0, …, K−1`, all workers have returned, slot empty. -/
theorem pool_exactly_once (cfg : Cfg) (hN : 1 ≤ cfg.N) (s : Sh × (Tid → Loc)) (hr : Reachable cfg s) :
    (s.1.ex.map (·.2.1)).Nodup ∧
    (∀ e, e ∈ s.1.ex → e.2.1 < cfg.K ∧ e.2.2 = cfg.startOf e.2.1 ∧ 1 ≤ e.1 ∧ e.1 ≤ cfg.N) ∧
    (Final s → (s.1.ex.map (·.2.1)).Perm (List.range cfg.K) ∧ s.1.taskSet = false ∧
      ∀ w : Nat, 1 ≤ w → w ≤ cfg.N → (s.2 w).pc = .wret) := by
  obtain ⟨I, P, _⟩ := live_reach hN hr
  have hnd : (pend s.2 cfg.N ++ s.1.ex.map (·.2.1)).Nodup := (P.nodup_iff).mpr (tk_nodup I.tkseq)
  refine ⟨(List.nodup_append.mp hnd).2.1, ?_, ?_⟩
  · intro e he
    have hv := I.exv e he
    refine ⟨?_, hv.1, hv.2.1, hv.2.2⟩
    have hmem : e.2.1 ∈ s.1.tk := P.subset (List.mem_append_right _ (List.mem_map.mpr ⟨e, he, rfl⟩))
    exact Nat.lt_of_lt_of_le (mem_tk_lt I.tkseq hmem) (tk_length_le I)
  · intro hf
    have hf' : (s.2 0).pc = .pend := hf
    have hdone := (I.dn2 (Or.inr (Or.inr hf'))).1
    have hts := (I.dn1 hdone).1
    have hK : s.1.tk.length = cfg.K := by
      have hpub := I.pub
      have hfi := I.fiK.2.2 (by rw [hf']; rfl)
      rw [hf', hts] at hpub
      simp [b2n, PC.published] at hpub
      omega
    refine ⟨?_, hts, fun w h1 h2 => I.ret1 w (I.join.2 hf' w h1 h2)⟩
    have hp : pend s.2 cfg.N = [] := pend_final I hf' cfg.N (Nat.le_refl _)
    unfold PInv at P
    rw [hp, List.nil_append] at P
    have htk := I.tkseq
    rw [hK] at htk
    rw [← htk] at P
    exact P.trans (List.reverse_perm _)

open Pool in
/-- **No torn task.** Two threads are never simultaneously at statements that run under the mutex; every
    statement that reads or writes `writer->task`, the fields of `*task` or `writer->done` is such a statement
    (`accessesTask_holds`).  Hence a worker never reads the task while the producer writes it.  (That the values
    read belong to ONE task is the second clause of `pool_exactly_once`.) -/
theorem pool_no_torn_task (cfg : Cfg) (hN : 1 ≤ cfg.N) (s : Sh × (Tid → Loc)) (hr : Reachable cfg s) (t u : Nat)
    (ht : (s.2 t).pc.accessesTask = true ∨ (s.2 t).pc.holds = true)
    (hu : (s.2 u).pc.accessesTask = true ∨ (s.2 u).pc.holds = true) : t = u := by
  obtain ⟨I, _, _⟩ := live_reach hN hr
  have h1 : (s.2 t).pc.holds = true := ht.elim (accessesTask_holds _) id
  have h2 : (s.2 u).pc.holds = true := hu.elim (accessesTask_holds _) id
  have a := (I.mx t).mp h1
  have b := (I.mx u).mp h2
  rw [a] at b
  exact Option.some.inj b

open Pool in
/-- **Deadlock freedom.** Every reachable state in which the producer has not returned has an enabled
    transition that is NOT a spurious wake-up (`step false`): nobody's progress depends on one.  (And when the
    producer has returned, everything is done: last clause of `pool_exactly_once`.) -/
theorem pool_deadlock_free (cfg : Cfg) (hN : 1 ≤ cfg.N) (s : Sh × (Tid → Loc)) (hr : Reachable cfg s) :
    Final s ∨ ∃ t : Nat, step false cfg t s.1 (s.2 t) ≠ [] := by
  obtain ⟨I, _, D⟩ := live_reach hN hr
  obtain ⟨g, ls⟩ := s
  -- a worker that is neither returned nor parked-unsignalled moves as soon as the mutex is free
  have worker_moves : g.mutex = none → ∀ w : Nat, 1 ≤ w → (ls w).pc ≠ .wret →
      ¬ ((ls w).pc = .w3p ∧ w ∈ g.consume) → step false cfg w g (ls w) ≠ [] := by
    intro hm w h1 hr' hp
    refine worker_enabled cfg w g (ls w) hm (I.roleW w h1) ?_ hr' hp
    cases hh : (ls w).pc.holds with
    | false => rfl
    | true => have := (I.mx w).mp hh; rw [hm] at this; cases this
  cases hm : g.mutex with
  | some t => exact Or.inr ⟨t, holder_enabled cfg t g (ls t) ((I.mx t).mpr hm)⟩
  | none =>
    have hnh : (ls 0).pc.holds = false := by
      cases hh : (ls 0).pc.holds with
      | false => rfl
      | true => have := (I.mx 0).mp hh; rw [hm] at this; cases this
    have h0 := I.role0
    -- the producer's own step, where it has one
    by_cases hprod : step false cfg 0 g (ls 0) ≠ []
    · exact Or.inr ⟨0, hprod⟩
    · have hprod' : step false cfg 0 g (ls 0) = [] := Classical.not_not.mp hprod
      cases hpc : (ls 0).pc <;> simp [hpc, PC.holds, PC.isProducer, PC.isWorker] at hnh h0
      all_goals simp [step, hpc, hm, wake] at hprod'
      · -- p3p: parked on `produce`, not signalled
        rcases D.owe hprod' with ⟨_, w, h1, _, ha⟩ | ⟨w, h1, _, ho⟩
        · exact Or.inr ⟨w, worker_moves hm w h1 ha.1 ha.2⟩
        · refine Or.inr ⟨w, worker_moves hm w h1 ?_ ?_⟩
          · rcases ho with h | h | h | h <;> rw [h] <;> decide
          · rintro ⟨h3, _⟩; rcases ho with h | h | h | h <;> rw [h] at h3 <;> cases h3
      · -- p10p
        rcases D.owe hprod' with ⟨_, w, h1, _, ha⟩ | ⟨w, h1, _, ho⟩
        · exact Or.inr ⟨w, worker_moves hm w h1 ha.1 ha.2⟩
        · refine Or.inr ⟨w, worker_moves hm w h1 ?_ ?_⟩
          · rcases ho with h | h | h | h <;> rw [h] <;> decide
          · rintro ⟨h3, _⟩; rcases ho with h | h | h | h <;> rw [h] at h3 <;> cases h3
      · -- p14: joining worker j, which has not returned
        obtain ⟨hj1, _⟩ := I.join.1 hpc
        have hcons := (I.dn2 (Or.inr (Or.inl hpc))).2
        have hjN : ¬ cfg.N < (ls 0).j := by
          intro h; rw [if_pos h] at hprod'; cases hprod'
        rw [if_neg hjN] at hprod'
        have hjr : (ls 0).j ∉ g.returned := by
          intro h; rw [if_pos h] at hprod'; cases hprod'
        refine Or.inr ⟨(ls 0).j, worker_moves hm _ hj1 ?_ ?_⟩
        · intro hret
          exact hjr (I.ret2 _ hj1 (Nat.le_of_not_lt hjN) hret).1
        · rintro ⟨_, hin⟩; rw [hcons] at hin; cases hin
      · -- pend
        exact Or.inl hpc

/-- 2 workers, 3 tasks: worker 1 does all the work, worker 2 only starts up and shuts down -/
def exampleSchedule : List (Tid × Nat) :=
  let one : List (Tid × Nat) := List.replicate 13 (0, 0) ++ List.replicate 13 (1, 0)
  one ++ one ++ one ++ List.replicate 6 (0, 0) ++ List.replicate 5 (1, 0) ++ List.replicate 5 (2, 0) ++
    List.replicate 3 (0, 0)

def exampleCfg : Pool.Cfg := { N := 2, K := 3, startOf := fun i => 2 * i }

def exampleCheck : Bool :=
  match runSched (Pool.sys exampleCfg) exampleSchedule (Pool.initState exampleCfg) with
  | some s => decide ((s.2 0).pc = .pend) && decide (s.1.ex.map (·.2.1) = [2, 1, 0])
  | none => false

/-- the hypotheses are satisfiable and the model runs to completion -/
example : ∃ s, Pool.Reachable exampleCfg s ∧ Pool.Final s ∧ s.1.ex.map (·.2.1) = [2, 1, 0] := by
  have h : exampleCheck = true := by decide
  unfold exampleCheck at h
  split at h
  · rename_i s hs
    simp only [Bool.and_eq_true, decide_eq_true_eq] at h
    exact ⟨s, runSched_reach _ _ _ Reach.init hs, h.1, h.2⟩
  · cases h

end W2c2Verif.Props.C09
