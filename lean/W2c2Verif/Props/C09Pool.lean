/-
  Props.C09Pool — the concurrency / partition part of C09 (output options and worker scheduling do not change
  what is emitted): file partition, static/dynamic split, worker pool.  (Props/C09.lean, the output-options part,
  imports this file.)
-/
import W2c2Verif.Lemmas.PoolPartition
import W2c2Verif.Lemmas.PoolSplit

namespace W2c2Verif.Props.C09
open W2c2Verif.Model

/-! ## file partition (c.c: wasmCWriteModuleImplementationFiles / wasmCWriteImplementationFile) -/

open Partition in
/-- `fileIndex * functionsPerFile` (U32) never wraps for any 32-bit function count and any `-f` value. -/
theorem partition_overflow_free (n fpf i : Nat) (hn : n < 4294967296) (hi : i < fileCount n fpf) :
    i * effFpf fpf < 4294967296 :=
  start_no_wrap hn hi

open Partition in
/-- **Each function is emitted in exactly one file.**  For up to 2^31 function IDs and every `-f` value: the
    files written are exactly `i ↦ [i·f, min((i+1)·f, n))` for `i < fileCount` — every file non-empty, the ranges
    in order and adjacent (hence pairwise disjoint), starting at 0 and ending at `n` — and every ID index `k < n`
    lies in the range of exactly one file. -/
theorem partition_exact (n fpf : Nat) (hn : n ≤ 2147483648) (hf : fpf < 4294967296) :
    files n fpf = (List.range (fileCount n fpf)).map (fun i => (i, i * effFpf fpf, min ((i + 1) * effFpf fpf) n)) ∧
    (∀ e, e ∈ files n fpf → e.2.1 < e.2.2 ∧ e.2.2 ≤ n) ∧
    (∀ i, i + 1 < fileCount n fpf → min ((i + 1) * effFpf fpf) n = (i + 1) * effFpf fpf) ∧
    (0 < n → min (fileCount n fpf * effFpf fpf) n = n) ∧
    (∀ k, k < n → ∃ e, e ∈ files n fpf ∧ e.2.1 ≤ k ∧ k < e.2.2 ∧
      ∀ e', e' ∈ files n fpf → e'.2.1 ≤ k → k < e'.2.2 → e' = e) := by
  have hfiles := files_eq hn hf
  refine ⟨hfiles, ?_, ?_, ?_, ?_⟩
  · intro e he
    rw [hfiles] at he
    obtain ⟨i, hi, rfl⟩ := List.mem_map.mp he
    have := (fileRange_eq hn hf (List.mem_range.mp hi)).2
    exact ⟨this, Nat.min_le_right _ _⟩
  · intro i hi
    have hpos : 0 < n := (fileCount_pos_iff (fpf := fpf)).mp (by omega)
    have := (lt_fileCount_iff hpos).mp hi
    omega
  · intro hpos
    -- the last file ends at n: (fileCount) * f > n - 1
    have hfp := effFpf_pos fpf
    have hnot : ¬ (fileCount n fpf < fileCount n fpf) := Nat.lt_irrefl _
    rw [lt_fileCount_iff hpos] at hnot
    omega
  · intro k hk
    obtain ⟨⟨h1, h2, h3⟩, huniq⟩ := unique_file (fpf := fpf) hk
    refine ⟨(k / effFpf fpf, (k / effFpf fpf) * effFpf fpf, min ((k / effFpf fpf + 1) * effFpf fpf) n), ?_, h2, h3, ?_⟩
    · rw [hfiles]; exact List.mem_map.mpr ⟨_, List.mem_range.mpr h1, rfl⟩
    · intro e' he' ha hb
      rw [hfiles] at he'
      obtain ⟨j, _, rfl⟩ := List.mem_map.mp he'
      have := huniq j ha hb
      rw [this]

open Partition in
/-- Beyond 2^31 functions the U32 sum `start + functionsPerFile` can wrap: with 3·2^30+1 IDs and `-f 2^31`, file 1
    is skipped as "empty" and the IDs from 2^31 on are written nowhere.  (Model-level only: no module with more
    than 2^31 functions fits the reader's 32-bit buffer length; `partition_exact` covers everything reachable.) -/
theorem partition_end_wrap_counterexample :
    fileCount 3221225473 2147483648 = 2 ∧ fileRange 3221225473 2147483648 1 = none ∧
    files 3221225473 2147483648 = [(0, 0, 2147483648)] := by
  decide

open Partition in
/-- the functions go into the main file iff `-f` (0 = all) covers the module and nothing is dynamic -/
theorem plan_single_file_iff (fOpt count nStatic nDynamic : Nat) :
    plan fOpt count nStatic nDynamic = none ↔ ((fOpt = 0 ∨ fOpt ≥ count) ∧ nDynamic = 0) := by
  unfold plan singleFile mainFpf
  by_cases h0 : fOpt = 0 <;> by_cases hd : nDynamic = 0 <;> by_cases hc : fOpt ≥ count <;> simp [h0, hd, hc]
  all_goals omega

/-! ## static / dynamic split (main.c: wasmSplitStaticAndDynamicFunctions) -/

open Split in
/-- **A function is static only if the reference module contains the same body hash**, for ANY two ID lists:
    static ++ dynamic is a permutation of the module's IDs; the hashes of the static functions form a
    subsequence of the reference hashes (so every static hash occurs in the reference and each reference entry
    justifies at most one static function); both outputs keep the sorted order of the input. -/
theorem split_static_sound (ids ref : List FnId) :
    ((split ids ref).1 ++ (split ids ref).2).Perm ids ∧
    ((split ids ref).1.map (·.hash)).Sublist (ref.map (·.hash)) ∧
    (∀ x, x ∈ (split ids ref).1 → x.hash ∈ ref.map (·.hash)) ∧
    (split ids ref).1.Sublist ids ∧ (split ids ref).2.Sublist ids := by
  refine ⟨split_perm ids ref, split_static_sublist_ref ids ref, ?_, (split_sublists ids ref).1,
    (split_sublists ids ref).2⟩
  intro x hx
  exact (split_static_sublist_ref ids ref).subset (List.mem_map.mpr ⟨x, hx, rfl⟩)

open Split in
/-- without a reference module (or an empty one) nothing is static -/
theorem split_empty_ref (ids : List FnId) : split ids [] = ([], ids) := split_nil_ref ids

open Split in
example : split [⟨1, 0⟩, ⟨5, 2⟩, ⟨5, 3⟩, ⟨9, 1⟩] [⟨2, 0⟩, ⟨5, 1⟩, ⟨9, 2⟩, ⟨9, 3⟩] =
    ([⟨5, 2⟩, ⟨9, 1⟩], [⟨1, 0⟩, ⟨5, 3⟩]) := by simp [split]

end W2c2Verif.Props.C09
