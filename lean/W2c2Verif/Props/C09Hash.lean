/-
  Props.C09Hash — WHICH BYTES the `-r REF` fingerprint covers (C09: "a function is classified static only if the reference module
  contains a byte-identical body").  The body of a code-section entry is its locals vector followed by its instructions; two
  entries with the same instructions and different local declarations (a local added, a type changed, the same locals grouped
  differently) are different bodies.

  `Gen.HashRange` is regenerated from wasmReadCodeSection on every run (tools/extract/gen_hashrange.py): the role of the pointer
  and of the length handed to `SHA1`, and that the digest goes to `function->hash`.

  * `hash_covers_whole_body`            — the fingerprinted bytes are exactly locals vector ++ instructions;
  * `static_only_if_identical_entry`    — the property at the level of code entries, for the regenerated range and any hash that
                                          separates the byte strings at hand (SHA-1: collision resistance, trusted; sha1.c = SHA-1 is
                                          a correspondence of the check): a static function's whole body occurs in the reference;
  * `instruction_only_range_misclassifies` — not vacuous: with the range "instructions only" (seeded change C09/12) two entries that
                                          differ only in their locals vector have the same fingerprint, whatever the hash.
-/
import W2c2Verif.Gen.HashRange
import W2c2Verif.Props.C09Split

namespace W2c2Verif.Props.C09Hash
open W2c2Verif Model.Split W2c2Verif.Gen.HashRange

/-- a code-section entry after its size prefix: the bytes of the locals vector and the instruction bytes (incl. the final `end`) -/
structure Entry where
  localsBytes : List UInt8
  code : List UInt8
  deriving DecidableEq

/-- the body of the entry: what "byte-identical body" compares -/
def Entry.body (e : Entry) : List UInt8 := e.localsBytes ++ e.code

/-- the bytes `SHA1(start, length, …)` reads for an entry, `none` when the range is not one the model knows or leaves the entry -/
def hashedBytesOf (s : Pos) (l : Len) (e : Entry) : Option (List UInt8) :=
  match s, l with
  | .bodyStart, .bodySize => some (e.localsBytes ++ e.code)
  | .bodyStart, .localsLength => some e.localsBytes
  | .bodyStart, .codeLength => some ((e.localsBytes ++ e.code).take e.code.length)
  | .codeStart, .codeLength => some e.code
  | _, _ => none

/-- the fingerprint of an entry under a hash of byte strings, for the regenerated range -/
def fingerprint (sha : List UInt8 → Nat) (e : Entry) : Nat :=
  sha ((hashedBytesOf sha1Start sha1Length e).getD [])

/-- **The fingerprint covers the whole body** (locals vector and instructions) and is the value main.c sorts and merges on. -/
theorem hash_covers_whole_body (e : Entry) :
    hashedBytesOf sha1Start sha1Length e = some e.body ∧ digestIsFunctionHash = true := by
  have h1 : sha1Start = .bodyStart := by decide
  have h2 : sha1Length = .bodySize := by decide
  rw [h1, h2]
  exact ⟨rfl, by decide⟩

theorem fingerprint_eq (sha : List UInt8 → Nat) : fingerprint sha = fun e => sha e.body := by
  funext e
  simp [fingerprint, (hash_covers_whole_body e).1]

/-- **A function is classified static only if the reference module contains an entry with a byte-identical body** (locals vector
    and instructions), for the regenerated hashed range and any hash separating the bodies of the module from the different
    bodies of the reference. -/
theorem static_only_if_identical_entry (sha : List UInt8 → Nat) (entries refEntries : List Entry)
    (hsep : ∀ e ∈ entries, ∀ r ∈ refEntries, sha e.body = sha r.body → e.body = r.body)
    (x : FnId)
    (hx : x ∈ (split (sortIds (idsOf (entries.map (fingerprint sha)))) (sortIds (idsOf (refEntries.map (fingerprint sha))))).1) :
    ∃ e, entries[x.idx]? = some e ∧ ∃ r, r ∈ refEntries ∧ r.body = e.body := by
  rw [fingerprint_eq] at hx
  have hm : ∀ l : List Entry, l.map (fun e => sha e.body) = (l.map Entry.body).map sha := by
    intro l; simp [List.map_map, Function.comp_def]
  rw [hm entries, hm refEntries] at hx
  have hsep' : ∀ b ∈ entries.map Entry.body, ∀ r ∈ refEntries.map Entry.body, sha b = sha r → b = r := by
    intro b hb r hr h
    obtain ⟨e, he, rfl⟩ := List.mem_map.mp hb
    obtain ⟨r', hr', rfl⟩ := List.mem_map.mp hr
    exact hsep e he r' hr' h
  obtain ⟨b, hb, hbr⟩ := C09Split.static_only_if_identical_reference_body sha _ _ hsep' x hx
  rw [List.getElem?_map] at hb
  cases he : entries[x.idx]? with
  | none => simp [he] at hb
  | some e =>
    simp only [he, Option.map_some, Option.some.injEq] at hb
    obtain ⟨r, hr, hrb⟩ := List.mem_map.mp hbr
    exact ⟨e, rfl, r, hr, by rw [hrb, hb]⟩

/-- Non-vacuity (seeded change C09/12): when only the instruction bytes are fingerprinted, an entry with one more local than the
    reference's — a different body — has the same fingerprint under EVERY hash. -/
theorem instruction_only_range_misclassifies :
    ∃ e r : Entry, e.body ≠ r.body ∧
      ∀ sha : List UInt8 → Nat, sha ((hashedBytesOf .codeStart .codeLength e).getD []) = sha ((hashedBytesOf .codeStart .codeLength r).getD []) :=
  ⟨⟨[1, 2, 0x7F], [0x41, 0, 0x0B]⟩, ⟨[1, 1, 0x7F], [0x41, 0, 0x0B]⟩, by decide, fun _ => rfl⟩

end W2c2Verif.Props.C09Hash
